import SlogModel.Model.Time
import SlogModel.Model.Parse
import SlogModel.Model.Frame
import SlogModel.Model.Route
import SlogModel.Model.Redact
import SlogModel.Model.Ser
import SlogModel.Model.Pack
import SlogModel.Model.Client
import SlogModel.Model.Buffer
import SlogModel.Model.Disk
import SlogModel.Model.Reload
import SlogModel.Model.Pipe
import SlogModel.Model.FlushPolicy
import SlogModel.Model.CfgSer
import SlogModel.Model.Pool
import SlogModel.Model.CfgFile
import SlogModel.Gen.Facts
import Driver.Util
import Driver.XformParse

open Drv

def showInt (i : Int) : String := toString i

def handleTime : List String → String
  | ["parse", h] =>
    match unhex h with
    | none => "bad-op"
    | some bs =>
      match Time.parseGo bs with
      | .error p => s!"panic {p.name}"
      | .ok (.ok s n) => s!"ok {showInt s} {n}"
      | .ok .err => "err"
  | ["xform", h] =>
    match unhex h with
    | none => "bad-op"
    | some bs =>
      match Time.parseGo bs with
      | .error p => s!"panic {p.name}"
      | .ok _ =>
        let ((s, n), counted) := Time.transform bs 12345 678
        s!"{showInt s} {n} {if counted then 1 else 0}"
  | ["zonealias", _, _, h] =>
    -- many fresh transform instances, each fed value A and then value B through one reused backing buffer: the model has
    -- no state between values, so every instance must report for B what a single `xform` of B reports
    match unhex h with
    | none => "bad-op"
    | some bs =>
      match Time.parseGo bs with
      | .error p => s!"panic {p.name}"
      | .ok _ =>
        let ((s, n), counted) := Time.transform bs 12345 678
        s!"{showInt s} {n} {if counted then 1 else 0}"
  | _ => "bad-op"

structure DState where
  parseCfg : Parse.Cfg := { facilities := Facts.facility_names.map str, levels := Facts.severity_names.map str,
                            maxMsg := Facts.defs_InputLogMaxMessageBytes.getD 0,
                            maxRec := Facts.defs_InputLogMaxRecordBytes.getD 0,
                            minLen := Facts.parse_min_len.getD 0 }
  frameCfg : Frame.Cfg := { cap := 0, soft := 0 }
  frame : Frame.St := {}
  serCfg : Ser.Cfg := { names := [], env := [], envNames := [], hidden := [], rewrites := [] }
  packCfg : Pack.Cfg := { mode := .forward, maxBytes := 0, maxRecords := 0, tag := [] }
  pack : Pack.St := {}
  cfgSchema : Cfg.Schema := { names := [] }
  pool : Pool.St := { nFields := 0, outputs := 1 }
  xprog : List Xform.Step := []
  xstate : Xform.XState := []
  routeParts : List Route.Part := []
  routeN : Nat := 0
  routePipes : List Bytes := []     -- merge keys of the pipelines, in creation order
  routeMetrics : List Bytes := []   -- merge keys of the metric key sets, in creation order
  diskFS : Disk.FS := []
  buf : Buffer.St := { cfg := { memCap := 0, queueCap := 0, maxBytes := 0, hasDir := false } }

def unhexAll (hs : List String) : Option (List Bytes) := hs.mapM unhex

def handleParse (st : DState) : List String → DState × String
  | "cfg" :: maxMsg :: maxRec :: _poolMin :: levels =>
    match maxMsg.toNat?, maxRec.toNat?, unhexAll levels with
    | some m, some r, some lv => ({ st with parseCfg := { st.parseCfg with maxMsg := m, maxRec := r, levels := lv } }, "ok")
    | _, _, _ => (st, "bad-op")
  | ["line", h] =>
    match unhex h with
    | none => (st, "bad-op")
    | some bs =>
      match Parse.parseGo st.parseCfg bs with
      | .error p => (st, s!"panic {p.name}")
      | .ok o =>
        let c := Parse.counts bs.length o
        let cs := s!" c={c.passed},{c.passedBytes},{c.dropped},{c.droppedBytes},{c.overflow},{c.overflowBytes}"
        match o with
        | .drop _ => (st, "drop" ++ cs)
        | .pass r ov =>
          (st, s!"pass {hex r.facility} {hex r.level} {hex r.time} {hex r.host} {hex r.app} {hex r.pid} {hex r.source} {hex r.extradata} {hex r.log} {if r.unescaped then 1 else 0} {if ov then 1 else 0}" ++ cs)
  | _ => (st, "bad-op")

def showEmits (o : List Bytes) (s : Frame.St) : String :=
  s!"emit {",".intercalate (o.map hex)} off {s.offsetSearch} {s.offsetAppend}"

/-- one `Read` call per chunk of at most `cap - offsetAppend` bytes, as the real reader does -/
partial def frameReadAll (c : Frame.Cfg) (s : Frame.St) (frag : Bytes) (acc : List Bytes) : Option (Frame.St × List Bytes) :=
  if frag.isEmpty then some (s, acc) else
  let room := c.cap - s.offsetAppend
  if room = 0 then none else
  let (s', o) := Frame.read c Frame.recordStart s (frag.take room)
  frameReadAll c s' (frag.drop room) (acc ++ o)

def handleFrame (st : DState) : List String → DState × String
  | ["new", minBuf, soft] =>
    match minBuf.toNat?, soft.toNat? with
    | some m, some so => ({ st with frameCfg := { cap := max m (so * 3), soft := so }, frame := {} }, "ok")
    | _, _ => (st, "bad-op")
  | ["read", h] =>
    match unhex h with
    | none => (st, "bad-op")
    | some bs =>
      match frameReadAll st.frameCfg st.frame bs [] with
      | none => (st, "stuck")
      | some (s', o) => ({ st with frame := s' }, showEmits o s')
  | ["flush"] =>
    let (s', o) := Frame.flush Frame.recordStart st.frame
    ({ st with frame := s' }, showEmits o s')
  | ["flushall"] =>
    let (s', o) := Frame.flushAll Frame.recordStart st.frame
    ({ st with frame := s' }, showEmits o s')
  | ["test", h] =>
    match unhex h with
    | none => (st, "bad-op")
    | some bs => (st, if Frame.recordStart bs then "1" else "0")
  | ["total", minBuf, soft, h] =>
    -- a whole connection without any flush pause: all reads, then FlushAll when the peer closes
    match minBuf.toNat?, soft.toNat?, unhex h with
    | some m, some so, some bs =>
      let c : Frame.Cfg := { cap := max m (so * 3), soft := so }
      match frameReadAll c {} bs [] with
      | none => (st, "stuck")
      | some (s', o) =>
        let (_, o2) := Frame.flushAll Frame.recordStart s'
        (st, "records " ++ ",".intercalate ((o ++ o2).map hex))
    | _, _, _ => (st, "bad-op")
  | "listener" :: _ => (st, "any")
  | _ => (st, "bad-op")

def parseOptInt (s : String) : Option (Option Int) :=
  if s == "_" then some none else (s.toInt?).map some

def parsePart (tok : String) : Option Route.Part :=
  match tok.toList with
  | 'L' :: r => (unhex (String.ofList r)).map .lit
  | 'V' :: r => (String.ofList r).toNat?.map .var
  | 'S' :: r =>
    match (String.ofList r).splitOn ":" with
    | [i, a, b] =>
      match i.toNat?, parseOptInt a, parseOptInt b with
      | some i, some a, some b => some (.slice i a b)
      | _, _, _ => none
    | _ => none
  | _ => none

def showKeys (ks : List Bytes) : String := ",".intercalate (ks.map hex)

def indexOrAdd (l : List Bytes) (k : Bytes) : List Bytes × Nat :=
  match l.idxOf? k with
  | some i => (l, i)
  | none => (l ++ [k], l.length)

/-- insertion sort by byte-wise order (what Go's sort.Strings does) -/
def bytesLt : Bytes → Bytes → Bool
  | [], [] => false
  | [], _ :: _ => true
  | _ :: _, [] => false
  | a :: as, b :: bs => if a < b then true else if b < a then false else bytesLt as bs

def sortBytes (l : List Bytes) : List Bytes :=
  l.foldl (fun acc x => (acc.takeWhile (fun y => !bytesLt x y)) ++ x :: acc.dropWhile (fun y => !bytesLt x y)) []

def pairsOf : List Bytes → List (Bytes × Bytes)
  | a :: b :: r => (a, b) :: pairsOf r
  | _ => []

def handleRoute (st : DState) : List String → DState × String
  | "new" :: n :: parts =>
    match n.toNat?, parts.mapM parsePart with
    | some n, some ps => ({ st with routeN := n, routeParts := ps, routePipes := [], routeMetrics := [] }, "ok")
    | _, _ => (st, "bad-op")
  | "rec" :: hs =>
    match unhexAll hs with
    | none => (st, "bad-op")
    | some ks =>
      let (pipes, i) := indexOrAdd st.routePipes (Route.mergeKey ks)
      let tag := match Route.expand st.routeParts ks with
        | .ok t => hex t
        | .error p => s!"panic-{p.name}"
      ({ st with routePipes := pipes }, s!"id={hex (Route.joinId ks)} tag={tag} pipe={i}")
  | "metric" :: hs =>
    match unhexAll hs with
    | none => (st, "bad-op")
    | some ks =>
      let (ms, i) := indexOrAdd st.routeMetrics (Route.mergeKey ks)
      ({ st with routeMetrics := ms }, s!"m={i}")
  | "split" :: [h] =>
    match unhex h with
    | none => (st, "bad-op")
    | some id => (st, showKeys (Route.splitId id))
  | "dirs" :: n :: hs =>
    match n.toNat?, unhexAll hs with
    | some n, some bs =>
      let prs := (pairsOf bs).eraseDups
      let named := prs.filterMap (fun (id, tl) => (Route.dirName id tl).map (fun d => (d, id)))
      let dirs := sortBytes (named.map (·.1)).eraseDups
      -- ids in directory order; a directory shared by two ids keeps the id written last
      let idOf (d : Bytes) : Bytes := match (named.filter (·.1 == d)).getLast? with | some p => p.2 | none => []
      let ids := dirs.map idOf
      let recovered := ids.filterMap (fun id =>
        let ks := Route.splitId id
        if ks.length = n then some (Route.joinId ks) else none)
      (st, s!"dirs={showKeys dirs} ids={showKeys ids} recovered={showKeys (sortBytes recovered.eraseDups)}")
    | _, _ => (st, "bad-op")
  | _ => (st, "bad-op")

def splitNonEmpty (s : String) (sep : String) : List String := (s.splitOn sep).filter (· ≠ "")

def parseNatList (s : String) : Option (List Nat) := (splitNonEmpty s ",").mapM (·.toNat?)

def parseRw (t : String) : Option Ser.Rw :=
  match t.toList with
  | ['c'] => some .copy
  | ['u'] => some .unescape
  | 'i' :: r => (String.ofList r).toNat?.map .inline
  | _ => none

def parseRewrites (s : String) : Option (List (Nat × List Ser.Rw)) :=
  (splitNonEmpty s ";").mapM (fun item =>
    match item.splitOn ":" with
    | [i, chain] =>
      match i.toNat?, (splitNonEmpty chain "+").mapM parseRw with
      | some i, some ch => some (i, ch)
      | _, _ => none
    | _ => none)

def dropPrefix2 (s : String) : String := String.ofList (s.toList.drop 2)

def handleSer (st : DState) : List String → DState × String
  | ["cfg", n, e, en, h, r] =>
    match (splitNonEmpty (dropPrefix2 n) ",").mapM unhex, parseNatList (dropPrefix2 e),
          (splitNonEmpty (dropPrefix2 en) ",").mapM unhex, parseNatList (dropPrefix2 h), parseRewrites (dropPrefix2 r) with
    | some names, some env, some envNames, some hidden, some rw =>
      ({ st with serCfg := { names := names, env := env, envNames := envNames, hidden := hidden, rewrites := rw } }, "ok")
    | _, _, _, _, _ => (st, "bad-op")
  | "rec" :: sec :: nsec :: unesc :: hs =>
    match sec.toInt?, nsec.toNat?, unhexAll hs with
    | some sec, some nsec, some fields =>
      let r : Ser.Rec := { fields := fields, sec := sec, nsec := nsec, unescaped := unesc == "1" }
      let out := Ser.encodeRecord st.serCfg r
      (st, s!"{hex out} fits={if out.length + 3 ≤ Ser.serBound st.serCfg r then 1 else 0}")
    | _, _, _ => (st, "bad-op")
  | ["unescape", h] =>
    match unhex h with
    | some bs => (st, hex (Ser.unescape bs))
    | none => (st, "bad-op")
  | _ => (st, "bad-op")

def showChunk (c : Pack.Cfg) : Option Pack.Chunk → String
  | none => "none"
  | some k => s!"chunk k={k.idx} n={k.numRecords} payload={hex (Pack.payload c k)}"

def parseMode : String → Option Pack.Mode
  | "f" => some .forward
  | "p" => some .packed
  | "c" => some .compressed
  | "d" => some .datadog
  | _ => none

def handlePack (st : DState) : List String → DState × String
  | ["cfg", m, maxB, maxR, tag] =>
    match parseMode m, maxB.toNat?, maxR.toNat?, unhex tag with
    | some m, some b, some r, some t =>
      ({ st with packCfg := { mode := m, maxBytes := b, maxRecords := r, tag := t }, pack := {} }, "ok")
    | _, _, _, _ => (st, "bad-op")
  | ["write", h] =>
    match unhex h with
    | none => (st, "bad-op")
    | some bs =>
      let (s', o) := Pack.write st.packCfg st.pack bs
      ({ st with pack := s' }, showChunk st.packCfg o)
  | ["flush"] =>
    let (s', o) := Pack.flush st.packCfg st.pack
    ({ st with pack := s' }, showChunk st.packCfg o)
  | ["env", n, id, body] =>
    match n.toNat?, unhex id, unhex body with
    | some n, some id, some body => (st, hex (Pack.envelope st.packCfg n id body))
    | _, _, _ => (st, "bad-op")
  | "ids" :: suffix :: clocks =>
    match unhex suffix, clocks.mapM (·.toNat?) with
    | some sfx, some ts => (st, ",".intercalate (((Pack.IdGen.run {} ts).map (fun p => hex (Pack.fmtId p sfx)))))
    | _, _ => (st, "bad-op")
  | _ => (st, "bad-op")

def handleXform (st : DState) : List String → DState × String
  | "load" :: toks =>
    match Drv.parseProgram toks with
    | some p => ({ st with xprog := p, xstate := [] }, "ok")
    | none => (st, "reject")
  | "run" :: unesc :: sec :: nsec :: hs =>
    match sec.toInt?, nsec.toNat?, unhexAll hs with
    | some sec, some nsec, some fields =>
      let r : Xform.Rec := { fields := fields, unescaped := unesc == "1", sec := sec, nsec := nsec }
      match Xform.runSteps st.xstate r st.xprog with
      | .error p => (st, s!"panic {p.name}")
      | .ok (res, r', xs) =>
        ({ st with xstate := xs },
         s!"{if res == .drop then "drop" else "pass"} {if r'.unescaped then 1 else 0} {r'.sec} {r'.nsec} {" ".intercalate (r'.fields.map hex)}")
    | _, _, _ => (st, "bad-op")
  | ["pattern", fromEnd, h, maxRange] =>
    match unhex h, maxRange.toNat? with
    | some p, some mr =>
      match Xform.newExtractor (fromEnd == "1") p mr with
      | none => (st, "reject")
      | some e => (st, s!"ok {hex e.left} {hex e.right} {match e.valid with | none => "*" | some t => String.ofList (t.map (fun (b : Bool) => if b then '1' else '0'))}")
    | _, _ => (st, "bad-op")
  | _ => (st, "bad-op")

def handleCfg (st : DState) : List String → DState × String
  | "schema" :: hs =>
    match unhexAll hs with
    | some names => ({ st with cfgSchema := { names := names } }, "ok")
    | none => (st, "bad-op")
  | "file" :: _ => (st, "any")
  | ["ser", env, hid, mode, flags, rw] =>
    -- the Fluentd Forward output section: env / hid = comma-separated hex names ("-" = none), flags = three 0/1 digits
    -- (address given, address splits, maxDuration set), rw = `field:step,step;…` with steps i<hex> / c / u / n
    let names (t : String) : Option (List Bytes) :=
      if t == "-" then some [] else (t.splitOn ",").mapM (fun h => if h.startsWith "x" then unhex (h.drop 1).toString else none)
    let step (t : String) : Option CfgSer.Rw :=
      if t == "c" then some .copy else if t == "u" then some .unescape else if t == "n" then some .unspecified
      else if t.startsWith "i" then (unhex (t.drop 1).toString).map .inline else none
    let entry (t : String) : Option (Bytes × List CfgSer.Rw) :=
      match t.splitOn ":" with
      | [f, ch] => do
        let f ← unhex f
        let ch ← if ch == "-" then some [] else (ch.splitOn ",").mapM step
        some (f, ch)
      | _ => none
    let rws : Option (List (Bytes × List CfgSer.Rw)) := if rw == "-" then some [] else (rw.splitOn ";").mapM entry
    match names env, names hid, unhex mode, flags.toList, rws with
    | some env, some hid, some mode, [a, b, c], some rws =>
      let o : CfgSer.Out := { env := env, hidden := hid, rewrite := rws, mode := mode, addrGiven := a == '1',
                              addrSplits := b == '1', maxDurationSet := c == '1' }
      if CfgSer.verify st.cfgSchema o then
        match CfgSer.construct st.cfgSchema o with
        | .ok (some _) => (st, "accept")
        | .ok none => (st, "accept-but-construct-fails")
        | .error p => (st, s!"accept-but-construct-panics {p.name}")
      else (st, "reject")
    | _, _, _, _, _ => (st, "bad-op")
  | ["head", maxF, fields, keys, tag, parts, mkeys] =>
    -- the head of the file: schema (fields, maxFields), orchestration keys / tag (text + parse), metric keys
    let names (t : String) : Option (List Bytes) :=
      if t == "-" then some [] else (t.splitOn ",").mapM (fun h => if h.startsWith "x" then unhex (h.drop 1).toString else none)
    let part (t : String) : Option Cfg.TPart :=
      if t.startsWith "l" then (unhex (t.drop 1).toString).map .lit
      else if t.startsWith "v" then (unhex (t.drop 1).toString).map .var else none
    let tp : Option Cfg.Tmpl :=
      if parts == "none" then some none else if parts == "-" then some (some []) else ((parts.splitOn ",").mapM part).map some
    match maxF.toNat?, names fields, names keys, (if tag == "-" then some [] else unhex tag), tp, names mkeys with
    | some maxF, some fields, some keys, some tag, some tp, some mkeys =>
      let h : CfgFile.Head := { fields := fields, maxFields := maxF, orchKeys := keys, tag := tag, tagParts := tp, metricKeys := mkeys }
      if CfgFile.verify h then
        match CfgFile.construct h with
        | .ok _ => (st, "accept")
        | .error p => (st, s!"accept-but-construct-panics {p.name}")
      else (st, "reject")
    | _, _, _, _, _, _ => (st, "bad-op")
  | "input" :: a :: n :: toks =>
    -- a syslog input: address splits, number of level-mapping entries, extraction steps (same tokens as `verify`)
    match n.toNat?, Drv.parseCfg toks with
    | some n, some steps =>
      let i : CfgFile.Input := { addrSplits := a == "1", levels := n, extractions := steps }
      if CfgFile.inputOK st.cfgSchema i then
        match CfgFile.constructInput st.cfgSchema i with
        | .ok _ => (st, "accept")
        | .error p => (st, s!"accept-but-construct-panics {p.name}")
      else (st, "reject")
    | _, _ => (st, "bad-op")
  | "verify" :: toks =>
    match Drv.parseCfg toks with
    | none => (st, "bad-op")
    | some cfg =>
      if Cfg.verifySteps st.cfgSchema cfg then
        -- construction must succeed for accepted configurations (C16_verify_sound); report what the model does
        match Cfg.constructSteps st.cfgSchema 0 cfg with
        | .ok _ => (st, "accept")
        | .error p => (st, s!"accept-but-construct-panics {p.name}")
      else (st, "reject")
  | _ => (st, "bad-op")



/-! hybrid buffer -/

def showBuf (s : Buffer.St) (extra : String) : String :=
  let files := (s.disk.mergeSort (fun a b => a.1 ≤ b.1)).map (fun p => s!"{p.1}:{hex p.2}")
  let c := s.c
  s!"p={c.pending} it={c.inT} ip={c.inP} co={c.consumed} lo={c.leftover} dr={c.dropped} io={c.ioErr} gc={c.gChunks} gb={c.gBytes} " ++
  s!"q={c.qT + c.qP} qt={c.qT} out={s.outW.length} hand={if s.hand.isSome then 1 else 0} files={if files.isEmpty then "-" else ",".intercalate files}{extra}"

def bufNew (st : DState) (m q b d fresh : String) : Option DState :=
  match m.toNat?, q.toNat?, b.toNat? with
  | some m, some q, some b =>
    -- a generation that was not shut down is shut down first (the harness does the same)
    let prev := if st.buf.destroyed then st.buf else (Buffer.step st.buf .destroy).getD st.buf
    let disk := if fresh == "1" then [] else prev.disk
    some { st with buf := Buffer.recover { memCap := m, queueCap := q, maxBytes := b, hasDir := d == "1" } disk }
  | _, _, _ => none

def bufOp (st : DState) (op : String) (args : List String) : DState × String :=
  let o : Option Buffer.Op := match op, args with
    | "accept", [id, h] => do some (.accept (← id.toNat?) (← unhex h))
    | "take", [] => some .take
    | "confirm", [id] => id.toNat?.map .confirm
    | "handback", [id] => id.toNat?.map .handBack
    | "destroy", [] => some .destroy
    | "destroystalled", [] => some .destroy
    | "finish", [] => some .finish
    | "extzero", [id] => id.toNat?.map .extZero
    | "extrm", [id] => id.toNat?.map .extRemove
    | _, _ => none
  match o with
  | none => (st, "bad-op")
  | some o =>
    match Buffer.step st.buf o with
    | none => (st, "not-enabled")
    | some s =>
      let extra := match o with
        | .take => match s.taken.getLast? with | some (id, d) => s!" took={id}:{hex d}" | none => ""
        | _ => ""
      ({ st with buf := s }, showBuf s extra)

def handleBuf (st : DState) : List String → DState × String
  | ["new", m, q, b, d, fresh] =>
    match bufNew st m q b d fresh with
    | some st1 => (st1, showBuf st1.buf "")
    | none => (st, "bad-op")
  | ["newacc", m, q, b, d, fresh, id, h] =>
    -- start of a generation immediately followed by an accept (no quiescence in between)
    match bufNew st m q b d fresh with
    | some st1 => bufOp st1 "accept" [id, h]
    | none => (st, "bad-op")
  | op :: args => bufOp st op args
  | _ => (st, "bad-op")

/-! chunk persistence under faults -/

def nameKey : Disk.Name → Nat × Nat
  | .final id => (id, 0)
  | .temp id => (id, 1)

def showFS (fs : Disk.FS) : String :=
  let sorted := fs.mergeSort (fun a b => let ka := nameKey a.1; let kb := nameKey b.1; ka.1 < kb.1 || (ka.1 == kb.1 && ka.2 ≤ kb.2))
  let items := sorted.map (fun p => match p.2 with
    | .file d => s!"{Disk.showName p.1}:{hex d}"
    | .dir => s!"{Disk.showName p.1}:dir")
  if items.isEmpty then "-" else ",".intercalate items

def parseChunk (t : String) : Option (Nat × Bytes) :=
  match t.splitOn ":" with
  | [id, h] => do some (← id.toNat?, ← unhex h)
  | _ => none

def handleDisk (st : DState) : List String → DState × String
  | "victim" :: kind :: toks =>
    -- tokens: chunks…, then the fault argument and the position
    let chunks := toks.take (toks.length - 2)
    let arg := (toks.drop (toks.length - 2)).headD ""
    let pos := (toks.drop (toks.length - 1)).headD ""
    match arg.toNat?, pos.toNat?, chunks.mapM parseChunk with
    | some a, some p, some cs =>
      let f : Option Disk.Fault := match kind with
        | "none" => some .none
        | "limit" => some (.limit a)
        | "limitkill" => some (.limitKill a)
        | "kill-open" => some (.kill .open)
        | "kill-write" => some (.kill (.write (((cs.drop p).head?.map (·.2.length)).getD 0)))
        | "kill-close" => some (.kill .close)
        | "kill-rename" => some (.kill .rename)
        | _ => none
      match f with
      | some f =>
        let fs := Disk.victim [] cs p f
        ({ st with diskFS := fs }, showFS fs)
      | none => (st, "bad-op")
    | _, _, _ => (st, "bad-op")
  | ["plant", kind, id, h] =>
    match id.toNat?, unhex h with
    | some id, some d =>
      let fs := match kind with
        | "zero" => Disk.put st.diskFS (.final id) (.file [])
        | "dir" => Disk.put st.diskFS (.final id) .dir
        | "tmp" => Disk.put st.diskFS (.temp id) (.file d)
        | _ => st.diskFS
      ({ st with diskFS := fs }, showFS fs)
    | _, _ => (st, "bad-op")
  | ["restart"] =>
    let entries := (Disk.scan st.diskFS).mergeSort (fun a b => a.1 ≤ b.1)
    let loaded := entries.map Disk.load
    let fwd := loaded.filterMap (fun l => match l with | .forward id d => some s!"{id}:{hex d}" | _ => none)
    let corrupt := loaded.filterMap (fun l => match l with | .corrupt id => some (toString id) | _ => none)
    let unread := loaded.filterMap (fun l => match l with | .unreadable id => some (toString id) | _ => none)
    -- forwarded chunks are confirmed (file removed), corrupt ones removed, unreadable ones stay
    let fs := loaded.foldl (fun fs l => match l with
      | .forward id _ => Disk.del fs (.final id)
      | .corrupt id => Disk.del fs (.final id)
      | .unreadable _ => fs) st.diskFS
    let j := fun (l : List String) => if l.isEmpty then "-" else ",".intercalate l
    ({ st with diskFS := fs }, s!"fwd={j fwd} dropped={corrupt.length + unread.length} ioerr={unread.length} left={showFS fs}")
  | _ => (st, "bad-op")


/-! reload -/

def showEv : Reload.Ev → String
  | .newSink sid g n => s!"ns:{sid}:{g}:{n}"
  | .accept sid r => s!"ac:{sid}:{r}"
  | .tick sid => s!"tk:{sid}"
  | .close sid => s!"cl:{sid}"
  | .shutdown g => s!"sd:{g}"
  | .started g => s!"st:{g}"
  | .reloadFailed => "rf"

def parseEv (t : String) : Option Reload.Ev :=
  match t.splitOn ":" with
  | ["ns", a, b, c] => do some (.newSink (← a.toNat?) (← b.toNat?) (← c.toNat?))
  | ["ac", a, b] => do some (.accept (← a.toNat?) (← b.toNat?))
  | ["tk", a] => a.toNat?.map .tick
  | ["cl", a] => a.toNat?.map .close
  | ["sd", a] => a.toNat?.map .shutdown
  | ["st", a] => a.toNat?.map .started
  | ["rf"] => some .reloadFailed
  | _ => none

def parseActs (t : String) : Option (List Reload.Act) :=
  match t.splitOn ":" with
  | ["o", n] => n.toNat?.map (fun n => [.connect n, .register n])
  | ["a", n, r] => do some [.accept (← n.toNat?) (← r.toNat?)]
  | ["t", n] => n.toNat?.map (fun n => [.tick n])
  | ["x", n] => n.toNat?.map (fun n => [.closeSink n, .closeSocket n])
  | ["R"] => some [.reload]
  | ["F"] => some [.reloadFail]
  | ["ov"] => some []      -- "ov A | B": A is held inside its first downstream call while B starts; the lock serialises them as A;B
  | ["|"] => some []
  | _ => none

def handleReload : List String → String
  | "run" :: toks =>
    match toks.mapM parseActs with
    | some acts =>
      match Reload.run {} acts.flatten with
      | some s =>
        let evs := s.hist.map showEv
        let b := if s.bad.isEmpty then "" else " BAD:" ++ "|".intercalate (s.bad.map (fun x => x.replace " " "_"))
        (if evs.isEmpty then "-" else " ".intercalate evs) ++ b
      | none => "not-enabled"
    | none => "bad-op"
  | "tcp" :: _ => "distinct-numbers"   -- Reload.step: `connect n` is enabled only while no open socket has n, and a sink is closed before its socket
  | "trace" :: toks =>
    match toks.mapM parseEv with
    | some evs => match Reload.checkTrace evs with | none => "ok" | some why => "violates " ++ why
    | none => "bad-op"
  | _ => "bad-op"


/-! composed record path -/

def handlePipe (st : DState) : List String → DState × String
  | ["run", sec, nsec, h] =>
    match sec.toInt?, nsec.toNat?, unhex h with
    | some sec, some nsec, some line =>
      let c : Pipe.Cfg := { parse := st.parseCfg, nFields := 15, off := 6, steps := st.xprog, ser := st.serCfg }
      match Pipe.process c st.xstate line sec nsec with
      | .ok (.rejected _, x) => ({ st with xstate := x }, "rejected")
      | .ok (.filtered, x) => ({ st with xstate := x }, "filtered")
      | .ok (.sent b, x) => ({ st with xstate := x }, "sent " ++ hex b)
      | .error _ => (st, "panic")
    | _, _, _ => (st, "bad-op")
  | _ => (st, "bad-op")

/-! client trace monitor -/

def natList (t : String) : Option (List Nat) :=
  if t == "-" then some [] else (t.splitOn ",").mapM (·.toNat?)

def parseObs (t : String) : Option Client.Obs :=
  match t.splitOn ":" with
  | ["o", k] => k.toNat?.map .openOk
  | ["of"] => some .openFail
  | ["st"] => some .stop
  | ["s", k, c] => do some (.sendOk (← k.toNat?) (← c.toNat?))
  | ["e", k, c] => do some (.sendErr (← k.toNat?) (← c.toNat?))
  | ["pe", k] => k.toNat?.map .pingErr
  | ["ac", k] => k.toNat?.map .ackCall
  | ["a", k, "-"] => do some (.ack (← k.toNat?) none)
  | ["a", k, i] => do some (.ack (← k.toNat?) (some (← i.toNat?)))
  | ["ae", k] => k.toNat?.map .ackErr
  | ["c", c] => c.toNat?.map .consumed
  | ["l", c] => c.toNat?.map .leftover
  | ["f"] => some .finished
  | _ => none

def obsEv : Client.Obs → Option Client.Ev
  | .sendOk k c => some (.sendOk k c)
  | .sendErr k c => some (.sendErr k c)
  | .ack k id => some (.ack k id)
  | .ackErr k => some (.ackErr k)
  | .consumed c => some (.consumed c)
  | .leftover c => some (.leftover c)
  | .finished => some .finished
  | _ => none

def handleClient : List String → String
  | "trace" :: q :: taken :: evs =>
    match natList q, natList taken, evs.mapM parseObs with
    | some q, some taken, some obs =>
      match Client.checkTrace taken (obs.filterMap obsEv) with
      | some why => "violates " ++ why
      | none =>
        match Client.monitor q taken obs with
        | some why => "rejected " ++ why
        | none => "ok"
    | _, _, _ => "bad-op"
  | "tracem" :: q :: taken :: evs =>
    -- as `trace`, and the client's counters as functions of the accepted run (C19: forwarded = complete transmissions,
    -- acknowledged = confirmations)
    match natList q, natList taken, evs.mapM parseObs with
    | some q, some taken, some obs =>
      match Client.checkTrace taken (obs.filterMap obsEv) with
      | some why => "violates " ++ why
      | none =>
        match Client.monitor q taken obs with
        | some why => "rejected " ++ why
        | none =>
          match Client.elaborate q obs with
          | .ok acts =>
            match Client.run (Client.init q) acts with
            | some s => s!"ok fw={Client.forwardedN s.hist} ack={Client.acknowledgedN s.hist}"
            | none => "rejected internal"
          | .error e => "rejected " ++ e
    | _, _, _ => "bad-op"
  | "script" :: _ => "any"
  | _ => "bad-op"

/-! record pool -/

def poolView (r : Pool.Rec) : String :=
  s!"fields={(r.fields.filter (fun f => !f.isEmpty)).length} raw={r.rawLength} ts={if r.tsSet then 1 else 0} unesc={if r.unescaped then 1 else 0}"

def poolIsClear (r : Pool.Rec) : Bool := r.fields.all (·.isEmpty) && r.rawLength == 0 && !r.tsSet

def handlePool (st : DState) : List String → DState × String
  | ["init", n, o] =>
    match n.toNat?, o.toNat? with
    | some n, some o => ({ st with pool := { nFields := n, outputs := o } }, "ok")
    | _, _ => (st, "bad-op")
  | ["new", h, src, buf] =>
    match h.toNat?, (if src == "-" then some none else src.toNat?.map some), (if buf == "-" then some none else buf.toNat?.map some) with
    | some h, some src, some buf =>
      match Pool.step st.pool (.new h src buf) with
      | some p => ({ st with pool := p }, match Pool.lookup p.live h with | some r => poolView r | none => "internal")
      | none => (st, "not-enabled")
    | _, _, _ => (st, "bad-op")
  | ["set", h, i, v] =>
    match h.toNat?, i.toNat?, unhex v with
    | some h, some i, some v =>
      match Pool.step st.pool (.set h i v) with
      | some p => ({ st with pool := p }, "ok")
      | none => (st, "not-enabled")
    | _, _, _ => (st, "bad-op")
  | ["hdr", h, raw, ts, un] =>
    match h.toNat?, raw.toNat? with
    | some h, some raw =>
      match Pool.step st.pool (.hdr h raw (ts == "1") (un == "1")) with
      | some p => ({ st with pool := p }, "ok")
      | none => (st, "not-enabled")
    | _, _ => (st, "bad-op")
  | ["release", h] =>
    match h.toNat? with
    | some h =>
      match Pool.step st.pool (.release h) with
      | some p =>
        let clear := match Pool.lookup p.live h with
          | some r => poolIsClear r
          | none => match Pool.lookup p.pool h with | some r => poolIsClear r | none => false
        ({ st with pool := p }, s!"cleared={if clear then 1 else 0}")
      | none => (st, "not-enabled")
    | none => (st, "bad-op")
  | _ => (st, "bad-op")

def handleFlush : List String → String
  | ["consistent", m, t0, t1, db, da] =>
    match m.toInt?, t0.toInt?, t1.toInt?, db.toInt?, da.toInt? with
    | some m, some t0, some t1, some db, some da => if FlushPolicy.consistent m t0 t1 db da then "ok" else "bad"
    | _, _, _, _, _ => "bad-op"
  | ["bound", m, l, f] =>
    match m.toInt?, l.toInt?, f.toInt? with
    | some m, some l, some f => if FlushPolicy.boundOK m l f then "ok" else "bad"
    | _, _, _ => "bad-op"
  | _ => "bad-op"

def handle (st : DState) (line : String) : DState × String :=
  match fields line with
  | "flush" :: rest => (st, handleFlush rest)
  | "flushw" :: _ => (st, "any")   -- schedule of the wrapper run: the observations are judged by `flush consistent`
  | "router" :: _ => (st, "any")   -- concurrent key-set creation on several connections: judged by the harness oracle only
  | "pipex" :: _ => (st, "any")    -- concurrency through one configuration object / appended schema fields: harness oracle only
  | "parsex" :: _ => (st, "any")   -- the input's composite parser (parser + extraction transforms): judged by the harness oracle only
  | "flushl" :: _ => (st, "any")   -- listener run: judged by `flush bound` and the harness oracle
  | "time" :: rest => (st, handleTime rest)
  | "parse" :: rest => handleParse st rest
  | "frame" :: rest => handleFrame st rest
  | "route" :: rest => handleRoute st rest
  | "ser" :: rest => handleSer st rest
  | "pack" :: rest => handlePack st rest
  | "xform" :: rest => handleXform st rest
  | "cfg" :: rest => handleCfg st rest
  | "client" :: rest => (st, handleClient rest)
  | "pool" :: rest => handlePool st rest
  | "poolx" :: _ => (st, "any")   -- the same operations without the pooled record sync.Pool chose: re-issued as `pool …` by the harness
  | "buf" :: rest => handleBuf st rest
  | "bufr" :: _ => (st, "any")   -- racy start (accept right after Start): judged by the harness oracle only
  | "disk" :: rest => handleDisk st rest
  | "reload" :: rest => (st, handleReload rest)
  | "pipe" :: rest => handlePipe st rest
  | "agent" :: "script" :: _ => (st, "any")
  | ["redact", h] =>
    match unhex h with
    | none => (st, "bad-op")
    | some bs =>
      let (o, counted) := Redact.transform bs
      (st, s!"{hex o} {if counted then 1 else 0}")
  | _ => (st, "bad-op")

partial def loop (hin hout : IO.FS.Stream) (st : DState) : IO Unit := do
  let line ← hin.getLine
  if line.isEmpty then return ()
  let line := (line.dropEndWhile (fun c => c == '\n' || c == '\r')).toString
  if line == "sync" then
    hout.putStrLn "sync"
    hout.flush
    loop hin hout st
  else
    let (st', out) := handle st line
    hout.putStrLn out
    loop hin hout st'

def main : IO Unit := do
  let hin ← IO.getStdin
  let hout ← IO.getStdout
  loop hin hout {}
  hout.flush
