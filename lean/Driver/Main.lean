import SlogModel.Model.Time
import SlogModel.Model.Parse
import SlogModel.Model.Frame
import SlogModel.Gen.Facts
import Driver.Util

open Drv

def showInt (i : Int) : String := toString i

def handleTime : List String → String
  | ["parse", h] =>
    match unhex h with
    | none => "bad-op"
    | some bs =>
      match Time.parseGo bs with
      | .error p => s!"panic {p.name}"
      | .ok (.ok s n) => s!"ok {showInt s} {n}"
      | .ok .err => "err"
  | ["xform", h] =>
    match unhex h with
    | none => "bad-op"
    | some bs =>
      match Time.parseGo bs with
      | .error p => s!"panic {p.name}"
      | .ok _ =>
        let ((s, n), counted) := Time.transform bs 12345 678
        s!"{showInt s} {n} {if counted then 1 else 0}"
  | _ => "bad-op"

structure DState where
  parseCfg : Parse.Cfg := { facilities := Facts.facility_names.map str, levels := Facts.severity_names.map str,
                            maxMsg := Facts.defs_InputLogMaxMessageBytes.getD 0,
                            maxRec := Facts.defs_InputLogMaxRecordBytes.getD 0,
                            minLen := Facts.parse_min_len.getD 0 }
  frameCfg : Frame.Cfg := { cap := 0, soft := 0 }
  frame : Frame.St := {}

def unhexAll (hs : List String) : Option (List Bytes) := hs.mapM unhex

def handleParse (st : DState) : List String → DState × String
  | "cfg" :: maxMsg :: maxRec :: levels =>
    match maxMsg.toNat?, maxRec.toNat?, unhexAll levels with
    | some m, some r, some lv => ({ st with parseCfg := { st.parseCfg with maxMsg := m, maxRec := r, levels := lv } }, "ok")
    | _, _, _ => (st, "bad-op")
  | ["line", h] =>
    match unhex h with
    | none => (st, "bad-op")
    | some bs =>
      match Parse.parseGo st.parseCfg bs with
      | .error p => (st, s!"panic {p.name}")
      | .ok o =>
        let c := Parse.counts bs.length o
        let cs := s!" c={c.passed},{c.passedBytes},{c.dropped},{c.droppedBytes},{c.overflow},{c.overflowBytes}"
        match o with
        | .drop _ => (st, "drop" ++ cs)
        | .pass r ov =>
          (st, s!"pass {hex r.facility} {hex r.level} {hex r.time} {hex r.host} {hex r.app} {hex r.pid} {hex r.source} {hex r.extradata} {hex r.log} {if r.unescaped then 1 else 0} {if ov then 1 else 0}" ++ cs)
  | _ => (st, "bad-op")

def showEmits (o : List Bytes) (s : Frame.St) : String :=
  s!"emit {",".intercalate (o.map hex)} off {s.offsetSearch} {s.offsetAppend}"

/-- one `Read` call per chunk of at most `cap - offsetAppend` bytes, as the real reader does -/
partial def frameReadAll (c : Frame.Cfg) (s : Frame.St) (frag : Bytes) (acc : List Bytes) : Option (Frame.St × List Bytes) :=
  if frag.isEmpty then some (s, acc) else
  let room := c.cap - s.offsetAppend
  if room = 0 then none else
  let (s', o) := Frame.read c Frame.recordStart s (frag.take room)
  frameReadAll c s' (frag.drop room) (acc ++ o)

def handleFrame (st : DState) : List String → DState × String
  | ["new", minBuf, soft] =>
    match minBuf.toNat?, soft.toNat? with
    | some m, some so => ({ st with frameCfg := { cap := max m (so * 3), soft := so }, frame := {} }, "ok")
    | _, _ => (st, "bad-op")
  | ["read", h] =>
    match unhex h with
    | none => (st, "bad-op")
    | some bs =>
      match frameReadAll st.frameCfg st.frame bs [] with
      | none => (st, "stuck")
      | some (s', o) => ({ st with frame := s' }, showEmits o s')
  | ["flush"] =>
    let (s', o) := Frame.flush Frame.recordStart st.frame
    ({ st with frame := s' }, showEmits o s')
  | ["flushall"] =>
    let (s', o) := Frame.flushAll Frame.recordStart st.frame
    ({ st with frame := s' }, showEmits o s')
  | ["test", h] =>
    match unhex h with
    | none => (st, "bad-op")
    | some bs => (st, if Frame.recordStart bs then "1" else "0")
  | _ => (st, "bad-op")

def handle (st : DState) (line : String) : DState × String :=
  match fields line with
  | "time" :: rest => (st, handleTime rest)
  | "parse" :: rest => handleParse st rest
  | "frame" :: rest => handleFrame st rest
  | _ => (st, "bad-op")

partial def loop (hin hout : IO.FS.Stream) (st : DState) : IO Unit := do
  let line ← hin.getLine
  if line.isEmpty then return ()
  let line := (line.dropEndWhile (fun c => c == '\n' || c == '\r')).toString
  if line == "sync" then
    hout.putStrLn "sync"
    hout.flush
    loop hin hout st
  else
    let (st', out) := handle st line
    hout.putStrLn out
    loop hin hout st'

def main : IO Unit := do
  let hin ← IO.getStdin
  let hout ← IO.getStdout
  loop hin hout {}
  hout.flush
