import SlogModel.Model.Time
import Driver.Util

open Drv

def showInt (i : Int) : String := toString i

def handleTime : List String → String
  | ["parse", h] =>
    match unhex h with
    | none => "bad-op"
    | some bs =>
      match Time.parseGo bs with
      | .error p => s!"panic {p.name}"
      | .ok (.ok s n) => s!"ok {showInt s} {n}"
      | .ok .err => "err"
  | ["xform", h] =>
    match unhex h with
    | none => "bad-op"
    | some bs =>
      match Time.parseGo bs with
      | .error p => s!"panic {p.name}"
      | .ok _ =>
        let ((s, n), counted) := Time.transform bs 12345 678
        s!"{showInt s} {n} {if counted then 1 else 0}"
  | _ => "bad-op"

def handle (line : String) : String :=
  match fields line with
  | "time" :: rest => handleTime rest
  | _ => "bad-op"

partial def loop (hin hout : IO.FS.Stream) : IO Unit := do
  let line ← hin.getLine
  if line.isEmpty then return ()
  let line := (line.dropEndWhile (fun c => c == '\n' || c == '\r')).toString
  if line == "sync" then
    hout.putStrLn "sync"
    hout.flush
  else
    hout.putStrLn (handle line)
  loop hin hout

def main : IO Unit := do
  let hin ← IO.getStdin
  let hout ← IO.getStdout
  loop hin hout
  hout.flush
