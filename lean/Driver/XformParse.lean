import SlogModel.Model.Xform
import SlogModel.Model.Cfg
import Driver.Util

/-! Parser of the program encoding used by the line protocol (trusted I/O layer). -/

namespace Drv
open Xform

abbrev P := StateT (List String) Option

def tok : P String := do
  match (← get) with
  | [] => failure
  | t :: r => set r; pure t

def natTok : P Nat := do
  match (← tok).toNat? with
  | some n => pure n
  | none => failure

def intTok : P Int := do
  match (← tok).toInt? with
  | some n => pure n
  | none => failure

def hexTok : P Bytes := do
  match unhex (← tok) with
  | some b => pure b
  | none => failure

def parseOptIntTok (s : String) : Option (Option Int) :=
  if s == "_" then some none else (s.toInt?).map some

def partTok : P Route.Part := do
  let t ← tok
  match t.toList with
  | 'L' :: r => match unhex (String.ofList r) with | some b => pure (.lit b) | none => failure
  | 'V' :: r => match (String.ofList r).toNat? with | some n => pure (.var n) | none => failure
  | 'S' :: r =>
    match (String.ofList r).splitOn ":" with
    | [i, a, b] =>
      match i.toNat?, parseOptIntTok a, parseOptIntTok b with
      | some i, some a, some b => pure (.slice i a b)
      | _, _, _ => failure
    | _ => failure
  | _ => failure

def repeatP {α : Type} (n : Nat) (p : P α) : P (List α) :=
  match n with
  | 0 => pure []
  | k + 1 => do let x ← p; let xs ← repeatP k p; pure (x :: xs)

def vmTok : P VM := do
  let t ← tok
  match t.splitOn ":" with
  | ["any"] => pure .any
  | ["eq", h] => match unhex h with | some b => pure (.eq b) | none => failure
  | ["ne", h] => match unhex h with | some b => pure (.ne b) | none => failure
  | ["sw", h] => match unhex h with | some b => pure (.startsWith b) | none => failure
  | ["ew", h] => match unhex h with | some b => pure (.endsWith b) | none => failure
  | ["ct", h] => match unhex h with | some b => pure (.contains b) | none => failure
  | ["gt", n] => match n.toInt? with | some n => pure (.lenGt n) | none => failure
  | ["lt", n] => match n.toInt? with | some n => pure (.lenLt n) | none => failure
  | _ => failure

def matchP : P Xform.Match := do
  let t ← tok
  if t != "m" then failure
  let n ← natTok
  repeatP n (do let i ← natTok; let v ← vmTok; pure (i, v))

mutual
partial def stepP : P Step := do
  let t ← tok
  match t with
  | "add" =>
    let n ← natTok
    let pairs ← repeatP n (do let d ← natTok; let np ← natTok; let ps ← repeatP np partTok; pure (d, ps))
    pure (.addFields pairs)
  | "del" => do let n ← natTok; let ks ← repeatP n natTok; pure (.delFields ks)
  | "map" =>
    let k ← natTok
    let n ← natTok
    let m ← repeatP n (do let a ← hexTok; let b ← hexTok; pure (a, b))
    let d ← hexTok
    pure (.mapValue k m d)
  | "if" => do let m ← matchP; let s ← stepsP; pure (.iff m s)
  | "switch" =>
    let n ← natTok
    let cs ← repeatP n (do let m ← matchP; let s ← stepsP; pure (m, s))
    pure (.switch cs)
  | "block" => do let s ← stepsP; pure (.block s)
  | "drop" => do let m ← matchP; let r ← natTok; let id ← natTok; pure (.drop m r id)
  | "exh" | "ext" =>
    let key ← natTok
    let dest ← natTok
    let pat ← hexTok
    let maxRange ← natTok
    match newExtractor (t == "ext") pat maxRange with
    | some e => pure (.extract e key dest)
    | none => failure
  | "trunc" => do let k ← natTok; let n ← natTok; let s ← hexTok; pure (.truncate k n s)
  | "unesc" => do let k ← natTok; pure (.unescape k)
  | "redact" => do let k ← natTok; pure (.redactEmail k)
  | "ptime" => do let k ← natTok; pure (.parseTime k)
  | _ => failure

partial def stepsP : P (List Step) := do
  let t ← tok
  if t != "steps" then failure
  let n ← natTok
  repeatP n stepP
end

/-! configuration-level encoding (field names instead of indices, possibly invalid) -/

def tpartTok : P Cfg.TPart := do
  let t ← tok
  match t.toList with
  | 'L' :: r => match unhex (String.ofList r) with | some b => pure (.lit b) | none => failure
  | 'V' :: r => match unhex (String.ofList r) with | some b => pure (.var b) | none => failure
  | 'S' :: r =>
    match (String.ofList r).splitOn ":" with
    | [n, a, b] =>
      match unhex n, parseOptIntTok a, parseOptIntTok b with
      | some n, some a, some b => pure (.slice n a b)
      | _, _, _ => failure
    | _ => failure
  | _ => failure

def tmplTok : P Cfg.Tmpl := do
  let t ← tok
  if t == "T!" then pure none
  else if t == "T" then do let n ← natTok; let ps ← repeatP n tpartTok; pure (some ps)
  else failure

def cmatchP : P Cfg.MatchCfg := do
  let t ← tok
  if t != "m" then failure
  let n ← natTok
  repeatP n (do let k ← hexTok; let v ← vmTok; pure (k, v))

mutual
partial def cstepP : P Cfg.TC := do
  let t ← tok
  match t with
  | "add" =>
    let n ← natTok
    let pairs ← repeatP n (do let d ← hexTok; let tm ← tmplTok; pure (d, tm))
    pure (.addFields pairs)
  | "del" => do let n ← natTok; let ks ← repeatP n hexTok; pure (.delFields ks)
  | "map" =>
    let k ← hexTok
    let n ← natTok
    let m ← repeatP n (do let a ← hexTok; let b ← hexTok; pure (a, b))
    let d ← hexTok
    pure (.mapValue k m d)
  | "if" => do let m ← cmatchP; let s ← cstepsP; pure (.iff m s)
  | "switch" =>
    let n ← natTok
    let cs ← repeatP n (do let m ← cmatchP; let s ← cstepsP; pure (m, s))
    pure (.switch cs)
  | "block" => do let s ← cstepsP; pure (.block s)
  | "drop" => do let m ← cmatchP; let r ← intTok; let l ← hexTok; pure (.drop m r l)
  | "exh" | "ext" =>
    let key ← hexTok
    let pat ← hexTok
    let maxLen ← intTok
    let dest ← hexTok
    pure (.extract (t == "ext") key pat maxLen dest)
  | "trunc" => do let k ← hexTok; let n ← intTok; let s ← hexTok; pure (.truncate k n s)
  | "unesc" => do let k ← hexTok; pure (.unescape k)
  | "redact" => do let k ← hexTok; let l ← hexTok; pure (.redactEmail k l)
  | "ptime" => do let k ← hexTok; let l ← hexTok; pure (.parseTime k l)
  | "regex" => do
    let k ← hexTok
    let ok ← tok
    let n ← natTok
    let caps ← repeatP n hexTok
    pure (.regex k (ok == "1") caps)
  | _ => failure

partial def cstepsP : P (List Cfg.TC) := do
  let t ← tok
  if t != "steps" then failure
  let n ← natTok
  repeatP n cstepP
end

def parseCfg (toks : List String) : Option (List Cfg.TC) :=
  match cstepsP.run toks with
  | some (p, []) => some p
  | _ => none

def parseProgram (toks : List String) : Option (List Step) :=
  match stepsP.run toks with
  | some (p, []) => some p
  | _ => none

end Drv
