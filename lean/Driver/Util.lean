import SlogModel.Basic

/-! I/O helpers of the driver: hex coding, field splitting. Trusted (not verified). -/

namespace Drv

def hexVal (c : Char) : Option Nat :=
  if '0' ≤ c && c ≤ '9' then some (c.toNat - 48)
  else if 'a' ≤ c && c ≤ 'f' then some (c.toNat - 87)
  else none

/-- lower-case hex → bytes; "-" is the empty string; `none` when ill-formed -/
def unhex (s : String) : Option Bytes :=
  if s == "-" then some [] else
  let rec go : List Char → List Nat → Option (List Nat)
    | [], acc => some acc.reverse
    | [_], _ => none
    | a :: b :: rest, acc =>
      match hexVal a, hexVal b with
      | some x, some y => go rest ((x * 16 + y) :: acc)
      | _, _ => none
  go s.toList []

def hexDigit (n : Nat) : Char := if n < 10 then Char.ofNat (48 + n) else Char.ofNat (87 + n)

def hex (bs : Bytes) : String :=
  if bs.isEmpty then "-" else
  String.ofList (bs.foldr (fun b acc => hexDigit (b / 16 % 16) :: hexDigit (b % 16) :: acc) [])

def fields (line : String) : List String :=
  (line.splitOn " ").filter (· ≠ "")

end Drv
