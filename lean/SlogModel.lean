import SlogModel.Basic
import SlogModel.Model.Time
import SlogModel.Props.C13
