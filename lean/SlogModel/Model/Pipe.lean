import SlogModel.Model.Parse
import SlogModel.Model.Xform
import SlogModel.Model.Ser

/-!
  M_pipe — the record path of one pipeline as the composition of the stage models:
  `syslogparser.Parse` (Parse.parseGo) → transforms (`bsupport.RunTransforms`, Xform.runSteps) →
  `eventSerializer.SerializeRecord` (Ser.encodeRecord).  Index and slice operations of the Go code are
  checked operations (`GoM`): a panic anywhere in the path is an `.error`.
-/

namespace Pipe

structure Cfg where
  parse : Parse.Cfg
  nFields : Nat                 -- schema length
  off : Nat := 0                -- position of `facility` in the schema (the nine syslog fields are consecutive)
  steps : List Xform.Step
  ser : Ser.Cfg

/-- the parsed fields at their schema positions, the remaining slots empty; timestamp = receive time -/
def toX (n off : Nat) (r : Parse.Rec) (sec : Int) (nsec : Nat) : Xform.Rec :=
  { fields := List.replicate off [] ++ [r.facility, r.level, r.time, r.host, r.app, r.pid, r.source, r.extradata, r.log] ++
      List.replicate (n - off - 9) [],
    unescaped := r.unescaped, sec := sec, nsec := nsec }

def toSer (r : Xform.Rec) : Ser.Rec := { fields := r.fields, sec := r.sec, nsec := r.nsec, unescaped := r.unescaped }

inductive Out where
  | rejected (reason : Nat)       -- counted by the input as dropped
  | filtered                      -- dropped by a transform
  | sent (bytes : Bytes)          -- the serialized record handed to the chunk maker
  deriving Repr

/-- one line through the pipeline -/
def process (c : Cfg) (st : Xform.XState) (line : Bytes) (sec : Int) (nsec : Nat) : GoM (Out × Xform.XState) := do
  match ← Parse.parseGo c.parse line with
  | .drop reason => return (.rejected reason, st)
  | .pass r _ =>
    let (res, r', st') ← Xform.runSteps st (toX c.nFields c.off r sec nsec) c.steps
    match res with
    | .drop => return (.filtered, st')
    | .pass => return (.sent (Ser.encodeRecord c.ser (toSer r')), st')

/-- a sequence of lines on one long-lived pipeline -/
def processAll (c : Cfg) : Xform.XState → List Bytes → GoM (List Out)
  | _, [] => .ok []
  | st, l :: ls => do
    let (o, st') ← process c st l 0 0
    let rest ← processAll c st' ls
    return o :: rest

end Pipe
