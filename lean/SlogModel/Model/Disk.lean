import SlogModel.Model.Buffer

/-!
  M_disk — step-level model of chunk persistence: `util.WriteFileAt` (after the F-4 repair: temporary
  name, write loop, rename, unlink on failure), the directory scan and the loading of recovered files.

  A file operation is a sequence of system calls; a write may transfer only a prefix (file-size or
  space limit) and then fail; the process may be killed between any two calls, or inside a write, and
  the directory keeps what the completed calls did plus any prefix of the write in progress.
  Power-loss semantics (unsynced page cache) are out of scope.
-/

namespace Disk

inductive Name where
  | final (id : Nat)        -- the chunk id: accepted by the output's `MatchChunkID`
  | temp (id : Nat)         -- chunk id ++ `util.TempFileSuffix`: rejected by every matcher
  deriving DecidableEq, Repr

inductive Node where
  | file (d : Bytes)
  | dir                     -- something that can be opened but not read as a file
  deriving DecidableEq, Repr

abbrev FS := List (Name × Node)

def fget (fs : FS) (n : Name) : Option Node := (fs.find? (fun p => p.1 = n)).map (·.2)
def del (fs : FS) (n : Name) : FS := fs.filter (fun p => p.1 ≠ n)
def put (fs : FS) (n : Name) (x : Node) : FS := del fs n ++ [(n, x)]

/-- where the process can be killed during one `WriteFileAt` -/
inductive Kill where
  | open                    -- after `openat` of the temporary file
  | write (k : Nat)         -- inside / after the first `write`, `k` bytes transferred
  | close                   -- after `close`
  | rename                  -- after `renameat`
  deriving DecidableEq, Repr

def fits : Option Nat → Nat → Bool
  | none, _ => true
  | some l, n => decide (n ≤ l)

/-- `WriteFileAt dir id data` with an optional file-size limit: resulting directory and `err == nil` -/
def writeFile (fs : FS) (id : Nat) (data : Bytes) (limit : Option Nat) : FS × Bool :=
  let s1 := put fs (.temp id) (.file [])
  if fits limit data.length then (put (del s1 (.temp id)) (.final id) (.file data), true)
  else (del s1 (.temp id), false)       -- short write, next write fails, temporary file unlinked

/-- the directory left behind when the process is killed at `k` during `WriteFileAt dir id data` -/
def crashFile (fs : FS) (id : Nat) (data : Bytes) : Kill → FS
  | .open => put fs (.temp id) (.file [])
  | .write k => put fs (.temp id) (.file (data.take k))
  | .close => put fs (.temp id) (.file data)
  | .rename => put (del fs (.temp id)) (.final id) (.file data)

/-- the code before the repair (F-4): written in place under the final name, byte count ignored -/
def writeFileLegacy (fs : FS) (id : Nat) (data : Bytes) (limit : Option Nat) : FS × Bool :=
  match limit with
  | none => (put fs (.final id) (.file data), true)
  | some l => if l = 0 ∧ data.length > 0 then (put fs (.final id) (.file []), false)
              else (put fs (.final id) (.file (data.take l)), true)    -- short write reported as success

/-- what `ScanExistingChunks` + `LoadChunk` make of the directory: `(id, some data)` for a readable
file, `(id, none)` for a name that matches but cannot be read; temporary names are skipped -/
def scan (fs : FS) : List (Nat × Option Bytes) :=
  fs.filterMap (fun p => match p.1, p.2 with
    | .final id, .file d => some (id, some d)
    | .final id, .dir => some (id, none)
    | .temp _, _ => none)

/-- outcome of loading a scanned entry in the feeder -/
inductive Loaded where
  | forward (id : Nat) (d : Bytes)
  | corrupt (id : Nat)            -- zero length: removed and counted as dropped
  | unreadable (id : Nat)         -- read error: counted as dropped and as an I/O error
  deriving DecidableEq, Repr

def load : Nat × Option Bytes → Loaded
  | (id, some d) => if d.length = 0 then .corrupt id else .forward id d
  | (id, none) => .unreadable id

/-- one victim run: chunks are spilled in order; the `pos`-th write (0-based) suffers the fault -/
inductive Fault where
  | none
  | limit (l : Nat)
  | kill (k : Kill)
  | limitKill (l : Nat)           -- limit `l` and killed after the short first write (= killed inside the write at offset `l`)
  deriving DecidableEq, Repr

def victim (fs : FS) (chunks : List (Nat × Bytes)) (pos : Nat) (f : Fault) : FS :=
  match chunks with
  | [] => fs
  | (id, d) :: rest =>
    match pos with
    | 0 =>
      match f with
      | .none => victim (writeFile fs id d Option.none).1 rest 0 .none
      | .limit l =>
        -- the limit stays in force for the call only; later chunks are written normally
        victim (writeFile fs id d (some l)).1 rest 0 .none
      | .kill k => crashFile fs id d k
      | .limitKill l => crashFile fs id d (.write l)
    | p + 1 => victim (writeFile fs id d Option.none).1 rest p f

def showName : Name → String
  | .final id => toString id
  | .temp id => toString id ++ ".tmp"

end Disk
