import SlogModel.Basic

/-!
  M_buffer — model of `buffer/hybridbuffer/{bufferer,outputfeeder,chunkmanager,chunkoperator}.go`
  at quiescent points.

  A chunk is `(id, data)`; its file is named by the id.  The feeder goroutine is run to quiescence
  (`settle`) after every operation: it moves chunks from the persistent queue to the output window
  until the window is full (then it holds one loaded chunk in hand) or the queue is empty — the
  harness waits for exactly this state of the real feeder goroutine before it issues the next
  operation, so the comparison is deterministic.  File operations succeed or fail atomically here
  (`WriteFileAt` after the F-4 repair writes under a temporary name and renames); the step-level disk
  model with torn writes and kill points is `Model/Disk.lean` (C04).
-/

namespace Buffer

structure Entry where
  id : Nat
  data : Option Bytes      -- `none` = unloaded (`Data == nil`)
  saved : Bool
  deriving DecidableEq, Repr

structure Cfg where
  memCap : Nat             -- defs.BufferMaxNumChunksInMemory
  queueCap : Nat           -- defs.BufferMaxNumChunksInQueue
  maxBytes : Nat           -- maxBufSize
  hasDir : Bool            -- queue directory usable
  deriving Repr

structure Counters where
  pending : Int := 0
  inT : Nat := 0           -- input_chunks_total{transient}
  inP : Nat := 0           -- input_chunks_total{persistent}
  consumed : Nat := 0
  leftover : Nat := 0
  dropped : Nat := 0
  ioErr : Nat := 0
  gChunks : Int := 0       -- persistent_chunks
  gBytes : Int := 0        -- persistent_chunk_bytes
  qT : Int := 0            -- queued_chunks{transient}
  qP : Int := 0            -- queued_chunks{persistent}
  deriving DecidableEq, Repr

structure St where
  cfg : Cfg
  disk : List (Nat × Bytes) := []        -- files of the queue directory
  inQ : List Entry := []                 -- inputChannel
  hand : Option (Entry × Bytes) := none  -- feeder blocked on the output window: (entry as queued, its loaded data)
  outW : List Entry := []                -- outputChannel
  held : List Entry := []                -- taken by the consumer, unresolved
  c : Counters := {}
  destroyed : Bool := false
  -- ghost history
  accepted : List (Nat × Bytes) := []    -- accepted or recovered, in order
  taken : List (Nat × Bytes) := []       -- what the consumer received, in order
  confirmedG : List Nat := []
  droppedG : List Nat := []
  keptG : List Nat := []                 -- left as a file for the next start (saved at shutdown / handed back)
  deriving Repr

def lookup (disk : List (Nat × Bytes)) (id : Nat) : Option Bytes :=
  (disk.find? (fun p => p.1 = id)).map (·.2)

def remove (disk : List (Nat × Bytes)) (id : Nat) : List (Nat × Bytes) := disk.filter (fun p => p.1 ≠ id)

def dataLen (e : Entry) : Nat := match e.data with | some d => d.length | none => 0

/-- `chunkOperator.UnloadChunk`: the entry afterwards and whether it succeeded -/
def unload (s : St) (e : Entry) : St × Entry × Bool :=
  if e.saved then (s, e, true)
  else match e.data with
    | none => (s, e, false)
    | some d =>
      if !s.cfg.hasDir then (s, e, false)
      else if s.c.gBytes + d.length > s.cfg.maxBytes then (s, e, false)
      else
        ({ s with disk := remove s.disk e.id ++ [(e.id, d)],
                  c := { s.c with gChunks := s.c.gChunks + 1, gBytes := s.c.gBytes + d.length } },
         { e with data := none, saved := true }, true)

/-- `chunkManager.OnChunkDropped` -/
def onDropped (s : St) (e : Entry) : St :=
  let c := if e.saved then { s.c with gChunks := s.c.gChunks - 1, gBytes := s.c.gBytes - dataLen e } else s.c
  { s with c := { c with pending := c.pending - 1, dropped := c.dropped + 1 }, droppedG := s.droppedG ++ [e.id] }

def unloadOrDrop (s : St) (e : Entry) : St × Option Entry :=
  let (s1, e1, ok) := unload s e
  if ok then (s1, some e1) else (onDropped s1 e1, none)

/-- `chunkOperator.RemoveChunk` (unlink assumed to succeed when the file exists; a missing file is an I/O error) -/
def removeChunk (s : St) (e : Entry) : St :=
  if !e.saved then s
  else if !s.cfg.hasDir then s
  else match lookup s.disk e.id with
    | none => { s with c := { s.c with ioErr := s.c.ioErr + 1 } }
    | some _ => { s with disk := remove s.disk e.id,
                         c := { s.c with gChunks := s.c.gChunks - 1, gBytes := s.c.gBytes - dataLen e } }

/-- one step of the feeder; `none` = blocked (quiescent) -/
def feederStep (s : St) : Option St :=
  match s.hand with
  | some (q, d) =>
    if s.outW.length < s.cfg.memCap then some { s with hand := none, outW := s.outW ++ [{ q with data := some d }] } else none
  | none =>
    match s.inQ with
    | [] => none
    | e :: rest =>
      let c := if e.data.isSome then { s.c with qT := s.c.qT - 1 } else { s.c with qP := s.c.qP - 1 }
      let s := { s with inQ := rest, c := c }
      -- LoadOrDropChunk
      let loaded : Option Bytes :=
        match e.data with
        | some d => some d
        | none => if e.saved && s.cfg.hasDir then lookup s.disk e.id else none
      match loaded with
      | none =>
        -- only a failed read counts an I/O error (the two BUG branches do not)
        let s := if e.saved && s.cfg.hasDir then { s with c := { s.c with ioErr := s.c.ioErr + 1 } } else s
        some (onDropped s e)
      | some d =>
        if d.length = 0 then
          -- OnChunkCorrupted
          let s := removeChunk s { e with data := some d }
          some { s with c := { s.c with pending := s.c.pending - 1, dropped := s.c.dropped + 1 }, droppedG := s.droppedG ++ [e.id] }
        else some { s with hand := some (e, d) }

def settle : Nat → St → St
  | 0, s => s
  | n + 1, s => match feederStep s with | some s' => settle n s' | none => s

/-- enough fuel: every step consumes a queue entry or empties the hand -/
def quiesce (s : St) : St := settle (2 * s.inQ.length + 2) s

inductive Op where
  | accept (id : Nat) (data : Bytes)
  | take
  | confirm (id : Nat)
  | handBack (id : Nat)
  | destroy                      -- input closed; feeder saves queue, chunk in hand and window
  | finish                       -- consumer called OnFinished
  | extZero (id : Nat)           -- environment: the file is truncated to zero length behind the buffer's back
  | extRemove (id : Nat)         -- environment: the file disappears
  deriving Repr

def accept (s : St) (id : Nat) (data : Bytes) : St :=
  let s := { s with accepted := s.accepted ++ [(id, data)] }
  let e : Entry := { id := id, data := some data, saved := false }
  let go (s : St) (e : Entry) : St :=
    if s.inQ.length < s.cfg.queueCap then
      let c := if e.data.isSome then { s.c with qT := s.c.qT + 1 } else { s.c with qP := s.c.qP + 1 }
      { s with inQ := s.inQ ++ [e], c := c }
    else onDropped s e
  if s.outW.length ≥ s.cfg.memCap / 2 then
    let s := { s with c := { s.c with pending := s.c.pending + 1, inP := s.c.inP + 1 } }
    match unloadOrDrop s e with
    | (s, some e') => go s e'
    | (s, none) => s
  else
    go { s with c := { s.c with pending := s.c.pending + 1, inT := s.c.inT + 1 } } e

def handEntry : Option (Entry × Bytes) → List Entry
  | some (q, _) => [q]
  | none => []

def saveOne (s : St) (e : Entry) : St :=
  match unloadOrDrop s e with
  | (s', some _) => { s' with keptG := s'.keptG ++ [e.id] }
  | (s', none) => s'

def saveAll (s : St) (es : List Entry) : St := es.foldl saveOne s

def step (s : St) : Op → Option St
  | .accept id data => if s.destroyed then none else some (quiesce (accept s id data))
  | .take =>
    if s.destroyed then none else
    match s.outW with
    | [] => none
    | e :: rest => some (quiesce { s with outW := rest, held := s.held ++ [e], taken := s.taken ++ [(e.id, e.data.getD [])] })
  | .confirm id =>
    match s.held.find? (fun e => e.id = id) with
    | none => none
    | some e =>
      let s := removeChunk s e
      some { s with held := s.held.filter (fun e => e.id ≠ id), confirmedG := s.confirmedG ++ [id],
                    c := { s.c with pending := s.c.pending - 1, consumed := s.c.consumed + 1 } }
  | .handBack id =>
    match s.held.find? (fun e => e.id = id) with
    | none => none
    | some e =>
      -- repaired F-3: a hand-back that cannot be saved is counted as dropped
      let s := { s with held := s.held.filter (fun e => e.id ≠ id) }
      match unload s e with
      | (s, _, true) => some { s with c := { s.c with pending := s.c.pending - 1, leftover := s.c.leftover + 1 },
                                      keptG := s.keptG ++ [id] }
      | (s, e', false) => some (onDropped s e')
  | .destroy =>
    if s.destroyed then none else
    let last : List Entry := handEntry s.hand
    -- (the queued_chunks gauges are not updated while saving)
    some (saveAll { s with inQ := [], hand := none, outW := [], destroyed := true } (s.inQ ++ last ++ s.outW))
  | .finish => if s.destroyed then some s else none
  | .extZero id =>
    match lookup s.disk id with
    | some _ => some { s with disk := s.disk.map (fun p => if p.1 = id then (id, []) else p) }
    | none => none
  | .extRemove id =>
    match lookup s.disk id with
    | some _ => some { s with disk := remove s.disk id }
    | none => none

def run (s : St) : List Op → Option St
  | [] => some s
  | o :: os => match step s o with | some s' => run s' os | none => none

/-- one scanned file in `recoverExistingChunks` -/
def recStep (cfg : Cfg) (s : St) (f : Nat × Bytes) : St :=
  if s.inQ.length < cfg.queueCap then
    { s with inQ := s.inQ ++ [{ id := f.1, data := none, saved := true }],
             accepted := s.accepted ++ [f],
             c := { s.c with pending := s.c.pending + 1, inP := s.c.inP + 1, gChunks := s.c.gChunks + 1,
                             gBytes := s.c.gBytes + f.2.length, qP := s.c.qP + 1 } }
  else
    -- repaired F-23: a file that does not fit into the queue stays in the space accounting
    { s with c := { s.c with gBytes := s.c.gBytes + f.2.length } }

def scanned (cfg : Cfg) (disk : List (Nat × Bytes)) : List (Nat × Bytes) :=
  if cfg.hasDir then disk.mergeSort (fun a b => a.1 ≤ b.1) else []

/-- start of a generation on a directory: counters are fresh (a directory that cannot be opened counts
one I/O error); the scan is sorted by name and every file that still fits into the queue is recovered
(`recoverExistingChunks`), before the feeder starts -/
def start (cfg : Cfg) (disk : List (Nat × Bytes)) : St :=
  { cfg := cfg, disk := disk, c := { ioErr := if cfg.hasDir then 0 else 1 } }

def recover (cfg : Cfg) (disk : List (Nat × Bytes)) : St :=
  quiesce ((scanned cfg disk).foldl (recStep cfg) (start cfg disk))

end Buffer
