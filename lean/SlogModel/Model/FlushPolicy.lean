import SlogModel.Basic

/-!
  M_flush — when the listener flushes a connection's framer: `util.NetConnWrapper.Read` (lazy
  renewal of the read deadline) and the read loop of `tcpLineListener.runConnection`.

  Times are integers (nanoseconds).  `m` is `readTimeoutMin` (= `defs.InputFlushInterval` for the
  listener); the wrapper sets deadlines `2·m` ahead.  A read is entered at `now`; it returns data
  (at any time up to the deadline) or times out at the deadline.
-/

namespace FlushPolicy

/-- `NetConnWrapper.Read`: the deadline after entering `Read` at `now` with deadline `D` -/
def renew (m D now : Int) : Int := if D - now < m then now + 2 * m else D

inductive Ev where
  | data (now : Int)         -- Read entered at `now` returned bytes
  | timeout (now : Int)      -- Read entered at `now` returned a timeout error (at its deadline)
  deriving Repr, DecidableEq

def Ev.now : Ev → Int
  | .data n => n
  | .timeout n => n

inductive Tick where
  | idle (entered fired : Int)   -- flush after a read timeout: entered at, fired at (= the deadline)
  | renewal (deadline : Int)     -- "flush input for deadline update"
  deriving Repr, DecidableEq

structure St where
  D : Int := 0                 -- NetConnWrapper.readDeadline (zero time)
  prev : Option Int := none    -- runConnection's prevDeadline (`none` = the zero time)
  ticks : List Tick := []
  changes : Nat := 0           -- ghost: deadline renewals so far
  deriving Repr

/-- the wrapper's part of a read: the deadline is renewed when less than `m` is left -/
def stepW (m : Int) (s : St) (now : Int) : St :=
  let D' := renew m s.D now
  { s with D := D', changes := if D' = s.D then s.changes else s.changes + 1 }

/-- the listener's part: flush on a timeout; flush when the deadline differs from the remembered one -/
def stepL (s : St) : Ev → St
  | .timeout now => { s with ticks := s.ticks ++ [.idle now s.D] }
  | .data _ =>
    match s.prev with
    | none => { s with prev := some s.D }
    | some p => if s.D = p then s else { s with prev := some s.D, ticks := s.ticks ++ [.renewal s.D] }

def step (m : Int) (s : St) (e : Ev) : St := stepL (stepW m s e.now) e

def run (m : Int) (s : St) (es : List Ev) : St := es.foldl (step m) s

/-- entry time of the last read -/
def endTime : Int → List Ev → Int
  | last, [] => last
  | _, e :: r => endTime e.now r

def renewals (ts : List Tick) : Nat := (ts.filter (fun t => match t with | .renewal _ => true | _ => false)).length

/-- entry times never go back, and a read that follows a timeout is entered after that deadline fired -/
def Mono : Int → List Ev → Prop
  | _, [] => True
  | t, e :: r => t ≤ e.now ∧ Mono e.now r

/-- what the harness observed of one real `Read`: called at `t0`, returned at `t1`, deadline before and
after.  Consistent with `renew` for some entry time in `[t0, t1]`? -/
def consistent (m t0 t1 Db Da : Int) : Bool :=
  if Da = Db then decide (Db - t0 ≥ m)                      -- not renewed: at least `m` was left at some point of the call
  else decide (t0 ≤ Da - 2 * m ∧ Da - 2 * m ≤ t1 ∧ Db - (Da - 2 * m) < m)

/-- `C08_renewal_flushes_bounded` evaluated on an observed connection: `f` flushes before the client closed,
under traffic without pauses, in `lifetime` of connection -/
def boundOK (m lifetime f : Int) : Bool := decide (f * m ≤ lifetime + m)

end FlushPolicy
