import SlogModel.Basic

/-!
  MessagePack: the value type, a decoder written from the format specification (the *spec* side of
  C10 / C11), and the `fastmsgpack` encoding primitives (the *model* side).
-/

namespace MP

inductive Val where
  | nil
  | bool (b : Bool)
  | uint (n : Nat)
  | str (b : Bytes)
  | bin (b : Bytes)
  | ext (ty : Nat) (b : Bytes)
  | arr (l : List Val)
  | map (kv : List (Val × Val))
  deriving Repr

def be16 (n : Nat) : Bytes := [n / 256 % 256, n % 256]
def be32 (n : Nat) : Bytes := [n / 16777216 % 256, n / 65536 % 256, n / 256 % 256, n % 256]

def be64 (n : Nat) : Bytes := be32 (n / 4294967296) ++ be32 (n % 4294967296)

def rd16 : Bytes → Option (Nat × Bytes)
  | a :: b :: r => some (a * 256 + b, r)
  | _ => none
def rd32 : Bytes → Option (Nat × Bytes)
  | a :: b :: c :: d :: r => some (a * 16777216 + b * 65536 + c * 256 + d, r)
  | _ => none
def rd64 : Bytes → Option (Nat × Bytes)
  | a :: b :: c :: d :: e :: f :: g :: h :: r =>
    some ((a * 16777216 + b * 65536 + c * 256 + d) * 4294967296 + (e * 16777216 + f * 65536 + g * 256 + h), r)
  | _ => none
def rd8 : Bytes → Option (Nat × Bytes)
  | a :: r => some (a, r)
  | _ => none

def takeN (n : Nat) (bs : Bytes) : Option (Bytes × Bytes) :=
  if n ≤ bs.length then some (bs.take n, bs.drop n) else none

mutual
/-- decode one value; `depth` bounds the nesting of arrays and maps -/
def decode : Nat → Bytes → Option (Val × Bytes)
  | _, [] => none
  | depth, c :: r =>
    if c < 128 then some (.uint c, r)                                     -- positive fixint
    else if c < 144 then                                                   -- fixmap
      match depth with | 0 => none | d + 1 => (decodePairs d (c - 128) r).map (fun (kv, r') => (.map kv, r'))
    else if c < 160 then                                                   -- fixarray
      match depth with | 0 => none | d + 1 => (decodeSeq d (c - 144) r).map (fun (l, r') => (.arr l, r'))
    else if c < 192 then (takeN (c - 160) r).map (fun (s, r') => (.str s, r'))   -- fixstr
    else if c = 192 then some (.nil, r)
    else if c = 194 then some (.bool false, r)
    else if c = 195 then some (.bool true, r)
    else if c = 196 then (rd8 r).bind (fun (n, r1) => (takeN n r1).map (fun (s, r') => (.bin s, r')))
    else if c = 197 then (rd16 r).bind (fun (n, r1) => (takeN n r1).map (fun (s, r') => (.bin s, r')))
    else if c = 198 then (rd32 r).bind (fun (n, r1) => (takeN n r1).map (fun (s, r') => (.bin s, r')))
    else if c = 204 then (rd8 r).map (fun (n, r') => (.uint n, r'))
    else if c = 205 then (rd16 r).map (fun (n, r') => (.uint n, r'))
    else if c = 206 then (rd32 r).map (fun (n, r') => (.uint n, r'))
    else if c = 207 then (rd64 r).map (fun (n, r') => (.uint n, r'))    -- uint 64
    else if c = 211 then                                                   -- int 64 (non-negative values only)
      (rd64 r).bind (fun (n, r') => if n < 9223372036854775808 then some (.uint n, r') else none)
    else if c = 215 then                                                   -- fixext 8
      (rd8 r).bind (fun (ty, r1) => (takeN 8 r1).map (fun (s, r') => (.ext ty s, r')))
    else if c = 217 then (rd8 r).bind (fun (n, r1) => (takeN n r1).map (fun (s, r') => (.str s, r')))
    else if c = 218 then (rd16 r).bind (fun (n, r1) => (takeN n r1).map (fun (s, r') => (.str s, r')))
    else if c = 219 then (rd32 r).bind (fun (n, r1) => (takeN n r1).map (fun (s, r') => (.str s, r')))
    else if c = 220 then                                                   -- array 16
      match depth with
      | 0 => none
      | d + 1 => (rd16 r).bind (fun (n, r1) => (decodeSeq d n r1).map (fun (l, r') => (.arr l, r')))
    else if c = 221 then                                                   -- array 32
      match depth with
      | 0 => none
      | d + 1 => (rd32 r).bind (fun (n, r1) => (decodeSeq d n r1).map (fun (l, r') => (.arr l, r')))
    else if c = 222 then                                                   -- map 16
      match depth with
      | 0 => none
      | d + 1 => (rd16 r).bind (fun (n, r1) => (decodePairs d n r1).map (fun (kv, r') => (.map kv, r')))
    else none

def decodeSeq : Nat → Nat → Bytes → Option (List Val × Bytes)
  | _, 0, bs => some ([], bs)
  | depth, n + 1, bs =>
    match decode depth bs with
    | none => none
    | some (v, r) =>
      match decodeSeq depth n r with
      | none => none
      | some (l, r') => some (v :: l, r')

def decodePairs : Nat → Nat → Bytes → Option (List (Val × Val) × Bytes)
  | _, 0, bs => some ([], bs)
  | depth, n + 1, bs =>
    match decode depth bs with
    | none => none
    | some (k, r) =>
      match decode depth r with
      | none => none
      | some (v, r2) =>
        match decodePairs depth n r2 with
        | none => none
        | some (l, r') => some ((k, v) :: l, r')
end

/-! ### `fastmsgpack` primitives (what the code writes) -/

/-- `EncodeString4/16/32` chosen by length as in `eventserializer.go` -/
def encStr (v : Bytes) : Bytes :=
  if v.length < 16 then (160 + v.length) :: v
  else if v.length < 65536 then 218 :: be16 v.length ++ v
  else 219 :: be32 v.length ++ v

/-- header of a rewritten field: the width is chosen by the *maximal* length, the value written is the actual one -/
def strHdrByMax (maxLen actual : Nat) : Bytes :=
  if maxLen < 65536 then 218 :: be16 actual else 219 :: be32 actual

/-- `EncodeMapLen4` / `EncodeMapLen16` chosen by the *capacity* -/
def mapHdrByCap (cap n : Nat) : Bytes :=
  if cap < 16 then [128 + n] else 222 :: be16 n

end MP
