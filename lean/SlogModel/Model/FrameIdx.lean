import SlogModel.Model.Frame

/-!
  M_frame, index level — `multiLineReader.processBuffer` of `input/tcplistener/multilinereader.go` transcribed
  statement by statement: one flat buffer `buffer[:bufferEnd]`, the two cursors `recordStart` / `searchStart`,
  `bytes.IndexByte`, the slices `buffer[searchStart:nextEnd]` and `buffer[recordStart : searchStart-1]`, the
  relocation `copy(mlr.buffer, buffer[recordStart:])`.  `Props/C08Idx.lean` proves that this loop computes exactly
  what the byte-fed model `Frame.feed` computes — records, buffer contents and both offsets — for every buffer,
  every `offsetSearch` the reader can be in and every fragment, so that the framing theorems of C08 are theorems
  about the index loop.
-/

namespace FrameIdx
open Frame

structure Idx where
  buf : Bytes              -- buffer[:offsetAppend]
  offsetSearch : Nat
  deriving DecidableEq, Repr

/-- Go subSlice `b[lo:hi]` (for `lo ≤ hi ≤ len b`) -/
def subSlice (b : Bytes) (lo hi : Nat) : Bytes := (b.drop lo).take (hi - lo)

/-- the `for` loop of `processBuffer`; `fuel` bounds the number of lines; emitted records newest first -/
def pbLoop (t : Bytes → Bool) (buffer : Bytes) : Nat → Nat → Nat → List Bytes → Nat × Nat × List Bytes
  | 0, recordStart, searchStart, acc => (recordStart, searchStart, acc)
  | fuel + 1, recordStart, searchStart, acc =>
    match indexByte (buffer.drop searchStart) 10 with      -- nextEndRel := bytes.IndexByte(buffer[searchStart:], '\n')
    | none => (recordStart, searchStart, acc)              -- break
    | some nextEndRel =>
      let nextEnd := nextEndRel + searchStart
      if searchStart > 0 ∧ searchStart < nextEnd ∧ t (subSlice buffer searchStart nextEnd) then
        -- consumeRecord(buffer[recordStart : searchStart-1]); recordStart = searchStart
        pbLoop t buffer fuel searchStart (nextEnd + 1) (subSlice buffer recordStart (searchStart - 1) :: acc)
      else
        pbLoop t buffer fuel recordStart (nextEnd + 1) acc

/-- the tail of `processBuffer`: relocation of the unfinished record and the new offsets -/
def finish (buffer : Bytes) (recordStart searchStart : Nat) : Idx :=
  if recordStart > 0 then { buf := buffer.drop recordStart, offsetSearch := searchStart - recordStart }
  else { buf := buffer, offsetSearch := searchStart }

/-- `processBuffer(bufferEnd)` after `n` new bytes `frag` were read behind `offsetAppend` (before `checkOverflow`) -/
def processBuffer (t : Bytes → Bool) (x : Idx) (frag : Bytes) : Idx × List Bytes :=
  let buffer := x.buf ++ frag
  let (rs, ss, acc) := pbLoop t buffer (buffer.length + 1) 0 x.offsetSearch []
  (finish buffer rs ss, acc.reverse)

/-- the index-level view of a state of the byte-fed model -/
def ofSt (s : St) : Idx := { buf := (s.restRev ++ s.curRev).reverse, offsetSearch := s.curRev.length }


/-- `bytes.LastIndexByte(b, '\n')` -/
def lastIndexNL (b : Bytes) : Option Nat := (indexByte b.reverse 10).map (fun k => b.length - 1 - k)

/-- `Flush`: the buffered lines up to the last newline are one record; the unfinished line is relocated -/
def flush (t : Bytes → Bool) (x : Idx) : Idx × List Bytes :=
  match lastIndexNL x.buf with
  | none => (x, [])                                             -- n == -1: return
  | some n =>
    let record := x.buf.take n                                  -- buffer[:n]
    ({ buf := x.buf.drop (n + 1), offsetSearch := 0 },          -- copy(mlr.buffer, buffer[n+1:]); offsetSearch = 0
     if record.length > 0 ∧ t record then [record] else [])

/-- `FlushAll` -/
def flushAll (t : Bytes → Bool) (x : Idx) : Idx × List Bytes :=
  let record := x.buf
  ({ buf := [], offsetSearch := 0 },
   if record.length > 0 then
     let record := if record.getLast? = some 10 then record.take (record.length - 1) else record
     if t record then [record] else []
   else [])

/-- `checkOverflow` -/
def checkOverflow (c : Cfg) (t : Bytes → Bool) (x : Idx) : Idx × List Bytes :=
  if c.cap - x.buf.length ≥ c.soft then (x, [])
  else
    let buffer := x.buf
    if x.offsetSearch > 0 ∧ t (buffer.drop x.offsetSearch) then
      ({ buf := [], offsetSearch := 0 },
       (if t (buffer.take (x.offsetSearch - 1)) then [buffer.take (x.offsetSearch - 1)] else []) ++ [buffer.drop x.offsetSearch])
    else ({ buf := [], offsetSearch := 0 }, if t buffer then [buffer] else [])

end FrameIdx
