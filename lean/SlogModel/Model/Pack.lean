import SlogModel.Basic
import SlogModel.Model.Msgpack

/-!
  M_pack — model of `output/shared/{messagepacker,chunkfactory,chunkidgen}.go`,
  `output/fluentdforward/{chunk,chunkencoder}.go` and `output/datadog/chunk.go`.

  Abstracted: gzip (`gunzip ∘ gzip = id`: payloads are compared after decompression, the model keeps
  the uncompressed payload and a flag), the vmihailenco library's encoding of the envelope
  (`libStr`, `libBin`, `libArrHdr`, `libUint`: modelled and differential-checked), the wall clock
  (readings are inputs of `IdGen.next`).
-/

namespace Pack
open MP

inductive Mode where
  | forward            -- entries as a msgpack array
  | packed             -- entries as one bin
  | compressed         -- gzip-compressed entries as one bin
  | datadog            -- gzip JSON array
  deriving DecidableEq, Repr

structure Cfg where
  mode : Mode
  maxBytes : Nat        -- 0 = unlimited
  maxRecords : Nat      -- 0 = unlimited
  tag : Bytes
  deriving Repr

/-- the chunk being assembled (`intermediateChunk`) -/
structure Cur where
  idx : Nat                 -- ordinal of the chunk (stands for the id drawn at creation)
  recordsRev : List Bytes   -- what has been written, newest first
  numRecords : Nat
  numBytes : Nat
  deriving Repr

structure Chunk where
  idx : Nat
  records : List Bytes      -- streams in write order
  numRecords : Nat          -- the count announced in the envelope (`option.size`)
  numBytes : Nat
  deriving Repr

structure St where
  cur : Option Cur := none
  next : Nat := 0           -- ordinal of the next chunk to be created
  deriving Repr

def isDD (c : Cfg) : Bool := c.mode == .datadog

/-- `CanAppendData` -/
def canAppend (c : Cfg) (k : Cur) (len : Nat) : Bool :=
  if c.maxRecords > 0 ∧ k.numRecords ≥ c.maxRecords then false
  else if c.maxBytes > 0 ∧ k.numBytes + len + (if isDD c then 1 else 0) > c.maxBytes then false
  else true

/-- `FinalizeChunk` -/
def finalize (c : Cfg) (k : Cur) : Chunk :=
  { idx := k.idx, records := k.recordsRev.reverse, numRecords := k.numRecords,
    numBytes := k.numBytes + (if isDD c then 1 else 0) }

/-- `messagePacker.FlushBuffer` -/
def flush (c : Cfg) (s : St) : St × Option Chunk :=
  match s.cur with
  | none => (s, none)
  | some k => ({ s with cur := none }, some (finalize c k))

/-- `NewChunk` + first bytes ("[" for Datadog) -/
def newCur (c : Cfg) (idx : Nat) : Cur :=
  { idx := idx, recordsRev := [], numRecords := 0, numBytes := if isDD c then 1 else 0 }

/-- `intermediateChunk.Write` -/
def curWrite (c : Cfg) (k : Cur) (stream : Bytes) : Cur :=
  { k with recordsRev := stream :: k.recordsRev, numRecords := k.numRecords + 1,
           numBytes := k.numBytes + stream.length + (if isDD c then 1 else 0) }

/-- `messagePacker.WriteStream`: flush first when the stream cannot be appended, start a chunk when none is open -/
def write (c : Cfg) (s : St) (stream : Bytes) : St × Option Chunk :=
  match s.cur with
  | none => ({ cur := some (curWrite c (newCur c s.next) stream), next := s.next + 1 }, none)
  | some k =>
    if canAppend c k stream.length then ({ s with cur := some (curWrite c k stream) }, none)
    else ({ cur := some (curWrite c (newCur c s.next) stream), next := s.next + 1 }, some (finalize c k))

inductive Op where
  | write (stream : Bytes)
  | flush
  deriving Repr

def step (c : Cfg) (s : St) : Op → St × Option Chunk
  | .write st => write c s st
  | .flush => flush c s

def run (c : Cfg) : St → List Op → St × List Chunk
  | s, [] => (s, [])
  | s, op :: ops =>
    let (s1, o) := step c s op
    let (s2, os) := run c s1 ops
    (s2, o.toList ++ os)

/-! ### payload and envelope -/

/-- JSON array framing of the Datadog output -/
def ddJoin : List Bytes → Bytes
  | [] => []
  | [r] => r
  | r :: rs => r ++ 44 :: ddJoin rs

/-- the (uncompressed) payload of a chunk -/
def payload (c : Cfg) (k : Chunk) : Bytes :=
  if isDD c then 91 :: ddJoin k.records ++ [93] else k.records.flatten

/-- vmihailenco `EncodeString` -/
def libStr (v : Bytes) : Bytes :=
  if v.length < 32 then (160 + v.length) :: v
  else if v.length < 256 then 217 :: v.length :: v
  else if v.length < 65536 then 218 :: be16 v.length ++ v
  else 219 :: be32 v.length ++ v

/-- vmihailenco `EncodeBytes` header + data -/
def libBin (v : Bytes) : Bytes :=
  if v.length < 256 then 196 :: v.length :: v
  else if v.length < 65536 then 197 :: be16 v.length ++ v
  else 198 :: be32 v.length ++ v

/-- vmihailenco `EncodeArrayLen` -/
def libArrHdr (n : Nat) : Bytes :=
  if n < 16 then [144 + n] else if n < 65536 then 220 :: be16 n else 221 :: be32 n

/-- vmihailenco encoding of an `int` struct field: always int64 (0xd3) -/
def libUint (n : Nat) : Bytes := 211 :: be64 n

def kSize : Bytes := [115, 105, 122, 101]                              -- "size"
def kChunk : Bytes := [99, 104, 117, 110, 107]                         -- "chunk"
def kCompressed : Bytes := [99, 111, 109, 112, 114, 101, 115, 115, 101, 100]   -- "compressed"
def vGzip : Bytes := [103, 122, 105, 112]                              -- "gzip"

/-- the option map (`TransportOption`, all fields omitempty; size ≥ 1 and the id are never empty) -/
def optionMap (n : Nat) (id : Bytes) (compressed : Bool) : Bytes :=
  [if compressed then 131 else 130] ++ libStr kSize ++ libUint n ++ libStr kChunk ++ libStr id
    ++ (if compressed then libStr kCompressed ++ libStr vGzip else [])

/-- `chunkEncoder.EncodeChunk`; `body` is the payload as stored (compressed or not) -/
def envelope (c : Cfg) (n : Nat) (id body : Bytes) : Bytes :=
  [147] ++ libStr c.tag
    ++ (if c.mode == .forward then libArrHdr n ++ body else libBin body)
    ++ optionMap n id (c.mode == .compressed)

/-! ### chunk ids (`chunkIDGenerator`) -/

structure IdGen where
  epoch : Nat := 0
  seq : Nat := 0
  deriving Repr, DecidableEq

/-- `Generate` with clock reading `now`: the (timestamp, sequence) printed into the id -/
def IdGen.next (g : IdGen) (now : Nat) : IdGen × (Nat × Nat) :=
  if now > g.epoch then ({ epoch := now, seq := 0 }, (now, 0))
  else ({ g with seq := g.seq + 1 }, (now, g.seq + 1))

def IdGen.run : IdGen → List Nat → List (Nat × Nat)
  | _, [] => []
  | g, t :: ts => (g.next t).2 :: IdGen.run (g.next t).1 ts

/-- the last `w` decimal digits of `n`, most significant first -/
def fixedDigits : Nat → Nat → Bytes
  | 0, _ => []
  | w + 1, n => fixedDigits w (n / 10) ++ [48 + n % 10]

/-- `%0wd` for a non-negative value: zero padded to `w` digits, longer when the value needs more -/
def padDigits (w n : Nat) : Bytes :=
  if n < 10 ^ w then fixedDigits w n else (toString n).toUTF8.toList.map (·.toNat)

def fmtId (p : Nat × Nat) (suffix : Bytes) : Bytes := padDigits 19 p.1 ++ [45] ++ padDigits 8 p.2 ++ suffix

end Pack
