import SlogModel.Basic
import SlogModel.Model.Msgpack

/-!
  M_ser — model of `output/fluentdforward/eventserializer.go` (`encodeRecord`, `serializeStrings`,
  `maxSerializedLength`), `eventtime.go`, `rewrite/{rinline,runescape,rcopy}` and
  `util/stringunescape` (`RunToBuffer` with the syslog mapping).
  Repaired behaviour: F-7 (the buffer is sized from the record, so the encoder output is modelled as
  an unbounded byte list and `serBound` is proved sufficient), F-9 (the unescape rewriter does not
  touch the record).
-/

namespace Ser
open MP

/-! ### unescape -/

/-- `bsupport.NewSyslogUnescaper` mapping: b f n r t and the escape char itself; 0 = not escapable -/
def unescMap (c : Nat) : Nat :=
  if c = 98 then 8 else if c = 102 then 12 else if c = 110 then 10 else if c = 114 then 13
  else if c = 116 then 9 else if c = 92 then 92 else 0

/-- `Unescaper.Run` / `RunToBuffer`: what the index loop computes, as a left-to-right scan -/
def unescape : Bytes → Bytes
  | [] => []
  | [c] => [c]
  | c :: d :: r =>
    if c = 92 then
      (if unescMap d ≠ 0 then unescMap d :: unescape r else 92 :: d :: unescape r)
    else c :: unescape (d :: r)

/-! ### rewriters -/

inductive Rw where
  | inline (field : Nat)
  | copy
  | unescape
  deriving Repr, DecidableEq

structure Rec where
  fields : List Bytes        -- all field slots (length ≥ number of names)
  sec : Int                  -- Timestamp.Unix()
  nsec : Nat                 -- Timestamp.Nanosecond()
  unescaped : Bool
  deriving Repr

structure Cfg where
  names : List Bytes                   -- schema field names
  env : List Nat                       -- indices of the environment fields, in configuration order
  envNames : List Bytes                -- their names as configured
  hidden : List Nat                    -- indices of hidden fields
  rewrites : List (Nat × List Rw)      -- field index ↦ rewriter chain (non-empty chains only)
  deriving Repr

def fieldAt (r : Rec) (i : Nat) : Bytes := r.fields.getD i []

/-- `WriteFieldBody` of a chain -/
def rwBody (c : Cfg) (r : Rec) (value : Bytes) : List Rw → Bytes
  | [] => value      -- (not constructible: the chain always ends in copy / unescape)
  | .copy :: _ => value
  | .unescape :: _ => if r.unescaped then value else unescape value
  | .inline f :: rest =>
    let fv := fieldAt r f
    if fv ≠ [] then c.names.getD f [] ++ [61] ++ fv ++ [32] ++ rwBody c r value rest
    else rwBody c r value rest

/-- `MaxFieldLength` of a chain -/
def rwMax (c : Cfg) (r : Rec) (value : Bytes) : List Rw → Nat
  | [] => value.length
  | .copy :: _ => value.length
  | .unescape :: _ => value.length
  | .inline f :: rest =>
    let fv := fieldAt r f
    if fv ≠ [] then (c.names.getD f []).length + 1 + fv.length + 1 + rwMax c r value rest
    else rwMax c r value rest

def masked (c : Cfg) (i : Nat) : Bool := c.env.contains i || c.hidden.contains i

def chainOf (c : Cfg) (i : Nat) : Option (List Rw) := c.rewrites.lookup i

/-- one visible field: pre-serialized key and the value -/
def encField (c : Cfg) (r : Rec) (i : Nat) (name value : Bytes) : Bytes :=
  match chainOf c i with
  | some chain =>
    let body := rwBody c r value chain
    encStr name ++ strHdrByMax (rwMax c r value chain) body.length ++ body
  | none => encStr name ++ encStr value

/-- the visible (non-masked, non-empty) fields among the named slots, with index -/
def visibleIdx (c : Cfg) (r : Rec) : List (Nat × Bytes × Bytes) :=
  ((List.range c.names.length).map (fun i => (i, c.names.getD i [], fieldAt r i))).filter
    (fun (i, _, v) => !masked c i && !v.isEmpty)

def envPairs (c : Cfg) (r : Rec) : List (Bytes × Bytes) :=
  (c.envNames.zip c.env).map (fun (n, i) => (n, fieldAt r i))

def environmentKey : Bytes := [101, 110, 118, 105, 114, 111, 110, 109, 101, 110, 116]  -- "environment"

/-- `EncodeEventTime` -/
def encTime (r : Rec) : Bytes := [215, 0] ++ be32 (r.sec % 4294967296).toNat ++ be32 r.nsec

/-- `encodeRecord` -/
def encodeRecord (c : Cfg) (r : Rec) : Bytes :=
  let vis := visibleIdx c r
  [146] ++ encTime r
    ++ mapHdrByCap (c.names.length + 1) (vis.length + 1)
    ++ (vis.map (fun (i, n, v) => encField c r i n v)).flatten
    ++ encStr environmentKey
    ++ mapHdrByCap c.env.length c.env.length
    ++ ((envPairs c r).map (fun (n, v) => encStr n ++ encStr v)).flatten

/-- maximal length of a visible field's value: `MaxFieldLength` of its chain, or its own length -/
def fieldMax (c : Cfg) (r : Rec) (i : Nat) (v : Bytes) : Nat :=
  match chainOf c i with
  | some ch => rwMax c r v ch
  | none => v.length

/-- `maxSerializedLength` -/
def serBound (c : Cfg) (r : Rec) : Nat :=
  32 + ((visibleIdx c r).map (fun (i, n, v) => (encStr n).length + 5 + fieldMax c r i v)).sum
     + ((envPairs c r).map (fun (n, v) => (encStr n).length + 5 + v.length)).sum

end Ser
