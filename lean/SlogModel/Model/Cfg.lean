import SlogModel.Model.Xform

/-!
  M_cfg — the transform section of a configuration file before verification: field references are
  *names*, templates and patterns are as written.  `verify*` mirrors every `VerifyConfig`
  (`transform/*`, `base/bmatch/logmatcherconfig.go`, `bsupport.VerifyTransformConfigs`), `construct*`
  mirrors every `NewTransform` / `NewMatcher` with its `Must…` / `panic` sites as `GoM` errors.
  (Repaired behaviour: F-10 a–c, e.)

  YAML decoding, tag dispatch of matchers and the text-level template parser are glue exercised by
  the correspondence run only: a template is given as its parse result, `none` when the compiler
  rejects the text.
-/

namespace Cfg
open Xform

structure Schema where
  names : List Bytes

/-- `LogSchema.CreateFieldLocator` -/
def locate (sch : Schema) (name : Bytes) : Option Nat := sch.names.idxOf? name

inductive TPart where
  | lit (s : Bytes)
  | var (name : Bytes)
  | slice (name : Bytes) (a b : Option Int)

abbrev Tmpl := Option (List TPart)

abbrev MatchCfg := List (Bytes × VM)

inductive TC where
  | addFields (pairs : List (Bytes × Tmpl))
  | delFields (keys : List Bytes)
  | mapValue (key : Bytes) (mapping : List (Bytes × Bytes)) (dflt : Bytes)
  | iff (m : MatchCfg) (thn : List TC)
  | switch (cases : List (MatchCfg × List TC))
  | block (steps : List TC)
  | drop (m : MatchCfg) (rate : Int) (label : Bytes)
  | extract (fromEnd : Bool) (key pattern : Bytes) (maxLen : Int) (dest : Bytes)
  | truncate (key : Bytes) (maxLen : Int) (suffix : Bytes)
  | unescape (key : Bytes)
  | redactEmail (key label : Bytes)
  | parseTime (key label : Bytes)
  | regex (key : Bytes) (patternOK : Bool) (captures : List Bytes)
      -- `replace` (no captures used) / `extract`: the pattern is given by whether Go's regexp compiles it and by its
      -- named captures (empty names omitted)

/-! ### verification -/

def partVerify (sch : Schema) : TPart → Bool
  | .lit _ => true
  | .var n => (locate sch n).isSome
  | .slice n _ _ => (locate sch n).isSome

/-- `stringtemplate.NewExpander(text, schema.CreateTemplateVariableResolver)` succeeds -/
def tmplVerify (sch : Schema) : Tmpl → Bool
  | none => false
  | some ps => ps.all (partVerify sch)

/-- `LogMatcherConfig.VerifyConfig` (the match value itself was checked when the file was decoded) -/
def matchVerify (sch : Schema) (m : MatchCfg) : Bool := m.all (fun (k, _) => (locate sch k).isSome)

def keyVerify (sch : Schema) (k : Bytes) : Bool := !k.isEmpty && (locate sch k).isSome

mutual
def verifyStep (sch : Schema) : TC → Bool
  | .addFields pairs => !pairs.isEmpty && pairs.all (fun (d, t) => (locate sch d).isSome && tmplVerify sch t)
  | .delFields keys => !keys.isEmpty && keys.all (fun k => (locate sch k).isSome)
  | .mapValue key mapping _ => keyVerify sch key && !mapping.isEmpty
  | .iff m thn => !m.isEmpty && matchVerify sch m && !thn.isEmpty && verifySteps sch thn
  | .switch cases => !cases.isEmpty && verifyCases sch cases
  | .block steps => !steps.isEmpty && verifySteps sch steps
  | .drop m rate label => !m.isEmpty && matchVerify sch m && decide (1 ≤ rate) && decide (rate ≤ 100) && !label.isEmpty
  | .extract fromEnd key pattern maxLen dest =>
    keyVerify sch key && !pattern.isEmpty && decide (0 < maxLen) &&
      (newExtractor fromEnd pattern maxLen.toNat).isSome && keyVerify sch dest
  | .truncate key maxLen suffix => keyVerify sch key && decide (0 < maxLen) && !suffix.isEmpty
  | .unescape key => keyVerify sch key
  | .redactEmail key label => keyVerify sch key && !label.isEmpty
  | .parseTime key label => keyVerify sch key && !label.isEmpty
  | .regex key patternOK captures => keyVerify sch key && patternOK && captures.all (fun n => (locate sch n).isSome)
def verifySteps (sch : Schema) : List TC → Bool
  | [] => true
  | s :: r => verifyStep sch s && verifySteps sch r
def verifyCases (sch : Schema) : List (MatchCfg × List TC) → Bool
  | [] => true
  | (m, thn) :: r => !m.isEmpty && matchVerify sch m && !thn.isEmpty && verifySteps sch thn && verifyCases sch r
end

/-! ### construction (`NewTransform`), panics as values -/

/-- `schema.MustCreateFieldLocator` -/
def mustLocate (sch : Schema) (name : Bytes) : GoM Nat :=
  match locate sch name with
  | some i => .ok i
  | none => .error .explicit

def partConstruct (sch : Schema) : TPart → GoM Route.Part
  | .lit s => .ok (.lit s)
  | .var n => do return .var (← mustLocate sch n)
  | .slice n a b => do return .slice (← mustLocate sch n) a b

def partsConstruct (sch : Schema) : List TPart → GoM (List Route.Part)
  | [] => .ok []
  | p :: r => do return (← partConstruct sch p) :: (← partsConstruct sch r)

/-- `NewExpander` in `addFields.NewTransform`: an error is turned into `panic(err)` -/
def tmplConstruct (sch : Schema) : Tmpl → GoM (List Route.Part)
  | none => .error .explicit
  | some ps => partsConstruct sch ps

/-- `LogMatcherConfig.NewMatcher` -/
def matchConstruct (sch : Schema) : MatchCfg → GoM Xform.Match
  | [] => .ok []
  | (k, vm) :: r => do return (← mustLocate sch k, vm) :: (← matchConstruct sch r)

def pairsConstruct (sch : Schema) : List (Bytes × Tmpl) → GoM (List (Nat × List Route.Part))
  | [] => .ok []
  | (d, t) :: r => do return (← mustLocate sch d, ← tmplConstruct sch t) :: (← pairsConstruct sch r)

def keysConstruct (sch : Schema) : List Bytes → GoM (List Nat)
  | [] => .ok []
  | k :: r => do return (← mustLocate sch k) :: (← keysConstruct sch r)

mutual
/-- returns the step and the next free sampler id -/
def constructStep (sch : Schema) (next : Nat) : TC → GoM (Step × Nat)
  | .addFields pairs => do return (.addFields (← pairsConstruct sch pairs), next)
  | .delFields keys => do return (.delFields (← keysConstruct sch keys), next)
  | .mapValue key mapping dflt => do return (.mapValue (← mustLocate sch key) mapping dflt, next)
  | .iff m thn => do
    let m' ← matchConstruct sch m
    let (t, nx) ← constructSteps sch next thn
    return (.iff m' t, nx)
  | .switch cases => do
    let (cs, nx) ← constructCases sch next cases
    return (.switch cs, nx)
  | .block steps => do
    let (t, nx) ← constructSteps sch next steps
    return (.block t, nx)
  | .drop m rate _ => do return (.drop (← matchConstruct sch m) rate.toNat next, next + 1)
  | .extract fromEnd key pattern maxLen dest => do
    match newExtractor fromEnd pattern maxLen.toNat with
    | none => throw .explicit                       -- `panic(err)`
    | some e => return (.extract e (← mustLocate sch key) (← mustLocate sch dest), next)
  | .truncate key maxLen suffix => do return (.truncate (← mustLocate sch key) maxLen.toNat suffix, next)
  | .unescape key => do return (.unescape (← mustLocate sch key), next)
  | .redactEmail key _ => do return (.redactEmail (← mustLocate sch key), next)
  | .parseTime key _ => do return (.parseTime (← mustLocate sch key), next)
  | .regex key patternOK captures => do
    if !patternOK then throw .explicit                 -- `regexp.MustCompile`
    let ds ← keysConstruct sch captures                -- `MustCreateFieldLocator(name)` per named capture
    return (.opaque (← mustLocate sch key) ds, next)
def constructSteps (sch : Schema) (next : Nat) : List TC → GoM (List Step × Nat)
  | [] => .ok ([], next)
  | s :: r => do
    let (s', n1) ← constructStep sch next s
    let (r', n2) ← constructSteps sch n1 r
    return (s' :: r', n2)
def constructCases (sch : Schema) (next : Nat) : List (MatchCfg × List TC) → GoM (List (Xform.Match × List Step) × Nat)
  | [] => .ok ([], next)
  | (m, thn) :: r => do
    let m' ← matchConstruct sch m
    let (t, n1) ← constructSteps sch next thn
    let (r', n2) ← constructCases sch n1 r
    return ((m', t) :: r', n2)
end

end Cfg
