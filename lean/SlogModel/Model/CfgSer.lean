import SlogModel.Model.Cfg

/-!
  M_cfg, output section — `output/fluentdforward/config.go` `Config.VerifyConfig`, `bsupport.VerifyRewriterConfigs`,
  the three rewriters' `VerifyConfig` (`rewrite/rinline`, `rcopy`, `runescape`) on one side, and what instantiation does on
  the other: `NewEventSerializer`, `bsupport.NewRewritersFromConfig` and the rewriters' `NewRewriter` with their
  `logger.Panic` / `Must…` sites as `GoM` errors.  `Props/C16.lean` proves that whatever `verify` accepts `construct`
  builds without reaching any of them.

  YAML decoding of the section (tag dispatch on `type:`) is glue exercised by the correspondence run; a list entry that
  decodes to a holder without a value is `unspecified`.
-/

namespace CfgSer
open Cfg

inductive Rw where
  | inline (field : Bytes)
  | copy
  | unescape
  | unspecified               -- `rwc.Value == nil`
  deriving Repr, DecidableEq

structure Out where
  env : List Bytes                          -- serialization.environmentFields
  hidden : List Bytes                       -- serialization.hiddenFields
  rewrite : List (Bytes × List Rw)          -- serialization.rewriteFields (a map: order is irrelevant to every verdict)
  mode : Bytes                              -- messageMode
  addrGiven : Bool                          -- upstream.address is not empty
  addrSplits : Bool                         -- net.SplitHostPort accepts it
  maxDurationSet : Bool                     -- upstream.maxDuration ≠ 0
  deriving Repr

def modes : List Bytes := [b!"Forward", b!"PackedForward", b!"CompressedPackedForward"]

/-- the rewriters' `VerifyConfig(schema, hasNext)` -/
def rwVerify (sch : Schema) (hasNext : Bool) : Rw → Bool
  | .unspecified => false
  | .inline f => hasNext && !f.isEmpty && (locate sch f).isSome
  | .copy => !hasNext
  | .unescape => !hasNext

/-- `bsupport.VerifyRewriterConfigs`: entry `i` is verified with `hasNext = (i < last)` -/
def chainVerify (sch : Schema) : List Rw → Bool
  | [] => true
  | [r] => rwVerify sch false r
  | r :: r' :: rest => rwVerify sch true r && chainVerify sch (r' :: rest)

/-- `Config.VerifyConfig` -/
def verify (sch : Schema) (c : Out) : Bool :=
  !c.env.isEmpty &&
  c.env.all (fun f => (locate sch f).isSome) &&
  c.hidden.all (fun f => (locate sch f).isSome) &&
  c.rewrite.all (fun p => (locate sch p.1).isSome && chainVerify sch p.2) &&
  modes.contains c.mode && c.addrGiven && c.addrSplits && c.maxDurationSet

/-! ### instantiation -/

inductive Rewriter where
  | inline (field : Nat) (next : Rewriter)
  | copy
  | unescape
  deriving Repr

/-- the rewriters' `NewRewriter(schema, next)` -/
def rwNew (sch : Schema) (next : Option Rewriter) : Rw → GoM Rewriter
  | .unspecified => .error .nilDeref                                   -- method call on a nil interface value
  | .inline f =>
    match next with
    | none => .error .explicit /- 'inline' cannot be the last rewriter -/
    | some n =>
      match locate sch f with
      | some i => .ok (.inline i n)
      | none => .error .explicit /- MustCreateFieldLocator -/
  | .copy => if next.isSome then .error .explicit /- 'copy' must be the last rewriter -/ else .ok .copy
  | .unescape => if next.isSome then .error .explicit /- 'unescape' must be the last rewriter -/ else .ok .unescape

/-- `bsupport.NewRewritersFromConfig`: built from the last entry backwards; an empty list gives no rewriter -/
def chainNew (sch : Schema) : List Rw → GoM (Option Rewriter)
  | [] => .ok none
  | r :: rest => do
    let next ← chainNew sch rest
    let h ← rwNew sch next r
    return some h

structure Serializer where
  envLocators : List Nat
  rewriters : List (Option Rewriter)        -- one per schema field
  masks : List Bool
  deriving Repr

def lookupRw (m : List (Bytes × List Rw)) (name : Bytes) : Option (List Rw) := (m.find? (fun p => p.1 = name)).map (·.2)

def buildRewriters (sch : Schema) (m : List (Bytes × List Rw)) : List Bytes → GoM (List (Option Rewriter))
  | [] => .ok []
  | name :: rest => do
    let h ← match lookupRw m name with
      | some ch => chainNew sch ch
      | none => .ok none
    let t ← buildRewriters sch m rest
    return h :: t

/-- `NewEventSerializer`: `.ok none` = it returned an error value (an environment field that the schema does not have) -/
def construct (sch : Schema) (c : Out) : GoM (Option Serializer) :=
  match c.env.mapM (locate sch) with
  | none => .ok none
  | some locs => do
    let rws ← buildRewriters sch c.rewrite sch.names
    return some { envLocators := locs, rewriters := rws,
                  masks := sch.names.map (fun n => c.env.contains n || c.hidden.contains n) }

end CfgSer
