import SlogModel.Basic

/-!
  M_dist — the path from a connection's parser to the pipeline channels:
  `bsupport/logparsingreceiver.go` (per-connection buffer of parsed records, handed on when full or at a
  flush), `obykeyset/orchestrator.go` `byKeySetOrchestratorSink.Accept` (each record appended to the
  connection's own buffer for its key set) and `channelinputbuffer.go` (that buffer sent to the key set's
  pipeline channel when full, at a tick, or at close).

  The three movements are separate actions enabled at any time, so every burst pattern of the real code
  (thresholds, ticks, close) is one of the interleavings; the channel of a key set is shared by all
  connections.  The timeout branch of `channelInputBuffer.Flush` — a batch is discarded when the pipeline
  channel stays full for `IntermediateChannelTimeout`; the code logs it as a bug — is the action `cdiscard`: the
  records are gone (that is C01's concern and is counted nowhere), and what C05 asks is that the order of what does
  arrive is still the arrival order.
-/

namespace Dist

structure R where
  conn : Nat
  key : Nat
  id : Nat
  deriving DecidableEq, Repr

structure St where
  b1 : Nat → List R := fun _ => []             -- logParsingReceiverSink.bufferedLogs, per connection
  cache : Nat → Nat → List R := fun _ _ => []  -- channelInputBuffer.PendingLogs, per connection and key set
  chan : Nat → List R := fun _ => []           -- what has been sent to the pipeline channel of a key set, in order
  hist : Nat → List R := fun _ => []           -- ghost: records parsed on a connection, in order
  kept : Nat → Nat → List R := fun _ _ => []   -- ghost: records parsed on a connection for a key set and not discarded, in order
  discards : Nat := 0                          -- ghost: number of discarded batches

inductive Act where
  | accept (r : R)            -- a record is parsed on connection `r.conn` (`Accept`)
  | move (c : Nat)            -- the oldest buffered record of connection `c` is appended to the buffer of its key set
  | cflush (c k : Nat)        -- the connection's buffer for key set `k` is sent to the channel (`Flush`)
  | cdiscard (c k : Nat)      -- `Flush` times out on a full channel: the batch is dropped
  deriving Repr

def upd (f : Nat → List R) (i : Nat) (v : List R) : Nat → List R := fun j => if j = i then v else f j
def upd2 (f : Nat → Nat → List R) (i k : Nat) (v : List R) : Nat → Nat → List R :=
  fun j l => if j = i ∧ l = k then v else f j l

def step (s : St) : Act → Option St
  | .accept r => some { s with b1 := upd s.b1 r.conn (s.b1 r.conn ++ [r]), hist := upd s.hist r.conn (s.hist r.conn ++ [r]),
                               kept := upd2 s.kept r.conn r.key (s.kept r.conn r.key ++ [r]) }
  | .move c =>
    match s.b1 c with
    | [] => none
    | r :: rest => some { s with b1 := upd s.b1 c rest, cache := upd2 s.cache c r.key (s.cache c r.key ++ [r]) }
  | .cflush c k =>
    some { s with chan := upd s.chan k (s.chan k ++ s.cache c k), cache := upd2 s.cache c k [] }
  | .cdiscard c k =>
    some { s with cache := upd2 s.cache c k [], discards := s.discards + 1,
                  kept := upd2 s.kept c k ((s.chan k).filter (fun r => r.conn = c) ++ (s.b1 c).filter (fun r => r.key = k)) }

def run (s : St) : List Act → Option St
  | [] => some s
  | a :: as => match step s a with | some s' => run s' as | none => none

end Dist
