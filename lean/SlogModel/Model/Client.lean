import SlogModel.Basic

/-!
  M_client — labelled transition system of `output/baseoutput/{clientworker,clientsession}.go`.

  Chunks are identified by their ids (`Nat`, order = id order).  One action per channel / map /
  connection operation of the sender goroutine, the acknowledger goroutine and the worker loop, plus
  environment actions (outcome of connect / send / ping / ACK read, stop request, reconnect triggers).
  Go `select` = nondeterministic choice among ready cases.  Abstracted: TCP/TLS/handshake, wall clock
  (timeouts are nondeterministic actions).  The transition system over-approximates the code: `recoveryDone`
  is possible after a stop request and an operation may still succeed between an I/O error and the
  `Close` that follows it (`connClosed` is set only by `escalate`), so that every schedule of the real
  goroutines — including the window between an error return and `abortConn` — is a run of the model.
-/

namespace Client

/-- observable events, in the order the harness can log them -/
inductive Ev where
  | sendOk (conn c : Nat)
  | sendErr (conn c : Nat)
  | ack (conn : Nat) (id : Option Nat)        -- `ReadChunkAck` returned an id (`none` = "" positional)
  | ackErr (conn : Nat)
  | consumed (c : Nat)                        -- `OnChunkConsumed`
  | leftover (c : Nat)                        -- `OnChunkLeftover`
  | finished
  deriving DecidableEq, Repr

structure Sess where
  conn : Nat
  normal : Bool := false          -- recovery stage finished
  lastC : Option Nat := none       -- `lastChunk`
  sentOk : Bool := false          -- `SendChunk(lastC)` returned nil, the chunk is not yet in `ackerChan`
  ackChan : List Nat := []           -- `ackerChan`
  chanClosed : Bool := false
  ackCur : Option Nat := none     -- acknowledger is in `ReadChunkAck` for this chunk
  pending : List Nat := []        -- `pendingChunksByID`
  ackEnded : Bool := false
  abort : Bool := false           -- `ackerAbort`
  connClosed : Bool := false
  collecting : Option (List Nat) := none   -- sender is inside `collectLeftovers`; `fromPrevious`
  deriving Repr

structure St where
  queue : List Nat := []          -- the buffer's output channel (ids increasing)
  left : List Nat := []           -- leftovers channel
  sess : Option Sess := none
  confirmed : List Nat := []
  handed : List Nat := []
  taken : List Nat := []          -- every chunk received from the queue, in order
  stop : Bool := false
  finished : Bool := false
  nextConn : Nat := 0
  hist : List Ev := []
  deriving Repr

def ackCap : Nat := 10            -- defs.ForwarderMaxPendingChunksForAck

inductive Act where
  | stopReq
  | connectOk | connectFail
  | takeLeft | recoveryDone | takeInput
  | sendOk | sendErr
  | pushAck | pushStop | pushAckEnded
  | beginCollect                    -- stop seen / send or ping error / soft reconnect: enter `collectLeftovers`
  | escalate                        -- `ackerAbort.Signal()` + `abortConn`
  | ackRecv | ackChanClosed | ackAbort
  | ackOk (id : Option Nat) | ackErr
  | finishCollect
  | workerFinal
  deriving Repr

/-- sort + dedup of `newLeftoverChannel` -/
def dedupSorted : List Nat → List Nat
  | [] => []
  | [x] => [x]
  | x :: y :: r => if x = y then dedupSorted (y :: r) else x :: dedupSorted (y :: r)

def newLeft (l : List Nat) : List Nat := dedupSorted (l.mergeSort (· ≤ ·))

def step (s : St) : Act → Option St
  | .stopReq => if s.finished then none else some { s with stop := true }
  | .connectOk =>
    match s.sess with
    | some _ => none
    | none => if s.finished then none else
      some { s with sess := some { conn := s.nextConn }, nextConn := s.nextConn + 1 }
  | .connectFail => if s.sess.isSome ∨ s.finished then none else some s
  | .takeLeft =>
    match s.sess, s.left with
    | some x, c :: rest =>
      if x.normal ∨ x.lastC.isSome ∨ x.collecting.isSome then none
      else some { s with left := rest, sess := some { x with lastC := some c } }
    | _, _ => none
  | .recoveryDone =>
    match s.sess with
    | some x => if x.normal ∨ x.lastC.isSome ∨ x.collecting.isSome ∨ s.left ≠ [] then none
                else some { s with sess := some { x with normal := true } }
    | none => none
  | .takeInput =>
    match s.sess, s.queue with
    | some x, c :: rest =>
      if !x.normal ∨ x.lastC.isSome ∨ x.collecting.isSome then none
      else some { s with queue := rest, taken := s.taken ++ [c], sess := some { x with lastC := some c } }
    | _, _ => none
  | .sendOk =>
    match s.sess with
    | some x =>
      match x.lastC with
      | some c => if x.sentOk ∨ x.connClosed ∨ x.collecting.isSome then none
                  else some { s with sess := some { x with sentOk := true }, hist := s.hist ++ [.sendOk x.conn c] }
      | none => none
    | none => none
  | .sendErr =>
    match s.sess with
    | some x =>
      match x.lastC with
      | some c =>
        if x.sentOk ∨ x.collecting.isSome then none
        else
          let x' : Sess := { x with collecting := some (if x.normal then [] else s.left), chanClosed := true }
          some { s with sess := some x', left := if x.normal then s.left else [], hist := s.hist ++ [.sendErr x.conn c] }
      | none => none
    | none => none
  | .pushAck =>
    match s.sess with
    | some x =>
      match x.lastC with
      | some c => if !x.sentOk ∨ x.ackChan.length ≥ ackCap ∨ x.collecting.isSome then none
                  else some { s with sess := some { x with ackChan := x.ackChan ++ [c], lastC := none, sentOk := false } }
      | none => none
    | none => none
  | .pushStop | .pushAckEnded | .beginCollect =>
    -- all three enter `collectLeftovers` with the chunk in hand (if any) still in `lastChunk`
    match s.sess with
    | some x =>
      if x.collecting.isSome then none
      else
        let x' : Sess := { x with collecting := some (if x.normal then [] else s.left), chanClosed := true }
        some { s with sess := some x', left := if x.normal then s.left else [] }
    | none => none
  | .escalate =>
    match s.sess with
    | some x => if x.collecting.isNone then none
                else some { s with sess := some { x with abort := true, connClosed := true } }
    | none => none
  | .ackRecv =>
    match s.sess with
    | some x =>
      match x.ackChan with
      | c :: rest => if x.ackEnded ∨ x.ackCur.isSome then none
                     else some { s with sess := some { x with ackChan := rest, pending := x.pending ++ [c], ackCur := some c } }
      | [] => none
    | none => none
  | .ackChanClosed =>
    match s.sess with
    | some x => if x.ackEnded ∨ x.ackCur.isSome ∨ !x.chanClosed ∨ x.ackChan ≠ [] then none
                else some { s with sess := some { x with ackEnded := true } }
    | none => none
  | .ackAbort =>
    match s.sess with
    | some x => if x.ackEnded ∨ x.ackCur.isSome ∨ !x.abort then none
                else some { s with sess := some { x with ackEnded := true } }
    | none => none
  | .ackOk id =>
    match s.sess with
    | some x =>
      match x.ackCur with
      | some cur =>
        if x.connClosed then none else
        let target : Option Nat := match id with
          | none => some cur
          | some i => if i ∈ x.pending then some i else none
        match target with
        | some t =>
          let x' : Sess := { x with ackCur := none, pending := x.pending.erase t }
          some { s with sess := some x', confirmed := s.confirmed ++ [t], hist := s.hist ++ [.ack x.conn id, .consumed t] }
        | none => some { s with sess := some { x with ackCur := none }, hist := s.hist ++ [.ack x.conn id] }
      | none => none
    | none => none
  | .ackErr =>
    match s.sess with
    | some x =>
      match x.ackCur with
      | some _ =>
        let x' : Sess := { x with ackCur := none, ackEnded := true }
        some { s with sess := some x', hist := s.hist ++ [.ackErr x.conn] }
      | none => none
    | none => none
  | .finishCollect =>
    match s.sess with
    | some x =>
      match x.collecting with
      | some prev =>
        if !x.ackEnded then none
        else some { s with sess := none, left := newLeft (prev ++ x.ackChan ++ x.pending ++ x.lastC.toList) }
      | none => none
    | none => none
  | .workerFinal =>
    if s.sess.isSome ∨ !s.stop ∨ s.finished then none
    else some { s with handed := s.handed ++ s.left, left := [], finished := true, hist := s.hist ++ s.left.map .leftover ++ [.finished] }

def run (s : St) : List Act → Option St
  | [] => some s
  | a :: as => match step s a with | some s' => run s' as | none => none

/-- chunks the client holds but has not resolved -/
def inflight (s : St) : List Nat :=
  s.left ++ (match s.sess with
    | some x => x.lastC.toList ++ x.ackChan ++ x.pending ++ (x.collecting.getD [])
    | none => [])

/-! ### decidable trace predicates (evaluated by the driver on traces of the real client) -/


def consumedOf : List Ev → List Nat
  | [] => []
  | .consumed c :: r => c :: consumedOf r
  | _ :: r => consumedOf r

def leftoverOf : List Ev → List Nat
  | [] => []
  | .leftover c :: r => c :: leftoverOf r
  | _ :: r => leftoverOf r


/-- `forwarded_chunks_total` of the client's metrics: counted as soon as `SendChunk` has returned nil (sendChunk, after the
repair of F-18) — one per complete transmission, retransmissions included -/
def forwardedN : List Ev → Nat
  | [] => 0
  | .sendOk _ _ :: r => forwardedN r + 1
  | _ :: r => forwardedN r

/-- `acknowledged_chunks_total`: counted next to the `OnChunkConsumed` callback in the acknowledger -/
def acknowledgedN (h : List Ev) : Nat := (consumedOf h).length

/-- chunks completely transmitted, in order (with repetitions) -/
def sentOkOf : List Ev → List Nat
  | [] => []
  | .sendOk _ c :: r => c :: sentOkOf r
  | _ :: r => sentOkOf r

/-- ids transmitted (attempted) on connection `k`, in order -/
def sentOn (k : Nat) : List Ev → List Nat
  | [] => []
  | .sendOk k' c :: r => if k' = k then c :: sentOn k r else sentOn k r
  | .sendErr k' c :: r => if k' = k then c :: sentOn k r else sentOn k r
  | _ :: r => sentOn k r

def conns : List Ev → List Nat
  | [] => []
  | .sendOk k _ :: r => k :: conns r
  | .sendErr k _ :: r => k :: conns r
  | _ :: r => conns r

def strictlyIncreasing : List Nat → Bool
  | [] => true
  | [_] => true
  | a :: b :: r => a < b && strictlyIncreasing (b :: r)

/-- scan: `seenRev` = events so far (newest first); the acknowledger's latest event must be the ACK that justifies a `consumed` -/
def justScan (seenRev : List Ev) : List Ev → Bool
  | [] => true
  | .consumed c :: r =>
    let ackerView := seenRev.filter (fun e => match e with | .ack _ _ => true | .ackErr _ => true | .consumed _ => true | _ => false)
    let ok := match ackerView with
      | .ack k id :: _ =>
        (id = some c || id = none) &&
          ((seenRev.dropWhile (fun e => e != .ack k id)).drop 1).contains (.sendOk k c)
      | _ => false
    ok && justScan (.consumed c :: seenRev) r
  | e :: r => justScan (e :: seenRev) r

/-- verdict on an observed trace (`none` = every clause holds); `taken` = chunks the client received from the queue -/
def checkTrace (taken : List Nat) (hist : List Ev) : Option String :=
  if !justScan [] hist then some "a chunk was confirmed without a preceding ACK for it on a connection that transmitted it completely"
  else if !(decide (consumedOf hist ++ leftoverOf hist).Nodup) then some "a chunk was resolved (confirmed / handed back) more than once"
  else if !((conns hist).eraseDups.all (fun k => strictlyIncreasing (sentOn k hist))) then
    some "on one connection chunks were not transmitted in increasing id order"
  else if hist.contains .finished &&
      !(taken.all (fun t => (consumedOf hist ++ leftoverOf hist).contains t) &&
        (consumedOf hist ++ leftoverOf hist).all (fun t => taken.contains t)) then
    some "after the client finished a taken chunk is neither confirmed nor handed back"
  else none

/-! ### trace monitor: is an observed trace of the real client a run of the transition system?

The harness observes connection calls and callbacks (one log, one mutex).  Hidden actions (taking a
chunk, pushing it to the acknowledger, entering `collectLeftovers`, ending the acknowledger) are placed
at the latest point at which the next observed event needs them.  `elaborate` produces the action
list; `monitor` re-runs it with `run` and compares what the model logged with what was observed. -/

inductive Obs where
  | openOk (k : Nat) | openFail | stop
  | sendOk (k c : Nat) | sendErr (k c : Nat) | pingErr (k : Nat)
  | ackCall (k : Nat) | ack (k : Nat) (id : Option Nat) | ackErr (k : Nat)
  | consumed (c : Nat) | leftover (c : Nat) | finished
  deriving DecidableEq, Repr

structure ES where
  s : St
  acts : List Act := []       -- newest first
  nCons : Nat := 0            -- `consumed` callbacks seen so far
  early : Bool := false       -- the acknowledger already received a chunk whose `ReadChunkAck` call is not logged yet

abbrev EM := StateT ES (Except String)

def doAct (a : Act) (why : String) : EM Unit := do
  let e ← get
  match step e.s a with
  | some s' => set { e with s := s', acts := a :: e.acts }
  | none => throw why

def cur : EM St := do return (← get).s

def sessOn (k : Nat) (what : String) : EM Sess := do
  match (← cur).sess with
  | some x => if x.conn = k then return x else throw s!"{what}: event on connection {k} but the current session uses {x.conn}"
  | none => throw s!"{what}: event on connection {k} but no session is open"

/-- finish the current session (if any): enter `collectLeftovers`, end the acknowledger, merge -/
def closeSession (what : String) : EM Unit := do
  match (← cur).sess with
  | none => return ()
  | some x =>
    if x.collecting.isNone then doAct .beginCollect s!"{what}: cannot enter collectLeftovers"
    if !x.ackEnded then
      if x.ackCur.isSome then throw s!"{what}: session ended while the acknowledger still waits for an ACK (no ACK-read result observed)"
      if x.ackChan.isEmpty then doAct .ackChanClosed s!"{what}: acknowledger cannot end"
      else do
        doAct .escalate s!"{what}: cannot escalate"
        doAct .ackAbort s!"{what}: acknowledger cannot abort"
    doAct .finishCollect s!"{what}: cannot finish collectLeftovers"

/-- queue the transmitted chunk for acknowledgement; when the channel is full the acknowledger must
have received a chunk already, although its `ReadChunkAck` call is not logged yet -/
def pushNow (what : String) : EM Unit := do
  match (← cur).sess with
  | none => throw s!"{what}: no session"
  | some x =>
    if x.ackChan.length ≥ ackCap ∧ x.ackCur.isNone ∧ !x.ackEnded ∧ !(← get).early then
      doAct .ackRecv s!"{what}: the acknowledger channel is full and the acknowledger cannot receive"
      modify fun e => { e with early := true }
    doAct .pushAck s!"{what}: the previous chunk cannot be queued for acknowledgement"

/-- hidden actions that must precede a `SendChunk(c)` call on connection `k` -/
def prepSend (k c : Nat) : EM Unit := do
  let x ← sessOn k "send"
  if x.sentOk then pushNow s!"send {c}"
  let s ← cur
  let x ← sessOn k "send"
  if x.lastC.isSome then throw s!"send {c}: another chunk is still in hand"
  if !x.normal && s.left.head? = some c then doAct .takeLeft s!"send {c}: cannot take leftover"
  else
    if !x.normal then doAct .recoveryDone s!"send {c}: sent although leftovers {s.left} are not exhausted (or not the oldest leftover)"
    if (← cur).queue.head? ≠ some c then throw s!"send {c}: not the next chunk of the queue {(← cur).queue.take 3}"
    doAct .takeInput s!"send {c}: cannot take input"

def feedObs : Obs → EM Unit
  | .openOk k => do
    closeSession s!"open {k}"
    if (← cur).nextConn ≠ k then throw s!"open {k}: unexpected connection number"
    doAct .connectOk s!"open {k}: cannot connect"
    modify fun e => { e with early := false }
  | .openFail => do closeSession "open failed"; doAct .connectFail "open failed: not allowed"
  | .stop => doAct .stopReq "stop: not allowed"
  | .sendOk k c => do prepSend k c; doAct .sendOk s!"send {c} ok: not allowed"
  | .sendErr k c => do prepSend k c; doAct .sendErr s!"send {c} error: not allowed"
  | .pingErr k => do
    let x ← sessOn k "ping"
    if x.sentOk then pushNow "ping"
    doAct .beginCollect "ping error: cannot enter collectLeftovers"
  | .ackCall k => do
    let x ← sessOn k "ACK read"
    if (← get).early then
      modify fun e => { e with early := false }
    else
      if x.ackChan.isEmpty && x.sentOk then pushNow "ACK read"
      doAct .ackRecv "ACK read started although no transmitted chunk awaits acknowledgement"
  | .ack k id => do
    let _ ← sessOn k "ACK"
    if (← get).early then throw "ACK: result of an ACK read that never started"
    doAct (.ackOk id) "ACK: no ACK read in progress"
  | .ackErr k => do
    let _ ← sessOn k "ACK error"
    if (← get).early then throw "ACK error: result of an ACK read that never started"
    doAct .ackErr "ACK error: no ACK read in progress"
  | .consumed c => do
    let e ← get
    if e.s.confirmed[e.nCons]? ≠ some c then
      throw s!"consumed {c}: the model has confirmed {e.s.confirmed} ({e.nCons} reported so far)"
    set { e with nCons := e.nCons + 1 }
  | .leftover _ => do
    if !(← cur).finished then
      closeSession "leftover"
      doAct .workerFinal "leftover handed back although no stop was requested"
  | .finished => do
    if !(← cur).finished then
      closeSession "finished"
      doAct .workerFinal "finished although no stop was requested"

def feedAll : List Obs → EM Unit
  | [] => return ()
  | o :: os => do feedObs o; feedAll os

def init (q : List Nat) : St := { queue := q }

def elaborate (q : List Nat) (obs : List Obs) : Except String (List Act) :=
  match (feedAll obs).run { s := init q } with
  | .ok (_, e) => .ok e.acts.reverse
  | .error e => .error e

def obsLeft : List Obs → List Nat
  | [] => []
  | .leftover c :: r => c :: obsLeft r
  | _ :: r => obsLeft r

def obsCons : List Obs → List Nat
  | [] => []
  | .consumed c :: r => c :: obsCons r
  | _ :: r => obsCons r

/-- verdict: `none` = the trace is a run of the model and its resolutions are the model's -/
def monitor (q taken : List Nat) (obs : List Obs) : Option String :=
  match elaborate q obs with
  | .error e => some e
  | .ok acts =>
    match run (init q) acts with
    | none => some "internal: the elaborated action list is not a run"
    | some s =>
      if !s.finished then some "the client did not finish"
      else if obsCons obs ≠ s.confirmed then some s!"consumed callbacks {obsCons obs} differ from the model's confirmations {s.confirmed}"
      else if obsLeft obs ≠ s.handed then some s!"leftover callbacks {obsLeft obs} differ from the model's leftovers {s.handed}"
      else if taken ≠ s.taken then some s!"chunks taken from the queue {taken} differ from the model's {s.taken}"
      else none

end Client
