import SlogModel.Basic

/-!
  M_route — pure functions on key tuples:
  * `mergeKey`   : `LocalCachedMap.GetOrCreate` / `LogProcessCounterSet.SelectMetricKeySet` lookup key
                   (repaired F-1/F-2: each value prefixed by its uvarint length)
  * `joinId` / `splitId` : `obykeyset.joinPipelineID` / `splitPipelineID` (repaired F-1/F-20)
  * `dirName`    : `hybridbuffer.makeBufferQueueDir` directory name; MD5 tail is a parameter
  * `expand`     : `stringtemplate.Expander.Run` on a compiled template (tag builder, addFields)
-/

namespace Route

/-- Go `binary.AppendUvarint` -/
def uvarint (n : Nat) : Bytes :=
  if n < 128 then [n] else (n % 128 + 128) :: uvarint (n / 128)
termination_by n
decreasing_by omega

def mergeKey : List Bytes → Bytes
  | [] => []
  | k :: ks => uvarint k.length ++ k ++ mergeKey ks

/-- the keys concatenated without separator: the code before the repair -/
def mergeKeyLegacy (ks : List Bytes) : Bytes := ks.flatten

/-- escape ',' (44) and '\' (92) with '\' -/
def escKey : Bytes → Bytes
  | [] => []
  | c :: r => if c = 44 ∨ c = 92 then 92 :: c :: escKey r else c :: escKey r

def joinEsc : List Bytes → Bytes
  | [] => []
  | [k] => escKey k
  | k :: ks => escKey k ++ 44 :: joinEsc ks

/-- `joinPipelineID` -/
def joinId (ks : List Bytes) : Bytes := if ks = [[]] then [92, 101] else joinEsc ks

/-- `strings.Join(keys, ",")`: the code before the repair -/
def joinIdLegacy : List Bytes → Bytes
  | [] => []
  | [k] => k
  | k :: ks => k ++ 44 :: joinIdLegacy ks

/-- the loop of `splitPipelineID`: remaining input, current key (reversed), keys so far (reversed) -/
def splitAux : Bytes → Bytes → List Bytes → List Bytes
  | [], cur, acc => (cur.reverse :: acc).reverse
  | c :: r, cur, acc =>
    if c = 92 then
      match r with
      | d :: r' => splitAux r' (d :: cur) acc
      | [] => splitAux [] (c :: cur) acc
    else if c = 44 then splitAux r [] (cur.reverse :: acc)
    else splitAux r (c :: cur) acc

/-- `splitPipelineID` -/
def splitId (id : Bytes) : List Bytes := if id = [92, 101] then [[]] else splitAux id [] []

/-- `sanitizeDirName` -/
def sanitize (s : Bytes) : Bytes := s.map (fun c => if c = 0 ∨ c = 47 then 95 else c)

/-- directory name under the root for a buffer id (`none`: the root itself); `tail` = last 8 hex digits of MD5(id) -/
def dirName (id tail : Bytes) : Option Bytes :=
  if id = [] then none else some (sanitize id ++ 46 :: tail)

/-! ### templates -/

inductive Part where
  | lit (s : Bytes)
  | var (i : Nat)
  | slice (i : Nat) (start : Option Int) (stop : Option Int)   -- ${name[start:stop]}
  deriving Repr

/-- `createVariableExpressionSolver`: Python-like substring -/
def sliceStr (v : Bytes) (start stop : Option Int) : Bytes :=
  let len : Int := v.length
  let s0 : Int := start.getD 0
  let s1 : Int := if s0 < 0 then s0 + len else s0
  let s2 : Int := if s1 < 0 then 0 else s1
  if s2 ≥ len then [] else
  let e0 : Int := stop.getD 2147483647
  let e1 : Int := if e0 < 0 then e0 + len else e0
  if e1 < 0 then [] else
  let e2 : Int := if e1 > len then len else e1
  if s2 < e2 then (v.drop s2.toNat).take (e2 - s2).toNat else []

def partValue (src : List Bytes) : Part → GoM Bytes
  | .lit s => .ok s
  | .var i => match src[i]? with | some v => .ok v | none => .error .index
  | .slice i a b => match src[i]? with | some v => .ok (sliceStr v a b) | none => .error .index

def expand (parts : List Part) (src : List Bytes) : GoM Bytes :=
  parts.foldlM (fun acc p => do return acc ++ (← partValue src p)) []

end Route
