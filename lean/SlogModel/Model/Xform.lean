import SlogModel.Basic
import SlogModel.Model.Utf8
import SlogModel.Model.Route
import SlogModel.Model.Ser
import SlogModel.Model.Redact
import SlogModel.Model.Time

/-!
  M_xform — the reference interpreter of the transform language (`transform/*`, `base/bmatch/*`,
  `base/bsupport/logtransforms.go`, `textractspecial/stringextractor.go`).

  Opaque: Go `regexp` and `gobwas/glob` (the `replace` / `extract` transforms and the `!!regex` /
  `!!glob` matchers are not modelled; generated programs use only patterns equivalent to a simple
  matcher).  Repaired behaviour: F-11 (truncate builds a new value).
-/

namespace Xform

/-! ### string helpers (Go `strings`) -/

def hasPrefix (s p : Bytes) : Bool := p.length ≤ s.length && s.take p.length == p
def hasSuffix (s p : Bytes) : Bool := p.length ≤ s.length && s.drop (s.length - p.length) == p

/-- `strings.Index`: offset of the first occurrence -/
def indexOf : Bytes → Bytes → Option Nat
  | [], sub => if sub = [] then some 0 else none
  | c :: r, sub =>
    if hasPrefix (c :: r) sub then some 0 else (indexOf r sub).map (· + 1)

/-- `strings.LastIndex`: offset of the last occurrence -/
def lastIndexOf (s sub : Bytes) : Option Nat :=
  ((List.range (s.length + 1)).reverse.find? (fun i => hasPrefix (s.drop i) sub))

def contains (s sub : Bytes) : Bool := (indexOf s sub).isSome

/-- `trimControlCharsAndSpaces` -/
def trimCtl (s : Bytes) : Bytes :=
  ((s.dropWhile (· ≤ 32)).reverse.dropWhile (· ≤ 32)).reverse

/-! ### pattern language of extractHead / extractTail -/

/-- pattern unescaper mapping: `[`, `]`, `*` and the escape character -/
def patMap (c : Nat) : Nat := if c = 91 ∨ c = 93 ∨ c = 42 ∨ c = 92 then c else 0

/-- `Unescaper.Run` with mapping `m` -/
def unescapeWith (m : Nat → Nat) : Bytes → Bytes
  | [] => []
  | [c] => [c]
  | c :: d :: r =>
    if c = 92 then (if m d ≠ 0 then m d :: unescapeWith m r else 92 :: d :: unescapeWith m r)
    else c :: unescapeWith m (d :: r)

/-- `FindFirstUnescaped`: `fuel` ≥ length -/
def findFirstUnescaped : Nat → Bytes → Nat → Nat → Option Nat
  | 0, _, _, _ => none
  | _ + 1, [], _, _ => none
  | fuel + 1, c :: r, target, pos =>
    if c = 92 then findFirstUnescaped fuel (r.drop 1) target (pos + 2)
    else if c = target then some pos
    else findFirstUnescaped fuel r target (pos + 1)

def ffu (s : Bytes) (target : Nat) : Option Nat := findFirstUnescaped (s.length + 1) s target 0

/-- `splitPattern`: (left, wildcard, right) or an error -/
def splitPattern (p : Bytes) : Option (Bytes × Bytes × Bytes) :=
  match ffu p 42 with
  | some i => some (unescapeWith patMap (p.take i), [42], unescapeWith patMap (p.drop (i + 1)))
  | none =>
    match ffu p 91 with
    | none => none
    | some bstart =>
      match ffu (p.drop (bstart + 1)) 93 with
      | none => none
      | some bendRel =>
        let bend := bendRel + bstart + 1
        some (unescapeWith patMap (p.take bstart), (p.drop bstart).take (bend + 1 - bstart),
              unescapeWith patMap (p.drop (bend + 1)))

/-- table update for a range `lo..hi` (inclusive) -/
def setRange (t : List Bool) (lo hi : Nat) (v : Bool) : List Bool :=
  t.mapIdx (fun i b => if lo ≤ i ∧ i ≤ hi then v else b)

/-- the loop of `fillValidCharsByRangeExpression`; `none` = "double hyphen" error -/
def fillLoop (expr : Bytes) (listed : Bool) : Nat → Nat → Bool → List Bool → Option (List Bool)
  | 0, _, _, t => some t
  | fuel + 1, i, rangeStarted, t =>
    match expr[i]? with
    | none => some t
    | some c =>
      if c = 45 then
        if rangeStarted then none
        else if 0 < i ∧ i + 1 < expr.length then fillLoop expr listed fuel (i + 1) true t
        else fillLoop expr listed fuel (i + 1) false (t.set 45 listed)
      else
        if rangeStarted then
          fillLoop expr listed fuel (i + 1) false (setRange t (expr.getD (i - 2) 0) c listed)
        else fillLoop expr listed fuel (i + 1) false (t.set c listed)

/-- `fillValidCharsByRangeExpression` on a bracket expression `[...]` -/
def classTable (bracket : Bytes) : Option (List Bool) :=
  let inner := unescapeWith patMap ((bracket.drop 1).take (bracket.length - 2))
  if inner = [] then none else
  match inner with
  | 94 :: rest => fillLoop rest false (rest.length + 1) 0 false (List.replicate 256 true)
  | _ => fillLoop inner true (inner.length + 1) 0 false (List.replicate 256 false)

structure Extractor where
  fromEnd : Bool
  left : Bytes
  right : Bytes
  maxRange : Nat
  valid : Option (List Bool)     -- `nil` for the `*` wildcard
  deriving Repr

/-- `newStringExtractorSimple` -/
def newExtractor (fromEnd : Bool) (pattern : Bytes) (maxRange : Nat) : Option Extractor :=
  match splitPattern pattern with
  | none => none
  | some (l, w, r) =>
    if w = [] then none
    else if w = [42] then
      -- repaired (F-10): a bare `*` needs the boundary on its far side
      if (!fromEnd ∧ r = []) ∨ (fromEnd ∧ l = []) then none
      else some { fromEnd, left := l, right := r, maxRange, valid := none }
    else if w.length < 2 ∨ w.head? ≠ some 91 ∨ w.getLast? ≠ some 93 then none
    else match classTable w with
      | none => none
      | some t => some { fromEnd, left := l, right := r, maxRange, valid := some t }

/-- `validChars[c]` with `c` a Go `byte`: panics (index out of range) on a nil table or a table that does
not have all 256 entries; a byte can never exceed the index range of a full table -/
def tableAt (t : Option (List Bool)) (c : Nat) : GoM Bool :=
  match t with
  | none => .error .index
  | some l => if l.length = 256 then .ok (l.getD c false) else .error .index

/-- `matchValidCharsFromStart` -/
def matchFromStart (t : Option (List Bool)) : Bytes → Nat → GoM Nat
  | [], i => .ok i
  | c :: r, i => do
    if !(← tableAt t c) then return i
    matchFromStart t r (i + 1)

/-- `matchValidCharsFromEnd`: index after the last invalid byte, 0 if none -/
def matchFromEnd (t : Option (List Bool)) (s : Bytes) : GoM Nat := do
  let n ← matchFromStart t s.reverse 0
  return s.length - n

/-- the text after the left boundary, `none` when the text does not start with it -/
def stripLeft (e : Extractor) (text : Bytes) : Option Bytes :=
  if e.left ≠ [] then (if hasPrefix text e.left then some (text.drop e.left.length) else none) else some text

/-- offset of the right boundary within the search range -/
def headSearch (e : Extractor) (s : Bytes) : Option Nat :=
  if s.length > e.maxRange then indexOf (s.take e.maxRange) e.right else indexOf s e.right

/-- `extractLabelAtStart`; `none` = no extraction (`"", text`) -/
def extractStart (e : Extractor) (text : Bytes) : GoM (Option (Bytes × Bytes)) := do
  match stripLeft e text with
  | none => return none
  | some s =>
    match s, e.valid with
    | c :: _, some _ => if !(← tableAt e.valid c) then return none
    | _, _ => pure ()
    if e.right ≠ [] then
      match headSearch e s with
      | none => return none
      | some iend =>
        let tag := s.take iend
        if e.valid.isSome then
          if (← matchFromStart e.valid tag 0) ≠ tag.length then return none
        return some (trimCtl tag, s.drop (iend + e.right.length))
    else
      let tagEnd ← matchFromStart e.valid s 0
      if tagEnd = 0 then return none
      return some (trimCtl (s.take tagEnd), s.drop tagEnd)

/-- the text before the right boundary, `none` when the text does not end with it -/
def stripRight (e : Extractor) (text : Bytes) : Option Bytes :=
  if e.right ≠ [] then (if hasSuffix text e.right then some (text.take (text.length - e.right.length)) else none)
  else some text

/-- offset of the left boundary (last occurrence) within the search range -/
def tailSearch (e : Extractor) (s : Bytes) : Option Nat :=
  if s.length > e.maxRange then
    (lastIndexOf (s.drop (s.length - e.maxRange)) e.left).map (· + (s.length - e.maxRange))
  else lastIndexOf s e.left

/-- `extractLabelAtEnd` -/
def extractEnd (e : Extractor) (text : Bytes) : GoM (Option (Bytes × Bytes)) := do
  match stripRight e text with
  | none => return none
  | some s =>
    match s.getLast?, e.valid with
    | some c, some _ => if !(← tableAt e.valid c) then return none
    | _, _ => pure ()
    if e.left ≠ [] then
      match tailSearch e s with
      | none => return none
      | some iend =>
        let tag := s.drop (iend + e.left.length)
        if e.valid.isSome then
          if (← matchFromEnd e.valid tag) ≠ 0 then return none
        return some (trimCtl tag, s.take iend)
    else
      let tagBeg ← matchFromEnd e.valid s
      if tagBeg = s.length then return none
      return some (trimCtl (s.drop tagBeg), s.take tagBeg)

/-! ### matchers -/

inductive VM where
  | any                      -- !!str-any: non-empty
  | eq (s : Bytes)
  | ne (s : Bytes)
  | startsWith (s : Bytes)
  | endsWith (s : Bytes)
  | contains (s : Bytes)
  | lenGt (n : Int)
  | lenLt (n : Int)
  deriving Repr

def VM.eval : VM → Bytes → Bool
  | .any, v => !v.isEmpty
  | .eq s, v => v == s
  | .ne s, v => v != s
  | .startsWith s, v => hasPrefix v s
  | .endsWith s, v => hasSuffix v s
  | .contains s, v => Xform.contains v s
  | .lenGt n, v => (v.length : Int) > n
  | .lenLt n, v => (v.length : Int) < n

abbrev Match := List (Nat × VM)

structure Rec where
  fields : List Bytes
  unescaped : Bool
  sec : Int
  nsec : Nat
  deriving Repr

def Rec.get (r : Rec) (i : Nat) : Bytes := r.fields.getD i []
def Rec.set (r : Rec) (i : Nat) (v : Bytes) : Rec := { r with fields := r.fields.set i v }

/-- `LogMatcher.Match`: every field condition holds -/
def matchRec (m : Match) (r : Rec) : Bool := m.all (fun (i, vm) => vm.eval (r.get i))

/-! ### the transform language -/

inductive Step where
  | addFields (pairs : List (Nat × List Route.Part))
  | delFields (keys : List Nat)
  | mapValue (key : Nat) (mapping : List (Bytes × Bytes)) (dflt : Bytes)
  | iff (m : Match) (thn : List Step)
  | switch (cases : List (Match × List Step))
  | block (steps : List Step)
  | drop (m : Match) (rate : Nat) (id : Nat)
  | extract (e : Extractor) (key dest : Nat)
  | truncate (key maxLen : Nat) (suffix : Bytes)
  | unescape (key : Nat)
  | redactEmail (key : Nat)
  | parseTime (key : Nat)
  | opaque (key : Nat) (dests : List Nat)   -- `replace` / `extract`: Go regexp is not modelled; only verification / construction are (C16)

/-- sampler counters `(matched, dropped)` per `drop` step -/
abbrev XState := List (Nat × Nat × Nat)

def XState.get (s : XState) (id : Nat) : Nat × Nat := (s.lookup id).getD (0, 0)
def XState.put (s : XState) (id : Nat) (v : Nat × Nat) : XState := (id, v) :: s.filter (·.1 != id)

/-- the decision of the percentage sampler: `true` = drop -/
def sampleDrop (rate : Nat) (md : Nat × Nat) : Bool × (Nat × Nat) :=
  if md.1 > 0 ∧ 100 * md.2 / md.1 < rate then (true, (md.1 + 1, md.2 + 1)) else (false, (md.1 + 1, md.2))

inductive Res where
  | pass
  | drop
  deriving DecidableEq, Repr

/-- `truncateTransform.Transform` (repaired: value semantics) -/
def truncateVal (v : Bytes) (maxLen : Nat) (suffix : Bytes) : Bytes :=
  if v.length > maxLen + suffix.length then Utf8.clean (v.take maxLen) ++ suffix else v

def addPairs (r : Rec) : List (Nat × List Route.Part) → GoM Rec
  | [] => .ok r
  | (dst, parts) :: rest => do
    let v ← Route.expand parts r.fields
    addPairs (if v ≠ [] then r.set dst v else r) rest

mutual
def runStep (st : XState) (r : Rec) : Step → GoM (Res × Rec × XState)
  | .addFields pairs => do return (.pass, ← addPairs r pairs, st)
  | .delFields keys => .ok (.pass, keys.foldl (fun r k => r.set k []) r, st)
  | .mapValue key mapping dflt =>
    let old := r.get key
    if old = [] then .ok (.pass, r, st)
    else .ok (.pass, r.set key ((mapping.lookup old).getD dflt), st)
  | .iff m thn => if matchRec m r then runSteps st r thn else .ok (.pass, r, st)
  | .switch cases => runCases st r cases
  | .block steps => runSteps st r steps
  | .drop m rate id =>
    if !matchRec m r then .ok (.pass, r, st)
    else if rate = 100 then .ok (.drop, r, st)
    else
      let (d, md) := sampleDrop rate (st.get id)
      .ok (if d then .drop else .pass, r, st.put id md)
  | .extract e key dest => do
    let v := r.get key
    if v = [] then return (.pass, r, st)
    match ← (if e.fromEnd then extractEnd e v else extractStart e v) with
    | none => return (.pass, r, st)
    | some (label, remaining) =>
      if remaining.length ≠ v.length then return (.pass, (r.set key remaining).set dest label, st)
      else return (.pass, r, st)
  | .truncate key maxLen suffix => .ok (.pass, r.set key (truncateVal (r.get key) maxLen suffix), st)
  | .unescape key =>
    if r.unescaped then .ok (.pass, r, st)
    else
      let r1 := { r with unescaped := true }
      .ok (.pass, if r1.get key = [] then r1 else r1.set key (Ser.unescape (r1.get key)), st)
  | .redactEmail key =>
    let v := r.get key
    if (Redact.spans v).isEmpty then .ok (.pass, r, st) else .ok (.pass, r.set key (Redact.redact v), st)
  | .parseTime key =>
    match Time.parse (r.get key) with
    | .ok s n => .ok (.pass, { r with sec := s, nsec := n }, st)
    | .err => .ok (.pass, r, st)
  | .opaque _ _ => .ok (.pass, r, st)     -- not used in correspondence runs

/-- `bsupport.RunTransforms`: stop at the first DROP -/
def runSteps (st : XState) (r : Rec) : List Step → GoM (Res × Rec × XState)
  | [] => .ok (.pass, r, st)
  | s :: rest => do
    let (res, r1, st1) ← runStep st r s
    match res with
    | .drop => return (.drop, r1, st1)
    | .pass => runSteps st1 r1 rest

/-- `switchTransform.Transform`: the first matching case decides -/
def runCases (st : XState) (r : Rec) : List (Match × List Step) → GoM (Res × Rec × XState)
  | [] => .ok (.pass, r, st)
  | (m, thn) :: rest => if matchRec m r then runSteps st r thn else runCases st r rest
end

end Xform
