import SlogModel.Basic

/-!
  M_time — model of `transform/tparsetime/{rfc3339,atoi,tparsetime}.go`.

  `parseGo` follows the Go code statement by statement (index expressions are checked operations
  in `GoM`); `parse` is the same function written by pattern matching.  `Props/C13.lean` proves
  `parseGo t = .ok (parse t)` for every `t` (no panic) and exactness on every valid timestamp.

  Abstracted: `time.Date` is the proleptic Gregorian civil-to-days formula with Go's month
  normalisation (all other normalisations are linear and cancel); `time.Local` has offset 0 (the
  harness runs with TZ=UTC); Go's `time.Parse("Z07:00" | "Z0700")` is `parseTZ`.
-/

namespace Time

/-- Go: `int(b - '0')` on a `byte` (wraps modulo 256). -/
def dig (b : Nat) : Nat := (b + 256 - 48) % 256

def atoi2 (a b : Nat) : Nat := dig a * 10 + dig b
def atoi4 (a b c d : Nat) : Nat := dig a * 1000 + dig b * 100 + dig c * 10 + dig d

/-- `splitFractionAndTimezone` -/
def splitFrac (s : Bytes) : Bytes × Bytes :=
  match s with
  | 46 :: r :: rest => (46 :: (r :: rest).takeWhile isDigit, (r :: rest).dropWhile isDigit)
  | _ => ([], s)

/-- the loop of `atoiFraction`: `n` iterations left, remaining digits, accumulator -/
def fracLoop : Nat → Bytes → Nat → Nat
  | 0, _, v => v
  | n + 1, [], v => fracLoop n [] (v * 10)
  | n + 1, d :: ds, v => fracLoop n ds (v * 10 + dig d)

/-- `atoiFraction`: first nine digits, right-padded with zeros, as nanoseconds. -/
def fracNanos (ds : Bytes) : Nat := fracLoop 9 ds 0

/-- the ±hh:mm / ±hhmm part of Go's `time.Parse` zone parsing -/
def zone (sg h0 h1 m0 m1 : Nat) : Option Int :=
  if isDigit h0 && isDigit h1 && isDigit m0 && isDigit m1 then
    let hr := atoi2 h0 h1
    let mm := atoi2 m0 m1
    if hr > 24 || mm > 60 then none
    else if sg = 43 then some (((hr * 60 + mm) * 60 : Nat) : Int)
    else if sg = 45 then some (-(((hr * 60 + mm) * 60 : Nat) : Int))
    else none
  else none

/-- offset in seconds east of UTC; `none` = `time.Parse` returned an error -/
def parseTZ (tz : Bytes) : Option Int :=
  if tz.contains 58 then
    match tz with
    | [90] => some 0
    | [sg, h0, h1, c, m0, m1] => if c = 58 then zone sg h0 h1 m0 m1 else none
    | _ => none
  else
    match tz with
    | [90] => some 0
    | [sg, h0, h1, m0, m1] => zone sg h0 h1 m0 m1
    | _ => none

/-- days from 1970-01-01 to the civil date `y-m-d` (proleptic Gregorian), `m` in 1..12 -/
def daysFromCivil (y : Int) (m : Nat) (d : Int) : Int :=
  let y' : Int := if m ≤ 2 then y - 1 else y
  let era : Int := y' / 400
  let yoe : Int := y' - era * 400
  let mp : Int := if m > 2 then (m : Int) - 3 else (m : Int) + 9
  let doy : Int := (153 * mp + 2) / 5 + d - 1
  let doe : Int := yoe * 365 + yoe / 4 - yoe / 100 + doy
  era * 146097 + doe - 719468

/-- `time.Date(year, month, day, hour, min, sec, _, FixedZone(off)).Unix()` -/
def unixOf (year month day hour min sec : Nat) (off : Int) : Int :=
  let m0 : Int := (month : Int) - 1
  let y : Int := (year : Int) + m0 / 12
  let m : Nat := (m0 % 12).toNat + 1
  daysFromCivil y m 1 * 86400 + ((day : Int) - 1) * 86400
    + (hour : Int) * 3600 + (min : Int) * 60 + (sec : Int) - off

inductive Result where
  | ok (sec : Int) (ns : Nat)
  | err
  deriving DecidableEq, Repr

/-- everything after the first 19 bytes -/
def parseTail (year month day hour min sec : Nat) (rest : Bytes) : Result :=
  let (fracStr, tzStr) := splitFrac rest
  if fracStr.length = 1 then .err     -- "." without digits
  else
    let ns := if fracStr = [] then 0 else fracNanos fracStr.tail
    if tzStr = [] then .ok (unixOf year month day hour min sec 0) ns
    else match parseTZ tzStr with
      | some off => .ok (unixOf year month day hour min sec off) ns
      | none => .err

/-- pattern-matching form of `parseRFC3339Timestamp` (repaired: F-6 length check, F-13 integer fraction) -/
def parse (t : Bytes) : Result :=
  match t with
  | y0 :: y1 :: y2 :: y3 :: s4 :: m0 :: m1 :: s7 :: d0 :: d1 :: s10 :: h0 :: h1 :: s13 ::
      i0 :: i1 :: s16 :: c0 :: c1 :: rest =>
    if s4 ≠ 45 || s7 ≠ 45 || s10 ≠ 84 || s13 ≠ 58 || s16 ≠ 58 then .err
    else parseTail (atoi4 y0 y1 y2 y3) (atoi2 m0 m1) (atoi2 d0 d1) (atoi2 h0 h1) (atoi2 i0 i1)
      (atoi2 c0 c1) rest
  | _ => .err

/-- statement-by-statement form: every `t[i]` / `t[i:j]` is a checked operation -/
def parseGo (t : Bytes) : GoM Result := do
  if t.length < 19 then return .err
  let c4 ← idx t 4; let c7 ← idx t 7; let c10 ← idx t 10; let c13 ← idx t 13; let c16 ← idx t 16
  if c4 ≠ 45 || c7 ≠ 45 || c10 ≠ 84 || c13 ≠ 58 || c16 ≠ 58 then return .err
  let ys ← slice t 0 4
  let year := atoi4 (← idx ys 0) (← idx ys 1) (← idx ys 2) (← idx ys 3)
  let two (i j : Nat) : GoM Nat := do
    let s ← slice t i j
    return atoi2 (← idx s 0) (← idx s 1)
  let month ← two 5 7
  let day ← two 8 10
  let hour ← two 11 13
  let min ← two 14 16
  let sec ← two 17 19
  let rest ← slice t 19 t.length
  return parseTail year month day hour min sec rest

/-- the code before the repairs: no length check (F-6) -/
def parseGoLegacyPanics (t : Bytes) : GoM Unit := do
  let _ ← idx t 4; let _ ← idx t 7; let _ ← idx t 10; let _ ← idx t 13; let _ ← idx t 16
  let _ ← slice t 17 19
  return ()

/-- `parseTimeTransform.Transform`: (new timestamp, error counted?) — repaired F-24: an empty value
is a malformed time like any other short string. -/
def transform (value : Bytes) (fallbackSec : Int) (fallbackNs : Nat) : (Int × Nat) × Bool :=
  match parse value with
  | .ok s n => ((s, n), false)
  | .err => ((fallbackSec, fallbackNs), true)

end Time
