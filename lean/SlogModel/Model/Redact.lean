import SlogModel.Basic

/-!
  M_redact — index-faithful model of `transform/tredactemail/redactemail.go`
  (`redactEmail1`, `redactFindEmailStart`, `redactFindEmailEnd`, `redactEmailCheckNumber`), with the
  F-21 repair (numeric test also before a trailing dot) and the F-22 repair (numeric = digits and dots only).

  The model computes the redacted *spans* `(start, end)` as well as the output the code builds
  incrementally; `Props/C14.lean` proves the output is the splice of the spans.
-/

namespace Redact

def isWord (c : Nat) : Bool := (65 ≤ c && c ≤ 90) || (97 ≤ c && c ≤ 122) || (48 ≤ c && c ≤ 57)
def isAddr (c : Nat) : Bool := isWord c || c = 46 || c = 45 || c = 95

def redacted : Bytes := [82, 69, 68, 65, 67, 84, 69, 68]   -- "REDACTED"

/-- `redactEmailCheckNumber` (after the repair of F-22): not empty, digits and dots only — "purely numeric" -/
def numLike (d : Bytes) : Bool := !d.isEmpty && d.all (fun c => isDigit c || c = 46)

/-- the test before the repair: at least two bytes, first and last are digits -/
def numLikeLegacy (d : Bytes) : Bool :=
  2 ≤ d.length && (match d.head? with | some c => isDigit c | none => false) &&
    (match d.getLast? with | some c => isDigit c | none => false)

/-- `redactFindEmailStart`: scan backwards from `ati-1` while address characters, not below `limit`;
`none` when the run is directly preceded by '/' -/
def findStart (s : Bytes) (ati limit : Nat) : Option Nat :=
  let back := (((s.take ati).drop limit).reverse.takeWhile isAddr).length
  let i1 := ati - back
  if i1 > 0 ∧ s[i1 - 1]? = some 47 then none else some i1

/-- `redactFindEmailEnd` -/
def findEnd (s : Bytes) (ati : Nat) : Option Nat :=
  let after := s.drop (ati + 1)
  let lbl := after.takeWhile (fun c => isAddr c && c != 46)
  match after.drop lbl.length with
  | [] => if numLike after then none else some s.length          -- no dot, domain cut by the end of the text
  | c :: rest =>
    if c ≠ 46 then none                                           -- a non-address byte before any dot
    else match rest with
      | [] => if numLike lbl then none else some s.length         -- the text ends right after the first dot
      | d :: rest2 =>
        if !isWord d then none else
        let run := rest2.takeWhile isAddr
        if numLike (lbl ++ 46 :: d :: run) then none
        else some (ati + 1 + lbl.length + 2 + run.length)

/-- the candidate test of the main loop: '@' at `ati` with a word character on both sides -/
def candidate (s : Bytes) (ati : Nat) : Bool :=
  ati > 0 && (match s[ati - 1]? with | some c => isWord c | none => false) &&
    (match s[ati + 1]? with | some c => isWord c | none => false)

/-- index of the next '@' at or after `from` -/
def nextAt (s : Bytes) (frm : Nat) : Option Nat := (indexByte (s.drop frm) 64).map (· + frm)

/-- the main loop of `redactEmail1`; returns the spans in order -/
def loop (s : Bytes) : Nat → Nat → Nat → List (Nat × Nat)
  | 0, _, _ => []
  | fuel + 1, sAt, sCopied =>
    if sAt + 1 < s.length then
      let found : Option (Nat × Nat) :=
        if candidate s sAt then
          match findStart s sAt sCopied, findEnd s sAt with
          | some st, some en => some (st, en)
          | _, _ => none
        else none
      match found with
      | some (st, en) =>
        match nextAt s en with
        | some a => (st, en) :: loop s fuel a en
        | none => [(st, en)]
      | none =>
        match nextAt s (sAt + 1) with
        | some a => loop s fuel a sCopied
        | none => []
    else []

def spans (s : Bytes) : List (Nat × Nat) :=
  match nextAt s 0 with
  | some a => loop s s.length a 0
  | none => []

/-- the output as the code builds it: text between spans copied, each span replaced -/
def build (s : Bytes) : List (Nat × Nat) → Nat → Bytes
  | [], copied => s.drop copied
  | (st, en) :: r, copied => (s.drop copied).take (st - copied) ++ redacted ++ build s r en

def redact (s : Bytes) : Bytes := build s (spans s) 0

/-- `redactEmailTransform.Transform`: new value and whether the custom counter is incremented -/
def transform (s : Bytes) : Bytes × Bool := (redact s, !(spans s).isEmpty)

end Redact
