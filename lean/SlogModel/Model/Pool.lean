import SlogModel.Basic

/-!
  M_pool — `base/logallocator.go`: the record pool behind every parser and pipeline.  `NewRecord` takes a record from
  `sync.Pool` — any record that was put there, or a new one — and adds the number of outputs to its reference count;
  `Release` decrements it and, at zero, clears every field, the raw length and the timestamp, gives the backing buffer back
  and puts the record into the pool.  `Unescaped` is NOT cleared by `Release`: the parser assigns it for every record
  (`C12_fact_parser_assigns_unescaped`).  Which pooled record `sync.Pool.Get` returns is the environment's choice (`src`).
-/

namespace Pool

structure Rec where
  fields : List Bytes
  rawLength : Nat := 0
  tsSet : Bool := false        -- `Timestamp` is not the zero time
  unescaped : Bool := false
  refCount : Int := 0
  backbuf : Option Nat := none -- the pooled backing buffer it holds (an identifier of the buffer)
  deriving DecidableEq, Repr

structure St where
  nFields : Nat
  outputs : Nat                        -- `initialRefCount`
  pool : List (Nat × Rec) := []        -- records in `sync.Pool`, by the handle they had when they were released
  live : List (Nat × Rec) := []        -- records handed out and not yet recycled, by handle
  bufPool : List Nat := []             -- backing buffers in `backbufPools` (`util.BytesPoolBy2n`)
  deriving Repr

/-- `newLogRecord` -/
def fresh (n : Nat) : Rec := { fields := List.replicate n [] }

inductive Op where
  | new (h : Nat) (src : Option Nat) (buf : Option Nat)
      -- `NewRecord`; `src` = which pooled record `sync.Pool.Get` returned; `buf` = the backing buffer `backbufPools.Get`
      -- returned for an input above `InputLogMinRecordBytesToPool` (one of the pooled buffers, or a new one), `none` for a short input
  | set (h i : Nat) (v : Bytes)                        -- parser / transform writes a field
  | hdr (h raw : Nat) (ts unesc : Bool)               -- parser sets RawLength, Timestamp, Unescaped
  | release (h : Nat)                                  -- `Release`
  deriving Repr

def lookup (l : List (Nat × Rec)) (h : Nat) : Option Rec := (l.find? (fun p => p.1 = h)).map (·.2)
def remove (l : List (Nat × Rec)) (h : Nat) : List (Nat × Rec) := l.filter (fun p => p.1 ≠ h)
def update (l : List (Nat × Rec)) (h : Nat) (r : Rec) : List (Nat × Rec) := l.map (fun p => if p.1 = h then (h, r) else p)

/-- what `Release` does to a record whose count reaches zero -/
def cleared (r : Rec) : Rec :=
  { r with fields := r.fields.map (fun _ => []), rawLength := 0, tsSet := false, backbuf := none }

/-- the backing buffers referenced by records that are handed out -/
def liveBufs (l : List (Nat × Rec)) : List Nat := l.filterMap (fun p => p.2.backbuf)

/-- `backbufPools.Get`: a pooled buffer leaves the pool; a new one must be new -/
def takeBuf (s : St) : Option Nat → Option (List Nat)
  | none => some s.bufPool
  | some b => if b ∈ s.bufPool then some (s.bufPool.erase b)
              else if b ∈ liveBufs s.live then none else some s.bufPool

def step (s : St) : Op → Option St
  | .new h src buf =>
    if (lookup s.live h).isSome then none else
    match takeBuf s buf with
    | none => none
    | some bp =>
      match src with
      | none => some { s with bufPool := bp, live := s.live ++ [(h, { fresh s.nFields with refCount := s.outputs, backbuf := buf })] }
      | some p =>
        match lookup s.pool p with
        | none => none
        | some r => some { s with pool := remove s.pool p, bufPool := bp,
                                  live := s.live ++ [(h, { r with refCount := r.refCount + s.outputs, backbuf := buf })] }
  | .set h i v =>
    match lookup s.live h with
    | none => none
    | some r => if i < r.fields.length then some { s with live := update s.live h { r with fields := r.fields.set i v } } else none
  | .hdr h raw ts unesc =>
    match lookup s.live h with
    | none => none
    | some r => some { s with live := update s.live h { r with rawLength := raw, tsSet := ts, unescaped := unesc } }
  | .release h =>
    match lookup s.live h with
    | none => none                              -- a record that was recycled is not released again (callers' contract)
    | some r =>
      let c := r.refCount - 1
      if c < 0 then none                        -- `logger.Panic("negative reference count")`
      else if c > 0 then some { s with live := update s.live h { r with refCount := c } }
      else some { s with live := remove s.live h, pool := s.pool ++ [(h, cleared { r with refCount := 0 })],
                         bufPool := s.bufPool ++ r.backbuf.toList }     -- recycleRecord: the buffer goes back first

def run (s : St) : List Op → Option St
  | [] => some s
  | o :: os => match step s o with | some s' => run s' os | none => none

/-- what a caller of `NewRecord` can observe of the record it gets -/
def Clean (r : Rec) : Prop := (∀ f ∈ r.fields, f = []) ∧ r.rawLength = 0 ∧ r.tsSet = false

end Pool
