import SlogModel.Basic
import SlogModel.Model.Utf8

/-!
  M_parse — model of `input/syslogparser/syslogparser.go` (`Parse`, `nextFieldBySpace`), with the
  counting of `base/loginputcounterset.go`.  Index / slice expressions are checked operations.
  Repaired behaviour: F-5 (`strings.HasSuffix(val, ">1")`), F-8 (clean-up whenever truncated).
-/

namespace Parse

structure Cfg where
  facilities : List Bytes   -- syslogprotocol.FacilityNames
  levels : List Bytes       -- level mapping (8 names)
  maxMsg : Nat              -- defs.InputLogMaxMessageBytes
  maxRec : Nat              -- defs.InputLogMaxRecordBytes
  minLen : Nat := 32

structure Rec where
  facility : Bytes
  level : Bytes
  time : Bytes
  host : Bytes
  app : Bytes
  pid : Bytes
  source : Bytes
  extradata : Bytes
  log : Bytes
  unescaped : Bool
  rawLength : Nat
  deriving DecidableEq, Repr

/-- outcome of one `Parse` call; the counters follow from it (`counts`) -/
inductive Outcome where
  | pass (r : Rec) (overflow : Bool)   -- CountRecordPass; overflow ⇒ overflowCounter(len(input))
  | drop (reason : Nat)                -- onMalformed ⇒ CountRecordDrop; reason = which check failed
  deriving DecidableEq, Repr

/-- `nextFieldBySpace` -/
def nextField (s : Bytes) : Option (Bytes × Bytes) :=
  if s.contains 32 then some (s.takeWhile (· != 32), (s.dropWhile (· != 32)).drop 1) else none

/-- digits of a decimal number, most significant first -/
def digitsVal : Bytes → Nat → Option Nat
  | [], acc => some acc
  | d :: ds, acc => if isDigit d then digitsVal ds (acc * 10 + (d - 48)) else none

/-- digits → value with the int64 range check of `strconv.ParseInt` -/
def atoiU (ds : Bytes) (neg : Bool) : Option Int :=
  if ds = [] then none else
  match digitsVal ds 0 with
  | none => none
  | some v =>
    if neg then (if v ≤ 9223372036854775808 then some (-(v : Int)) else none)
    else (if v ≤ 9223372036854775807 then some (v : Int) else none)

/-- Go `strconv.Atoi` on 64-bit: optional sign, at least one digit, digits only, range of int64 -/
def atoi (s : Bytes) : Option Int :=
  match s with
  | [] => none
  | c :: r => if c = 43 then atoiU r false else if c = 45 then atoiU r true else atoiU (c :: r) false

def hasSuffix (s suf : Bytes) : Bool := suf.length ≤ s.length && s.drop (s.length - suf.length) == suf

/-- the header fields after PRI: time host app pid source extradata -/
def restFields : Nat → Bytes → List Bytes → Option (List Bytes × Bytes)
  | 0, s, acc => some (acc.reverse, s)
  | n + 1, s, acc =>
    match nextField s with
    | none => none
    | some (v, nx) => restFields n nx (v :: acc)

def parseGo (cfg : Cfg) (input : Bytes) : GoM Outcome := do
  let raw := input.length
  if raw < cfg.minLen then return .drop 0
  if (← idx input 0) ≠ 60 then return .drop 0
  match nextField input with
  | none => return .drop 1
  | some (val, next) =>
    if !hasSuffix val [62, 49] then return .drop 2
    let pri ← slice val 1 (val.length - 2)
    match atoi pri with
    | none => return .drop 3
    | some priVal =>
      let facility := priVal / 8          -- `>> 3` (arithmetic shift = floor division)
      if facility < 0 || facility ≥ cfg.facilities.length then return .drop 4
      let facilityName ← (match cfg.facilities[facility.toNat]? with | some n => pure n | none => throw .index)
      let severity := (priVal % 8).toNat  -- `& 0b111`
      let levelName ← (match cfg.levels[severity]? with | some n => pure n | none => throw .index)
      match restFields 6 next [] with
      | none => return .drop 5
      | some (fs, remaining) =>
        let truncated := remaining.length > cfg.maxMsg
        let remaining ← if truncated then slice remaining 0 cfg.maxMsg else pure remaining
        let remaining := if truncated || raw ≥ cfg.maxRec then Utf8.clean remaining else remaining
        let f (i : Nat) : GoM Bytes := match fs[i]? with | some v => pure v | none => throw .index
        return .pass
          { facility := facilityName, level := levelName,
            time := ← f 0, host := ← f 1, app := ← f 2, pid := ← f 3, source := ← f 4, extradata := ← f 5,
            log := remaining, unescaped := remaining.contains 10, rawLength := raw } truncated

/-- input counters after one call: (passed, passedBytes, dropped, droppedBytes, overflow, overflowBytes) -/
structure Counts where
  passed : Nat := 0
  passedBytes : Nat := 0
  dropped : Nat := 0
  droppedBytes : Nat := 0
  overflow : Nat := 0
  overflowBytes : Nat := 0
  deriving DecidableEq, Repr

def counts (raw : Nat) : Outcome → Counts
  | .pass _ ov => { passed := 1, passedBytes := raw, overflow := if ov then 1 else 0, overflowBytes := if ov then raw else 0 }
  | .drop _ => { dropped := 1, droppedBytes := raw }

end Parse
