import SlogModel.Basic

/-!
  M_reload — transition system of `run/reloadable.go` (ReloadableOrchestrator / ReloadableSink) together
  with the part of `input/tcplistener/tcplinelistener.go` that hands out client numbers.

  One action per critical section: everything a sink does runs under the read side of
  `downstreamMutex`, `reload` swaps under the write side, so each is atomic with respect to the other;
  reader sections of different connections touch different slots.  Client number = socket descriptor:
  the operating system hands out a number only while no open socket has it.

  Repaired code (F-15: the downstream sink is created under the read lock, so `register` is one
  action; F-16: a connection closes its sink before its socket).  The code before the repairs is
  `stepLegacy` (two extra actions) with concrete bad runs in `Props/C17.lean`.
-/

namespace Reload

/-! association lists keyed by client number -/

def aget {β : Type} (l : List (Nat × β)) (k : Nat) : Option β := (l.find? (fun p => p.1 = k)).map (·.2)
def adel {β : Type} (l : List (Nat × β)) (k : Nat) : List (Nat × β) := l.filter (fun p => p.1 ≠ k)
def aput {β : Type} (l : List (Nat × β)) (k : Nat) (v : β) : List (Nat × β) := adel l k ++ [(k, v)]

inductive Phase where
  | accepted                  -- socket accepted, `NewSink` not yet done
  | creating (sid gen : Nat)  -- legacy only: downstream sink created, not yet stored in the slot
  | registered                -- sink stored in the slot; records flow
  | sinkClosed                -- sink closed (slot cleared), socket still open
  deriving DecidableEq, Repr

structure Sink where
  sid : Nat
  gen : Nat
  deriving DecidableEq, Repr

inductive Ev where
  | newSink (sid gen num : Nat)
  | accept (sid rec : Nat)
  | tick (sid : Nat)
  | close (sid : Nat)
  | shutdown (gen : Nat)
  | started (gen : Nat)
  | reloadFailed
  deriving DecidableEq, Repr

/-- the live connection of each client number (a number belongs to at most one open socket) -/
structure St where
  gen : Nat := 0
  shut : List Nat := []                 -- generations shut down
  slots : List (Nat × Sink) := []       -- client number ↦ downstream sink (`downstreamSinks`; a closed sink leaves its slot)
  fds : List Nat := []                  -- open sockets
  phases : List (Nat × Phase) := []     -- client number ↦ phase of the connection that owns the socket
  zombies : List Nat := []              -- legacy only: connections whose socket is closed while their sink is still open
  nextSid : Nat := 0
  hist : List Ev := []
  bad : List String := []               -- violations observed (ghost)
  deriving Repr

inductive Act where
  | connect (num : Nat)
  | register (num : Nat)
  | accept (num rec : Nat)
  | tick (num : Nat)
  | closeSink (num : Nat)
  | closeSocket (num : Nat)
  | reload
  | reloadFail
  -- legacy interleavings
  | createSink (num : Nat)              -- F-15: `orc.downstream.NewSink` before the lock
  | storeSink (num : Nat)               -- F-15: the store under the lock
  | closeSocketFirst (num : Nat)        -- F-16: socket closed while the sink is still open
  | zombieAccept (num rec : Nat)        -- F-16: … its last flush goes through the shared slot
  | closeSinkLate (num : Nat)           -- F-16: … and so does its Close
  deriving DecidableEq, Repr

/-- a downstream call on a sink: a violation if its downstream was shut down -/
def useSink (s : St) (k : Sink) (what : String) : St :=
  if k.gen ∈ s.shut then { s with bad := s.bad ++ [what ++ " on a sink of a downstream that was shut down"] } else s

/-- `orc.downstream.NewSink` -/
def newSinkOn (s : St) (n : Nat) : St × Sink :=
  ({ s with nextSid := s.nextSid + 1, hist := s.hist ++ [.newSink s.nextSid s.gen n] }, { sid := s.nextSid, gen := s.gen })

/-- closing a sink through its slot (`(*ptr).Close(); *ptr = nil`); `none` = nil dereference -/
def closeVia (s : St) (n : Nat) : Option St :=
  match aget s.slots n with
  | none => none
  | some k =>
    let s := useSink s k "Close"
    some { s with hist := s.hist ++ [.close k.sid], slots := adel s.slots n }

/-- a downstream call through the slot; `none` = nil dereference -/
def callVia (s : St) (n : Nat) (what : String) (ev : Nat → Ev) : Option St :=
  match aget s.slots n with
  | none => none
  | some k => let s := useSink s k what; some { s with hist := s.hist ++ [ev k.sid] }

/-- new sinks for every occupied slot, numbered from `sid` -/
def renew (g : Nat) : Nat → List (Nat × Sink) → List (Nat × Sink)
  | _, [] => []
  | sid, (n, _) :: r => (n, { sid := sid, gen := g }) :: renew g (sid + 1) r

def insertSlot (p : Nat × Sink) : List (Nat × Sink) → List (Nat × Sink)
  | [] => [p]
  | q :: r => if p.1 ≤ q.1 then p :: q :: r else q :: insertSlot p r

/-- the slot array is walked in index order -/
def sortSlots : List (Nat × Sink) → List (Nat × Sink)
  | [] => []
  | p :: r => insertSlot p (sortSlots r)

/-- `reload` under the write lock: close every sink in place, shut the old downstream down, start the
new one, re-create a sink for every occupied slot (in client-number order) -/
def reloadStep (s : St) : St :=
  let sorted := sortSlots s.slots
  let closes := sorted.map (fun p => Ev.close p.2.sid)
  let staleBad := (s.slots.filter (fun p => p.2.gen ∈ s.shut)).map (fun _ => "Close on a sink of a downstream that was shut down")
  let g := s.gen + 1
  let slots' := renew g s.nextSid sorted
  { s with shut := s.shut ++ [s.gen], gen := g, slots := slots', nextSid := s.nextSid + s.slots.length,
           bad := s.bad ++ staleBad,
           hist := s.hist ++ closes ++ [.shutdown s.gen, .started g] ++ slots'.map (fun p => Ev.newSink p.2.sid g p.1) }

def occupiedBad (s : St) (n : Nat) : St :=
  if (aget s.slots n).isSome then { s with bad := s.bad ++ ["created new sink while old sink is still in place"] } else s

def step (s : St) : Act → Option St
  | .connect n =>
    if n ∈ s.fds then none     -- the OS never hands out the number of an open socket
    else some { s with fds := s.fds ++ [n], phases := aput s.phases n .accepted }
  | .register n =>
    match aget s.phases n with
    | some .accepted =>
      let (s1, k) := newSinkOn (occupiedBad s n) n
      some { s1 with slots := aput s1.slots n k, phases := aput s1.phases n .registered }
    | _ => none
  | .accept n r =>
    match aget s.phases n with
    | some .registered => callVia s n "Accept" (fun sid => .accept sid r)
    | _ => none
  | .tick n =>
    match aget s.phases n with
    | some .registered => callVia s n "Tick" (fun sid => .tick sid)
    | _ => none
  | .closeSink n =>
    match aget s.phases n with
    | some .registered => (closeVia s n).map (fun s => { s with phases := aput s.phases n .sinkClosed })
    | _ => none
  | .closeSocket n =>
    match aget s.phases n with
    | some .sinkClosed => some { s with fds := s.fds.filter (· ≠ n), phases := adel s.phases n }
    | _ => none
  | .reload => some (reloadStep s)
  | .reloadFail => some { s with hist := s.hist ++ [.reloadFailed] }
  | _ => none

/-- the code before the repairs: the same plus the split `NewSink` and the socket-first close -/
def stepLegacy (s : St) : Act → Option St
  | .createSink n =>
    match aget s.phases n with
    | some .accepted =>
      let (s1, k) := newSinkOn s n
      some { s1 with phases := aput s1.phases n (.creating k.sid k.gen) }
    | _ => none
  | .storeSink n =>
    match aget s.phases n with
    | some (.creating sid g) =>
      let s1 := occupiedBad s n
      some { s1 with slots := aput s1.slots n { sid := sid, gen := g }, phases := aput s1.phases n .registered }
    | _ => none
  | .closeSocketFirst n =>
    match aget s.phases n with
    | some .registered => some { s with fds := s.fds.filter (· ≠ n), phases := adel s.phases n, zombies := s.zombies ++ [n] }
    | _ => none
  | .zombieAccept n r => if n ∈ s.zombies then callVia s n "Accept" (fun sid => .accept sid r) else none
  | .closeSinkLate n =>
    if n ∈ s.zombies then (closeVia s n).map (fun s => { s with zombies := s.zombies.filter (· ≠ n) }) else none
  | a => step s a

def run (s : St) : List Act → Option St
  | [] => some s
  | a :: as => match step s a with | some s' => run s' as | none => none

/-- `none` = some action was not enabled; for `accept` / `tick` / close of a registered connection that is a nil dereference -/
def runLegacy (s : St) : List Act → Option St
  | [] => some s
  | a :: as => match stepLegacy s a with | some s' => runLegacy s' as | none => none

/-! ### decidable predicates on an observed downstream trace -/

/-- verdict on the events recorded by the downstream orchestrators (`none` = fine) -/
def checkTrace (hist : List Ev) : Option String :=
  let rec go (sinks : List (Nat × Nat)) (closed : List Nat) (shut : List Nat) : List Ev → Option String
    | [] =>
      -- every sink of a generation that was shut down must have been closed
      match sinks.find? (fun p => p.2 ∈ shut ∧ p.1 ∉ closed) with
      | some p => some s!"sink {p.1} of downstream {p.2} was never closed although its downstream was shut down"
      | none => none
    | .newSink sid g _ :: r =>
      if g ∈ shut then some s!"sink {sid} created on downstream {g} after it was shut down" else go (sinks ++ [(sid, g)]) closed shut r
    | .accept sid rec :: r =>
      if sid ∈ closed then some s!"record {rec} accepted by sink {sid} after it was closed"
      else match sinks.find? (fun p => p.1 = sid) with
        | some p => if p.2 ∈ shut then some s!"record {rec} handed to sink {sid} of downstream {p.2}, which was already shut down" else go sinks closed shut r
        | none => some s!"record {rec} accepted by unknown sink {sid}"
    | .tick sid :: r =>
      if sid ∈ closed then some s!"tick on sink {sid} after it was closed" else go sinks closed shut r
    | .close sid :: r =>
      if sid ∈ closed then some s!"sink {sid} closed twice" else go sinks (closed ++ [sid]) shut r
    | .shutdown g :: r =>
      match sinks.find? (fun p => p.2 = g ∧ p.1 ∉ closed) with
      | some p => some s!"downstream {g} shut down while its sink {p.1} was still open (not flushed)"
      | none => go sinks closed (shut ++ [g]) r
    | .started g :: r =>
      -- the new downstream takes over what the old one saved: it must not start before the old one was shut down
      if g > 0 ∧ (g - 1) ∉ shut then some s!"downstream {g} started before downstream {g - 1} was shut down" else go sinks closed shut r
    | _ :: r => go sinks closed shut r
  go [] [] [] hist

end Reload
