import SlogModel.Basic

/-!
  M_reload — transition system of `run/reloadable.go` (ReloadableOrchestrator / ReloadableSink) together
  with the part of `input/tcplistener/tcplinelistener.go` that hands out client numbers.

  One action per critical section: everything a sink does runs under the read side of
  `downstreamMutex`, `reload` swaps under the write side, so each is atomic with respect to the other;
  reader sections of different connections touch different slots.  Client number = socket descriptor:
  the operating system hands out a number only while no open socket has it.

  Repaired code (F-15: the downstream sink is created under the read lock, so `register` is one
  action; F-16: a connection closes its sink before its socket).  The code before the repairs is
  `stepLegacy` (two extra actions) with concrete bad runs in `Props/C17.lean`.
-/

namespace Reload

inductive Phase where
  | accepted       -- socket accepted, `NewSink` not yet done
  | creating (sid gen : Nat)  -- legacy only: downstream sink created, not yet stored in the slot
  | registered     -- sink stored in the slot; records flow
  | sinkClosed     -- sink closed (slot cleared), socket still open
  | socketClosed   -- legacy only: socket closed first, sink still open
  | done
  deriving DecidableEq, Repr

structure Conn where
  cid : Nat
  num : Nat                -- client number = file descriptor
  phase : Phase
  deriving DecidableEq, Repr

structure Sink where
  sid : Nat
  gen : Nat
  deriving DecidableEq, Repr

inductive Ev where
  | newSink (sid gen num : Nat)
  | accept (sid rec : Nat)
  | tick (sid : Nat)
  | close (sid : Nat)
  | shutdown (gen : Nat)
  | started (gen : Nat)
  | reloadFailed
  deriving DecidableEq, Repr

structure St where
  gen : Nat := 0
  shut : List Nat := []                 -- generations shut down
  slots : List (Nat × Sink) := []       -- client number ↦ downstream sink (`downstreamSinks`; a closed sink leaves its slot)
  fds : List Nat := []                  -- open sockets
  conns : List Conn := []
  nextSid : Nat := 0
  hist : List Ev := []
  bad : List String := []               -- violations observed (ghost)
  deriving Repr

inductive Act where
  | connect (cid num : Nat)
  | register (cid : Nat)
  | accept (cid rec : Nat)
  | tick (cid : Nat)
  | closeSink (cid : Nat)
  | closeSocket (cid : Nat)
  | reload
  | reloadFail
  -- legacy interleavings
  | createSink (cid : Nat)              -- F-15: `orc.downstream.NewSink` before the lock
  | storeSink (cid : Nat)               -- F-15: the store under the lock
  | closeSocketFirst (cid : Nat)        -- F-16: socket closed while the sink is still open
  | closeSinkLate (cid : Nat)           -- F-16: … then the sink, through the shared slot
  deriving DecidableEq, Repr

def slotOf (s : St) (n : Nat) : Option Sink := (s.slots.find? (fun p => p.1 = n)).map (·.2)
def connOf (s : St) (cid : Nat) : Option Conn := s.conns.find? (fun c => c.cid = cid)
def setPhase (s : St) (cid : Nat) (p : Phase) : St :=
  { s with conns := s.conns.map (fun c => if c.cid = cid then { c with phase := p } else c) }
def setSlot (s : St) (n : Nat) (k : Sink) : St := { s with slots := s.slots.filter (fun p => p.1 ≠ n) ++ [(n, k)] }
def clearSlot (s : St) (n : Nat) : St := { s with slots := s.slots.filter (fun p => p.1 ≠ n) }

/-- a downstream call on a sink: a violation if its downstream was shut down -/
def useSink (s : St) (k : Sink) (what : String) : St :=
  if k.gen ∈ s.shut then { s with bad := s.bad ++ [what ++ " on a sink of a downstream that was shut down"] } else s

/-- `orc.downstream.NewSink` -/
def newSinkOn (s : St) (n : Nat) : St × Sink :=
  ({ s with nextSid := s.nextSid + 1, hist := s.hist ++ [.newSink s.nextSid s.gen n] }, { sid := s.nextSid, gen := s.gen })

/-- closing a sink through its slot (`(*ptr).Close(); *ptr = nil`); `none` = nil dereference -/
def closeVia (s : St) (n : Nat) : Option St :=
  match slotOf s n with
  | none => none
  | some k =>
    let s := useSink s k "Close"
    some (clearSlot { s with hist := s.hist ++ [.close k.sid] } n)

/-- `reload` under the write lock: close every sink in place, shut the old downstream down, start the
new one, re-create a sink for every occupied slot -/
def reloadStep (s : St) : St :=
  let closes := s.slots.map (fun p => Ev.close p.2.sid)
  let staleBad := (s.slots.filter (fun p => p.2.gen ∈ s.shut)).map (fun _ => "Close on a sink of a downstream that was shut down")
  let g := s.gen + 1
  let slots' := s.slots.mapIdx (fun i p => (p.1, ({ sid := s.nextSid + i, gen := g } : Sink)))
  { s with shut := s.shut ++ [s.gen], gen := g, slots := slots', nextSid := s.nextSid + s.slots.length,
           bad := s.bad ++ staleBad,
           hist := s.hist ++ closes ++ [.shutdown s.gen, .started g] ++ slots'.map (fun p => Ev.newSink p.2.sid g p.1) }

def step (s : St) : Act → Option St
  | .connect cid n =>
    if n ∈ s.fds ∨ (connOf s cid).isSome then none
    else some { s with fds := s.fds ++ [n], conns := s.conns ++ [{ cid := cid, num := n, phase := .accepted }] }
  | .register cid =>
    match connOf s cid with
    | some c =>
      if c.phase ≠ .accepted then none else
      let s := if (slotOf s c.num).isSome then { s with bad := s.bad ++ ["created new sink while old sink is still in place"] } else s
      let (s, k) := newSinkOn s c.num
      some (setPhase (setSlot s c.num k) cid .registered)
    | none => none
  | .accept cid r =>
    match connOf s cid with
    | some c =>
      if c.phase ≠ .registered ∧ c.phase ≠ .socketClosed then none else
      match slotOf s c.num with
      | none => none                        -- nil dereference
      | some k => let s := useSink s k "Accept"; some { s with hist := s.hist ++ [.accept k.sid r] }
    | none => none
  | .tick cid =>
    match connOf s cid with
    | some c =>
      if c.phase ≠ .registered ∧ c.phase ≠ .socketClosed then none else
      match slotOf s c.num with
      | none => none
      | some k => let s := useSink s k "Tick"; some { s with hist := s.hist ++ [.tick k.sid] }
    | none => none
  | .closeSink cid =>
    match connOf s cid with
    | some c =>
      if c.phase ≠ .registered then none else
      (closeVia s c.num).map (fun s => setPhase s cid .sinkClosed)
    | none => none
  | .closeSocket cid =>
    match connOf s cid with
    | some c =>
      if c.phase ≠ .sinkClosed then none else
      some (setPhase { s with fds := s.fds.filter (· ≠ c.num) } cid .done)
    | none => none
  | .reload => some (reloadStep s)
  | .reloadFail => some { s with hist := s.hist ++ [.reloadFailed] }
  | _ => none

/-- the code before the repairs: the same plus the split `NewSink` and the socket-first close -/
def stepLegacy (s : St) : Act → Option St
  | .createSink cid =>
    match connOf s cid with
    | some c =>
      if c.phase ≠ .accepted then none else
      let (s, k) := newSinkOn s c.num
      some (setPhase s cid (.creating k.sid k.gen))
    | none => none
  | .storeSink cid =>
    match connOf s cid with
    | some c =>
      match c.phase with
      | .creating sid g =>
        let s := if (slotOf s c.num).isSome then { s with bad := s.bad ++ ["created new sink while old sink is still in place"] } else s
        some (setPhase (setSlot s c.num { sid := sid, gen := g }) cid .registered)
      | _ => none
    | none => none
  | .closeSocketFirst cid =>
    match connOf s cid with
    | some c =>
      if c.phase ≠ .registered then none else
      some (setPhase { s with fds := s.fds.filter (· ≠ c.num) } cid .socketClosed)
    | none => none
  | .closeSinkLate cid =>
    match connOf s cid with
    | some c =>
      if c.phase ≠ .socketClosed then none else
      (closeVia s c.num).map (fun s => setPhase s cid .done)
    | none => none
  | a => step s a

def run (s : St) : List Act → Option St
  | [] => some s
  | a :: as => match step s a with | some s' => run s' as | none => none

def runLegacy (s : St) : List Act → Option St
  | [] => some s
  | a :: as => match stepLegacy s a with | some s' => runLegacy s' as | none => none

/-! ### decidable predicates on an observed downstream trace -/

/-- verdict on the events recorded by the downstream orchestrators (`none` = fine) -/
def checkTrace (hist : List Ev) : Option String :=
  let rec go (sinks : List (Nat × Nat)) (closed : List Nat) (shut : List Nat) : List Ev → Option String
    | [] =>
      -- every sink of a generation that was shut down must have been closed
      match sinks.find? (fun p => p.2 ∈ shut ∧ p.1 ∉ closed) with
      | some p => some s!"sink {p.1} of downstream {p.2} was never closed although its downstream was shut down"
      | none => none
    | .newSink sid g _ :: r =>
      if g ∈ shut then some s!"sink {sid} created on downstream {g} after it was shut down" else go (sinks ++ [(sid, g)]) closed shut r
    | .accept sid rec :: r =>
      if sid ∈ closed then some s!"record {rec} accepted by sink {sid} after it was closed"
      else match sinks.find? (fun p => p.1 = sid) with
        | some p => if p.2 ∈ shut then some s!"record {rec} handed to sink {sid} of downstream {p.2}, which was already shut down" else go sinks closed shut r
        | none => some s!"record {rec} accepted by unknown sink {sid}"
    | .tick sid :: r =>
      if sid ∈ closed then some s!"tick on sink {sid} after it was closed" else go sinks closed shut r
    | .close sid :: r =>
      if sid ∈ closed then some s!"sink {sid} closed twice" else go sinks (closed ++ [sid]) shut r
    | .shutdown g :: r =>
      match sinks.find? (fun p => p.2 = g ∧ p.1 ∉ closed) with
      | some p => some s!"downstream {g} shut down while its sink {p.1} was still open (not flushed)"
      | none => go sinks closed (shut ++ [g]) r
    | _ :: r => go sinks closed shut r
  go [] [] [] hist

end Reload
