import SlogModel.Basic

/-!
  M_e2e — one pipeline (one key set, one output) end to end at chunk level, across generations of
  stop + restart: records are read in arrival order, packed into chunks with increasing ids
  (C11_ids_increasing), queued in the buffer in acceptance order (C03_fifo), taken and transmitted by
  the client in queue order, acknowledged or — when the connection fails — put back in id order ahead
  of everything newer (C02_resend_order), saved at stop and recovered in name order at the next start
  (C03_recovered_first), or counted as dropped — on overflow when they are made, or later (`drop`) when a file cannot be read
  back or a chunk cannot be saved (C03_conserved: dropped is one of the places).  Each action is the contract a component
  theorem establishes; the theorems here are what the contracts give end to end.

  Several pipelines and outputs are independent copies of this system (C06: a record reaches exactly
  the pipeline of its key set).
-/

namespace E2E

structure St where
  nextRec : Nat := 0                       -- records read so far (ids = arrival order)
  cur : List Nat := []                     -- records in the chunk being filled
  nextChunk : Nat := 0
  content : List (Nat × List Nat) := []    -- chunk id ↦ records, fixed at creation
  queue : List Nat := []                   -- chunks in the buffer (memory or disk), ascending
  inflight : List Nat := []                -- taken by the client, transmitted on the current connection, not acknowledged
  acked : List Nat := []
  dropped : List Nat := []                 -- counted in dropped_chunks_total
  disk : List Nat := []                    -- files in the queue directory while the agent is stopped
  running : Bool := true
  conn : Nat := 0                          -- current upstream connection
  sentLog : List (Nat × Nat) := []         -- (connection, chunk) in transmission order
  deriving Repr, DecidableEq

inductive Act where
  | read                 -- a record is read from a client connection and passes the filters
  | flushAccept          -- the chunk being filled is closed and accepted by the buffer
  | flushDrop            -- … or dropped on queue / disk-limit overflow (counted)
  | take                 -- the client takes the oldest queued chunk and transmits it
  | ack (c : Nat)        -- the upstream acknowledges a chunk in flight
  | drop (c : Nat)       -- a queued or transmitted chunk is given up and counted as dropped: unreadable / corrupt file at load, size limit or write error at hand-back or at the shutdown save
  | connFail             -- the connection ends (error, reset, timeout, reconnect): unacknowledged chunks go back, oldest first
  | stop                 -- graceful stop: everything not acknowledged is saved
  | restart              -- next start on the same queue directory
  deriving DecidableEq, Repr

/-- insertion of an id into an ascending list -/
def ins (c : Nat) : List Nat → List Nat
  | [] => [c]
  | x :: r => if c ≤ x then c :: x :: r else x :: ins c r

def sortIds : List Nat → List Nat
  | [] => []
  | x :: r => ins x (sortIds r)

def closeChunk (s : St) : St × Option Nat :=
  if s.cur = [] then (s, none)
  else ({ s with cur := [], nextChunk := s.nextChunk + 1, content := s.content ++ [(s.nextChunk, s.cur)] }, some s.nextChunk)

def step (s : St) : Act → Option St
  | .read => if !s.running then none else some { s with nextRec := s.nextRec + 1, cur := s.cur ++ [s.nextRec] }
  | .flushAccept =>
    if !s.running then none else
    match closeChunk s with
    | (s', some c) => some { s' with queue := s'.queue ++ [c] }
    | (_, none) => none
  | .flushDrop =>
    if !s.running then none else
    match closeChunk s with
    | (s', some c) => some { s' with dropped := s'.dropped ++ [c] }
    | (_, none) => none
  | .take =>
    if !s.running then none else
    match s.queue with
    | c :: rest => some { s with queue := rest, inflight := s.inflight ++ [c], sentLog := s.sentLog ++ [(s.conn, c)] }
    | [] => none
  | .ack c =>
    if !s.running ∨ c ∉ s.inflight then none
    else some { s with inflight := s.inflight.filter (· ≠ c), acked := s.acked ++ [c] }
  | .drop c =>
    if !s.running ∨ (c ∉ s.queue ∧ c ∉ s.inflight) then none
    else some { s with queue := s.queue.filter (· ≠ c), inflight := s.inflight.filter (· ≠ c), dropped := s.dropped ++ [c] }
  | .connFail =>
    if !s.running then none
    else some { s with queue := sortIds (s.inflight ++ s.queue), inflight := [], conn := s.conn + 1 }
  | .stop =>
    if !s.running then none else
    let s1 := match closeChunk s with
      | (s', some c) => { s' with queue := s'.queue ++ [c] }
      | (s', none) => s'
    some { s1 with disk := sortIds (s1.inflight ++ s1.queue), queue := [], inflight := [], running := false }
  | .restart =>
    if s.running then none
    else some { s with queue := s.disk, disk := [], running := true, conn := s.conn + 1 }

def run (s : St) : List Act → Option St
  | [] => some s
  | a :: as => match step s a with | some s' => run s' as | none => none

/-- chunks in first-transmission order -/
def firsts : List (Nat × Nat) → List Nat → List Nat
  | [], _ => []
  | (_, c) :: r, seen => if c ∈ seen then firsts r seen else c :: firsts r (c :: seen)

def onConn (k : Nat) (l : List (Nat × Nat)) : List Nat := (l.filter (fun p => p.1 = k)).map (·.2)

end E2E
