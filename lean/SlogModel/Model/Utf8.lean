import SlogModel.Basic

/-!
  M_utf8 — Go's `utf8` validity (as used by `strings.ToValidUTF8(s, "")`) and `util.CleanUTF8`.
-/

namespace Utf8

def isCont (b : Nat) : Bool := 128 ≤ b && b ≤ 191

/-- width of the valid rune encoding at the head of `s`; 0 if there is none (Go: `RuneError`, width 1) -/
def runeWidth : Bytes → Nat
  | [] => 0
  | b0 :: rest =>
    if b0 < 128 then 1
    else if 194 ≤ b0 && b0 ≤ 223 then
      match rest with
      | b1 :: _ => if isCont b1 then 2 else 0
      | _ => 0
    else if 224 ≤ b0 && b0 ≤ 239 then
      match rest with
      | b1 :: b2 :: _ =>
        if (if b0 = 224 then 160 else 128) ≤ b1 && b1 ≤ (if b0 = 237 then 159 else 191) && isCont b2 then 3 else 0
      | _ => 0
    else if 240 ≤ b0 && b0 ≤ 244 then
      match rest with
      | b1 :: b2 :: b3 :: _ =>
        if (if b0 = 240 then 144 else 128) ≤ b1 && b1 ≤ (if b0 = 244 then 143 else 191) && isCont b2 && isCont b3
        then 4 else 0
      | _ => 0
    else 0

/-- `strings.ToValidUTF8(s, "")`: keep valid runes, drop every other byte. `fuel ≥ s.length`. -/
def toValidAux : Nat → Bytes → Bytes
  | 0, _ => []
  | _ + 1, [] => []
  | fuel + 1, b :: rest =>
    let w := runeWidth (b :: rest)
    if w = 0 then toValidAux fuel rest
    else (b :: rest).take w ++ toValidAux fuel ((b :: rest).drop w)

def toValid (s : Bytes) : Bytes := toValidAux s.length s

/-- tail-recursive form used by the driver on long inputs -/
def toValidTRAux : Nat → Bytes → Bytes → Bytes
  | 0, _, acc => acc.reverse
  | _ + 1, [], acc => acc.reverse
  | fuel + 1, b :: rest, acc =>
    let w := runeWidth (b :: rest)
    if w = 0 then toValidTRAux fuel rest acc
    else toValidTRAux fuel ((b :: rest).drop w) (((b :: rest).take w).reverse ++ acc)

def toValidTR (s : Bytes) : Bytes := toValidTRAux s.length s []

theorem toValidTRAux_eq (fuel : Nat) (s acc : Bytes) :
    toValidTRAux fuel s acc = acc.reverse ++ toValidAux fuel s := by
  induction fuel generalizing s acc with
  | zero => simp [toValidTRAux, toValidAux]
  | succ n ih =>
    cases s with
    | nil => simp [toValidTRAux, toValidAux]
    | cons b rest =>
      simp only [toValidTRAux, toValidAux]
      split
      · exact ih _ _
      · rw [ih]; simp [List.reverse_append]

theorem toValidTR_eq (s : Bytes) : toValidTR s = toValid s := by
  simp [toValidTR, toValid, toValidTRAux_eq]

/-- valid UTF-8: consists of valid rune encodings only -/
def validAux : Nat → Bytes → Bool
  | 0, s => s.isEmpty
  | _ + 1, [] => true
  | fuel + 1, b :: rest =>
    let w := runeWidth (b :: rest)
    if w = 0 then false else validAux fuel ((b :: rest).drop w)

def valid (s : Bytes) : Bool := validAux s.length s

/-- `findLastEndOfASCII`: index just after the last byte ≤ 0x7F, 0 if there is none -/
def lastAsciiEnd (s : Bytes) : Nat :=
  let rec go : Bytes → Nat → Nat → Nat
    | [], _, best => best
    | b :: r, i, best => go r (i + 1) (if b ≤ 127 then i + 1 else best)
  go s 0 0

/-- `util.CleanUTF8` -/
def clean (s : Bytes) : Bytes :=
  let e := lastAsciiEnd s
  s.take e ++ toValidTR (s.drop e)

end Utf8
