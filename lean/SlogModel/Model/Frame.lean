import SlogModel.Basic

/-!
  M_frame — model of `input/tcplistener/multilinereader.go` and `input/syslogprotocol/recordtest.go`.

  State: the buffer `[0, offsetAppend)` is `cur ++ rest` where `cur = buffer[0:offsetSearch]` is the
  scanned part (complete lines of the pending record) and `rest` the unscanned tail.  Both are kept
  reversed so that every step is O(1) / O(line).  The real fields are *derived*:
  `offsetSearch = cur.length`, `offsetAppend = cur.length + rest.length`; the correspondence run
  compares them with the implementation after every call.

  `processBuffer`'s index loop is modelled by feeding the new bytes one at a time (`feedByte`): a
  newline completes a line, which is start-tested only if some line precedes it in the buffer.
-/

namespace Frame

/-- `syslogprotocol.TestRecordStart` -/
def recordStart (s : Bytes) : Bool :=
  if s.length < 32 then false else
  match s with
  | 60 :: d1 :: r =>
    if !isDigit d1 then false else
    match r with
    | 62 :: 49 :: 32 :: _ => true                               -- <d>1␠
    | d2 :: r2 =>
      if !isDigit d2 then false else
      match r2 with
      | 62 :: 49 :: 32 :: _ => true                             -- <dd>1␠
      | d3 :: 62 :: 49 :: 32 :: _ => isDigit d3                 -- <ddd>1␠
      | _ => false
    | _ => false
  | _ => false

structure Cfg where
  cap : Nat      -- len(buffer) = max(minBufferSize, 3*softRecordLimit)
  soft : Nat     -- softRecordLimit

structure St where
  curRev : Bytes := []    -- reverse of buffer[0:offsetSearch]
  restRev : Bytes := []   -- reverse of buffer[offsetSearch:offsetAppend]
  deriving DecidableEq, Repr

def St.offsetSearch (s : St) : Nat := s.curRev.length
def St.offsetAppend (s : St) : Nat := s.curRev.length + s.restRev.length

/-- a line has been completed (the byte fed was '\n') -/
def lineStep (t : Bytes → Bool) (s : St) : St × List Bytes :=
  let line := s.restRev.reverse
  if s.curRev ≠ [] ∧ line ≠ [] ∧ t line then
    ({ curRev := 10 :: s.restRev, restRev := [] }, [s.curRev.tail.reverse])
  else
    ({ curRev := 10 :: (s.restRev ++ s.curRev), restRev := [] }, [])

def feedByte (t : Bytes → Bool) (s : St) (b : Nat) : St × List Bytes :=
  if b = 10 then lineStep t s else ({ s with restRev := b :: s.restRev }, [])

/-- feed bytes one at a time, accumulating emitted records (newest first in `acc`) -/
def feedAux (t : Bytes → Bool) : St → Bytes → List Bytes → St × List Bytes
  | s, [], acc => (s, acc)
  | s, b :: bs, acc =>
    let (s', o) := feedByte t s b
    feedAux t s' bs (o ++ acc)

def feed (t : Bytes → Bool) (s : St) (bs : Bytes) : St × List Bytes :=
  let (s', acc) := feedAux t s bs []
  (s', acc.reverse)

/-- `checkOverflow` -/
def checkOverflow (c : Cfg) (t : Bytes → Bool) (s : St) : St × List Bytes :=
  if c.cap - s.offsetAppend ≥ c.soft then (s, [])
  else
    let next := s.restRev.reverse
    if s.curRev ≠ [] ∧ t next then
      let prev := s.curRev.tail.reverse
      ({}, (if t prev then [prev] else []) ++ [next])
    else
      let whole := (s.restRev ++ s.curRev).reverse
      ({}, if t whole then [whole] else [])

/-- `Read` when the connection delivers `frag` (`frag.length ≤ cap - offsetAppend`, `frag ≠ []`) -/
def read (c : Cfg) (t : Bytes → Bool) (s : St) (frag : Bytes) : St × List Bytes :=
  if frag = [] then (s, []) else
  let (s1, o1) := feed t s frag
  let (s2, o2) := checkOverflow c t s1
  (s2, o1 ++ o2)

/-- split a reversed buffer at its last '\n': (reverse of the part before it, part after it) -/
def splitLastNL : Bytes → Bytes → Option (Bytes × Bytes)
  | [], _ => none
  | b :: r, after => if b = 10 then some (r, after) else splitLastNL r (b :: after)

/-- `Flush` -/
def flush (t : Bytes → Bool) (s : St) : St × List Bytes :=
  match splitLastNL (s.restRev ++ s.curRev) [] with
  | none => (s, [])
  | some (recRev, after) =>
    let record := recRev.reverse
    ({ curRev := [], restRev := after.reverse }, if record ≠ [] ∧ t record then [record] else [])

/-- `FlushAll` -/
def flushAll (t : Bytes → Bool) (s : St) : St × List Bytes :=
  let bufRev := s.restRev ++ s.curRev
  let recRev := match bufRev with
    | 10 :: r => r
    | r => r
  ({}, if bufRev ≠ [] ∧ t recRev.reverse then [recRev.reverse] else [])

inductive Op where
  | read (frag : Bytes)
  | flush
  | flushAll
  deriving Repr

def step (c : Cfg) (t : Bytes → Bool) (s : St) : Op → St × List Bytes
  | .read f => read c t s f
  | .flush => flush t s
  | .flushAll => flushAll t s

def run (c : Cfg) (t : Bytes → Bool) : St → List Op → St × List Bytes
  | s, [] => (s, [])
  | s, op :: ops =>
    let (s1, o1) := step c t s op
    let (s2, o2) := run c t s1 ops
    (s2, o1 ++ o2)

end Frame
