import SlogModel.Model.Cfg

/-!
  M_cfg, the head of the file — `run/config.go` `ParseConfigFile`: `checkAndCreateSchema` (`base.NewLogSchema`), the
  by-key-set orchestration section (`orchestrate/obykeyset/config.go` `VerifyConfig`, `obase.NewTagBuilder`) and
  `checkMetricKeys`, against what instantiation does with the same values: `obykeyset.NewOrchestrator` (`Panicf` when the key
  locators or the tag builder fail) and the registration of the labelled counters (the Prometheus client panics on a label
  name that occurs twice: the labels are `key_<orchestration key>…` followed by `key_<metric key>…`).
  The tag template is given by its text (for the emptiness test) and its parse (`none` = the template compiler rejects it).
-/

namespace CfgFile
open Cfg

structure Head where
  fields : List Bytes
  maxFields : Nat
  orchKeys : List Bytes
  tag : Bytes
  tagParts : Tmpl
  metricKeys : List Bytes

def nodupB : List Bytes → Bool
  | [] => true
  | x :: r => !r.contains x && nodupB r

/-- `checkAndCreateSchema` + `base.NewLogSchema` -/
def schemaOK (h : Head) : Bool :=
  !h.fields.isEmpty && h.maxFields != 0 && decide (h.fields.length ≤ h.maxFields) && h.fields.all (fun n => !n.isEmpty) && nodupB h.fields

/-- the variable resolver of `NewTagBuilder`: a variable must be one of the key names -/
def tagPartOK (keys : List Bytes) : TPart → Bool
  | .lit _ => true
  | .var n => keys.contains n
  | .slice n _ _ => keys.contains n

def tagOK (keys : List Bytes) : Tmpl → Bool
  | none => false
  | some ps => ps.all (tagPartOK keys)

/-- `obykeyset.Config.VerifyConfig` -/
def orchOK (h : Head) : Bool :=
  !h.orchKeys.isEmpty && h.orchKeys.all (fun k => (locate ⟨h.fields⟩ k).isSome) && nodupB h.orchKeys &&
  !h.tag.isEmpty && tagOK h.orchKeys h.tagParts

/-- `checkMetricKeys` -/
def metricOK (h : Head) : Bool :=
  !h.metricKeys.isEmpty && h.metricKeys.all (fun k => (locate ⟨h.fields⟩ k).isSome) && nodupB h.metricKeys &&
  h.metricKeys.all (fun k => !h.orchKeys.contains k)

def verify (h : Head) : Bool := schemaOK h && orchOK h && metricOK h

/-! ### instantiation -/

structure Built where
  keyLocators : List Nat
  metricLocators : List Nat
  labels : List Bytes

/-- `NewOrchestrator` + counter registration -/
def construct (h : Head) : GoM Built :=
  match h.orchKeys.mapM (locate ⟨h.fields⟩) with
  | none => .error .explicit                      -- ologger.Panicf("keyFields: …")
  | some kl =>
    if !tagOK h.orchKeys h.tagParts then .error .explicit     -- ologger.Panicf("tagTemplate: …")
    else match h.metricKeys.mapM (locate ⟨h.fields⟩) with
      | none => .error .explicit                  -- MustCreateFieldLocators(metricKeys)
      | some ml =>
        if !nodupB (h.orchKeys ++ h.metricKeys) then .error .explicit   -- duplicate label names: the Prometheus client panics
        else .ok { keyLocators := kl, metricLocators := ml, labels := h.orchKeys ++ h.metricKeys }


/-! ### a syslog input (`input/sysloginput/sysloginput.go` `VerifyConfig`, `syslogparser.NewParser` / `MustNewParser`) -/

structure Input where
  addrSplits : Bool            -- net.SplitHostPort accepts `.address`
  levels : Nat                 -- number of entries of `.levelMapping`
  extractions : List TC

/-- the fields `syslogparser.NewParser` locates in the schema -/
def parserFields : List Bytes :=
  [b!"facility", b!"level", b!"time", b!"host", b!"app", b!"pid", b!"source", b!"extradata", b!"log"]

/-- `syslogparser.NewParser` returns no error -/
def parserOK (sch : Schema) (levels : Nat) : Bool :=
  (levels == 0 || levels == 8) && parserFields.all (fun f => (locate sch f).isSome)

/-- `sysloginput.Config.VerifyConfig` -/
def inputOK (sch : Schema) (i : Input) : Bool :=
  i.addrSplits && i.levels != 0 && !i.extractions.isEmpty && parserOK sch i.levels && verifySteps sch i.extractions

/-- what every new connection does: `MustNewParser` and `NewTransformsFromConfig` for the extraction steps -/
def constructInput (sch : Schema) (i : Input) : GoM (List Xform.Step) :=
  if !parserOK sch i.levels then .error .explicit       -- MustNewParser
  else match constructSteps sch 0 i.extractions with
    | .ok (p, _) => .ok p
    | .error e => .error e

end CfgFile
