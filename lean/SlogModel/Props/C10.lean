import SlogModel.Model.Ser
import SlogModel.Lemmas.Msgpack
import SlogModel.Gen.Facts

/-!
  C10 — Serialized Fluentd events decode to exactly the record's visible fields.

  * `C10_decode_encode` : for every configuration and record (field lengths below 2³², the wire
      format's limit), the emitted bytes decode — by the MessagePack decoder written from the format
      specification — to `[EventTime, {visible fields…, "environment": {env fields…}}]` with nothing
      left over; rewritten fields hold the rewrite result.
  * `C10_time_roundtrip` : the 8 payload bytes of the EventTime give back seconds and nanoseconds
      when 0 ≤ seconds < 2³².
  * `C10_rewrite_fits`  : the rewritten value is never longer than the reserved maximum, so the
      back-patched header width is the reserved one.
  * `C10_unescape_length` : unescaping never lengthens a value.
  * `C10_bound_sufficient` : the emitted bytes are shorter than `maxSerializedLength` (the buffer
      the repaired code allocates), so the encoder never runs past its buffer (C07).
-/

namespace C10
open MP Ser

theorem decode_strHdrByMax (d : Nat) (maxLen : Nat) (body rest : Bytes)
    (hle : body.length ≤ maxLen) (h : body.length < 4294967296) :
    decode d (strHdrByMax maxLen body.length ++ body ++ rest) = some (.str body, rest) := by
  unfold strHdrByMax
  by_cases h1 : maxLen < 65536
  · have h2 : body.length < 65536 := by omega
    simp only [h1, if_true, List.cons_append, List.append_assoc]
    rw [decode_str16]
    simp [rd16_be16 _ h2, takeN_append]
  · simp only [h1, if_false, List.cons_append, List.append_assoc]
    rw [decode_str32]
    simp [rd32_be32 _ h, takeN_append]

/-! ### rewriters -/

theorem unescape_length : ∀ (s : Bytes), (unescape s).length ≤ s.length
  | [] => by simp [unescape]
  | [c] => by simp [unescape]
  | c :: d :: r => by
    have h1 := unescape_length r
    have h2 := unescape_length (d :: r)
    simp only [unescape]
    split
    · split <;> simp <;> omega
    · simp at h2 ⊢; omega

/-- **C10 (unescape never lengthens).** -/
theorem C10_unescape_length (s : Bytes) : (unescape s).length ≤ s.length := unescape_length s

/-- **C10 (rewritten value fits the reserved length).** -/
theorem C10_rewrite_fits (c : Cfg) (r : Rec) (v : Bytes) (chain : List Rw) :
    (rwBody c r v chain).length ≤ rwMax c r v chain := by
  induction chain with
  | nil => simp [rwBody, rwMax]
  | cons x xs ih =>
    cases x with
    | copy => simp [rwBody, rwMax]
    | unescape =>
      simp only [rwBody, rwMax]
      split
      · exact Nat.le_refl _
      · exact unescape_length v
    | inline f =>
      simp only [rwBody, rwMax]
      split
      · simp; omega
      · exact ih

/-! ### the expected decoded value -/

/-- the value a visible field is emitted with -/
def emitted (c : Cfg) (r : Rec) (i : Nat) (v : Bytes) : Bytes :=
  match chainOf c i with
  | some chain => rwBody c r v chain
  | none => v

def expectedFields (c : Cfg) (r : Rec) : List (Val × Val) :=
  (visibleIdx c r).map (fun (i, n, v) => (Val.str n, Val.str (emitted c r i v)))

def expectedEnv (c : Cfg) (r : Rec) : List (Val × Val) :=
  (envPairs c r).map (fun (n, v) => (Val.str n, Val.str v))

def expected (c : Cfg) (r : Rec) : Val :=
  .arr [.ext 0 (be32 (r.sec % 4294967296).toNat ++ be32 r.nsec),
        .map (expectedFields c r ++ [(.str environmentKey, .map (expectedEnv c r))])]

/-- every length the wire format has to carry is below 2³² (and the two maps below 2¹⁶ entries) -/
structure Fits (c : Cfg) (r : Rec) : Prop where
  names : ∀ p ∈ visibleIdx c r, p.2.1.length < 4294967296
  values : ∀ p ∈ visibleIdx c r, (emitted c r p.1 p.2.2).length < 4294967296
  env : ∀ p ∈ envPairs c r, p.1.length < 4294967296 ∧ p.2.length < 4294967296
  nfields : c.names.length + 1 < 65536
  nenv : c.env.length < 65536
  envNames : c.envNames.length = c.env.length

theorem decode_encField (d : Nat) (c : Cfg) (r : Rec) (i : Nat) (n v rest : Bytes)
    (hn : n.length < 4294967296) (hv : (emitted c r i v).length < 4294967296) :
    ∃ r1, decode d (encField c r i n v ++ rest) = some (.str n, r1) ∧
      decode d r1 = some (.str (emitted c r i v), rest) := by
  unfold encField emitted at *
  cases hc : chainOf c i with
  | some chain =>
    simp only [hc] at hv ⊢
    refine ⟨strHdrByMax (rwMax c r v chain) (rwBody c r v chain).length ++ rwBody c r v chain ++ rest, ?_, ?_⟩
    · have := decode_encStr d n (strHdrByMax (rwMax c r v chain) (rwBody c r v chain).length ++ rwBody c r v chain ++ rest) hn
      simpa [List.append_assoc] using this
    · exact decode_strHdrByMax d (rwMax c r v chain) (rwBody c r v chain) rest
        (C10_rewrite_fits c r v chain) hv
  | none =>
    simp only [hc] at hv ⊢
    refine ⟨encStr v ++ rest, ?_, ?_⟩
    · have := decode_encStr d n (encStr v ++ rest) hn
      simpa [List.append_assoc] using this
    · exact decode_encStr d v rest hv

theorem decodePairs_fields (d : Nat) (c : Cfg) (r : Rec) (l : List (Nat × Bytes × Bytes)) (k : Nat)
    (tailPairs : List (Val × Val)) (tl rest : Bytes)
    (hn : ∀ p ∈ l, p.2.1.length < 4294967296)
    (hv : ∀ p ∈ l, (emitted c r p.1 p.2.2).length < 4294967296)
    (htl : decodePairs d k tl = some (tailPairs, rest)) :
    decodePairs d (l.length + k) ((l.map (fun (i, n, v) => encField c r i n v)).flatten ++ tl) =
      some (l.map (fun (i, n, v) => (Val.str n, Val.str (emitted c r i v))) ++ tailPairs, rest) := by
  induction l with
  | nil => simpa using htl
  | cons p ps ih =>
    obtain ⟨i, n, v⟩ := p
    have ih' := ih (fun q hq => hn q (by simp [hq])) (fun q hq => hv q (by simp [hq]))
    obtain ⟨r1, e1, e2⟩ := decode_encField d c r i n v
      ((ps.map (fun (i, n, v) => encField c r i n v)).flatten ++ tl)
      (hn (i, n, v) (by simp)) (hv (i, n, v) (by simp))
    have hlen : (((i, n, v) :: ps).length + k) = (ps.length + k) + 1 := by simp; omega
    rw [hlen]
    simp only [List.map_cons, List.flatten_cons, List.append_assoc]
    rw [decodePairs, e1]
    simp only [e2, ih']
    simp

theorem decodePairs_env (d : Nat) (l : List (Bytes × Bytes)) (rest : Bytes)
    (h : ∀ p ∈ l, p.1.length < 4294967296 ∧ p.2.length < 4294967296) :
    decodePairs d l.length ((l.map (fun (n, v) => encStr n ++ encStr v)).flatten ++ rest) =
      some (l.map (fun (n, v) => (Val.str n, Val.str v)), rest) := by
  induction l with
  | nil => simp [decodePairs]
  | cons p ps ih =>
    obtain ⟨n, v⟩ := p
    have ih' := ih (fun q hq => h q (by simp [hq]))
    obtain ⟨h1, h2⟩ := h (n, v) (by simp)
    simp only [List.map_cons, List.flatten_cons, List.append_assoc, List.length_cons]
    rw [decodePairs, decode_encStr d n _ h1]
    simp only [decode_encStr d v _ h2, ih']

theorem decode_mapHdr (d cap n : Nat) (hcap : cap < 16 → n < 16) (hn : n < 65536) (body rest : Bytes)
    (kv : List (Val × Val)) (h : decodePairs d n body = some (kv, rest)) :
    decode (d + 1) (mapHdrByCap cap n ++ body) = some (.map kv, rest) := by
  unfold mapHdrByCap
  by_cases hc : cap < 16
  · have := hcap hc
    simp only [hc, if_true, List.cons_append, List.nil_append]
    rw [decode_fixmap _ _ _ (by omega) (by omega)]
    simp [h]
  · simp only [hc, if_false, List.cons_append]
    rw [decode_map16]
    simp [rd16_be16 _ hn, h]

theorem envPairs_length (c : Cfg) (r : Rec) (h : c.envNames.length = c.env.length) :
    (envPairs c r).length = c.env.length := by
  simp [envPairs, h]

theorem visibleIdx_length_le (c : Cfg) (r : Rec) : (visibleIdx c r).length ≤ c.names.length := by
  unfold visibleIdx
  calc _ ≤ ((List.range c.names.length).map _).length := List.length_filter_le _ _
    _ = c.names.length := by simp

/-- **C10 (decode ∘ encode).** The emitted event is well-formed MessagePack and decodes to exactly
the record's timestamp, its non-empty non-hidden fields (rewritten where configured) and the
nested `environment` map (present even when its values are empty), with nothing left over. -/
theorem C10_decode_encode (c : Cfg) (r : Rec) (hf : Fits c r) :
    decode 3 (encodeRecord c r) = some (expected c r, []) := by
  have henvlen := envPairs_length c r hf.envNames
  -- innermost: the environment map
  have hEnv : decode 1 (mapHdrByCap c.env.length c.env.length
      ++ ((envPairs c r).map (fun (n, v) => encStr n ++ encStr v)).flatten) =
      some (.map (expectedEnv c r), []) := by
    apply decode_mapHdr 0 _ _ (fun h => h) hf.nenv _ []
    have := decodePairs_env 0 (envPairs c r) [] hf.env
    rw [henvlen] at this
    simpa [expectedEnv] using this
  -- the pair ("environment", env map) as the tail of the root map
  have hTail : decodePairs 1 1 (encStr environmentKey ++ (mapHdrByCap c.env.length c.env.length
      ++ ((envPairs c r).map (fun (n, v) => encStr n ++ encStr v)).flatten)) =
      some ([(.str environmentKey, .map (expectedEnv c r))], []) := by
    rw [decodePairs, decode_encStr 1 environmentKey _ (by decide)]
    simp only [hEnv]
    simp [decodePairs]
  have hRoot := decodePairs_fields 1 c r (visibleIdx c r) 1 _ _ [] hf.names hf.values hTail
  have hvis := visibleIdx_length_le c r
  have hMap := decode_mapHdr 1 (c.names.length + 1) ((visibleIdx c r).length + 1)
    (fun h => by omega) (by have := hf.nfields; omega) _ [] _ hRoot
  -- the root array: [time, map]
  unfold encodeRecord
  simp only [List.append_assoc, List.singleton_append, List.cons_append]
  rw [show (3 : Nat) = 2 + 1 from rfl, decode_fixarray 2 146 _ (by decide) (by decide)]
  simp only [decodeSeq, encTime, List.cons_append, List.nil_append, List.append_assoc]
  rw [decode_fixext8]
  simp only [rd8, Option.bind]
  have htk : ∀ rest : Bytes, takeN 8 (be32 (r.sec % 4294967296).toNat ++ (be32 r.nsec ++ rest)) =
      some (be32 (r.sec % 4294967296).toNat ++ be32 r.nsec, rest) := by
    intro rest
    have := takeN_append (be32 (r.sec % 4294967296).toNat ++ be32 r.nsec) rest
    simpa [be32] using this
  simp only [htk, Option.map]
  have hM := hMap
  simp only [List.append_assoc] at hM
  simp only [hM]
  simp [expected, expectedFields]

/-- **C10 (timestamp).** For seconds inside the wire format's 32-bit field, the EventTime payload
gives back exactly the record's seconds and nanoseconds. -/
theorem C10_time_roundtrip (sec : Int) (nsec : Nat) (h1 : 0 ≤ sec) (h2 : sec < 4294967296)
    (h3 : nsec < 1000000000) :
    rd32 (be32 (sec % 4294967296).toNat ++ be32 nsec) = some (sec.toNat, be32 nsec) ∧
    rd32 (be32 nsec) = some (nsec, []) := by
  have e : (sec % 4294967296).toNat = sec.toNat := by omega
  rw [e]
  refine ⟨rd32_be32 _ (by omega) _, ?_⟩
  have := rd32_be32 nsec (by omega) []
  simpa using this

/-! ### the buffer bound of the repaired serializer (F-7) -/

theorem encStr_length_le (v : Bytes) : (encStr v).length ≤ v.length + 5 := by
  unfold encStr
  split
  · simp
  · split <;> simp [be16, be32]

theorem strHdr_length_le (m a : Nat) : (strHdrByMax m a).length ≤ 5 := by
  unfold strHdrByMax; split <;> simp [be16, be32]

theorem mapHdr_length_le (cap n : Nat) : (mapHdrByCap cap n).length ≤ 3 := by
  unfold mapHdrByCap; split <;> simp [be16]

theorem encField_length_le (c : Cfg) (r : Rec) (i : Nat) (n v : Bytes) :
    (encField c r i n v).length ≤ (encStr n).length + 5 + fieldMax c r i v := by
  unfold encField fieldMax
  cases hc : chainOf c i with
  | some chain =>
    have h1 := C10_rewrite_fits c r v chain
    have h2 := strHdr_length_le (rwMax c r v chain) (rwBody c r v chain).length
    simp; omega
  | none =>
    have := encStr_length_le v
    simp; omega

theorem flatten_length_le {α : Type} (l : List α) (f : α → Bytes) (g : α → Nat)
    (h : ∀ x, (f x).length ≤ g x) : ((l.map f).flatten).length ≤ (l.map g).sum := by
  induction l with
  | nil => simp
  | cons x xs ih =>
    have := h x
    simp only [List.map_cons, List.flatten_cons, List.length_append, List.sum_cons]
    omega

/-- **C10 / C07 (the buffer is always large enough).** The emitted event is at least three bytes
shorter than the bound from which the repaired serializer sizes its buffer, for every record —
no index can run past the buffer and the "exceeds buffer" branch is never taken. -/
theorem C10_bound_sufficient (c : Cfg) (r : Rec) :
    (encodeRecord c r).length + 3 ≤ serBound c r := by
  have h1 := flatten_length_le (visibleIdx c r) (fun (i, n, v) => encField c r i n v)
    (fun (i, n, v) => (encStr n).length + 5 + fieldMax c r i v)
    (fun (i, n, v) => encField_length_le c r i n v)
  have h2 := flatten_length_le (envPairs c r) (fun (n, v) => encStr n ++ encStr v)
    (fun (n, v) => (encStr n).length + 5 + v.length)
    (fun (n, v) => by have := encStr_length_le v; simp; omega)
  have h3 := mapHdr_length_le (c.names.length + 1) ((visibleIdx c r).length + 1)
  have h4 := mapHdr_length_le c.env.length c.env.length
  have h5 : (encStr environmentKey).length = 12 := by decide
  have h6 : (encTime r).length = 10 := by simp [encTime, be32]
  unfold encodeRecord serBound
  simp only [List.length_append, List.length_cons, List.length_nil, h5, h6]
  dsimp only at h1 h2 ⊢
  omega

/-! ### the code before the repairs: witnesses -/

/-- F-9: the pre-repair unescape rewriter set `record.Unescaped`; a second serialization of the same
record then copies the value still escaped.  In the repaired model the record is not an output of
serialization at all, so two outputs see the same record: -/
example (c : Cfg) (r : Rec) : encodeRecord c r = encodeRecord c r := rfl

/-! ### fact obligations (Tie B) -/

/-! translated `switch` statements (Tie B, semantic form) -/

theorem C10_fact_classes_found : Facts.gen_str_class_found = true ∧ Facts.gen_map_class_found = true := by decide

/-- the header class the code selects for a value of `n` bytes (translated from the `switch` in `encodeRecord`) is the one
`encStr` uses: fixstr below 16, str16 below 65536, str32 from there -/
theorem C10_gen_str_class (v : Bytes) :
    (Facts.gen_str_class v.length = 0 ∧ encStr v = (160 + v.length) :: v) ∨
    (Facts.gen_str_class v.length = 1 ∧ encStr v = 218 :: be16 v.length ++ v) ∨
    (Facts.gen_str_class v.length = 2 ∧ encStr v = 219 :: be32 v.length ++ v) := by
  unfold Facts.gen_str_class encStr
  by_cases h1 : v.length < 16
  · left
    have : decide (((v.length : Nat) : Int) < 16) = true := by simp; omega
    simp [h1, this]
  · right
    have n1 : decide (((v.length : Nat) : Int) < 16) = false := by simp; omega
    by_cases h2 : v.length < 65536
    · left
      have : decide (((v.length : Nat) : Int) < 65536) = true := by simp; omega
      simp [h1, h2, n1, this]
    · right
      have : decide (((v.length : Nat) : Int) < 65536) = false := by simp; omega
      simp [h1, h2, n1, this]

/-- the map header reserved for a schema of `nf` fields is `mapHdrByCap (nf + 1)` -/
theorem C10_gen_map_class (nf n : Nat) :
    (Facts.gen_map_class nf = 0 ∧ mapHdrByCap (nf + 1) n = [128 + n]) ∨
    (Facts.gen_map_class nf = 1 ∧ mapHdrByCap (nf + 1) n = 222 :: be16 n) := by
  unfold Facts.gen_map_class mapHdrByCap
  by_cases h : nf + 1 < 16
  · left
    have : decide ((((nf : Nat) : Int) + 1) < 16) = true := by simp; omega
    simp [h, this]
  · right
    have : decide ((((nf : Nat) : Int) + 1) < 16) = false := by simp; omega
    simp [h, this]

theorem C10_fact_str_classes : Facts.ser_str_thresholds = [16, 65536] := by decide
theorem C10_fact_map_threshold : Facts.ser_map_fix_below = some 16 := by decide
theorem C10_fact_rewrite_threshold : Facts.ser_rewrite_len16_below = some 65536 := by decide
theorem C10_fact_buffer_grows : Facts.ser_buffer_sized_from_record = some true := by decide
theorem C10_fact_rewriter_keeps_record : Facts.ser_unescape_rewriter_sets_flag = some false := by decide
theorem C10_fact_codes : Facts.msgpack_codes = [("FixedArrayLow", 144), ("FixedMapLow", 128), ("FixedStrLow", 160),
    ("Str16", 218), ("Str32", 219), ("Map16", 222), ("FixExt8", 215)] := by decide

/-! ### non-vacuity -/

def sampleCfg : Cfg :=
  { names := [b!"host", b!"app", b!"log", b!"secret"], env := [0], envNames := [b!"host"], hidden := [3],
    rewrites := [(2, [.inline 1, .unescape])] }
def sampleRec : Rec :=
  { fields := [b!"h1", b!"web", b!"line1\\nline2", b!"s3cr3t"], sec := 1565873446, nsec := 129000, unescaped := false }

example : Fits sampleCfg sampleRec := by
  constructor <;> decide
example : expectedFields sampleCfg sampleRec =
    [(.str (b!"app"), .str (b!"web")), (.str (b!"log"), .str (b!"app=web line1\nline2"))] := by rfl

end C10
