import SlogModel.Model.Cfg
import SlogModel.Model.CfgSer
import SlogModel.Model.CfgFile
import SlogModel.Lemmas.XformTotal
import SlogModel.Gen.Facts

/-!
  C16 — Accepted configurations always instantiate; rejected ones fail cleanly.

  * `C16_verify_sound` : if verification accepts a (nested) list of transform configurations, then
      construction succeeds — none of the `Must…` / `panic` sites of the constructors can fire —
      and the constructed program processes every record without panicking.
  * `C16_extractor_wf` : every extractor the constructor returns satisfies what the run-time code
      relies on (a bare `*` has its far boundary, a character class has a 256-entry table).
  * `C16_fact_must_sites` : the inventory of `Must…` / `panic` sites in constructors, regenerated
      from the source, equals the reviewed list (each entry is covered by a verification check).
  The YAML decoding / section-presence glue is decided by the correspondence run (generated and
  mutated configuration files through the real loader, under `recover` and in a sub-process).
-/

namespace C16
open Cfg Xform XT

theorem locate_lt (sch : Schema) (name : Bytes) (i : Nat) (h : locate sch name = some i) :
    i < sch.names.length := by
  obtain ⟨hlt, _⟩ := List.idxOf?_eq_some_iff.mp h
  exact hlt

theorem mustLocate_ok (sch : Schema) (name : Bytes) (h : (locate sch name).isSome = true) :
    ∃ i, mustLocate sch name = .ok i ∧ i < sch.names.length := by
  cases hl : locate sch name with
  | none => simp [hl] at h
  | some i => exact ⟨i, by simp [mustLocate, hl], locate_lt sch name i hl⟩

theorem keyVerify_ok (sch : Schema) (k : Bytes) (h : keyVerify sch k = true) :
    ∃ i, mustLocate sch k = .ok i ∧ i < sch.names.length := by
  simp [keyVerify] at h
  exact mustLocate_ok sch k (by simp [h.2])

theorem parts_ok (sch : Schema) (ps : List TPart) (h : ps.all (partVerify sch) = true) :
    ∃ out, partsConstruct sch ps = .ok out ∧ ∀ p ∈ out, partOK sch.names.length p := by
  induction ps with
  | nil => exact ⟨[], rfl, by simp⟩
  | cons p r ih =>
    simp only [List.all_cons, Bool.and_eq_true] at h
    obtain ⟨out, h1, h2⟩ := ih h.2
    cases p with
    | lit s =>
      exact ⟨.lit s :: out, by simp [partsConstruct, partConstruct, bind, Except.bind, h1, pure, Except.pure],
        by intro q hq; simp at hq; rcases hq with rfl | hq; exact trivial; exact h2 q hq⟩
    | var n =>
      obtain ⟨i, hi, hlt⟩ := mustLocate_ok sch n (by simpa [partVerify] using h.1)
      exact ⟨.var i :: out, by simp [partsConstruct, partConstruct, bind, Except.bind, h1, hi, pure, Except.pure],
        by intro q hq; simp at hq; rcases hq with rfl | hq; exact hlt; exact h2 q hq⟩
    | slice n a b =>
      obtain ⟨i, hi, hlt⟩ := mustLocate_ok sch n (by simpa [partVerify] using h.1)
      exact ⟨.slice i a b :: out, by simp [partsConstruct, partConstruct, bind, Except.bind, h1, hi, pure, Except.pure],
        by intro q hq; simp at hq; rcases hq with rfl | hq; exact hlt; exact h2 q hq⟩

theorem tmpl_ok (sch : Schema) (t : Tmpl) (h : tmplVerify sch t = true) :
    ∃ out, tmplConstruct sch t = .ok out ∧ ∀ p ∈ out, partOK sch.names.length p := by
  cases t with
  | none => simp [tmplVerify] at h
  | some ps => exact parts_ok sch ps h

theorem match_ok (sch : Schema) (m : MatchCfg) (h : matchVerify sch m = true) :
    ∃ out, matchConstruct sch m = .ok out := by
  induction m with
  | nil => exact ⟨[], rfl⟩
  | cons p r ih =>
    obtain ⟨k, vm⟩ := p
    simp only [matchVerify, List.all_cons, Bool.and_eq_true] at h
    obtain ⟨out, h1⟩ := ih (by simpa [matchVerify] using h.2)
    obtain ⟨i, hi, _⟩ := mustLocate_ok sch k h.1
    exact ⟨(i, vm) :: out, by simp [matchConstruct, bind, Except.bind, h1, hi, pure, Except.pure]⟩

theorem pairs_ok (sch : Schema) (pairs : List (Bytes × Tmpl))
    (h : pairs.all (fun (d, t) => (locate sch d).isSome && tmplVerify sch t) = true) :
    ∃ out, pairsConstruct sch pairs = .ok out ∧ ∀ p ∈ out, ∀ part ∈ p.2, partOK sch.names.length part := by
  induction pairs with
  | nil => exact ⟨[], rfl, by simp⟩
  | cons p r ih =>
    obtain ⟨d, t⟩ := p
    simp only [List.all_cons, Bool.and_eq_true] at h
    obtain ⟨out, h1, h2⟩ := ih h.2
    obtain ⟨i, hi, _⟩ := mustLocate_ok sch d h.1.1
    obtain ⟨ps, hp, hok⟩ := tmpl_ok sch t h.1.2
    refine ⟨(i, ps) :: out, by simp [pairsConstruct, bind, Except.bind, h1, hi, hp, pure, Except.pure], ?_⟩
    intro q hq
    simp at hq
    rcases hq with rfl | hq
    · exact hok
    · exact h2 q hq

theorem keys_ok (sch : Schema) (keys : List Bytes) (h : keys.all (fun k => (locate sch k).isSome) = true) :
    ∃ out, keysConstruct sch keys = .ok out := by
  induction keys with
  | nil => exact ⟨[], rfl⟩
  | cons k r ih =>
    simp only [List.all_cons, Bool.and_eq_true] at h
    obtain ⟨out, h1⟩ := ih h.2
    obtain ⟨i, hi, _⟩ := mustLocate_ok sch k h.1
    exact ⟨i :: out, by simp [keysConstruct, bind, Except.bind, h1, hi, pure, Except.pure]⟩

/-! ### extractors -/

theorem setRange_length (t : List Bool) (lo hi : Nat) (v : Bool) : (setRange t lo hi v).length = t.length := by
  simp [setRange]

theorem fillLoop_length (expr : Bytes) (listed : Bool) (fuel i : Nat) (rs : Bool) (t out : List Bool)
    (h : fillLoop expr listed fuel i rs t = some out) : out.length = t.length := by
  induction fuel generalizing i rs t with
  | zero => simp [fillLoop] at h; rw [← h]
  | succ n ih =>
    simp only [fillLoop] at h
    split at h
    · simp at h; rw [← h]
    · split at h
      · split at h
        · cases h
        · split at h
          · exact ih _ _ _ h
          · have := ih _ _ _ h; rw [List.length_set] at this; exact this
      · split at h
        · have := ih _ _ _ h; rw [setRange_length] at this; exact this
        · have := ih _ _ _ h; rw [List.length_set] at this; exact this

theorem classTable_length (b : Bytes) (t : List Bool) (h : classTable b = some t) : t.length = 256 := by
  unfold classTable at h
  simp only [] at h
  split at h
  · cases h
  · split at h
    · have := fillLoop_length _ _ _ _ _ _ _ h; rw [List.length_replicate] at this; exact this
    · have := fillLoop_length _ _ _ _ _ _ _ h; rw [List.length_replicate] at this; exact this

/-- **C16 (constructed extractors are well formed).** -/
theorem C16_extractor_wf (fromEnd : Bool) (pattern : Bytes) (maxRange : Nat) (e : Extractor)
    (h : newExtractor fromEnd pattern maxRange = some e) : e.WF ∧ e.fromEnd = fromEnd := by
  unfold newExtractor at h
  split at h
  · cases h
  · rename_i l w r _
    split at h
    · cases h
    · split at h
      · split at h
        · cases h
        · rename_i hfar
          simp at h
          subst h
          refine ⟨⟨?_, by intro t ht; simp at ht⟩, rfl⟩
          intro _
          cases fromEnd <;> simp_all
      · split at h
        · cases h
        · split at h
          · cases h
          · rename_i t ht
            simp at h
            subst h
            exact ⟨⟨by intro hv; simp at hv, by intro t' ht'; simp at ht'; subst ht'; exact classTable_length _ _ ht⟩, rfl⟩

/-! ### soundness of verification -/

/-- the construction of one step succeeded with a well-formed result -/
def Built (sch : Schema) (x : GoM (Step × Nat)) : Prop :=
  ∃ s nx, x = .ok (s, nx) ∧ stepWF sch.names.length s
def BuiltSteps (sch : Schema) (x : GoM (List Step × Nat)) : Prop :=
  ∃ s nx, x = .ok (s, nx) ∧ stepsWF sch.names.length s
def BuiltCases (sch : Schema) (x : GoM (List (Xform.Match × List Step) × Nat)) : Prop :=
  ∃ s nx, x = .ok (s, nx) ∧ casesWF sch.names.length s

mutual
theorem constructStep_ok (sch : Schema) (next : Nat) : (c : TC) → verifyStep sch c = true →
    Built sch (constructStep sch next c)
  | .addFields pairs, h => by
    simp only [verifyStep, Bool.and_eq_true] at h
    obtain ⟨out, h1, h2⟩ := pairs_ok sch pairs h.2
    exact ⟨.addFields out, next, by simp [constructStep, bind, Except.bind, h1, pure, Except.pure], by simpa [stepWF] using h2⟩
  | .delFields keys, h => by
    simp only [verifyStep, Bool.and_eq_true] at h
    obtain ⟨out, h1⟩ := keys_ok sch keys h.2
    exact ⟨.delFields out, next, by simp [constructStep, bind, Except.bind, h1, pure, Except.pure], by simp [stepWF]⟩
  | .mapValue key mapping dflt, h => by
    simp only [verifyStep, Bool.and_eq_true] at h
    obtain ⟨i, hi, _⟩ := keyVerify_ok sch key h.1
    exact ⟨.mapValue i mapping dflt, next, by simp [constructStep, bind, Except.bind, hi, pure, Except.pure], by simp [stepWF]⟩
  | .iff m thn, h => by
    simp only [verifyStep, Bool.and_eq_true] at h
    obtain ⟨m', hm⟩ := match_ok sch m h.1.1.2
    obtain ⟨t, nx, ht, hw⟩ := constructSteps_ok sch next thn h.2
    exact ⟨.iff m' t, nx, by simp [constructStep, bind, Except.bind, hm, ht, pure, Except.pure], by simpa [stepWF] using hw⟩
  | .switch cases, h => by
    simp only [verifyStep, Bool.and_eq_true] at h
    obtain ⟨t, nx, ht, hw⟩ := constructCases_ok sch next cases h.2
    exact ⟨.switch t, nx, by simp [constructStep, bind, Except.bind, ht, pure, Except.pure], by simpa [stepWF] using hw⟩
  | .block steps, h => by
    simp only [verifyStep, Bool.and_eq_true] at h
    obtain ⟨t, nx, ht, hw⟩ := constructSteps_ok sch next steps h.2
    exact ⟨.block t, nx, by simp [constructStep, bind, Except.bind, ht, pure, Except.pure], by simpa [stepWF] using hw⟩
  | .drop m rate label, h => by
    simp only [verifyStep, Bool.and_eq_true] at h
    obtain ⟨m', hm⟩ := match_ok sch m h.1.1.1.2
    exact ⟨.drop m' rate.toNat next, next + 1, by simp [constructStep, bind, Except.bind, hm, pure, Except.pure], by simp [stepWF]⟩
  | .extract fromEnd key pattern maxLen dest, h => by
    simp only [verifyStep, Bool.and_eq_true] at h
    obtain ⟨i, hi, _⟩ := keyVerify_ok sch key h.1.1.1.1
    obtain ⟨j, hj, _⟩ := keyVerify_ok sch dest h.2
    cases he : newExtractor fromEnd pattern maxLen.toNat with
    | none => simp [he] at h
    | some e =>
      exact ⟨.extract e i j, next, by simp [constructStep, bind, Except.bind, he, hi, hj, pure, Except.pure],
        by simpa [stepWF] using (C16_extractor_wf _ _ _ _ he).1⟩
  | .truncate key maxLen suffix, h => by
    simp only [verifyStep, Bool.and_eq_true] at h
    obtain ⟨i, hi, _⟩ := keyVerify_ok sch key h.1.1
    exact ⟨.truncate i maxLen.toNat suffix, next, by simp [constructStep, bind, Except.bind, hi, pure, Except.pure], by simp [stepWF]⟩
  | .unescape key, h => by
    simp only [verifyStep] at h
    obtain ⟨i, hi, _⟩ := keyVerify_ok sch key h
    exact ⟨.unescape i, next, by simp [constructStep, bind, Except.bind, hi, pure, Except.pure], by simp [stepWF]⟩
  | .redactEmail key label, h => by
    simp only [verifyStep, Bool.and_eq_true] at h
    obtain ⟨i, hi, _⟩ := keyVerify_ok sch key h.1
    exact ⟨.redactEmail i, next, by simp [constructStep, bind, Except.bind, hi, pure, Except.pure], by simp [stepWF]⟩
  | .parseTime key label, h => by
    simp only [verifyStep, Bool.and_eq_true] at h
    obtain ⟨i, hi, _⟩ := keyVerify_ok sch key h.1
    exact ⟨.parseTime i, next, by simp [constructStep, bind, Except.bind, hi, pure, Except.pure], by simp [stepWF]⟩
  | .regex key patternOK captures, h => by
    simp only [verifyStep, Bool.and_eq_true] at h
    obtain ⟨i, hi, _⟩ := keyVerify_ok sch key h.1.1
    obtain ⟨ds, hd⟩ := keys_ok sch captures h.2
    have hp : patternOK = true := h.1.2
    exact ⟨.opaque i ds, next, by simp [constructStep, bind, Except.bind, hi, hd, hp, pure, Except.pure], by simp [stepWF]⟩

theorem constructSteps_ok (sch : Schema) (next : Nat) : (l : List TC) → verifySteps sch l = true →
    BuiltSteps sch (constructSteps sch next l)
  | [], _ => ⟨[], next, rfl, trivial⟩
  | c :: r, h => by
    simp only [verifySteps, Bool.and_eq_true] at h
    obtain ⟨s, n1, hs, hw⟩ := constructStep_ok sch next c h.1
    obtain ⟨r', n2, hr, hwr⟩ := constructSteps_ok sch n1 r h.2
    exact ⟨s :: r', n2, by simp [constructSteps, bind, Except.bind, hs, hr, pure, Except.pure], by simpa [stepsWF] using ⟨hw, hwr⟩⟩

theorem constructCases_ok (sch : Schema) (next : Nat) : (l : List (MatchCfg × List TC)) →
    verifyCases sch l = true → BuiltCases sch (constructCases sch next l)
  | [], _ => ⟨[], next, rfl, trivial⟩
  | (m, thn) :: r, h => by
    simp only [verifyCases, Bool.and_eq_true] at h
    obtain ⟨m', hm⟩ := match_ok sch m h.1.1.1.2
    obtain ⟨t, n1, ht, hw⟩ := constructSteps_ok sch next thn h.1.2
    obtain ⟨r', n2, hr, hwr⟩ := constructCases_ok sch n1 r h.2
    exact ⟨(m', t) :: r', n2, by simp [constructCases, bind, Except.bind, hm, ht, hr, pure, Except.pure], by simpa [casesWF] using ⟨hw, hwr⟩⟩
end

/-- **C16 (verification is sound).** Every list of transform configurations that verification
accepts can be constructed — no `Must…` / `panic` site of any constructor fires, at any nesting
depth — and the constructed program processes every record of the schema's width without
panicking. -/
theorem C16_verify_sound (sch : Schema) (cfg : List TC) (h : verifySteps sch cfg = true) :
    ∃ prog nx, constructSteps sch 0 cfg = .ok (prog, nx) ∧
      ∀ (st : XState) (r : Rec), r.fields.length = sch.names.length →
        ∃ res r' st', runSteps st r prog = .ok (res, r', st') := by
  obtain ⟨prog, nx, h1, h2⟩ := constructSteps_ok sch 0 cfg h
  refine ⟨prog, nx, h1, ?_⟩
  intro st r hl
  obtain ⟨res, r', st', h3, _⟩ := runSteps_total sch.names.length st r hl prog h2
  exact ⟨res, r', st', h3⟩

/-! ### fact obligations (Tie B) -/

/-- the reviewed inventory of `Must…` / `panic` / `Fatal` sites in constructors; each is annotated with
the verification check that excludes it.  A new site changes the regenerated list and breaks this. -/
def reviewedMustSites : List String := [
    "base/bmatch/logmatcherconfig.go:NewMatcher:schema.MustCreateFieldLocator(key)",   -- LogMatcherConfig.VerifyConfig checks every key (Cfg.matchVerify)
    "input/sysloginput/sysloginput.go:NewInput:parentLogger.Panic(\"failed to create parser: \")",   -- syslog Config.VerifyConfig builds a dummy parser with the same arguments
    "input/sysloginput/sysloginput.go:NewParser:syslogparser.MustNewParser(slogger)",   -- same
    "input/syslogparser/syslogparser.go:MustNewParser:parentLogger.Panic(\"failed to create SyslogParser: \")",   -- same
    "orchestrate/obykeyset/orchestrator.go:NewOrchestrator:ologger.Panicf(\"keyFields: %s\")",   -- obykeyset Config.VerifyConfig: CreateFieldLocators(cfg.Keys)
    "orchestrate/obykeyset/orchestrator.go:NewOrchestrator:ologger.Panicf(\"tagTemplate: %s\")",   -- obykeyset Config.VerifyConfig: NewTagBuilder
    "output/datadog/clientworker.go:NewClientWorker:parentLogger.Panic(err)",   -- datadog Config.VerifyConfig: http.NewRequest on the address (repaired F-10h)
    "output/fluentdforward/config.go:NewChunkMaker:parentLogger.Fatalf(\"unsupported message mode: %s\")",   -- fluentdforward VerifyConfig: messageMode is one of the three
    "output/fluentdforward/config.go:NewSerializer:MustNewEventSerializer(parentLogger)",   -- fluentdforward VerifyConfig: environmentFields in schema (repaired F-10d), rewriters verified
    "output/fluentdforward/eventserializer.go:MustNewEventSerializer:logger.Panic(\"failed to create FluentdForwardEventSer)",   -- same
    "rewrite/rcopy/rcopy.go:NewRewriter:logger.Panic(\"'copy' must be the last rewriter\")",   -- VerifyConfig(hasNext)
    "rewrite/rinline/rinline.go:NewRewriter:logger.Panic(\"'inline' cannot be the last rewriter\")",   -- VerifyConfig(hasNext)
    "rewrite/rinline/rinline.go:NewRewriter:schema.MustCreateFieldLocator(c.Field)",   -- VerifyConfig .field
    "rewrite/runescape/runescape.go:NewRewriter:logger.Panic(\"'unescape' must be the last rewriter\")",   -- VerifyConfig(hasNext)
    "run/loader.go:NewLoaderFromConfigFile:schema.MustCreateFieldLocators(config.MetricKeys)",   -- checkMetricKeys
    "run/loader.go:StartOrchestrator:loader.logger.Panic(\"StartOrchestrator can only be invoked o)",   -- API misuse guard, not configuration dependent
    "transform/taddfields/taddfields.go:NewTransform:panic(err)",   -- VerifyConfig compiles every template (Cfg.tmplVerify)
    "transform/taddfields/taddfields.go:NewTransform:schema.MustCreateFieldLocator(dstKey)",   -- VerifyConfig checks every destination
    "transform/tdelfields/tdelfields.go:NewTransform:schema.MustCreateFieldLocator(key)",   -- VerifyConfig checks every key
    "transform/textract/textract.go:NewTransform:regexp.MustCompile(c.Pattern)",   -- VerifyConfig compiles the pattern
    "transform/textract/textract.go:NewTransform:schema.MustCreateFieldLocator(c.Key)",   -- VerifyConfig .key
    "transform/textract/textract.go:NewTransform:schema.MustCreateFieldLocator(name)",   -- VerifyConfig checks every capture name (repaired F-10c)
    "transform/textractspecial/textractspecial.go:NewTransform:panic(err)",   -- VerifyConfig builds the extractor with the same function (repaired F-10a/b)
    "transform/textractspecial/textractspecial.go:NewTransform:schema.MustCreateFieldLocator(c.DestKey)",   -- VerifyConfig .key / .destKey
    "transform/textractspecial/textractspecial.go:NewTransform:schema.MustCreateFieldLocator(c.Key)",   -- VerifyConfig .key / .destKey
    "transform/textractspecial/textractspecial.go:getPosition:panic(fmt.Sprintf(\"unsupported position type ')",   -- Type is one of the two registered names
    "transform/tmapvalue/tmapvalue.go:NewTransform:schema.MustCreateFieldLocator(c.Key)",   -- VerifyConfig .key
    "transform/tparsetime/tparsetime.go:NewTransform:schema.MustCreateFieldLocator(cfg.Key)",   -- VerifyConfig .key
    "transform/tredactemail/tredactemail.go:NewTransform:schema.MustCreateFieldLocator(cfg.Key)",   -- VerifyConfig .key
    "transform/treplace/treplace.go:NewTransform:regexp.MustCompile(c.Pattern)",   -- VerifyConfig compiles the pattern
    "transform/treplace/treplace.go:NewTransform:schema.MustCreateFieldLocator(c.Key)",   -- VerifyConfig .key
    "transform/ttruncate/ttruncate.go:NewTransform:schema.MustCreateFieldLocator(c.Key)",   -- VerifyConfig .key
    "transform/tunescape/tunescape.go:NewTransform:schema.MustCreateFieldLocator(c.Key)"   -- VerifyConfig .key
  ]

theorem C16_fact_must_sites : Facts.cfg_must_sites = reviewedMustSites := by decide
theorem C16_fact_star_needs_boundary : Facts.xform_star_requires_far_boundary = some true := by decide
theorem C16_fact_sections_checked : Facts.cfg_missing_sections_rejected = some true := by decide

/-! ### non-vacuity and the code before the repairs -/

def sampleSchema : Schema := { names := [b!"host", b!"app", b!"log"] }
def sampleCfg : List TC :=
  [.iff [(b!"app", .startsWith (b!"web"))]
     [.extract false (b!"log") (b!"\\[*\\] ") 50 (b!"app"), .addFields [(b!"host", some [.lit (b!"h-"), .var (b!"host")])]],
   .drop [(b!"log", .contains (b!"debug"))] 50 (b!"dbg")]

example : verifySteps sampleSchema sampleCfg = true := by decide
/-- F-10 (a): `foo*` for extractHead was accepted before the repair; the repaired verification rejects it -/
example : verifyStep sampleSchema (.extract false (b!"log") (b!"foo*") 50 (b!"app")) = false := by decide
/-- a reference to a field that is not in the schema is rejected at every nesting depth -/
example : verifySteps sampleSchema [.block [.iff [(b!"app", .any)] [.unescape (b!"nosuchfield")]]] = false := by decide


/-! ### the output section: serializer and rewriters (`Model/CfgSer.lean`) -/

open CfgSer in
theorem chainNew_ok (sch : Cfg.Schema) : ∀ (ch : List Rw), chainVerify sch ch = true →
    ∃ r, chainNew sch ch = .ok r ∧ (ch ≠ [] → r.isSome = true)
  | [], _ => ⟨none, rfl, by simp⟩
  | [r], h => by
    cases r <;> simp [chainVerify, rwVerify] at h
    · exact ⟨some .copy, by simp [chainNew, rwNew, bind, Except.bind, pure, Except.pure], by simp⟩
    · exact ⟨some .unescape, by simp [chainNew, rwNew, bind, Except.bind, pure, Except.pure], by simp⟩
  | r :: r' :: rest, h => by
    simp only [chainVerify, Bool.and_eq_true] at h
    obtain ⟨n, hn, hsome⟩ := chainNew_ok sch (r' :: rest) h.2
    have hn' := hsome (by simp)
    cases hnx : n with
    | none => rw [hnx] at hn'; simp at hn'
    | some nx =>
      cases r <;> simp [rwVerify] at h
      case inline f =>
        obtain ⟨⟨_, hloc⟩, _⟩ := h
        cases hl : Cfg.locate sch f with
        | none => simp [hl] at hloc
        | some i =>
          refine ⟨some (.inline i nx), ?_, by simp⟩
          rw [chainNew, hn, hnx]
          simp [rwNew, hl, bind, Except.bind, pure, Except.pure]

open CfgSer in
theorem buildRewriters_ok (sch : Cfg.Schema) (m : List (Bytes × List Rw)) (hm : ∀ p ∈ m, chainVerify sch p.2 = true) :
    ∀ (names : List Bytes), ∃ l, buildRewriters sch m names = .ok l
  | [] => ⟨[], rfl⟩
  | name :: rest => by
    obtain ⟨t, ht⟩ := buildRewriters_ok sch m hm rest
    simp only [buildRewriters]
    cases hl : lookupRw m name with
    | none => exact ⟨none :: t, by simp [ht, bind, Except.bind, pure, Except.pure]⟩
    | some ch =>
      have hmem : ∃ p ∈ m, p.2 = ch := by
        unfold lookupRw at hl
        cases hf : m.find? (fun p => p.1 = name) with
        | none => simp [hf] at hl
        | some p =>
          simp [hf] at hl
          exact ⟨p, List.mem_of_find?_eq_some hf, hl⟩
      obtain ⟨p, hp, rfl⟩ := hmem
      obtain ⟨r, hr, _⟩ := chainNew_ok sch p.2 (hm p hp)
      exact ⟨r :: t, by simp [hr, ht, bind, Except.bind, pure, Except.pure]⟩

theorem mapM_locate_some (sch : Cfg.Schema) : ∀ (l : List Bytes), l.all (fun f => (Cfg.locate sch f).isSome) = true →
    ∃ locs, l.mapM (Cfg.locate sch) = some locs
  | [], _ => ⟨[], rfl⟩
  | f :: r, h => by
    simp only [List.all_cons, Bool.and_eq_true] at h
    obtain ⟨t, ht⟩ := mapM_locate_some sch r h.2
    cases hl : Cfg.locate sch f with
    | none => simp [hl] at h
    | some i => exact ⟨i :: t, by simp [List.mapM_cons, hl, ht]⟩

open CfgSer in
/-- **C16 (the output section).** A Fluentd Forward output section that `VerifyConfig` accepts is instantiated —
environment-field locators, one rewriter chain per rewritten schema field (masked or not), field masks — without reaching
a `logger.Panic` / `Must…` site of `NewEventSerializer`, `NewRewritersFromConfig` or a rewriter's `NewRewriter`, and
without an error value. -/
theorem C16_serializer_verify_sound (sch : Cfg.Schema) (c : Out) (h : verify sch c = true) :
    ∃ s, construct sch c = .ok (some s) := by
  simp only [verify, Bool.and_eq_true] at h
  obtain ⟨⟨⟨⟨⟨⟨⟨_, henv⟩, _⟩, hrw⟩, _⟩, _⟩, _⟩, _⟩ := h
  obtain ⟨locs, hlocs⟩ := mapM_locate_some sch c.env henv
  have hm : ∀ p ∈ c.rewrite, chainVerify sch p.2 = true := by
    intro p hp
    have := List.all_eq_true.mp hrw p hp
    simp only [Bool.and_eq_true] at this
    exact this.2
  obtain ⟨l, hl⟩ := buildRewriters_ok sch c.rewrite hm sch.names
  refine ⟨{ envLocators := locs, rewriters := l,
             masks := sch.names.map (fun n => c.env.contains n || c.hidden.contains n) }, ?_⟩
  simp [construct, hlocs, hl, bind, Except.bind, pure, Except.pure]

def demoSch : Cfg.Schema := ⟨[b!"log", b!"class", b!"task"]⟩
def demoOut (ch : List CfgSer.Rw) : CfgSer.Out :=
  { env := [b!"task"], hidden := [b!"class"], rewrite := [(b!"class", ch)], mode := b!"Forward",
    addrGiven := true, addrSplits := true, maxDurationSet := true }

open CfgSer in
/-- what verification rules out, on concrete sections: `inline` last, a step after `copy`, an unknown inline field, an entry
without a value — each reaches a panic site when instantiated, also on a hidden field (non-vacuity of the theorem's premise
and of the panic sites) -/
example :
    verify demoSch (demoOut [.inline (b!"task"), .unescape]) = true ∧
    verify demoSch (demoOut [.inline (b!"task")]) = false ∧ (construct demoSch (demoOut [.inline (b!"task")])).toOption = none ∧
    verify demoSch (demoOut [.copy, .unescape]) = false ∧ (construct demoSch (demoOut [.copy, .unescape])).toOption = none ∧
    verify demoSch (demoOut [.inline (b!"nope"), .copy]) = false ∧
      (construct demoSch (demoOut [.inline (b!"nope"), .copy])).toOption = none ∧
    verify demoSch (demoOut [.unspecified]) = false ∧ (construct demoSch (demoOut [.unspecified])).toOption = none := by decide


/-! ### the head of the file: schema, orchestration keys and tag, metric keys (`Model/CfgFile.lean`) -/

open CfgFile in
theorem nodupB_append : ∀ (a b : List Bytes), nodupB a = true → nodupB b = true → (∀ k ∈ b, a.contains k = false) →
    nodupB (a ++ b) = true
  | [], b, _, hb, _ => by simpa using hb
  | x :: a, b, ha, hb, hd => by
    simp only [nodupB, Bool.and_eq_true, Bool.not_eq_true'] at ha
    simp only [List.cons_append, nodupB, Bool.and_eq_true, Bool.not_eq_true']
    refine ⟨?_, nodupB_append a b ha.2 hb (fun k hk => ?_)⟩
    · have h1 : a.contains x = false := ha.1
      have h2 : b.contains x = false := by
        cases hbx : b.contains x with
        | false => rfl
        | true =>
          have hm : x ∈ b := by simpa using hbx
          have := hd x hm
          simp at this
      simp only [List.contains_eq_mem, List.mem_append, decide_eq_false_iff_not, not_or] at h1 h2 ⊢
      exact ⟨h1, h2⟩
    · have := hd k hk
      simp only [List.contains_eq_mem, List.mem_cons, decide_eq_false_iff_not, not_or] at this ⊢
      exact this.2

open CfgFile in
/-- **C16 (the head of the file).** A schema, orchestration section and metric-key list that `ParseConfigFile` accepts are
instantiated without reaching `NewOrchestrator`'s `Panicf` sites (key locators, tag builder), `MustCreateFieldLocators` of
the metric keys, or the Prometheus client's panic on a repeated label name (a key listed twice or in both lists). -/
theorem C16_file_head_verify_sound (h : Head) (hv : verify h = true) : ∃ b, construct h = .ok b := by
  simp only [verify, orchOK, metricOK, Bool.and_eq_true] at hv
  obtain ⟨⟨_, ⟨⟨⟨⟨_, hk⟩, hkn⟩, _⟩, htag⟩⟩, ⟨⟨⟨_, hm⟩, hmn⟩, hdis⟩⟩ := hv
  obtain ⟨kl, hkl⟩ := mapM_locate_some ⟨h.fields⟩ h.orchKeys hk
  obtain ⟨ml, hml⟩ := mapM_locate_some ⟨h.fields⟩ h.metricKeys hm
  have hnd : nodupB (h.orchKeys ++ h.metricKeys) = true := by
    apply nodupB_append _ _ hkn hmn
    intro k hk'
    have := List.all_eq_true.mp hdis k hk'
    simpa using this
  exact ⟨{ keyLocators := kl, metricLocators := ml, labels := h.orchKeys ++ h.metricKeys }, by simp [construct, hkl, hml, htag, hnd]⟩

open CfgFile in
/-- what the checks rule out, concretely: a key listed twice, a key in both lists, a tag variable that is no key — each is
rejected and each reaches a panic site when instantiated -/
example :
    let mk (ok mk' : List Bytes) (tp : Cfg.Tmpl) : Head :=
      { fields := [b!"host", b!"app", b!"log"], maxFields := 5, orchKeys := ok, tag := b!"t", tagParts := tp, metricKeys := mk' }
    verify (mk [b!"host"] [b!"app"] (some [.lit (b!"t."), .var (b!"host")])) = true ∧
    verify (mk [b!"host", b!"host"] [b!"app"] (some [])) = false ∧ (construct (mk [b!"host", b!"host"] [b!"app"] (some []))).toOption.isNone = true ∧
    verify (mk [b!"host"] [b!"host"] (some [])) = false ∧ (construct (mk [b!"host"] [b!"host"] (some []))).toOption.isNone = true ∧
    verify (mk [b!"host"] [b!"app"] (some [.var (b!"app")])) = false ∧
      (construct (mk [b!"host"] [b!"app"] (some [.var (b!"app")]))).toOption.isNone = true := by decide


open CfgFile in
/-- **C16 (a syslog input).** An input section that `VerifyConfig` accepts gives every connection its parser and its
extraction transforms without reaching `MustNewParser`'s panic (level mapping of the wrong length, a parser field the
schema lacks) or a `Must…` site of an extraction step. -/
theorem C16_input_verify_sound (sch : Cfg.Schema) (i : Input) (h : inputOK sch i = true) :
    ∃ prog, constructInput sch i = .ok prog := by
  simp only [inputOK, Bool.and_eq_true] at h
  obtain ⟨⟨_, hp⟩, hs⟩ := h
  obtain ⟨prog, nx, h1, _⟩ := C16_verify_sound sch i.extractions hs
  exact ⟨prog, by simp [constructInput, hp, h1]⟩

end C16
