import SlogModel.Lemmas.E2E
import SlogModel.Lemmas.ClientRefine
import SlogModel.Props.C03
import SlogModel.Lemmas.ClientHealthy
import SlogModel.Props.C18
import SlogModel.Gen.Facts

/-!
  C01 — At-least-once delivery end to end across upstream faults and restarts.

  `E2E.step` is the chunk-level system of one pipeline and one output across generations: read,
  close-and-accept or close-and-drop (counted) a chunk, take-and-transmit, acknowledge, connection
  failure (unacknowledged chunks go back, oldest first), graceful stop (everything unacknowledged is
  saved), restart (saved chunks are recovered in name order).  Each action is the contract proved for a
  component (C11 packing, C03 buffer, C02 client, C04 persistence); the theorems quantify over every
  finite sequence of these actions — every upstream fault script and every stop / restart history.

  * `C01_every_record_accounted` : at every moment each record read is in the chunk being filled or
      in exactly one chunk, and that chunk is in exactly one of: queued, in flight, acknowledged,
      counted as dropped, on disk.
  * `C01_at_rest` : while the agent is stopped every record read is in a chunk that is
      acknowledged, on disk for the next start, or counted as dropped — nothing is only in memory.
  * `C01_drained` : when the running agent has nothing queued or in flight and no open chunk (the
      upstream was finally healthy), every record read is acknowledged or counted as dropped.
  * `C01_chunk_in_one_place` : no chunk is in two places.
  Tie: the end-to-end harness (real agent, scripted upstream, stop / restart generations) checks the
  conclusion of `C01_drained` / `C01_at_rest` on every run; the component models behind the actions are
  tied by C02 / C03 / C04 / C11.  Records are never altered: C10 / C11 (byte-exact encoding) and the
  harness's comparison of every delivered message with what was sent.
-/

open E2E

namespace C01

theorem mem_chunk_of_rec (s : St) (hp : PInv s) (r : Nat) (hr : r < s.nextRec) :
    r ∈ s.cur ∨ ∃ p ∈ s.content, r ∈ p.2 := by
  have : r ∈ s.content.flatMap (·.2) ++ s.cur := by rw [hp.recs]; exact List.mem_range.mpr hr
  rcases List.mem_append.mp this with h | h
  · right
    obtain ⟨p, hp1, hp2⟩ := List.mem_flatMap.mp h
    exact ⟨p, hp1, hp2⟩
  · left; exact h

theorem chunk_placed (s : St) (hp : PInv s) (p : Nat × List Nat) (h : p ∈ s.content) : p.1 ∈ places s := by
  have hlt : p.1 < s.nextChunk := by
    have : p.1 ∈ s.content.map (·.1) := List.mem_map.mpr ⟨p, h, rfl⟩
    rw [hp.ids] at this
    exact List.mem_range.mp this
  have := hp.chunks p.1
  simp [hlt] at this
  exact List.count_pos_iff.mp (by omega)

/-- **C01 (every record is accounted for, at every moment).** -/
theorem C01_every_record_accounted (acts : List Act) (s : St) (h : run {} acts = some s) (r : Nat) (hr : r < s.nextRec) :
    r ∈ s.cur ∨ ∃ p ∈ s.content, r ∈ p.2 ∧
      (p.1 ∈ s.queue ∨ p.1 ∈ s.inflight ∨ p.1 ∈ s.acked ∨ p.1 ∈ s.dropped ∨ p.1 ∈ s.disk) := by
  have hp := run_pinv acts {} s h init_pinv
  rcases mem_chunk_of_rec s hp r hr with h1 | ⟨p, hp1, hp2⟩
  · left; exact h1
  · right
    refine ⟨p, hp1, hp2, ?_⟩
    have := chunk_placed s hp p hp1
    simp [places] at this
    rcases this with h | h | h | h | h
    · exact Or.inl h
    · exact Or.inr (Or.inl h)
    · exact Or.inr (Or.inr (Or.inl h))
    · exact Or.inr (Or.inr (Or.inr (Or.inl h)))
    · exact Or.inr (Or.inr (Or.inr (Or.inr h)))

/-- **C01 (nothing is only in memory while the agent is stopped).** -/
theorem C01_at_rest (acts : List Act) (s : St) (h : run {} acts = some s) (hstop : s.running = false)
    (r : Nat) (hr : r < s.nextRec) :
    ∃ p ∈ s.content, r ∈ p.2 ∧ (p.1 ∈ s.acked ∨ p.1 ∈ s.disk ∨ p.1 ∈ s.dropped) := by
  have hp := run_pinv acts {} s h init_pinv
  obtain ⟨hq, hi, hc⟩ := hp.nr hstop
  rcases C01_every_record_accounted acts s h r hr with h1 | ⟨p, hp1, hp2, h3⟩
  · rw [hc] at h1; cases h1
  · refine ⟨p, hp1, hp2, ?_⟩
    rw [hq, hi] at h3
    rcases h3 with h | h | h | h | h
    · cases h
    · cases h
    · exact Or.inl h
    · exact Or.inr (Or.inr h)
    · exact Or.inr (Or.inl h)

/-- **C01 (at least once).** Once the upstream has been healthy long enough for the running agent
to drain — no open chunk, nothing queued, nothing in flight — every record read has been acknowledged
by the upstream, except those in chunks counted as dropped. -/
theorem C01_drained (acts : List Act) (s : St) (h : run {} acts = some s) (hrun : s.running = true)
    (hc : s.cur = []) (hq : s.queue = []) (hi : s.inflight = []) (r : Nat) (hr : r < s.nextRec) :
    ∃ p ∈ s.content, r ∈ p.2 ∧ (p.1 ∈ s.acked ∨ p.1 ∈ s.dropped) := by
  have hp := run_pinv acts {} s h init_pinv
  have hd := hp.rd hrun
  rcases C01_every_record_accounted acts s h r hr with h1 | ⟨p, hp1, hp2, h3⟩
  · rw [hc] at h1; cases h1
  · refine ⟨p, hp1, hp2, ?_⟩
    rw [hq, hi, hd] at h3
    rcases h3 with h | h | h | h | h
    · cases h
    · cases h
    · exact Or.inl h
    · exact Or.inr h
    · cases h

/-- **C01 (a chunk is in exactly one place).** -/
theorem C01_chunk_in_one_place (acts : List Act) (s : St) (h : run {} acts = some s) (c : Nat) :
    (s.queue ++ s.inflight ++ s.acked ++ s.dropped ++ s.disk).count c = if c < s.nextChunk then 1 else 0 :=
  (run_pinv acts {} s h init_pinv).chunks c

/-! ### non-vacuity: faults, a stop with a chunk in flight, a restart, a healthy end -/

def demoActs : List Act := [.read, .read, .flushAccept, .read, .flushAccept, .take, .take, .ack 1, .connFail, .read, .stop,
    .restart, .take, .ack 0, .take, .ack 2]

example : (run ({} : St) demoActs).map (·.acked) = some [1, 0, 2] := by decide
example : (run ({} : St) demoActs).map (·.sentLog) = some [(0, 0), (0, 1), (2, 0), (2, 2)] := by decide
example : (run ({} : St) demoActs).map (fun s => s.queue ++ s.inflight ++ s.disk) = some [] := by decide

/-- a transmitted chunk and a queued chunk given up later (unreadable file, size limit at hand-back) are counted, not forgotten -/
example : (run ({} : St) [.read, .flushAccept, .read, .flushAccept, .take, .drop 0, .drop 1]).map (fun s => (s.queue, s.inflight, s.dropped)) =
    some ([], [], [0, 1]) := by decide

/-! ### refinement: the client transition system implements the client-side actions of `E2E.step`

`E2E.step` assumes of the forwarding client that a chunk it takes is the oldest one waiting, that an
acknowledgement removes exactly the acknowledged chunk, that after a failed connection everything
unacknowledged goes back oldest first ahead of everything newer, and that a stop leaves everything
unacknowledged for the disk.  These are not assumptions any more: for every run of `Client.step` (every
interleaving of sender, acknowledger and worker loop with every outcome of connect / send / ACK read) the
chunk-level view of the client state (`ClientRefine.Rel`: waiting = `queue`, held by the session =
`inflight`, confirmations = `acked`, handed back + never taken = `disk`) moves exactly as `E2E.step`
does under `ClientRefine.mapAct` — each client action is invisible or one of take / ack / connFail / stop. -/

open ClientRefine in
/-- **C01 (the client refines the chunk-level system).** -/
theorem C01_client_refines_e2e (q : List Nat) (hq : q.Pairwise (· < ·)) (acts : List Client.Act) (c : Client.St)
    (h : Client.run (Client.init q) acts = some c)
    (e0 : St) (hr : e0.running = true) (hc : e0.cur = []) (hi : e0.inflight = []) (hq0 : e0.queue = q) :
    ∃ e, run e0 (mapRun (Client.init q) acts) = some e ∧ Rel e0.acked c e ∧
      (mapRun (Client.init q) acts).length ≤ acts.length :=
  let ⟨e, h1, h2⟩ := sim_run e0.acked acts (Client.init q) c e0 h (init_all q hq) (rel_init q e0 hr hc hi hq0)
  ⟨e, h1, h2, mapRun_length acts _⟩

open ClientRefine in
/-- **C01 (at rest, with the real client in the loop).** Whatever the agent did before (`pre`: any history of reads,
flushes, drops, earlier faults and generations) and whatever the client then does with the chunks queued for it — any
run of `Client.step` up to `OnFinished` — every record read so far is in a chunk that the upstream acknowledged (before or
through this client), that the client handed back or never took (so that the buffer saves it), or that was counted as dropped. -/
theorem C01_at_rest_through_client (pre : List Act) (e0 : St) (hpre : run {} pre = some e0)
    (hr : e0.running = true) (hc : e0.cur = []) (hi : e0.inflight = []) (hq : e0.queue.Pairwise (· < ·))
    (acts : List Client.Act) (c : Client.St) (h : Client.run (Client.init e0.queue) acts = some c) (hfin : c.finished = true)
    (r : Nat) (hrec : r < e0.nextRec) :
    ∃ p ∈ e0.content, r ∈ p.2 ∧
      (p.1 ∈ e0.acked ∨ p.1 ∈ c.confirmed ∨ p.1 ∈ c.handed ∨ p.1 ∈ c.queue ∨ p.1 ∈ e0.dropped) := by
  obtain ⟨e, h1, hrel, _⟩ := C01_client_refines_e2e e0.queue hq acts c h e0 hr hc hi rfl
  have hfr := run_frame _ e0 e h1 (mapRun_clientSide acts _) hc
  have hrun : run {} (pre ++ mapRun (Client.init e0.queue) acts) = some e := by
    rw [e2e_run_append, hpre]; exact h1
  obtain ⟨hstop, _, _, hdisk⟩ := hrel.fin hfin
  obtain ⟨p, hp1, hp2, hp3⟩ := C01_at_rest _ e hrun hstop r (by rw [hfr.nextRec]; exact hrec)
  refine ⟨p, by rw [← hfr.content]; exact hp1, hp2, ?_⟩
  rw [hrel.acked, hdisk, hfr.dropped] at hp3
  simp only [List.mem_append] at hp3
  rcases hp3 with (h | h) | (h | h) | h
  · exact Or.inl h
  · exact Or.inr (Or.inl h)
  · exact Or.inr (Or.inr (Or.inl h))
  · exact Or.inr (Or.inr (Or.inr (Or.inl h)))
  · exact Or.inr (Or.inr (Or.inr (Or.inr h)))

/-- non-vacuity: a client run with a failed connection, a resend and a stop, mapped to its chunk-level run -/
def demoClient : List Client.Act :=
  [.connectOk, .recoveryDone, .takeInput, .sendOk, .pushAck, .takeInput, .sendOk, .ackRecv, .ackErr, .beginCollect,
   .finishCollect, .connectOk, .takeLeft, .sendOk, .pushAck, .ackRecv, .ackOk none, .stopReq, .beginCollect, .ackChanClosed,
   .finishCollect, .workerFinal]

example : ClientRefine.mapRun (Client.init [0, 1, 2]) demoClient = [.take, .take, .connFail, .take, .ack 0, .connFail, .stop] := by
  simp [demoClient, ClientRefine.mapRun, ClientRefine.mapAct, Client.run, Client.step, Client.init, Client.newLeft, Client.dedupSorted, Client.ackCap, List.mergeSort, List.MergeSort.Internal.splitInTwo, run, step, closeChunk, sortIds, ins]
example : (Client.run (Client.init [0, 1, 2]) demoClient).map (fun c => (c.confirmed, c.handed, c.queue, c.finished)) =
    some ([0], [1], [2], true) := by
  simp [demoClient, ClientRefine.mapRun, ClientRefine.mapAct, Client.run, Client.step, Client.init, Client.newLeft, Client.dedupSorted, Client.ackCap, List.mergeSort, List.MergeSort.Internal.splitInTwo, run, step, closeChunk, sortIds, ins]
example : (run { queue := [0, 1, 2] } (ClientRefine.mapRun (Client.init [0, 1, 2]) demoClient)).map (fun e => (e.acked, e.disk, e.running)) =
    some ([0], [1, 2], false) := by
  simp [demoClient, ClientRefine.mapRun, ClientRefine.mapAct, Client.run, Client.step, Client.init, Client.newLeft, Client.dedupSorted, Client.ackCap, List.mergeSort, List.MergeSort.Internal.splitInTwo, run, step, closeChunk, sortIds, ins]

/-! ### at least once, without assuming the drained state

`C01_drained` takes "nothing queued, nothing in flight" as a hypothesis.  With the refinement and the bounded fault-free
future of the client (`C02.healthy_run`, `C02.healthy_stuck`) that state is a consequence: -/

theorem held_waiting_nil_of_inflight_nil (c : Client.St) (h : Client.inflight c = []) (hq : c.queue = []) :
    ClientRefine.held c = [] ∧ ClientRefine.waiting c = [] := by
  unfold Client.inflight at h
  unfold ClientRefine.held ClientRefine.waiting ClientRefine.sessHeld ClientRefine.sessPrev
  cases hs : c.sess with
  | none => simp [hs] at h; simp [h, hq]
  | some x =>
    simp only [hs, List.append_eq_nil_iff] at h
    obtain ⟨hl, ⟨⟨h1, h2⟩, h3⟩, h4⟩ := h
    simp [h1, h2, h3, h4, hl, hq]

open ClientRefine in
/-- **C01 (at least once, once the upstream behaves).** Whatever happened before — `pre`: reads, flushes, drops, earlier
generations; `cpre`: any run of the client with any faults, ending in a good state (between two sessions, or in a session in
which nothing has failed yet) — if from then on the upstream behaves, then after every fault-free run of the client that
cannot be continued (every such run is at most `C02.mu` steps long, under every interleaving), every record read so far is in
a chunk the upstream has acknowledged, or in one that was counted as dropped. -/
theorem C01_delivered_once_upstream_behaves (pre : List Act) (e0 : St) (hpre : run {} pre = some e0)
    (hr : e0.running = true) (hc : e0.cur = []) (hi : e0.inflight = []) (hq : e0.queue.Pairwise (· < ·))
    (cpre : List Client.Act) (c : Client.St) (h1 : Client.run (Client.init e0.queue) cpre = some c) (hg : C02.Good c)
    (acts : List Client.Act) (hacts : ∀ a ∈ acts, a ∈ C02.healthy) (c' : Client.St) (h2 : Client.run c acts = some c')
    (hstuck : ∀ a ∈ C02.healthy, Client.step c' a = none)
    (r : Nat) (hrec : r < e0.nextRec) :
    ∃ p ∈ e0.content, r ∈ p.2 ∧ (p.1 ∈ e0.acked ∨ p.1 ∈ c'.confirmed ∨ p.1 ∈ e0.dropped) := by
  obtain ⟨g', _⟩ := C02.healthy_run acts c c' hacts h2 hg
  obtain ⟨hl, hq', hin⟩ := C02.healthy_stuck c' g' hstuck
  have hrunc : Client.run (Client.init e0.queue) (cpre ++ acts) = some c' := by rw [C02.run_append, h1]; exact h2
  obtain ⟨e, he, hrel, _⟩ := C01_client_refines_e2e e0.queue hq (cpre ++ acts) c' hrunc e0 hr hc hi rfl
  have hfr := run_frame _ e0 e he (mapRun_clientSide (cpre ++ acts) _) hc
  have hrun : run {} (pre ++ mapRun (Client.init e0.queue) (cpre ++ acts)) = some e := by
    rw [e2e_run_append, hpre]; exact he
  obtain ⟨erun, eq, ein⟩ := hrel.run g'.fin
  obtain ⟨hh, hw⟩ := held_waiting_nil_of_inflight_nil c' hin hq'
  obtain ⟨p, hp1, hp2, hp3⟩ := C01_drained _ e hrun erun hfr.cur (by rw [eq, hw]) (by rw [ein, hh]) r (by rw [hfr.nextRec]; exact hrec)
  refine ⟨p, by rw [← hfr.content]; exact hp1, hp2, ?_⟩
  rw [hrel.acked, hfr.dropped] at hp3
  simp only [List.mem_append] at hp3
  rcases hp3 with (h | h) | h
  · exact Or.inl h
  · exact Or.inr (Or.inl h)
  · exact Or.inr (Or.inr h)

open ClientRefine in
/-- **C01 / C18 (nothing only in memory after a stop, however the stop path is walked).** After any history, any faulty client
run and a stop request: every run of the stop path's actions that cannot be continued (each has at most six steps) ends with the
client finished, and every record read so far is then in a chunk acknowledged, handed back or never taken (for the buffer to
save), or counted as dropped. -/
theorem C01_at_rest_after_every_stop_run (pre : List Act) (e0 : St) (hpre : run {} pre = some e0)
    (hr : e0.running = true) (hc : e0.cur = []) (hi : e0.inflight = []) (hq : e0.queue.Pairwise (· < ·))
    (cpre : List Client.Act) (c : Client.St) (h1 : Client.run (Client.init e0.queue) cpre = some c) (hstop : c.stop = true)
    (acts : List Client.Act) (hacts : ∀ a ∈ acts, a ∈ C18.stopActs) (c' : Client.St) (h2 : C18.runS c acts = some c')
    (hstuck : ∀ a ∈ C18.stopActs, C18.stepS c' a = none)
    (r : Nat) (hrec : r < e0.nextRec) :
    ∃ p ∈ e0.content, r ∈ p.2 ∧
      (p.1 ∈ e0.acked ∨ p.1 ∈ c'.confirmed ∨ p.1 ∈ c'.handed ∨ p.1 ∈ c'.queue ∨ p.1 ∈ e0.dropped) := by
  have hfin := (C18.C18_every_stop_run_ends_finished c hstop acts hacts c' h2).2 hstuck
  have hrun : Client.run (Client.init e0.queue) (cpre ++ acts) = some c' := by
    rw [C02.run_append, h1]; exact C18.runS_run acts c c' h2
  exact C01_at_rest_through_client pre e0 hpre hr hc hi hq (cpre ++ acts) c' hrun hfin r hrec

/-! ### the interface between buffer and client: what the consumer receives is what `Client.init` is given -/

/-- **C01 (the buffer hands chunks to the client oldest first).** When the ids of the chunks a generation of the buffer
recovered and accepted increase (file names in order, C03_recovered_first; fresh ids above everything older,
C11_ids_increasing), the ids the consumer receives increase strictly — after any operation sequence, spills, reloads from
disk and drops included.  This is the precondition `hq` of the refinement theorem. -/
theorem C01_buffer_hands_chunks_in_id_order (cfg : Buffer.Cfg) (disk : List (Nat × Bytes)) (ops : List Buffer.Op) (b : Buffer.St)
    (h : Buffer.run (Buffer.recover cfg disk) ops = some b) (hacc : (b.accepted.map (·.1)).Pairwise (· < ·)) :
    (b.taken.map (·.1)).Pairwise (· < ·) :=
  List.Pairwise.sublist (C03.C03_taken_in_order cfg disk ops b h) hacc

open ClientRefine in
/-- **C01 (buffer, then client, then the chunk-level system).** Whatever the buffer did and whatever the client does with
the chunks it received from it — any run of `Client.step` — the chunk-level view of the client moves as `E2E.step` does. -/
theorem C01_buffer_client_refine_e2e (cfg : Buffer.Cfg) (disk : List (Nat × Bytes)) (ops : List Buffer.Op) (b : Buffer.St)
    (h : Buffer.run (Buffer.recover cfg disk) ops = some b) (hacc : (b.accepted.map (·.1)).Pairwise (· < ·))
    (acts : List Client.Act) (c : Client.St) (hc : Client.run (Client.init (b.taken.map (·.1))) acts = some c)
    (e0 : St) (hr : e0.running = true) (hcur : e0.cur = []) (hi : e0.inflight = []) (hq0 : e0.queue = b.taken.map (·.1)) :
    ∃ e, run e0 (mapRun (Client.init (b.taken.map (·.1))) acts) = some e ∧ Rel e0.acked c e :=
  let ⟨e, h1, h2, _⟩ := C01_client_refines_e2e _ (C01_buffer_hands_chunks_in_id_order cfg disk ops b h hacc) acts c hc e0 hr hcur hi hq0
  ⟨e, h1, h2⟩

/-- non-vacuity of `hacc`: a generation that accepted chunks 1, 2 and 3; the consumer has received 1 and 2 -/
example : ((Buffer.run (Buffer.recover { memCap := 4, queueCap := 10, maxBytes := 100, hasDir := true } [])
              [.accept 1 [7], .accept 2 [8], .accept 3 [9], .take, .take]).map (fun b => (b.accepted.map (·.1), b.taken.map (·.1)))) =
    some ([1, 2, 3], [1, 2]) := by
  have h0 : Buffer.scanned { memCap := 4, queueCap := 10, maxBytes := 100, hasDir := true } [] = [] := by
    simp [Buffer.scanned]
  simp only [Buffer.recover, h0, List.foldl_nil]
  decide

/-! ### fact obligations (Tie B): the mechanisms behind the actions of `E2E.step` -/

/-- `connFail`: the chunk in hand, the acknowledger's channel and pending map and the leftovers not yet resent all go back -/
theorem C01_fact_nothing_forgotten : Facts.client_last_chunk_assignments =
    ["resendLeftovers:&chunk", "resendLeftovers:nil(after-send=true,after-failure-return=true)",
     "processInput:&chunk", "processInput:nil(after-send=true,after-failure-return=true)"] ∧
    Facts.client_leftover_sources = ["fromPrevious...", "fromAckerChannel...", "fromAckerPending...", "*session.lastChunk"] ∧
    Facts.stop_resend_collects_previous = ["collectLeftovers(leftovers, endImmediately)", "collectLeftovers(leftovers, endImmediately)"] := by decide
/-- `stop`: the listener flushes and closes every connection's sink, also on the stop path -/
theorem C01_fact_listener_final_flush : Facts.e2e_listener_final_flush = ["mlineReader.FlushAll", "recvChan.Flush", "recvChan.Close"] := by decide
/-- `restart`: pipelines are re-created for the queue directories of every output -/
theorem C01_fact_recovery_all_outputs : Facts.e2e_recovery_scans = ["range args.OutputBufferPairs", "ListBufferIDs"] := by decide
/-- `stop` in the buffer: queue, chunk in hand and window are saved; a hand-back that cannot be saved is counted dropped -/
theorem C01_fact_buffer_saves : Facts.buffer_save_everything = ["range feeder.inputChannel", "lastInputChunk", "range feeder.outputChannel"] ∧
    Facts.buffer_leftover_calls = ["man.UnloadOrDropChunk"] := by decide

end C01
