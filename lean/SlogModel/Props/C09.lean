import SlogModel.Model.Parse
import SlogModel.Lemmas.Utf8
import SlogModel.Gen.Facts

/-!
  C09 — Syslog header parsing is faithful and every message is accounted for.

  * `C09_total`          : `Parse` never panics, for every byte string and configuration with 8 levels
  * `C09_parse_render`   : for every well-formed line (PRI 0..191, six tokens without spaces, any
                           message bytes, at least the minimal length) the record carries exactly
                           facility `pri/8`, level `levels[pri%8]`, the six tokens and the message
                           (cut to the limit and cleaned), and is counted as passed
  * `C09_pri_out_of_range` : PRI ≥ 192 is rejected (dropped)
  * `C09_counted_once`   : every call counts exactly one record, with its length, as passed or dropped
  * `C09_cut_*`          : truncation keeps a prefix within the limit
-/

namespace C09
open Parse

theorem nextField_tok (tok rest : Bytes) (h : 32 ∉ tok) :
    nextField (tok ++ 32 :: rest) = some (tok, rest) := by
  unfold nextField
  have h1 : (tok ++ 32 :: rest).contains 32 = true := by simp
  rw [if_pos h1]
  induction tok with
  | nil => simp
  | cons x xs ih =>
    have hx : x ≠ 32 := fun e => h (by simp [e])
    have := ih (fun m => h (by simp [m])) (by simp)
    simp [hx] at this ⊢
    exact this

theorem idx_err {s : Bytes} {i : Nat} {e : Panic} (h : idx s i = .error e) : s.length ≤ i := by
  unfold idx at h
  split at h
  · cases h
  · rename_i hn; simpa using hn

theorem slice_err {s : Bytes} {i j : Nat} {e : Panic} (h : slice s i j = .error e) :
    ¬ (i ≤ j ∧ j ≤ s.length) := by
  unfold slice at h
  split at h
  · cases h
  · assumption

/-- the first field of a string that starts with a non-space byte `c` starts with `c` -/
theorem nextField_head {c : Nat} {rest v nx : Bytes} (hc : c ≠ 32)
    (h : nextField (c :: rest) = some (v, nx)) : ∃ v', v = c :: v' := by
  unfold nextField at h
  split at h
  · simp [hc] at h
    exact ⟨_, h.1.symm⟩
  · cases h

theorem hasSuffix_len {v : Bytes} {c : Nat} {v' : Bytes} (hv : v = c :: v') (hc : c ≠ 62)
    (h : hasSuffix v [62, 49] = true) : 3 ≤ v.length := by
  subst hv
  unfold hasSuffix at h
  simp at h
  obtain ⟨h1, h2⟩ := h
  match v', h1, h2 with
  | [], h1, _ => simp at h1
  | [x], _, h2 => simp at h2; exact absurd h2.1 hc
  | _ :: _ :: _, _, _ => simp

theorem restFields_len : ∀ (n : Nat) (s : Bytes) (acc fs : List Bytes) (r : Bytes),
    restFields n s acc = some (fs, r) → fs.length = acc.length + n
  | 0, s, acc, fs, r, h => by simp [restFields] at h; simp [← h.1]
  | n + 1, s, acc, fs, r, h => by
    simp only [restFields] at h
    split at h
    · cases h
    · have := restFields_len n _ _ _ _ h
      simp at this; omega

theorem idx_zero_ok {s : Bytes} {c : Nat} (h : idx s 0 = .ok c) : ∃ r, s = c :: r := by
  cases s with
  | nil => simp [idx] at h
  | cons x xs => simp [idx] at h; exact ⟨xs, by rw [h]⟩

theorem pri_slice_ok {input v nx : Bytes} {c : Nat} (h0 : idx input 0 = .ok c) (hc : ¬ c ≠ 60)
    (hn : nextField input = some (v, nx)) (hs : ¬ (!hasSuffix v [62, 49]) = true) :
    1 ≤ v.length - 2 ∧ v.length - 2 ≤ v.length := by
  obtain ⟨r, rfl⟩ := idx_zero_ok h0
  have hc' : c = 60 := by omega
  subst hc'
  obtain ⟨v', hv⟩ := nextField_head (by decide) hn
  have := hasSuffix_len hv (by decide) (by simpa using hs)
  omega

theorem getElem_match_err {l : List Bytes} {i : Nat} {e : Panic}
    (h : (match l[i]? with | some n => Except.ok n | none => throw Panic.index) = Except.error e) :
    l.length ≤ i := by
  split at h
  · cases h
  · rename_i hn; simpa using hn

theorem fac_ok {l : List Bytes} {p : Int} {e : Panic}
    (hb : ¬(decide (p / 8 < 0) || decide (p / 8 ≥ ↑l.length)) = true)
    (h : (match l[(p / 8).toNat]? with | some n => Except.ok n | none => throw Panic.index) = Except.error e) :
    False := by
  have := getElem_match_err h
  simp at hb
  omega

theorem lvl_ok {l : List Bytes} {p : Int} {e : Panic} (h8 : 8 ≤ l.length)
    (h : (match l[(p % 8).toNat]? with | some n => Except.ok n | none => throw Panic.index) = Except.error e) :
    False := by
  have := getElem_match_err h
  omega

theorem fs_ok {s r : Bytes} {fs : List Bytes} {i : Nat} {e : Panic}
    (hr : restFields 6 s [] = some (fs, r)) (hi : i < 6)
    (h : (match fs[i]? with | some v => Except.ok v | none => throw Panic.index) = Except.error e) :
    False := by
  have := getElem_match_err h
  have := restFields_len _ _ _ _ _ hr
  simp at this
  omega

/-- **C09/C07 (totality).** `Parse` returns for every input: no index or slice expression can fail. -/
theorem C09_total (cfg : Cfg) (input : Bytes) (h1 : 1 ≤ cfg.minLen) (h8 : 8 ≤ cfg.levels.length) :
    ∃ o, parseGo cfg input = .ok o := by
  unfold parseGo
  simp only [bind, Except.bind, pure, Except.pure]
  repeat' split
  all_goals first | exact ⟨_, rfl⟩ | skip
  all_goals exfalso
  all_goals first
    | (have := idx_err ‹idx _ _ = .error _›; omega)
    | exact slice_err ‹slice _ 1 _ = .error _› (pri_slice_ok ‹_› ‹_› ‹_› ‹_›)
    | (have := slice_err ‹slice _ 0 _ = .error _›; omega)
    | exact fac_ok ‹_› ‹_›
    | exact lvl_ok h8 ‹_›
    | exact fs_ok ‹restFields _ _ _ = some _› (by decide) ‹_ = Except.error _›
    | skip
  all_goals (have h := ‹_ = Except.error _›; exact fs_ok ‹restFields _ _ _ = some _› (by decide) h)

/-! ### well-formed lines -/

structure Hdr where
  pri : Nat
  time : Bytes
  host : Bytes
  app : Bytes
  pid : Bytes
  source : Bytes
  sd : Bytes

def dec (n : Nat) : Bytes :=
  if n < 10 then [48 + n] else if n < 100 then [48 + n / 10, 48 + n % 10]
  else [48 + n / 100, 48 + n / 10 % 10, 48 + n % 10]

def render (h : Hdr) (msg : Bytes) : Bytes :=
  (60 :: dec h.pri ++ [62, 49]) ++ 32 :: (h.time ++ 32 :: (h.host ++ 32 :: (h.app ++ 32 :: (h.pid ++ 32 ::
    (h.source ++ 32 :: (h.sd ++ 32 :: msg))))))

def Hdr.NoSpaces (h : Hdr) : Prop :=
  32 ∉ h.time ∧ 32 ∉ h.host ∧ 32 ∉ h.app ∧ 32 ∉ h.pid ∧ 32 ∉ h.source ∧ 32 ∉ h.sd

/-- the message as stored: cut to the limit, cleaned when cut (or when the record hit the record limit) -/
def cutMsg (cfg : Cfg) (raw : Nat) (msg : Bytes) : Bytes :=
  let m := if msg.length > cfg.maxMsg then msg.take cfg.maxMsg else msg
  if msg.length > cfg.maxMsg || raw ≥ cfg.maxRec then Utf8.clean m else m

theorem pri_tok (n : Nat) (hn : n ≤ 999) :
    32 ∉ (60 :: dec n ++ [62, 49]) ∧ hasSuffix (60 :: dec n ++ [62, 49]) [62, 49] = true ∧
    slice (60 :: dec n ++ [62, 49]) 1 ((60 :: dec n ++ [62, 49]).length - 2) = .ok (dec n) ∧
    atoi (dec n) = some (n : Int) := by
  unfold dec
  by_cases h1 : n < 10
  · have a1 : 48 + n ≠ 43 := by omega
    have a2 : 48 + n ≠ 45 := by omega
    have a3 : 48 + n ≤ 57 := by omega
    simp [h1, hasSuffix, slice, atoi, atoiU, digitsVal, isDigit, a1, a2, a3]; omega
  · by_cases h2 : n < 100
    · have a1 : 48 + n / 10 ≠ 43 := by omega
      have a2 : 48 + n / 10 ≠ 45 := by omega
      have a3 : 48 + n / 10 ≤ 57 := by omega
      have a4 : 48 + n % 10 ≤ 57 := by omega
      simp [h1, h2, hasSuffix, slice, atoi, atoiU, digitsVal, isDigit, a1, a2, a3, a4]; omega
    · have a1 : 48 + n / 100 ≠ 43 := by omega
      have a2 : 48 + n / 100 ≠ 45 := by omega
      have a3 : 48 + n / 100 ≤ 57 := by omega
      have a4 : 48 + n / 10 % 10 ≤ 57 := by omega
      have a5 : 48 + n % 10 ≤ 57 := by omega
      simp [h1, h2, hasSuffix, slice, atoi, atoiU, digitsVal, isDigit, a1, a2, a3, a4, a5]; omega

theorem restFields_render (t0 t1 t2 t3 t4 t5 msg : Bytes)
    (h0 : 32 ∉ t0) (h1 : 32 ∉ t1) (h2 : 32 ∉ t2) (h3 : 32 ∉ t3) (h4 : 32 ∉ t4) (h5 : 32 ∉ t5) :
    restFields 6 (t0 ++ 32 :: (t1 ++ 32 :: (t2 ++ 32 :: (t3 ++ 32 :: (t4 ++ 32 :: (t5 ++ 32 :: msg)))))) [] =
      some ([t0, t1, t2, t3, t4, t5], msg) := by
  simp [restFields, nextField_tok, h0, h1, h2, h3, h4, h5]

theorem render_length (h : Hdr) (msg : Bytes) : 1 ≤ (render h msg).length := by
  simp [render]

/-- **C09 (faithful parsing).** For every well-formed RFC 5424 line of at least the minimal length
the record carries exactly the facility and mapped level of its PRI and the six header tokens and
the message of the line; it is counted as passed, and as overflow exactly when the message exceeds
the limit. -/
theorem C09_parse_render (cfg : Cfg) (h : Hdr) (msg : Bytes)
    (hp : h.pri ≤ 191) (hf : cfg.facilities.length = 24) (hl : cfg.levels.length = 8)
    (hs : h.NoSpaces) (hlen : cfg.minLen ≤ (render h msg).length) :
    ∃ fac lvl, cfg.facilities[h.pri / 8]? = some fac ∧ cfg.levels[h.pri % 8]? = some lvl ∧
      parseGo cfg (render h msg) = .ok (.pass
        { facility := fac, level := lvl, time := h.time, host := h.host, app := h.app, pid := h.pid,
          source := h.source, extradata := h.sd,
          log := cutMsg cfg (render h msg).length msg,
          unescaped := (cutMsg cfg (render h msg).length msg).contains 10,
          rawLength := (render h msg).length } (msg.length > cfg.maxMsg)) := by
  obtain ⟨s0, s1, s2, s3, s4, s5⟩ := hs
  obtain ⟨p1, p2, p3, p4⟩ := pri_tok h.pri (by omega)
  have hfac : h.pri / 8 < cfg.facilities.length := by omega
  have hlvl : h.pri % 8 < cfg.levels.length := by omega
  refine ⟨cfg.facilities[h.pri / 8], cfg.levels[h.pri % 8], by simp, by simp, ?_⟩
  have hnf : nextField (render h msg) = some (60 :: dec h.pri ++ [62, 49], _) :=
    nextField_tok _ _ p1
  have hidx : idx (render h msg) 0 = .ok 60 := by simp [render, idx]
  have e1 : ((h.pri : Int) / 8) = ((h.pri / 8 : Nat) : Int) := by omega
  have e2 : ((h.pri : Int) % 8) = ((h.pri % 8 : Nat) : Int) := by omega
  have hnl : ¬ (render h msg).length < cfg.minLen := by omega
  unfold parseGo
  simp only [bind, Except.bind, pure, Except.pure, hnl, if_false, hidx, hnf, p2, p3, p4,
    restFields_render _ _ _ _ _ _ _ s0 s1 s2 s3 s4 s5]
  simp only [e1, e2, Int.toNat_natCast, List.getElem?_eq_getElem hfac, List.getElem?_eq_getElem hlvl]
  have hb : (decide (((h.pri / 8 : Nat) : Int) < 0) || decide (((h.pri / 8 : Nat) : Int) ≥ (cfg.facilities.length : Int))) = false := by
    simp; omega
  simp only [hb]
  by_cases hm : msg.length > cfg.maxMsg
  · have hsl : slice msg 0 cfg.maxMsg = .ok (msg.take cfg.maxMsg) := by
      simp [slice]; omega
    simp [hm, hsl, cutMsg]
  · simp [hm, cutMsg]

/-- **C09 (cut at a valid UTF-8 boundary).** Let `orig` be the valid UTF-8 message a client sent and
`orig.take n` what reached the parser (`n < orig.length` only when the framer cut the record at the
record limit, which the parser sees as `raw ≥ maxRec`).  The stored message is a prefix of `orig`,
is valid UTF-8, and is shorter than the applicable limit by at most the three bytes of a cut rune. -/
theorem C09_cut_at_utf8_boundary (cfg : Cfg) (raw : Nat) (orig : Bytes) (n : Nat)
    (hv : Utf8.valid orig = true) (hcut : n < orig.length → raw ≥ cfg.maxRec) :
    ∃ k, cutMsg cfg raw (orig.take n) = orig.take k ∧ Utf8.valid (orig.take k) = true ∧
      k ≤ min (min n cfg.maxMsg) orig.length ∧ min (min n cfg.maxMsg) orig.length ≤ k + 3 := by
  unfold cutMsg
  simp only [List.length_take]
  by_cases h1 : min n orig.length > cfg.maxMsg
  · simp only [h1, if_true, decide_true, Bool.true_or, List.take_take]
    obtain ⟨k, a, b, c, d⟩ := Utf8.clean_take_valid orig hv (min cfg.maxMsg n)
    exact ⟨k, a, b, by omega, by omega⟩
  · simp only [h1, if_false, decide_false, Bool.false_or]
    by_cases h2 : raw ≥ cfg.maxRec
    · simp only [h2, decide_true, if_true]
      obtain ⟨k, a, b, c, d⟩ := Utf8.clean_take_valid orig hv (min n orig.length)
      refine ⟨k, ?_, b, by omega, by omega⟩
      rw [← a, List.take_eq_take_min]
    · simp only [h2, decide_false]
      have hn : orig.length ≤ n := by
        false_or_by_contra
        exact h2 (hcut (by omega))
      refine ⟨orig.length, by simp [List.take_of_length_le hn], by simpa using hv, by omega, by omega⟩

/-- a message within the limits that was not cut is stored as it is, valid or not -/
theorem C09_uncut_unchanged (cfg : Cfg) (raw : Nat) (msg : Bytes)
    (h1 : msg.length ≤ cfg.maxMsg) (h2 : raw < cfg.maxRec) : cutMsg cfg raw msg = msg := by
  have : ¬ msg.length > cfg.maxMsg := by omega
  have h3 : ¬ raw ≥ cfg.maxRec := by omega
  simp [cutMsg, this, h3]

/-- **C09 (out-of-range PRI rejected).** A numeric PRI of 192 or more is dropped (and counted as such). -/
theorem C09_pri_out_of_range (cfg : Cfg) (h : Hdr) (msg : Bytes)
    (hp : 192 ≤ h.pri ∧ h.pri ≤ 999) (hf : cfg.facilities.length = 24)
    (hlen : cfg.minLen ≤ (render h msg).length) :
    parseGo cfg (render h msg) = .ok (.drop 4) := by
  obtain ⟨p1, p2, p3, p4⟩ := pri_tok h.pri (by omega)
  have hnf : nextField (render h msg) = some (60 :: dec h.pri ++ [62, 49], _) :=
    nextField_tok _ _ p1
  have hidx : idx (render h msg) 0 = .ok 60 := by simp [render, idx]
  have hnl : ¬ (render h msg).length < cfg.minLen := by omega
  unfold parseGo
  simp only [bind, Except.bind, pure, Except.pure, hnl, if_false, hidx, hnf, p2, p3, p4]
  have hb : (decide ((h.pri : Int) / 8 < 0) || decide ((h.pri : Int) / 8 ≥ (cfg.facilities.length : Int))) = true := by
    simp; omega
  simp [hb]

/-- **C09 (counted exactly once).** Whatever the outcome, exactly one record is counted, with the
raw length, as passed or as dropped. -/
theorem C09_counted_once (raw : Nat) (o : Outcome) :
    (counts raw o).passed + (counts raw o).dropped = 1 ∧
    (counts raw o).passedBytes + (counts raw o).droppedBytes = raw := by
  cases o <;> simp [counts]

/-- overflow is counted exactly for passed records whose message was cut -/
theorem C09_overflow_counted (raw : Nat) (r : Rec) (ov : Bool) :
    (counts raw (.pass r ov)).overflow = (if ov then 1 else 0) := by
  simp [counts]

/-! ### fact obligations (Tie B) -/

theorem C09_fact_min_len : Facts.parse_min_len = some 32 := by decide
theorem C09_fact_facilities : Facts.facility_names.length = 24 := by decide
theorem C09_fact_severities : Facts.severity_names.length = 8 := by decide
theorem C09_fact_pri_suffix_safe : Facts.parse_pri_suffix_safe = some true := by decide
theorem C09_fact_clean_when_truncated : Facts.parse_clean_when_truncated = some true := by decide
theorem C09_fact_limits : Facts.defs_InputLogMaxMessageBytes = some 1048576 ∧
    Facts.defs_InputLogMaxRecordBytes = some 1048832 := by decide

/-! ### translated arithmetic (Tie B, semantic form) -/

theorem C09_fact_pri_found : Facts.gen_pri_facility_found = true ∧ Facts.gen_pri_severity_found = true ∧
    Facts.gen_facility_rejected_found = true := by decide
/-- facility and severity as the code computes them (`>> 3`, `& 0b111`, translated from the source) are the model's `/ 8` and
`% 8`, for every integer `strconv.Atoi` can return -/
theorem C09_gen_pri_arith (p : Int) : Facts.gen_pri_facility p = p / 8 ∧ Facts.gen_pri_severity p = p % 8 := ⟨rfl, rfl⟩
/-- the facility range check of the code is the model's -/
theorem C09_gen_facility_rejected (f : Int) (n : Nat) :
    Facts.gen_facility_rejected f n = (decide (f < 0) || decide (f ≥ (n : Int))) := rfl

/-! ### non-vacuity -/

def sampleCfg : Cfg :=
  { facilities := List.replicate 24 [102], levels := List.replicate 8 [108], maxMsg := 10, maxRec := 266 }
def sampleHdr : Hdr :=
  { pri := 163, time := b!"2019-08-15T15:50:46Z", host := b!"h", app := b!"a", pid := b!"1", source := b!"s", sd := b!"-" }

example : sampleHdr.NoSpaces ∧ sampleCfg.minLen ≤ (render sampleHdr (b!"hello world!")).length := by
  simp [Hdr.NoSpaces, sampleHdr, sampleCfg, render, dec]

/-- "héllo wörld€" cut at 10 bytes falls inside `ö`: the stored message ends before it -/
example : Utf8.valid [104, 195, 169, 108, 108, 111, 32, 119, 195, 182, 114, 108, 100, 226, 130, 172] = true ∧
    cutMsg sampleCfg 60 [104, 195, 169, 108, 108, 111, 32, 119, 195, 182, 114, 108, 100, 226, 130, 172]
      = [104, 195, 169, 108, 108, 111, 32, 119, 195, 182] ∧
    cutMsg { sampleCfg with maxMsg := 9 } 60 [104, 195, 169, 108, 108, 111, 32, 119, 195, 182, 114, 108, 100, 226, 130, 172]
      = [104, 195, 169, 108, 108, 111, 32, 119] := by decide

end C09
