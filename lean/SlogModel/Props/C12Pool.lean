import SlogModel.Model.Pool
import SlogModel.Gen.Facts

/-!
  C12, the pooling mechanism itself — `Model/Pool.lean` is `base/logallocator.go`.

  * `C12_pool_holds_clean_records` : after every sequence of `NewRecord` / field writes / `Release` calls — any number of
      outputs, any choice `sync.Pool` makes, records released fewer times than they have outputs (dropped records) — every
      record in the pool has all fields empty, raw length 0, zero timestamp, reference count 0 and no backing buffer.
  * `C12_new_record_is_clean` : hence the record `NewRecord` hands out never carries a field value, length or timestamp of
      an earlier record, whichever pooled record it is, and starts with exactly one reference per output.
  * `C12_live_counts_positive` : a record that is handed out has a positive count, so `Release` on it cannot reach the
      "negative reference count" panic.
  * the one piece of state `Release` leaves behind is `Unescaped` (witness below); the parser assigns it for every record
      (`C12_fact_parser_assigns_unescaped`).
-/

namespace C12Pool
open Pool

theorem mem_remove (l : List (Nat × Rec)) (h : Nat) (p : Nat × Rec) (hp : p ∈ remove l h) : p ∈ l :=
  (List.mem_filter.mp hp).1

theorem mem_update (l : List (Nat × Rec)) (h : Nat) (r : Rec) (p : Nat × Rec) (hp : p ∈ update l h r) : p ∈ l ∨ p = (h, r) := by
  unfold update at hp
  obtain ⟨q, hq, rfl⟩ := List.mem_map.mp hp
  by_cases e : q.1 = h
  · simp [e]
  · simp [e, hq]

theorem lookup_mem (l : List (Nat × Rec)) (h : Nat) (r : Rec) (hl : lookup l h = some r) : ∃ p ∈ l, p.2 = r := by
  unfold lookup at hl
  cases hf : l.find? (fun p => p.1 = h) with
  | none => simp [hf] at hl
  | some p =>
    simp [hf] at hl
    exact ⟨p, List.mem_of_find?_eq_some hf, hl⟩

theorem lookup_append_new (l : List (Nat × Rec)) (h : Nat) (r : Rec) (hn : (lookup l h).isSome = false) :
    lookup (l ++ [(h, r)]) h = some r := by
  unfold lookup at hn ⊢
  rw [List.find?_append]
  cases hf : l.find? (fun p => p.1 = h) with
  | some p => simp [hf] at hn
  | none => simp

structure Inv (s : St) : Prop where
  pool : ∀ p ∈ s.pool, Clean p.2 ∧ p.2.refCount = 0 ∧ p.2.backbuf = none ∧ p.2.fields.length = s.nFields
  live : ∀ p ∈ s.live, 0 < p.2.refCount ∧ p.2.fields.length = s.nFields

theorem fresh_clean (n : Nat) : Clean (fresh n) ∧ (fresh n).fields.length = n := by
  refine ⟨⟨?_, rfl, rfl⟩, by simp [fresh]⟩
  intro f hf
  simp [fresh] at hf
  exact hf.2

theorem cleared_clean (r : Rec) : Clean (cleared r) ∧ (cleared r).fields.length = r.fields.length := by
  refine ⟨⟨?_, rfl, rfl⟩, by simp [cleared]⟩
  intro f hf
  simp [cleared] at hf
  exact hf.2

theorem step_inv (s s' : St) (o : Op) (hout : 0 < s.outputs) (h : step s o = some s') (hi : Inv s) :
    Inv s' ∧ s'.nFields = s.nFields ∧ s'.outputs = s.outputs := by
  cases o with
  | new hd src big =>
    simp only [step] at h
    split at h
    · cases h
    · split at h
      · cases h
      · cases src with
        | none =>
          simp only [] at h
          cases h
          refine ⟨⟨hi.pool, ?_⟩, rfl, rfl⟩
          intro p hp
          rcases List.mem_append.mp hp with hp | hp
          · exact hi.live p hp
          · simp at hp; subst hp
            exact ⟨by simp; omega, (fresh_clean s.nFields).2⟩
        | some q =>
          simp only [] at h
          split at h
          · cases h
          · rename_i r hr
            cases h
            obtain ⟨p0, hp0, rfl⟩ := lookup_mem s.pool q r hr
            have := hi.pool p0 hp0
            refine ⟨⟨fun p hp => hi.pool p (mem_remove _ _ _ hp), ?_⟩, rfl, rfl⟩
            intro p hp
            rcases List.mem_append.mp hp with hp | hp
            · exact hi.live p hp
            · simp at hp; subst hp
              exact ⟨by simp [this.2.1]; omega, this.2.2.2⟩
  | set hd i v =>
    simp only [step] at h
    split at h
    · cases h
    · rename_i r hr
      split at h
      · cases h
        obtain ⟨p0, hp0, rfl⟩ := lookup_mem s.live hd r hr
        refine ⟨⟨hi.pool, ?_⟩, rfl, rfl⟩
        intro p hp
        rcases mem_update _ _ _ _ hp with hp | hp
        · exact hi.live p hp
        · subst hp; exact ⟨(hi.live p0 hp0).1, by simp [(hi.live p0 hp0).2]⟩
      · cases h
  | hdr hd raw ts unesc =>
    simp only [step] at h
    split at h
    · cases h
    · rename_i r hr
      cases h
      obtain ⟨p0, hp0, rfl⟩ := lookup_mem s.live hd r hr
      refine ⟨⟨hi.pool, ?_⟩, rfl, rfl⟩
      intro p hp
      rcases mem_update _ _ _ _ hp with hp | hp
      · exact hi.live p hp
      · subst hp; exact hi.live p0 hp0
  | release hd =>
    simp only [step] at h
    split at h
    · cases h
    · rename_i r hr
      obtain ⟨p0, hp0, rfl⟩ := lookup_mem s.live hd r hr
      split at h
      · cases h
      · split at h
        · rename_i hpos
          cases h
          refine ⟨⟨hi.pool, ?_⟩, rfl, rfl⟩
          intro p hp
          rcases mem_update _ _ _ _ hp with hp | hp
          · exact hi.live p hp
          · subst hp; exact ⟨hpos, (hi.live p0 hp0).2⟩
        · cases h
          refine ⟨⟨?_, fun p hp => hi.live p (mem_remove _ _ _ hp)⟩, rfl, rfl⟩
          intro p hp
          rcases List.mem_append.mp hp with hp | hp
          · exact hi.pool p hp
          · simp at hp; subst hp
            have hc := cleared_clean { p0.2 with refCount := 0 }
            exact ⟨hc.1, rfl, rfl, by rw [hc.2]; exact (hi.live p0 hp0).2⟩

def init (nFields outputs : Nat) : St := { nFields := nFields, outputs := outputs }

theorem run_inv : ∀ (ops : List Op) (s s' : St), 0 < s.outputs → run s ops = some s' → Inv s → Inv s' ∧ s'.outputs = s.outputs
  | [], s, s', _, h, hi => by simp [run] at h; subst h; exact ⟨hi, rfl⟩
  | o :: os, s, s', hout, h, hi => by
    simp only [run] at h
    cases hs : step s o with
    | none => simp [hs] at h
    | some s1 =>
      simp only [hs] at h
      obtain ⟨h1, _, h3⟩ := step_inv s s1 o hout hs hi
      obtain ⟨h4, h5⟩ := run_inv os s1 s' (by omega) h h1
      exact ⟨h4, by omega⟩

/-- **C12 (what the pool holds).** -/
theorem C12_pool_holds_clean_records (nFields outputs : Nat) (hout : 0 < outputs) (ops : List Op) (s : St)
    (h : run (init nFields outputs) ops = some s) :
    ∀ p ∈ s.pool, Clean p.2 ∧ p.2.refCount = 0 ∧ p.2.backbuf = none :=
  fun p hp =>
    let hi := (run_inv ops _ s hout h ⟨by intro p hp; simp [init] at hp, by intro p hp; simp [init] at hp⟩).1
    ⟨(hi.pool p hp).1, (hi.pool p hp).2.1, (hi.pool p hp).2.2.1⟩

/-- **C12 (a new record carries nothing of an earlier one).** Whatever happened before and whichever pooled record
`sync.Pool` returns, the record `NewRecord` hands out has every field empty, raw length 0 and the zero timestamp, and one
reference per output. -/
theorem C12_new_record_is_clean (nFields outputs : Nat) (hout : 0 < outputs) (ops : List Op) (s s' : St)
    (h : run (init nFields outputs) ops = some s) (hd : Nat) (src : Option Nat) (big : Option Nat)
    (hn : step s (.new hd src big) = some s') :
    ∃ r, lookup s'.live hd = some r ∧ Clean r ∧ r.refCount = outputs := by
  obtain ⟨hi, hout'⟩ := run_inv ops _ s hout h ⟨by intro p hp; simp [init] at hp, by intro p hp; simp [init] at hp⟩
  have ho : s.outputs = outputs := by simpa [init] using hout'
  simp only [step] at hn
  split at hn
  · cases hn
  · rename_i hfree
    have hfree' : (lookup s.live hd).isSome = false := by simpa using hfree
    split at hn
    · cases hn
    · cases src with
      | none =>
        simp only [] at hn
        cases hn
        refine ⟨_, lookup_append_new _ _ _ hfree', ?_, by simp [fresh, ho]⟩
        exact ⟨(fresh_clean s.nFields).1.1, rfl, rfl⟩
      | some q =>
        simp only [] at hn
        split at hn
        · cases hn
        · rename_i r hr
          cases hn
          obtain ⟨p0, hp0, rfl⟩ := lookup_mem s.pool q r hr
          have := hi.pool p0 hp0
          refine ⟨_, lookup_append_new _ _ _ hfree', ⟨this.1.1, this.1.2.1, this.1.2.2⟩, by simp [this.2.1, ho]⟩

/-- **C12 (no negative reference count).** -/
theorem C12_live_counts_positive (nFields outputs : Nat) (hout : 0 < outputs) (ops : List Op) (s : St)
    (h : run (init nFields outputs) ops = some s) : ∀ p ∈ s.live, 0 < p.2.refCount :=
  fun p hp => ((run_inv ops _ s hout h ⟨by intro p hp; simp [init] at hp, by intro p hp; simp [init] at hp⟩).1.live p hp).1

/-- non-vacuity, two outputs: a record is recycled by its second release and reused; a dropped record (released once) is not -/
example : (run (init 3 2) [.new 0 none (some 7), .set 0 1 [97], .hdr 0 40 true true, .release 0, .release 0,
                            .new 1 none none, .set 1 0 [98], .release 1, .new 2 (some 0) (some 7)]).map
            (fun s => (s.pool.map (·.1), s.live.map (fun p => (p.1, p.2.fields, p.2.rawLength, p.2.tsSet, p.2.refCount.toNat)))) =
    some ([], [(1, [[98], [], []], 0, false, 1), (2, [[], [], []], 0, false, 2)]) := by rfl

/-- `Release` does not reset `Unescaped`: the reused record still carries the flag of the record before it -/
example : (run (init 1 1) [.new 0 none none, .hdr 0 9 true true, .release 0, .new 1 (some 0) none]).map
            (fun s => s.live.map (fun p => p.2.unescaped)) = some [true] := by decide

/-! ### backing buffers: no buffer is shared, none is in the pool while a record uses it -/

theorem lookup_cons (p : Nat × Rec) (l : List (Nat × Rec)) (h : Nat) :
    lookup (p :: l) h = if p.1 = h then some p.2 else lookup l h := by
  unfold lookup
  by_cases e : p.1 = h <;> simp [List.find?_cons, e]

theorem update_not_mem : ∀ (l : List (Nat × Rec)) (h : Nat) (r : Rec), h ∉ l.map (·.1) → update l h r = l
  | [], _, _, _ => rfl
  | p :: l, h, r, hn => by
    simp only [List.map_cons, List.mem_cons, not_or] at hn
    have e : ¬ p.1 = h := fun e => hn.1 e.symm
    simp only [update, List.map_cons, e, if_false]
    have := update_not_mem l h r hn.2
    simp only [update] at this
    rw [this]

theorem remove_not_mem (l : List (Nat × Rec)) (h : Nat) (hn : h ∉ l.map (·.1)) : remove l h = l := by
  unfold remove
  rw [List.filter_eq_self]
  intro p hp
  simp only [ne_eq, decide_eq_true_eq]
  intro e
  exact hn (List.mem_map.mpr ⟨p, hp, e⟩)

theorem map_fst_update (l : List (Nat × Rec)) (h : Nat) (r : Rec) : (update l h r).map (·.1) = l.map (·.1) := by
  unfold update
  rw [List.map_map]
  apply List.map_congr_left
  intro p _
  by_cases e : p.1 = h <;> simp [e]

theorem liveBufs_update : ∀ (l : List (Nat × Rec)) (h : Nat) (r r' : Rec), (l.map (·.1)).Nodup → lookup l h = some r →
    r'.backbuf = r.backbuf → liveBufs (update l h r') = liveBufs l
  | [], _, _, _, _, hl, _ => by simp [lookup] at hl
  | p :: l, h, r, r', hn, hl, hb => by
    rw [lookup_cons] at hl
    simp only [List.map_cons, List.nodup_cons] at hn
    by_cases e : p.1 = h
    · simp only [e, if_true, Option.some.injEq] at hl
      have hnot : h ∉ l.map (·.1) := e ▸ hn.1
      have hu := update_not_mem l h r' hnot
      simp only [update] at hu
      simp only [update, List.map_cons, e, if_true, hu, liveBufs, List.filterMap_cons, hb, ← hl]
    · simp only [e, if_false] at hl
      have ih := liveBufs_update l h r r' hn.2 hl hb
      simp only [update, liveBufs] at ih
      simp only [update, List.map_cons, e, if_false, liveBufs, List.filterMap_cons, ih]

theorem liveBufs_remove_perm : ∀ (l : List (Nat × Rec)) (h : Nat) (r : Rec), (l.map (·.1)).Nodup → lookup l h = some r →
    (liveBufs l).Perm (r.backbuf.toList ++ liveBufs (remove l h))
  | [], _, _, _, hl => by simp [lookup] at hl
  | p :: l, h, r, hn, hl => by
    rw [lookup_cons] at hl
    simp only [List.map_cons, List.nodup_cons] at hn
    by_cases e : p.1 = h
    · simp only [e, if_true, Option.some.injEq] at hl
      have hnot : h ∉ l.map (·.1) := e ▸ hn.1
      have hr := remove_not_mem l h hnot
      simp only [remove] at hr
      have e' : ¬ (p.1 ≠ h) := fun c => c e
      simp only [remove, List.filter_cons, liveBufs, List.filterMap_cons, hl]
      simp only [ne_eq, e, not_true_eq_false, decide_false, Bool.false_eq_true, if_false, hr]
      cases r.backbuf <;> simp
    · simp only [e, if_false] at hl
      have ih := liveBufs_remove_perm l h r hn.2 hl
      simp only [remove, liveBufs] at ih
      have e' : p.1 ≠ h := e
      simp only [remove, List.filter_cons, liveBufs, List.filterMap_cons, ne_eq, e, not_false_eq_true, decide_true, if_true]
      cases hb : p.2.backbuf with
      | none => simpa [hb] using ih
      | some b =>
        simp only [hb]
        refine (List.Perm.cons b ih).trans ?_
        exact (List.perm_middle).symm

structure BInv (s : St) : Prop where
  handles : (s.live.map (·.1)).Nodup
  bufs : (liveBufs s.live ++ s.bufPool).Nodup

theorem lookup_none_not_mem : ∀ (l : List (Nat × Rec)) (h : Nat), (lookup l h).isSome = false → h ∉ l.map (·.1)
  | [], _, _ => by simp
  | p :: l, h, hl => by
    rw [lookup_cons] at hl
    by_cases e : p.1 = h
    · simp [e] at hl
    · simp only [e, if_false] at hl
      simp only [List.map_cons, List.mem_cons, not_or]
      exact ⟨fun c => e c.symm, lookup_none_not_mem l h hl⟩

theorem step_binv (s s' : St) (o : Op) (h : step s o = some s') (hi : BInv s) : BInv s' := by
  cases o with
  | new hd src buf =>
    simp only [step] at h
    split at h
    · cases h
    · rename_i hfree
      have hnot := lookup_none_not_mem s.live hd (by simpa using hfree)
      have hh : ∀ r : Rec, ((s.live ++ [(hd, r)]).map (·.1)).Nodup := by
        intro r
        simp only [List.map_append, List.map_cons, List.map_nil]
        exact List.nodup_append.mpr ⟨hi.handles, by simp, by intro a ha b hb; simp at hb; subst hb; exact fun e => hnot (e ▸ ha)⟩
      -- whatever record is used, the new live entry carries `buf`; the buffer pool is `bp`
      have key : ∀ (bp : List Nat) (r : Rec), takeBuf s buf = some bp → r.backbuf = buf →
          BInv { s with pool := s'.pool, bufPool := bp, live := s.live ++ [(hd, r)] } := by
        intro bp r htb hrb
        refine ⟨?_, ?_⟩
        · exact hh r
        · simp only [liveBufs, List.filterMap_append, List.filterMap_cons, List.filterMap_nil, hrb]
          cases buf with
          | none =>
            simp only [takeBuf, Option.some.injEq] at htb
            subst htb
            simpa [liveBufs] using hi.bufs
          | some b =>
            simp only [takeBuf] at htb
            have hb0 := hi.bufs
            simp only [liveBufs] at hb0
            split at htb
            · rename_i hin
              cases htb
              -- the buffer moves from the pool to the new record
              have hperm : (s.bufPool).Perm (b :: s.bufPool.erase b) := List.perm_cons_erase hin
              have : (List.filterMap (fun p => p.2.backbuf) s.live ++ [b] ++ s.bufPool.erase b).Perm
                  (List.filterMap (fun p => p.2.backbuf) s.live ++ s.bufPool) := by
                rw [List.append_assoc]
                exact List.Perm.append_left _ hperm.symm
              exact (this.nodup_iff).mpr hb0
            · rename_i hnin
              split at htb
              · cases htb
              · rename_i hnl
                cases htb
                have hfresh : b ∉ List.filterMap (fun p => p.2.backbuf) s.live ++ s.bufPool := by
                  simp only [List.mem_append, not_or]
                  exact ⟨by simpa [liveBufs] using hnl, hnin⟩
                have : (List.filterMap (fun p => p.2.backbuf) s.live ++ [b] ++ s.bufPool).Perm
                    (b :: (List.filterMap (fun p => p.2.backbuf) s.live ++ s.bufPool)) := by
                  rw [List.append_assoc]
                  exact (List.perm_middle)
                exact (this.nodup_iff).mpr (List.nodup_cons.mpr ⟨hfresh, hb0⟩)
      split at h
      · cases h
      · rename_i bp htb
        cases src with
        | none =>
          simp only [] at h
          cases h
          exact key bp _ htb rfl
        | some q =>
          simp only [] at h
          split at h
          · cases h
          · cases h
            exact key bp _ htb rfl
  | set hd i v =>
    simp only [step] at h
    split at h
    · cases h
    · rename_i r hr
      split at h
      · cases h
        exact ⟨by show ((update s.live hd _).map (·.1)).Nodup; rw [map_fst_update]; exact hi.handles,
               by show (liveBufs (update s.live hd _) ++ s.bufPool).Nodup
                  rw [liveBufs_update s.live hd r { r with fields := r.fields.set i v } hi.handles hr rfl]; exact hi.bufs⟩
      · cases h
  | hdr hd raw ts unesc =>
    simp only [step] at h
    split at h
    · cases h
    · rename_i r hr
      cases h
      exact ⟨by show ((update s.live hd _).map (·.1)).Nodup; rw [map_fst_update]; exact hi.handles,
               by show (liveBufs (update s.live hd _) ++ s.bufPool).Nodup
                  rw [liveBufs_update s.live hd r { r with rawLength := raw, tsSet := ts, unescaped := unesc } hi.handles hr rfl]; exact hi.bufs⟩
  | release hd =>
    simp only [step] at h
    split at h
    · cases h
    · rename_i r hr
      split at h
      · cases h
      · split at h
        · cases h
          exact ⟨by show ((update s.live hd _).map (·.1)).Nodup; rw [map_fst_update]; exact hi.handles,
               by show (liveBufs (update s.live hd _) ++ s.bufPool).Nodup
                  rw [liveBufs_update s.live hd r { r with refCount := r.refCount - 1 } hi.handles hr rfl]; exact hi.bufs⟩
        · cases h
          refine ⟨?_, ?_⟩
          · show ((remove s.live hd).map (·.1)).Nodup
            exact List.Nodup.sublist (List.Sublist.map _ List.filter_sublist) hi.handles
          · show (liveBufs (remove s.live hd) ++ (s.bufPool ++ r.backbuf.toList)).Nodup
            have hp := liveBufs_remove_perm s.live hd r hi.handles hr
            have : (liveBufs (remove s.live hd) ++ (s.bufPool ++ r.backbuf.toList)).Perm (liveBufs s.live ++ s.bufPool) := by
              refine List.perm_iff_count.mpr (fun x => ?_)
              have := hp.count_eq x
              simp only [List.count_append] at this ⊢
              omega
            exact (this.nodup_iff).mpr hi.bufs

theorem run_binv : ∀ (ops : List Op) (s s' : St), run s ops = some s' → BInv s → BInv s'
  | [], s, s', h, hi => by simp [run] at h; subst h; exact hi
  | o :: os, s, s', h, hi => by
    simp only [run] at h
    cases hs : step s o with
    | none => simp [hs] at h
    | some s1 =>
      simp only [hs] at h
      exact run_binv os s1 s' h (step_binv s s1 o hs hi)

/-- **C12 (backing buffers are never shared).** After every sequence of `NewRecord` / writes / `Release` calls — whichever
pooled record and whichever pooled buffer the pools hand out — no backing buffer is referenced by two records that are handed
out, and no buffer sits in the buffer pool while a handed-out record still references it: the bytes a record's field values
point into are never another live record's, and are not given to a new record before this one is recycled. -/
theorem C12_backing_buffers_disjoint (nFields outputs : Nat) (ops : List Op) (s : St)
    (h : run (init nFields outputs) ops = some s) : (liveBufs s.live ++ s.bufPool).Nodup :=
  (run_binv ops _ s h ⟨by simp [init], by simp [init, liveBufs]⟩).bufs

/-- non-vacuity: a buffer is reused only after the record that held it was recycled; while it is in use the model refuses to
hand it out again -/
example : (run (init 1 1) [.new 0 none (some 7), .release 0, .new 1 (some 0) (some 7)]).map (fun s => (liveBufs s.live, s.bufPool)) =
    some ([7], []) := by rfl
example : (run (init 1 1) [.new 0 none (some 7), .new 1 none (some 7)]).isNone = true := by rfl

/-! ### the callers' discipline: one `Release` per output recycles, never more -/

theorem lookup_update_self : ∀ (l : List (Nat × Rec)) (h : Nat) (r r' : Rec), lookup l h = some r → lookup (update l h r') h = some r'
  | [], _, _, _, hl => by simp [lookup] at hl
  | p :: l, h, r, r', hl => by
    rw [lookup_cons] at hl
    by_cases e : p.1 = h
    · simp only [update, List.map_cons, e, if_true]
      rw [lookup_cons]; simp
    · simp only [e, if_false] at hl
      have ih := lookup_update_self l h r r' hl
      simp only [update] at ih
      simp only [update, List.map_cons, e, if_false]
      rw [lookup_cons]; simp only [e, if_false]; exact ih

theorem lookup_remove_self (l : List (Nat × Rec)) (h : Nat) : lookup (remove l h) h = none := by
  unfold lookup remove
  cases hf : (l.filter (fun p => p.1 ≠ h)).find? (fun p => p.1 = h) with
  | none => rfl
  | some p =>
    have h1 := List.find?_some hf
    have h2 := (List.mem_filter.mp (List.mem_of_find?_eq_some hf)).2
    simp at h1 h2
    exact absurd h1 h2

/-- `k` further releases of a handed-out record whose count is `k` are all enabled; the last one recycles it -/
theorem releases_recycle : ∀ (k : Nat) (s : St) (h : Nat) (r : Rec), lookup s.live h = some r → r.refCount = (k : Int) + 1 →
    ∃ s', run s (List.replicate (k + 1) (.release h)) = some s' ∧ lookup s'.live h = none ∧ h ∈ s'.pool.map (·.1)
  | 0, s, h, r, hl, hc => by
    refine ⟨{ s with live := remove s.live h, pool := s.pool ++ [(h, cleared { r with refCount := 0 })],
                     bufPool := s.bufPool ++ r.backbuf.toList }, ?_, lookup_remove_self _ _, by simp⟩
    have h0 : r.refCount - 1 = 0 := by omega
    simp [run, step, hl, h0]
  | k + 1, s, h, r, hl, hc => by
    have hpos : r.refCount - 1 > 0 := by omega
    have hnn : ¬ (r.refCount - 1 < 0) := by omega
    have hstep : step s (.release h) = some { s with live := update s.live h { r with refCount := r.refCount - 1 } } := by
      have h1lt : 1 < r.refCount := by omega
      simp [step, hl, hnn, h1lt]
    obtain ⟨s', h1, h2, h3⟩ := releases_recycle k { s with live := update s.live h { r with refCount := r.refCount - 1 } } h
      { r with refCount := r.refCount - 1 } (lookup_update_self s.live h r _ hl) (by simp; omega)
    refine ⟨s', ?_, h2, h3⟩
    rw [show List.replicate (k + 1 + 1) (Op.release h) = .release h :: List.replicate (k + 1) (.release h) from rfl]
    simp only [run, hstep]
    exact h1

/-- **C12 (the processing worker's releases).** From any reachable state: after `NewRecord`, the `outputs` releases of a
record that passes (one after each output has serialized it) are all enabled — none reaches the negative-count panic — and
the last one recycles the record; a record that is dropped is released once and (with more than one output) simply never
returns to the pool. -/
theorem C12_one_release_per_output_recycles (nFields outputs : Nat) (hout : 0 < outputs) (ops : List Op) (s s1 : St)
    (h : run (init nFields outputs) ops = some s) (hd : Nat) (src : Option Nat) (buf : Option Nat)
    (hn : step s (.new hd src buf) = some s1) :
    ∃ s2, run s1 (List.replicate outputs (.release hd)) = some s2 ∧ lookup s2.live hd = none ∧ hd ∈ s2.pool.map (·.1) := by
  obtain ⟨r, hl, _, hc⟩ := C12_new_record_is_clean nFields outputs hout ops s s1 h hd src buf hn
  obtain ⟨k, rfl⟩ : ∃ k, outputs = k + 1 := ⟨outputs - 1, by omega⟩
  exact releases_recycle k s1 hd r hl (by rw [hc]; simp)

/-! ### fact obligations (Tie B) -/

/-- `Release`, statement by statement -/
theorem C12_fact_release : Facts.pool_release =
    ["record._refCount--", "if record._refCount < 0 {", "logger.Panic(\"negative reference count in record: \", record)", "}",
     "if record._refCount > 0 {", "return", "}", "for i := range record.Fields { record.Fields[i] = \"\" }",
     "record.RawLength = 0", "record.Timestamp = time.Time{}", "alloc.recycleRecord(record)"] := by decide
/-- `recycleRecord` and the head of `NewRecord` -/
theorem C12_fact_recycle : Facts.pool_recycle =
    ["if record._backbuf != nil {", "alloc.backbufPools.Put(record._backbuf)", "record._backbuf = nil", "}", "alloc.recordPool.Put(record)"] ∧
    Facts.pool_new_head = ["record := alloc.recordPool.Get().(*LogRecord)", "record._refCount += alloc.initialRefCount"] := by decide
/-- the syslog parser assigns `Unescaped` for every record it returns, unconditionally -/
theorem C12_fact_parser_assigns_unescaped : Facts.parse_unescaped_assignment = ["record.Unescaped = strings.IndexByte(remaining, '\\n') != -1"] := by decide

/-- the callers of `Release`: the parser for a malformed line, the extraction stage and the processing worker for a dropped
record (one release each), and the processing worker once per output for a record that passes -/
theorem C12_fact_release_sites : Facts.pool_release_sites =
    ["base/bsupport/logprocessingworker.go:onInput:worker.deallocator.Release",
     "base/bsupport/logprocessingworker.go:onInput:worker.deallocator.Release",
     "input/sysloginput/compositeparser.go:Parse:cp.deallocator.Release",
     "input/syslogparser/syslogparser.go:onMalformed:parser.allocator.Release"] := by decide

end C12Pool
