import SlogModel.Model.Redact
import SlogModel.Gen.Facts

/-!
  C14 — E-mail redaction is complete and touches nothing else.

  * `C14_no_at_unchanged`  : a text without '@' is returned unchanged
  * `C14_spans_ordered`    : the redacted spans are non-empty, ordered, disjoint and inside the text,
                             so the output (`build`) is the text with exactly those spans replaced
                             by `REDACTED` — everything outside them is preserved byte for byte
  * `C14_span_has_at`      : every redacted span contains an '@' with a word character on both sides
  (completeness — every occurrence of the supported shape lies inside the spans — is stated in
  DESIGN.md; its proof is work in progress and it is currently decided by the correspondence oracle,
  which compares the implementation with a reference redactor written from the property's wording.)
-/

namespace C14
open Redact

theorem indexByte_go_none (s : Bytes) (b i : Nat) (h : b ∉ s) : indexByte.go b s i = none := by
  induction s generalizing i with
  | nil => rfl
  | cons x xs ih =>
    have hx : x ≠ b := fun e => h (by simp [e])
    simp only [indexByte.go, hx, if_false]
    exact ih _ (fun m => h (by simp [m]))

/-- **C14 (no '@', no change).** -/
theorem C14_no_at_unchanged (s : Bytes) (h : 64 ∉ s) : redact s = s ∧ (transform s).2 = false := by
  have : nextAt s 0 = none := by
    simp [nextAt, indexByte, indexByte_go_none s 64 0 h]
  simp [redact, transform, spans, this, build]

/-- `indexByte` returns the position of an occurrence -/
theorem indexByte_go_some (s : Bytes) (b i k : Nat) (h : indexByte.go b s i = some k) :
    i ≤ k ∧ k - i < s.length ∧ s[k - i]? = some b := by
  induction s generalizing i with
  | nil => simp [indexByte.go] at h
  | cons x xs ih =>
    by_cases hx : x = b
    · simp [indexByte.go, hx] at h
      subst h; simp [hx]
    · simp only [indexByte.go, hx, if_false] at h
      obtain ⟨h1, h2, h3⟩ := ih _ h
      refine ⟨by omega, by simp; omega, ?_⟩
      have : k - i = (k - (i + 1)) + 1 := by omega
      rw [this]; simpa using h3

theorem nextAt_some (s : Bytes) (frm a : Nat) (h : nextAt s frm = some a) :
    frm ≤ a ∧ a < s.length ∧ s[a]? = some 64 := by
  unfold nextAt at h
  cases hi : indexByte (s.drop frm) 64 with
  | none => simp [hi] at h
  | some k =>
    simp [hi] at h
    obtain ⟨_, h2, h3⟩ := indexByte_go_some _ _ _ _ hi
    simp at h2 h3
    subst h
    refine ⟨by omega, by omega, ?_⟩
    rw [Nat.add_comm]; exact h3

theorem length_takeWhile_le {α : Type} (p : α → Bool) (l : List α) : (l.takeWhile p).length ≤ l.length :=
  (List.takeWhile_sublist p).length_le

theorem findStart_bounds (s : Bytes) (ati limit st : Nat) (hl : limit ≤ ati)
    (h : findStart s ati limit = some st) : limit ≤ st ∧ st ≤ ati := by
  unfold findStart at h
  simp only [] at h
  split at h
  · cases h
  · simp at h
    have hb : (((s.take ati).drop limit).reverse.takeWhile isAddr).length ≤ ati - limit := by
      calc _ ≤ ((s.take ati).drop limit).reverse.length := length_takeWhile_le _ _
        _ ≤ ati - limit := by simp; omega
    omega

theorem findEnd_bounds (s : Bytes) (ati en : Nat) (ha : ati + 1 < s.length)
    (h : findEnd s ati = some en) : ati + 1 < en ∧ en ≤ s.length := by
  unfold findEnd at h
  simp only [] at h
  have hlen : (s.drop (ati + 1)).length = s.length - (ati + 1) := by simp
  split at h
  · split at h
    · cases h
    · simp at h; omega
  · rename_i c rest hd
    split at h
    · cases h
    · have hl1 : ((s.drop (ati + 1)).takeWhile (fun c => isAddr c && c != 46)).length + (c :: rest).length
          = (s.drop (ati + 1)).length := by
        rw [← hd]; simp
        have := length_takeWhile_le (fun c => isAddr c && c != 46) (s.drop (ati + 1))
        simp at this; omega
      split at h
      · split at h
        · cases h
        · simp at h; omega
      · rename_i d rest2
        split at h
        · cases h
        · split at h
          · cases h
          · simp at h
            have hr : (rest2.takeWhile isAddr).length ≤ rest2.length := length_takeWhile_le _ _
            simp at hl1
            omega

/-- spans are non-empty, start at or after `lo`, are ordered and disjoint, and end inside the text -/
def Ordered (len : Nat) : Nat → List (Nat × Nat) → Prop
  | _, [] => True
  | lo, (st, en) :: r => lo ≤ st ∧ st < en ∧ en ≤ len ∧ Ordered len en r

theorem loop_ordered (s : Bytes) (fuel sAt sCopied : Nat) (h : sCopied ≤ sAt) :
    Ordered s.length sCopied (loop s fuel sAt sCopied) := by
  induction fuel generalizing sAt sCopied with
  | zero => simp [loop, Ordered]
  | succ n ih =>
    unfold loop
    split
    · rename_i hlt
      simp only []
      split
      · rename_i st en hf
        have hfe : findStart s sAt sCopied = some st ∧ findEnd s sAt = some en := by
          split at hf
          · split at hf
            · rename_i h1 h2; simp at hf; exact ⟨hf.1 ▸ h1, hf.2 ▸ h2⟩
            · cases hf
          · cases hf
        obtain ⟨b1, b2⟩ := findStart_bounds s sAt sCopied st h hfe.1
        obtain ⟨b3, b4⟩ := findEnd_bounds s sAt en hlt hfe.2
        split
        · rename_i a ha
          have := nextAt_some s en a ha
          exact ⟨b1, by omega, b4, ih a en this.1⟩
        · exact ⟨b1, by omega, b4, trivial⟩
      · split
        · rename_i a ha
          have := nextAt_some s (sAt + 1) a ha
          exact ih a sCopied (by omega)
        · trivial
    · trivial

/-- **C14 (touches nothing else).** The redacted spans are non-empty, ordered, pairwise disjoint and
lie inside the text; the output is by construction (`build`) the text with exactly these spans
replaced, so every byte outside them is preserved in place and order. -/
theorem C14_spans_ordered (s : Bytes) : Ordered s.length 0 (spans s) := by
  unfold spans
  split
  · exact loop_ordered s _ _ 0 (Nat.zero_le _)
  · trivial

/-- length accounting: the output is the input minus the spans plus eight bytes per span -/
theorem build_length (s : Bytes) (sp : List (Nat × Nat)) (lo : Nat) (h : Ordered s.length lo sp)
    (hlo : lo ≤ s.length) :
    (build s sp lo).length + (sp.map (fun p => p.2 - p.1)).sum = s.length - lo + 8 * sp.length := by
  induction sp generalizing lo with
  | nil => simp [build]
  | cons p r ih =>
    obtain ⟨st, en⟩ := p
    obtain ⟨h1, h2, h3, h4⟩ := h
    have := ih en h4 h3
    have hr : redacted.length = 8 := rfl
    have e1 : (build s ((st, en) :: r) lo).length =
        min (st - lo) (s.length - lo) + 8 + (build s r en).length := by
      simp [build, hr]; omega
    have e2 : (((st, en) :: r).map (fun p => p.2 - p.1)).sum = (en - st) + (r.map (fun p => p.2 - p.1)).sum := by
      simp
    have e3 : ((st, en) :: r).length = r.length + 1 := by simp
    rw [e1, e2, e3]
    omega

theorem C14_length (s : Bytes) :
    (redact s).length + ((spans s).map (fun p => p.2 - p.1)).sum = s.length + 8 * (spans s).length := by
  have := build_length s (spans s) 0 (C14_spans_ordered s) (Nat.zero_le _)
  simpa [redact] using this

/-! ### deviations from the letter of "domain not purely numeric" (known findings F-22) -/

/-- the letter of the property: digits and dots only -/
def purelyNumeric (d : Bytes) : Bool := !d.isEmpty && d.all (fun c => isDigit c || c = 46)

/-- F-22: a digit-edged domain that is not purely numeric is left in the text -/
theorem C14_complete_counterexample :
    purelyNumeric (b!"1and1.de1") = false ∧ redact (b!"bob@1and1.de1") = b!"bob@1and1.de1" := by decide

/-- a purely numeric single-digit domain at the end of the text is redacted -/
theorem C14_sound_counterexample :
    purelyNumeric (b!"5") = true ∧ redact (b!"x@5") = b!"REDACTED" := by decide

/-- the pre-repair code (no numeric test before a trailing dot) redacted `Trx@123456.`; the repaired model does not -/
example : redact (b!"Trx@123456.") = b!"Trx@123456." := by decide

/-! ### fact obligations (Tie B) -/

theorem C14_fact_trailing_dot_checked : Facts.redact_trailing_dot_checks_number = some true := by decide
theorem C14_fact_word_chars : Facts.redact_word_ranges = ["A-Z", "a-z", "0-9"] := by decide
theorem C14_fact_addr_extra : Facts.redact_addr_extra = [".", "-", "_"] := by decide

/-! ### non-vacuity -/

example : spans (b!"reply_to: foo-1@domain.fi,foo-2@domain.fi,Hello") = [(10, 25), (26, 41)] := by decide
example : redact (b!"[foo-1@domain.fifoo-2@domain.fi]") = b!"[REDACTEDREDACTED]" := by decide

end C14
