import SlogModel.Model.Redact
import SlogModel.Gen.Facts

/-!
  C14 — E-mail redaction is complete and touches nothing else.

  * `C14_no_at_unchanged`  : a text without '@' is returned unchanged
  * `C14_spans_ordered`    : the redacted spans are non-empty, ordered, disjoint and inside the text,
                             so the output (`build`) is the text with exactly those spans replaced
                             by `REDACTED` — everything outside them is preserved byte for byte
  * `C14_span_has_at`      : every redacted span contains an '@' with a word character on both sides
  * `C14_every_at_examined` : the scan never skips an '@': every '@' with a word character on both
                             sides is inside a redacted span or was rejected by `findStart` (a '/'
                             directly before the local part) or `findEnd` (no dotted domain / number-like)
  * `C14_complete_dotted_partial` : an address `loc@label.d…` of the supported shape whose domain is
                             not number-like has its '@' inside a redacted span, wherever it sits and
                             whatever surrounds it (back-to-back addresses included).  Partial: domains
                             cut by the end of the text and the exact extent of the span are decided
                             by the correspondence oracle (reference redactor written from the
                             property's wording); "number-like" is wider than "purely numeric" (F-22).
-/

namespace C14
open Redact

theorem indexByte_go_none (s : Bytes) (b i : Nat) (h : b ∉ s) : indexByte.go b s i = none := by
  induction s generalizing i with
  | nil => rfl
  | cons x xs ih =>
    have hx : x ≠ b := fun e => h (by simp [e])
    simp only [indexByte.go, hx, if_false]
    exact ih _ (fun m => h (by simp [m]))

/-- **C14 (no '@', no change).** -/
theorem C14_no_at_unchanged (s : Bytes) (h : 64 ∉ s) : redact s = s ∧ (transform s).2 = false := by
  have : nextAt s 0 = none := by
    simp [nextAt, indexByte, indexByte_go_none s 64 0 h]
  simp [redact, transform, spans, this, build]

/-- `indexByte` returns the position of an occurrence -/
theorem indexByte_go_some (s : Bytes) (b i k : Nat) (h : indexByte.go b s i = some k) :
    i ≤ k ∧ k - i < s.length ∧ s[k - i]? = some b := by
  induction s generalizing i with
  | nil => simp [indexByte.go] at h
  | cons x xs ih =>
    by_cases hx : x = b
    · simp [indexByte.go, hx] at h
      subst h; simp [hx]
    · simp only [indexByte.go, hx, if_false] at h
      obtain ⟨h1, h2, h3⟩ := ih _ h
      refine ⟨by omega, by simp; omega, ?_⟩
      have : k - i = (k - (i + 1)) + 1 := by omega
      rw [this]; simpa using h3

theorem nextAt_some (s : Bytes) (frm a : Nat) (h : nextAt s frm = some a) :
    frm ≤ a ∧ a < s.length ∧ s[a]? = some 64 := by
  unfold nextAt at h
  cases hi : indexByte (s.drop frm) 64 with
  | none => simp [hi] at h
  | some k =>
    simp [hi] at h
    obtain ⟨_, h2, h3⟩ := indexByte_go_some _ _ _ _ hi
    simp at h2 h3
    subst h
    refine ⟨by omega, by omega, ?_⟩
    rw [Nat.add_comm]; exact h3

theorem length_takeWhile_le {α : Type} (p : α → Bool) (l : List α) : (l.takeWhile p).length ≤ l.length :=
  (List.takeWhile_sublist p).length_le

theorem findStart_bounds (s : Bytes) (ati limit st : Nat) (hl : limit ≤ ati)
    (h : findStart s ati limit = some st) : limit ≤ st ∧ st ≤ ati := by
  unfold findStart at h
  simp only [] at h
  split at h
  · cases h
  · simp at h
    have hb : (((s.take ati).drop limit).reverse.takeWhile isAddr).length ≤ ati - limit := by
      calc _ ≤ ((s.take ati).drop limit).reverse.length := length_takeWhile_le _ _
        _ ≤ ati - limit := by simp; omega
    omega

theorem findEnd_bounds (s : Bytes) (ati en : Nat) (ha : ati + 1 < s.length)
    (h : findEnd s ati = some en) : ati + 1 < en ∧ en ≤ s.length := by
  unfold findEnd at h
  simp only [] at h
  have hlen : (s.drop (ati + 1)).length = s.length - (ati + 1) := by simp
  split at h
  · split at h
    · cases h
    · simp at h; omega
  · rename_i c rest hd
    split at h
    · cases h
    · have hl1 : ((s.drop (ati + 1)).takeWhile (fun c => isAddr c && c != 46)).length + (c :: rest).length
          = (s.drop (ati + 1)).length := by
        rw [← hd]; simp
        have := length_takeWhile_le (fun c => isAddr c && c != 46) (s.drop (ati + 1))
        simp at this; omega
      split at h
      · split at h
        · cases h
        · simp at h; omega
      · rename_i d rest2
        split at h
        · cases h
        · split at h
          · cases h
          · simp at h
            have hr : (rest2.takeWhile isAddr).length ≤ rest2.length := length_takeWhile_le _ _
            simp at hl1
            omega

/-- spans are non-empty, start at or after `lo`, are ordered and disjoint, and end inside the text -/
def Ordered (len : Nat) : Nat → List (Nat × Nat) → Prop
  | _, [] => True
  | lo, (st, en) :: r => lo ≤ st ∧ st < en ∧ en ≤ len ∧ Ordered len en r

theorem loop_ordered (s : Bytes) (fuel sAt sCopied : Nat) (h : sCopied ≤ sAt) :
    Ordered s.length sCopied (loop s fuel sAt sCopied) := by
  induction fuel generalizing sAt sCopied with
  | zero => simp [loop, Ordered]
  | succ n ih =>
    unfold loop
    split
    · rename_i hlt
      simp only []
      split
      · rename_i st en hf
        have hfe : findStart s sAt sCopied = some st ∧ findEnd s sAt = some en := by
          split at hf
          · split at hf
            · rename_i h1 h2; simp at hf; exact ⟨hf.1 ▸ h1, hf.2 ▸ h2⟩
            · cases hf
          · cases hf
        obtain ⟨b1, b2⟩ := findStart_bounds s sAt sCopied st h hfe.1
        obtain ⟨b3, b4⟩ := findEnd_bounds s sAt en hlt hfe.2
        split
        · rename_i a ha
          have := nextAt_some s en a ha
          exact ⟨b1, by omega, b4, ih a en this.1⟩
        · exact ⟨b1, by omega, b4, trivial⟩
      · split
        · rename_i a ha
          have := nextAt_some s (sAt + 1) a ha
          exact ih a sCopied (by omega)
        · trivial
    · trivial

/-- **C14 (touches nothing else).** The redacted spans are non-empty, ordered, pairwise disjoint and
lie inside the text; the output is by construction (`build`) the text with exactly these spans
replaced, so every byte outside them is preserved in place and order. -/
theorem C14_spans_ordered (s : Bytes) : Ordered s.length 0 (spans s) := by
  unfold spans
  split
  · exact loop_ordered s _ _ 0 (Nat.zero_le _)
  · trivial

/-- length accounting: the output is the input minus the spans plus eight bytes per span -/
theorem build_length (s : Bytes) (sp : List (Nat × Nat)) (lo : Nat) (h : Ordered s.length lo sp)
    (hlo : lo ≤ s.length) :
    (build s sp lo).length + (sp.map (fun p => p.2 - p.1)).sum = s.length - lo + 8 * sp.length := by
  induction sp generalizing lo with
  | nil => simp [build]
  | cons p r ih =>
    obtain ⟨st, en⟩ := p
    obtain ⟨h1, h2, h3, h4⟩ := h
    have := ih en h4 h3
    have hr : redacted.length = 8 := rfl
    have e1 : (build s ((st, en) :: r) lo).length =
        min (st - lo) (s.length - lo) + 8 + (build s r en).length := by
      simp [build, hr]; omega
    have e2 : (((st, en) :: r).map (fun p => p.2 - p.1)).sum = (en - st) + (r.map (fun p => p.2 - p.1)).sum := by
      simp
    have e3 : ((st, en) :: r).length = r.length + 1 := by simp
    rw [e1, e2, e3]
    omega

theorem C14_length (s : Bytes) :
    (redact s).length + ((spans s).map (fun p => p.2 - p.1)).sum = s.length + 8 * (spans s).length := by
  have := build_length s (spans s) 0 (C14_spans_ordered s) (Nat.zero_le _)
  simpa [redact] using this

/-! ### completeness of the scan -/

theorem indexByte_go_min (s : Bytes) (b i k : Nat) (h : indexByte.go b s i = some k) :
    ∀ j : Nat, j < k - i → s[j]? ≠ some b := by
  induction s generalizing i with
  | nil => simp [indexByte.go] at h
  | cons x xs ih =>
    by_cases hx : x = b
    · simp [indexByte.go, hx] at h
      subst h; intro j hj; omega
    · simp only [indexByte.go, hx, if_false] at h
      have hb := (indexByte_go_some _ _ _ _ h).1
      intro j hj
      cases j with
      | zero => simpa using hx
      | succ j => simpa using ih _ h j (by omega)

theorem indexByte_go_absent (s : Bytes) (b i : Nat) (h : indexByte.go b s i = none) : ∀ j : Nat, s[j]? ≠ some b := by
  induction s generalizing i with
  | nil => intro j; simp
  | cons x xs ih =>
    by_cases hx : x = b
    · simp [indexByte.go, hx] at h
    · simp only [indexByte.go, hx, if_false] at h
      intro j
      cases j with
      | zero => simpa using hx
      | succ j => simpa using ih _ h j

/-- `nextAt` finds the first '@' at or after `frm` -/
theorem nextAt_min (s : Bytes) (frm a' : Nat) (h : nextAt s frm = some a') :
    ∀ a, frm ≤ a → s[a]? = some 64 → a' ≤ a := by
  unfold nextAt at h
  cases hi : indexByte (s.drop frm) 64 with
  | none => simp [hi] at h
  | some k =>
    simp [hi] at h
    subst h
    intro a hfa ha
    have := indexByte_go_min _ _ _ _ hi
    false_or_by_contra
    rename_i hlt
    apply this (a - frm) (by omega)
    rw [List.getElem?_drop, show frm + (a - frm) = a by omega]; exact ha

theorem nextAt_none (s : Bytes) (frm : Nat) (h : nextAt s frm = none) :
    ∀ a, frm ≤ a → s[a]? ≠ some 64 := by
  unfold nextAt at h
  cases hi : indexByte (s.drop frm) 64 with
  | some k => simp [hi] at h
  | none =>
    intro a hfa ha
    apply indexByte_go_absent _ _ _ hi (a - frm)
    rw [List.getElem?_drop, show frm + (a - frm) = a by omega]; exact ha

theorem candidate_lt (s : Bytes) (a : Nat) (h : candidate s a = true) : a + 1 < s.length := by
  unfold candidate at h
  simp only [Bool.and_eq_true] at h
  obtain ⟨_, h2⟩ := h
  cases hx : s[a + 1]? with
  | none => simp [hx] at h2
  | some c =>
    have := List.getElem?_eq_some_iff.mp hx
    obtain ⟨hl, _⟩ := this
    exact hl

/-- the scan never skips an '@': every candidate '@' at or after the current position is either
inside a redacted span or was examined and rejected by `findStart` / `findEnd` -/
theorem loop_examines (s : Bytes) (a : Nat) (ha : s[a]? = some 64) (hc : candidate s a = true) :
    ∀ (fuel sAt sCopied : Nat), s.length ≤ fuel + sAt → sCopied ≤ sAt → sAt ≤ a →
      (∃ p ∈ loop s fuel sAt sCopied, p.1 ≤ a ∧ a < p.2) ∨
      (∃ lim, lim ≤ a ∧ (findStart s a lim = none ∨ findEnd s a = none)) := by
  have hal := candidate_lt s a hc
  intro fuel
  induction fuel with
  | zero => intro sAt sCopied hf _ hsa; omega
  | succ n ih =>
    intro sAt sCopied hf hcs hsa
    unfold loop
    have hlt : sAt + 1 < s.length := by omega
    simp only [hlt, if_true]
    split
    · rename_i st en hfound
      have hfe : candidate s sAt = true ∧ findStart s sAt sCopied = some st ∧ findEnd s sAt = some en := by
        split at hfound
        · rename_i hcand
          split at hfound
          · rename_i h1 h2; simp at hfound; exact ⟨hcand, hfound.1 ▸ h1, hfound.2 ▸ h2⟩
          · cases hfound
        · cases hfound
      obtain ⟨b1, b2⟩ := findStart_bounds s sAt sCopied st hcs hfe.2.1
      obtain ⟨b3, b4⟩ := findEnd_bounds s sAt en hlt hfe.2.2
      by_cases hin : a < en
      · left
        split
        · exact ⟨(st, en), by simp, by simp; omega, hin⟩
        · exact ⟨(st, en), by simp, by simp; omega, hin⟩
      · split
        · rename_i a' ha'
          have h1 := nextAt_some s en a' ha'
          have h2 := nextAt_min s en a' ha' a (by omega) ha
          rcases ih a' en (by omega) h1.1 h2 with ⟨p, hp, hpa⟩ | h
          · left; exact ⟨p, List.mem_cons_of_mem _ hp, hpa⟩
          · right; exact h
        · rename_i hn
          exact absurd ha (nextAt_none s en hn a (by omega))
    · rename_i hfound
      by_cases heq : a = sAt
      · subst heq
        right
        refine ⟨sCopied, hcs, ?_⟩
        simp only [hc, if_true] at hfound
        cases h1 : findStart s a sCopied with
        | none => left; rfl
        | some st =>
          cases h2 : findEnd s a with
          | none => right; rfl
          | some en => simp [h1, h2] at hfound
      · split
        · rename_i a' ha'
          have h1 := nextAt_some s (sAt + 1) a' ha'
          have h2 := nextAt_min s (sAt + 1) a' ha' a (by omega) ha
          exact ih a' sCopied (by omega) (by omega) h2
        · rename_i hn
          exact absurd ha (nextAt_none s (sAt + 1) hn a (by omega))

/-- **C14 (the scan is complete).** Every '@' with a word character on both sides is inside a redacted
span, unless `findStart` (a '/' directly before the local part) or `findEnd` (no dotted domain, or a
number-like one) rejected it. -/
theorem C14_every_at_examined (s : Bytes) (a : Nat) (ha : s[a]? = some 64) (hc : candidate s a = true) :
    (∃ p ∈ spans s, p.1 ≤ a ∧ a < p.2) ∨
    (∃ lim, lim ≤ a ∧ (findStart s a lim = none ∨ findEnd s a = none)) := by
  unfold spans
  cases h0 : nextAt s 0 with
  | none => exact absurd ha (nextAt_none s 0 h0 a (Nat.zero_le _))
  | some a0 =>
    simp only
    have h1 := nextAt_some s 0 a0 h0
    have h2 := nextAt_min s 0 a0 h0 a (Nat.zero_le _) ha
    exact loop_examines s a ha hc s.length a0 0 (by omega) (Nat.zero_le _) h2

theorem takeWhile_append_stop {α : Type} (p : α → Bool) (l1 l2 : List α) (h1 : ∀ x ∈ l1, p x = true)
    (h2 : ∀ x, l2.head? = some x → p x = false) : (l1 ++ l2).takeWhile p = l1 := by
  induction l1 with
  | nil =>
    cases l2 with
    | nil => rfl
    | cons y r => simp [List.takeWhile_cons, h2 y rfl]
  | cons x r ih =>
    simp only [List.cons_append, List.takeWhile_cons, h1 x (by simp), if_true]
    rw [ih (fun y hy => h1 y (by simp [hy]))]

/-- `findEnd` accepts a dotted domain: a label of address characters without a dot, a dot, a word
character, then address characters up to the first other byte — unless the whole is number-like -/
theorem findEnd_dotted (s : Bytes) (a : Nat) (lbl run post : Bytes) (d : Nat)
    (hs : s.drop (a + 1) = lbl ++ 46 :: d :: (run ++ post))
    (hl : ∀ c ∈ lbl, (isAddr c && c != 46) = true) (hd : isWord d = true) (hr : ∀ c ∈ run, isAddr c = true)
    (hp : ∀ c, post.head? = some c → isAddr c = false)
    (hn : numLike (lbl ++ 46 :: d :: run) = false) :
    findEnd s a = some (a + 1 + lbl.length + 2 + run.length) := by
  unfold findEnd
  simp only [hs]
  have h1 : (lbl ++ 46 :: d :: (run ++ post)).takeWhile (fun c => isAddr c && c != 46) = lbl :=
    takeWhile_append_stop _ _ _ hl (by intro x hx; simp at hx; subst hx; simp)
  rw [h1, List.drop_left' rfl]
  simp only [ne_eq, not_true_eq_false, if_false, hd, Bool.not_true, Bool.false_eq_true]
  have h2 : (run ++ post).takeWhile isAddr = run := takeWhile_append_stop _ _ _ hr hp
  rw [h2, hn]
  simp

theorem takeWhile_all {α : Type} (p : α → Bool) (l : List α) (h : ∀ x ∈ l, p x = true) : l.takeWhile p = l := by
  have := takeWhile_append_stop p l [] h (by simp)
  simpa using this

theorem isAddr_47 : isAddr 47 = false := by decide

/-- `findStart` rejects only a local part directly preceded by '/' -/
theorem findStart_ne_none (s : Bytes) (a lim : Nat) (pre loc : Bytes) (hs : s.take a = pre ++ loc)
    (hlen : a ≤ s.length) (hloc : ∀ c ∈ loc, isAddr c = true)
    (hpre : ∀ c, pre.getLast? = some c → isAddr c = false ∧ c ≠ 47) (hlim : lim ≤ a) :
    ∃ st, findStart s a lim = some st ∧ (st = pre.length ∨ (st = lim ∧ pre.length < lim)) := by
  have ha : a = pre.length + loc.length := by
    have := congrArg List.length hs
    simp only [List.length_take, List.length_append] at this; omega
  have hget : ∀ i, i < a → s[i]? = (pre ++ loc)[i]? := by
    intro i hi; rw [← hs, List.getElem?_take_of_lt hi]
  unfold findStart
  simp only [hs]
  by_cases hA : lim ≤ pre.length
  · have hd : (pre ++ loc).drop lim = pre.drop lim ++ loc := by
      rw [List.drop_append_of_le_length hA]
    have htw : ((pre ++ loc).drop lim).reverse.takeWhile isAddr = loc.reverse := by
      rw [hd, List.reverse_append]
      apply takeWhile_append_stop
      · intro x hx; exact hloc x (List.mem_reverse.mp hx)
      · intro x hx
        rw [List.head?_reverse] at hx
        have : pre.getLast? = some x := by
          cases hdp : pre.drop lim with
          | nil => rw [hdp] at hx; simp at hx
          | cons y r =>
            rw [← List.take_append_drop lim pre, List.getLast?_append, hx]; simp
        exact (hpre x this).1
    rw [htw, List.length_reverse]
    refine ⟨pre.length, ?_, Or.inl rfl⟩
    have e1 : a - loc.length = pre.length := by omega
    rw [e1]
    split
    · rename_i hc
      exfalso
      obtain ⟨h1, h2⟩ := hc
      rw [hget _ (by omega), List.getElem?_append_left (by omega)] at h2
      have : pre.getLast? = some 47 := by
        rw [List.getLast?_eq_getElem?]; exact h2
      exact (hpre 47 this).2 rfl
    · rfl
  · have hA' : pre.length < lim := by omega
    have hd : (pre ++ loc).drop lim = loc.drop (lim - pre.length) := by
      rw [List.drop_append]
      simp [List.drop_of_length_le (by omega : pre.length ≤ lim)]
    have htw : ((pre ++ loc).drop lim).reverse.takeWhile isAddr = (loc.drop (lim - pre.length)).reverse := by
      rw [hd]
      apply takeWhile_all
      intro x hx; exact hloc x (List.mem_of_mem_drop (List.mem_reverse.mp hx))
    rw [htw, List.length_reverse, List.length_drop]
    refine ⟨lim, ?_, Or.inr ⟨rfl, hA'⟩⟩
    have e1 : a - (loc.length - (lim - pre.length)) = lim := by omega
    rw [e1]
    split
    · rename_i hc
      exfalso
      obtain ⟨h1, h2⟩ := hc
      rw [hget _ (by omega), List.getElem?_append_right (by omega)] at h2
      have hm := List.mem_of_getElem? h2
      have := hloc 47 hm
      rw [isAddr_47] at this; cases this
    · rfl

/-- **C14 (completeness for dotted domains, partial).** An address `loc@lbl.d‹run›` — local part of
address characters ending in a word character, not directly preceded by an address character or '/';
first domain label of address characters starting with a word character; a dot; a word character;
address characters up to the first other byte — whose domain is not purely numeric (digits and dots only, since the repair of F-22) has its '@' inside a redacted
span, wherever it sits and whatever surrounds it. -/
theorem C14_complete_dotted_partial (pre loc lbl run post : Bytes) (d w1 w2 : Nat)
    (hloc : ∀ c ∈ loc, isAddr c = true) (hw1 : loc.getLast? = some w1) (hw1' : isWord w1 = true)
    (hpre : ∀ c, pre.getLast? = some c → isAddr c = false ∧ c ≠ 47)
    (hl : ∀ c ∈ lbl, (isAddr c && c != 46) = true) (hw2 : lbl.head? = some w2) (hw2' : isWord w2 = true)
    (hd : isWord d = true) (hr : ∀ c ∈ run, isAddr c = true)
    (hp : ∀ c, post.head? = some c → isAddr c = false)
    (hn : numLike (lbl ++ 46 :: d :: run) = false) :
    ∃ p ∈ spans (pre ++ loc ++ 64 :: (lbl ++ 46 :: d :: (run ++ post))),
      p.1 ≤ pre.length + loc.length ∧ pre.length + loc.length < p.2 := by
  generalize hs : pre ++ loc ++ 64 :: (lbl ++ 46 :: d :: (run ++ post)) = s
  have hlen : (pre ++ loc).length = pre.length + loc.length := by simp
  have htake : s.take (pre.length + loc.length) = pre ++ loc := by
    rw [← hs, ← hlen, List.take_left' rfl]
  have hdrop : s.drop (pre.length + loc.length + 1) = lbl ++ 46 :: d :: (run ++ post) := by
    rw [← hs, ← hlen, ← List.drop_drop, List.drop_left' rfl]; rfl
  have hat : s[pre.length + loc.length]? = some 64 := by
    rw [← hs, ← hlen, List.getElem?_append_right (Nat.le_refl _)]
    rw [Nat.sub_self]; rfl
  have hle : pre.length + loc.length ≤ s.length := by rw [← hs]; simp
  have hlocne : loc ≠ [] := by intro h; rw [h] at hw1; simp at hw1
  have hlpos : 0 < loc.length := List.length_pos_iff.mpr hlocne
  have hcand : candidate s (pre.length + loc.length) = true := by
    unfold candidate
    have h1 : s[pre.length + loc.length - 1]? = some w1 := by
      rw [← hs, List.getElem?_append_left (by rw [hlen]; omega), List.getElem?_append_right (by omega)]
      rw [List.getLast?_eq_getElem?] at hw1
      rw [show pre.length + loc.length - 1 - pre.length = loc.length - 1 by omega]; exact hw1
    have h2 : s[pre.length + loc.length + 1]? = some w2 := by
      have : s[pre.length + loc.length + 1]? = (s.drop (pre.length + loc.length + 1))[0]? := by
        rw [List.getElem?_drop]
      rw [this, hdrop]
      cases lbl with
      | nil => simp at hw2
      | cons x r => simp at hw2 ⊢; exact hw2
    simp [h1, h2, hw1', hw2']; omega
  rcases C14_every_at_examined s _ hat hcand with h | ⟨lim, hlim, h | h⟩
  · exact h
  · obtain ⟨st, hst, _⟩ := findStart_ne_none s _ lim pre loc htake hle hloc hpre hlim
    rw [hst] at h; cases h
  · rw [findEnd_dotted s _ lbl run post d hdrop hl hd hr hp hn] at h; cases h

example : spans (b!"mail x.y@ex-1.org, bye") = [(5, 17)] := by decide


/-! ### domains cut by the end of the text -/

/-- `findEnd` accepts a domain that runs to the end of the text without a dot, unless it is number-like -/
theorem findEnd_cut_nodot (s : Bytes) (a : Nat) (lbl : Bytes) (hs : s.drop (a + 1) = lbl)
    (hl : ∀ c ∈ lbl, (isAddr c && c != 46) = true) (hn : numLike lbl = false) : findEnd s a = some s.length := by
  unfold findEnd
  simp only [hs]
  rw [takeWhile_all _ lbl hl, List.drop_length]
  simp [hn]

/-- `findEnd` accepts a domain cut right after its first dot, unless the label is number-like -/
theorem findEnd_cut_dot (s : Bytes) (a : Nat) (lbl : Bytes) (hs : s.drop (a + 1) = lbl ++ [46])
    (hl : ∀ c ∈ lbl, (isAddr c && c != 46) = true) (hn : numLike lbl = false) : findEnd s a = some s.length := by
  unfold findEnd
  simp only [hs]
  have h1 : (lbl ++ [46]).takeWhile (fun c => isAddr c && c != 46) = lbl :=
    takeWhile_append_stop _ _ _ hl (by intro x hx; simp at hx; subst hx; simp)
  rw [h1, List.drop_left' rfl]
  simp [hn]

/-- the common part: an '@' with a proper local part in front and a domain `findEnd` accepts is inside a redacted span -/
theorem complete_of_findEnd (pre loc dom : Bytes) (w1 w2 : Nat)
    (hloc : ∀ c ∈ loc, isAddr c = true) (hw1 : loc.getLast? = some w1) (hw1' : isWord w1 = true)
    (hpre : ∀ c, pre.getLast? = some c → isAddr c = false ∧ c ≠ 47)
    (hw2 : dom.head? = some w2) (hw2' : isWord w2 = true)
    (hend : ∀ s a, s.drop (a + 1) = dom → findEnd s a ≠ none) :
    ∃ p ∈ spans (pre ++ loc ++ 64 :: dom), p.1 ≤ pre.length + loc.length ∧ pre.length + loc.length < p.2 := by
  generalize hs : pre ++ loc ++ 64 :: dom = s
  have hlen : (pre ++ loc).length = pre.length + loc.length := by simp
  have htake : s.take (pre.length + loc.length) = pre ++ loc := by
    rw [← hs, ← hlen, List.take_left' rfl]
  have hdrop : s.drop (pre.length + loc.length + 1) = dom := by
    rw [← hs, ← hlen, ← List.drop_drop, List.drop_left' rfl]; rfl
  have hat : s[pre.length + loc.length]? = some 64 := by
    rw [← hs, ← hlen, List.getElem?_append_right (Nat.le_refl _)]
    rw [Nat.sub_self]; rfl
  have hle : pre.length + loc.length ≤ s.length := by rw [← hs]; simp
  have hlocne : loc ≠ [] := by intro h; rw [h] at hw1; simp at hw1
  have hlpos : 0 < loc.length := List.length_pos_iff.mpr hlocne
  have hcand : candidate s (pre.length + loc.length) = true := by
    unfold candidate
    have h1 : s[pre.length + loc.length - 1]? = some w1 := by
      rw [← hs, List.getElem?_append_left (by rw [hlen]; omega), List.getElem?_append_right (by omega)]
      rw [List.getLast?_eq_getElem?] at hw1
      rw [show pre.length + loc.length - 1 - pre.length = loc.length - 1 by omega]; exact hw1
    have h2 : s[pre.length + loc.length + 1]? = some w2 := by
      have : s[pre.length + loc.length + 1]? = (s.drop (pre.length + loc.length + 1))[0]? := by
        rw [List.getElem?_drop]
      rw [this, hdrop]
      cases dom with
      | nil => simp at hw2
      | cons x r => simp at hw2 ⊢; exact hw2
    simp [h1, h2, hw1', hw2']; omega
  rcases C14_every_at_examined s _ hat hcand with h | ⟨lim, hlim, h | h⟩
  · exact h
  · obtain ⟨st, hst, _⟩ := findStart_ne_none s _ lim pre loc htake hle hloc hpre hlim
    rw [hst] at h; cases h
  · exact absurd h (hend s _ hdrop)

/-- **C14 (completeness, a domain truncated by the end of the text).** An address whose domain runs to the end of the
field — `loc@label` with no dot yet, or `loc@label.` cut right after the first dot — has its '@' inside a redacted span,
unless the part of the domain that is there is number-like. -/
theorem C14_complete_truncated (pre loc lbl : Bytes) (w1 w2 : Nat) (dot : Bool)
    (hloc : ∀ c ∈ loc, isAddr c = true) (hw1 : loc.getLast? = some w1) (hw1' : isWord w1 = true)
    (hpre : ∀ c, pre.getLast? = some c → isAddr c = false ∧ c ≠ 47)
    (hl : ∀ c ∈ lbl, (isAddr c && c != 46) = true) (hw2 : lbl.head? = some w2) (hw2' : isWord w2 = true)
    (hn : numLike lbl = false) :
    ∃ p ∈ spans (pre ++ loc ++ 64 :: (lbl ++ if dot then [46] else [])),
      p.1 ≤ pre.length + loc.length ∧ pre.length + loc.length < p.2 := by
  have hne : lbl ≠ [] := by intro h; rw [h] at hw2; simp at hw2
  cases dot with
  | false =>
    simp only [Bool.false_eq_true, if_false, List.append_nil]
    refine complete_of_findEnd pre loc lbl w1 w2 hloc hw1 hw1' hpre hw2 hw2' ?_
    intro s a hs; rw [findEnd_cut_nodot s a lbl hs hl hn]; simp
  | true =>
    simp only [if_true]
    refine complete_of_findEnd pre loc (lbl ++ [46]) w1 w2 hloc hw1 hw1' hpre ?_ hw2' ?_
    · cases lbl with
      | nil => exact absurd rfl hne
      | cons x r => simpa using hw2
    · intro s a hs; rw [findEnd_cut_dot s a lbl hs hl hn]; simp

example : spans (b!"to bob@examp") = [(3, 12)] := by decide
example : spans (b!"to bob@example.") = [(3, 15)] := by decide

/-! ### "domain not purely numeric": the test before the repair of F-22 -/

/-- the letter of the property: digits and dots only — what `numLike` is since the repair -/
def purelyNumeric (d : Bytes) : Bool := !d.isEmpty && d.all (fun c => isDigit c || c = 46)

theorem C14_numeric_test_is_the_letter (d : Bytes) : numLike d = purelyNumeric d := rfl

/-- before the repair a digit-edged domain that is not purely numeric counted as numeric (its address stayed in the text) and a
purely numeric domain of one digit, or one ending in a dot, did not (it was redacted); both are as the property says now -/
theorem legacy_F22 :
    numLikeLegacy (b!"1and1.de1") = true ∧ numLike (b!"1and1.de1") = false ∧ redact (b!"bob@1and1.de1") = b!"REDACTED" ∧
    numLikeLegacy (b!"5") = false ∧ numLike (b!"5") = true ∧ redact (b!"x@5") = b!"x@5" ∧
    numLikeLegacy (b!"1.2.") = false ∧ redact (b!"x@1.2.") = b!"x@1.2." := by decide

/-- the pre-repair code (no numeric test before a trailing dot) redacted `Trx@123456.`; the repaired model does not -/
example : redact (b!"Trx@123456.") = b!"Trx@123456." := by decide

/-! ### fact obligations (Tie B) -/

theorem C14_fact_trailing_dot_checked : Facts.redact_trailing_dot_checks_number = some true := by decide
theorem C14_fact_word_chars : Facts.redact_word_ranges = ["A-Z", "a-z", "0-9"] := by decide
theorem C14_fact_addr_extra : Facts.redact_addr_extra = [".", "-", "_"] := by decide

/-! ### non-vacuity -/

example : spans (b!"reply_to: foo-1@domain.fi,foo-2@domain.fi,Hello") = [(10, 25), (26, 41)] := by decide
example : redact (b!"[foo-1@domain.fifoo-2@domain.fi]") = b!"[REDACTEDREDACTED]" := by decide

end C14
