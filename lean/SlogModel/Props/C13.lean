import SlogModel.Model.Time
import SlogModel.Gen.Facts

/-!
  C13 — Timestamps are parsed exactly and parsing is total.

  * `C13_total`      : for every byte string the statement-level model returns a value (no panic)
                       and it is the pattern-matching model `Time.parse`.
  * `C13_exact`      : for every valid RFC 3339 timestamp (0–9 fraction digits, `Z`, `±hh:mm`,
                       `±hhmm`), parsing its rendering yields exactly the denoted instant.
  * `C13_malformed`  : shorter than 19 bytes (empty, NIL `-`, truncated) or a wrong separator ⇒ error;
  * `C13_transform_error_counted` : an error is counted and the fallback time is kept.
-/

namespace C13
open Time

/-! ### valid timestamps (the specification side) -/

inductive Off where
  | z
  | colon (neg : Bool) (hh mm : Nat)      -- ±hh:mm
  | compact (neg : Bool) (hh mm : Nat)    -- ±hhmm
  deriving DecidableEq, Repr

structure TS where
  y : Nat
  mo : Nat
  d : Nat
  h : Nat
  mi : Nat
  s : Nat
  frac : List Nat        -- fraction digits (values 0..9), at most nine
  off : Off
  deriving Repr

def Off.Valid : Off → Prop
  | .z => True
  | .colon _ hh mm => hh < 24 ∧ mm < 60
  | .compact _ hh mm => hh < 24 ∧ mm < 60

/-- calendar ranges; the day-of-month upper bound is not needed for exactness (the formula is
linear in the day), so only `1 ≤ d ≤ 31` is required. -/
def TS.Valid (t : TS) : Prop :=
  t.y ≤ 9999 ∧ 1 ≤ t.mo ∧ t.mo ≤ 12 ∧ 1 ≤ t.d ∧ t.d ≤ 31 ∧ t.h ≤ 23 ∧ t.mi ≤ 59 ∧ t.s ≤ 60 ∧
  t.frac.length ≤ 9 ∧ (∀ x ∈ t.frac, x ≤ 9) ∧ t.off.Valid

def d2 (n : Nat) : Bytes := [48 + n / 10, 48 + n % 10]
def d4 (n : Nat) : Bytes := [48 + n / 1000, 48 + n / 100 % 10, 48 + n / 10 % 10, 48 + n % 10]

def Off.render : Off → Bytes
  | .z => [90]
  | .colon neg hh mm => [if neg then 45 else 43] ++ d2 hh ++ [58] ++ d2 mm
  | .compact neg hh mm => [if neg then 45 else 43] ++ d2 hh ++ d2 mm

def Off.seconds : Off → Int
  | .z => 0
  | .colon neg hh mm => if neg then -(((hh * 60 + mm) * 60 : Nat) : Int) else (((hh * 60 + mm) * 60 : Nat) : Int)
  | .compact neg hh mm => if neg then -(((hh * 60 + mm) * 60 : Nat) : Int) else (((hh * 60 + mm) * 60 : Nat) : Int)

def renderFrac (f : List Nat) : Bytes := if f = [] then [] else 46 :: f.map (48 + ·)

def TS.render (t : TS) : Bytes :=
  d4 t.y ++ [45] ++ d2 t.mo ++ [45] ++ d2 t.d ++ [84] ++ d2 t.h ++ [58] ++ d2 t.mi ++ [58] ++ d2 t.s
    ++ renderFrac t.frac ++ t.off.render

/-- nanoseconds denoted by the fraction digits: digit `i` has weight `10^(8-i)` -/
def fracValue : List Nat → Nat → Nat
  | [], _ => 0
  | x :: xs, w => x * 10 ^ w + fracValue xs (w - 1)

/-- the instant denoted: seconds since the Unix epoch and nanoseconds -/
def TS.instant (t : TS) : Int × Nat :=
  (daysFromCivil t.y t.mo t.d * 86400 + (t.h : Int) * 3600 + (t.mi : Int) * 60 + (t.s : Int)
     - t.off.seconds,
   fracValue t.frac 8)

/-! ### lemmas -/

theorem dig_digit (n : Nat) (h : n ≤ 9) : dig (48 + n) = n := by
  unfold dig; omega

theorem atoi2_d2 (n : Nat) (h : n ≤ 99) : atoi2 (48 + n / 10) (48 + n % 10) = n := by
  unfold atoi2; rw [dig_digit _ (by omega), dig_digit _ (by omega)]; omega

theorem atoi4_d4 (n : Nat) (h : n ≤ 9999) :
    atoi4 (48 + n / 1000) (48 + n / 100 % 10) (48 + n / 10 % 10) (48 + n % 10) = n := by
  unfold atoi4
  rw [dig_digit _ (by omega), dig_digit _ (by omega), dig_digit _ (by omega), dig_digit _ (by omega)]
  omega

theorem isDigit_digit (n : Nat) (h : n ≤ 9) : isDigit (48 + n) = true := by
  unfold isDigit; simp only [Bool.and_eq_true, decide_eq_true_eq]; omega

theorem takeWhile_digits (f : List Nat) (hf : ∀ x ∈ f, x ≤ 9) (tl : Bytes)
    (htl : ∀ b, tl.head? = some b → isDigit b = false) :
    (f.map (48 + ·) ++ tl).takeWhile isDigit = f.map (48 + ·) ∧
    (f.map (48 + ·) ++ tl).dropWhile isDigit = tl := by
  induction f with
  | nil =>
    cases tl with
    | nil => simp
    | cons b tl => simp [htl b (by simp)]
  | cons x xs ih =>
    have hx := isDigit_digit x (hf x (by simp))
    have := ih (fun y hy => hf y (by simp [hy]))
    simp [hx, this]

theorem off_render_head (o : Off) : ∀ b, o.render.head? = some b → isDigit b = false := by
  intro b
  cases o with
  | z => simp [Off.render]; intro h; subst h; decide
  | colon neg hh mm => cases neg <;> simp [Off.render] <;> intro h <;> subst h <;> decide
  | compact neg hh mm => cases neg <;> simp [Off.render] <;> intro h <;> subst h <;> decide

theorem off_render_ne_nil (o : Off) : o.render ≠ [] := by
  cases o <;> simp [Off.render, d2]

theorem parseTZ_render (o : Off) (h : o.Valid) : parseTZ o.render = some o.seconds := by
  cases o with
  | z => decide
  | colon neg hh mm =>
    obtain ⟨h1, h2⟩ := h
    have e1 := atoi2_d2 hh (by omega)
    have e2 := atoi2_d2 mm (by omega)
    have i1 := isDigit_digit (hh / 10) (by omega)
    have i2 := isDigit_digit (hh % 10) (by omega)
    have i3 := isDigit_digit (mm / 10) (by omega)
    have i4 := isDigit_digit (mm % 10) (by omega)
    cases neg <;>
      simp [parseTZ, Off.render, d2, zone, Off.seconds, e1, e2, i1, i2, i3, i4] <;> omega
  | compact neg hh mm =>
    obtain ⟨h1, h2⟩ := h
    have e1 := atoi2_d2 hh (by omega)
    have e2 := atoi2_d2 mm (by omega)
    have i1 := isDigit_digit (hh / 10) (by omega)
    have i2 := isDigit_digit (hh % 10) (by omega)
    have i3 := isDigit_digit (mm / 10) (by omega)
    have i4 := isDigit_digit (mm % 10) (by omega)
    have n1 : 48 + hh / 10 ≠ 58 := by omega
    have n2 : 48 + hh % 10 ≠ 58 := by omega
    have n3 : 48 + mm / 10 ≠ 58 := by omega
    have n4 : 48 + mm % 10 ≠ 58 := by omega
    cases neg <;>
      simp [parseTZ, Off.render, d2, zone, Off.seconds, e1, e2, i1, i2, i3, i4] <;>
      omega


theorem splitFrac_render (f : List Nat) (hf : ∀ x ∈ f, x ≤ 9) (o : Off) :
    splitFrac (renderFrac f ++ o.render) = (renderFrac f, o.render) := by
  cases f with
  | nil =>
    cases o with
    | z => rfl
    | colon neg hh mm => cases neg <;> rfl
    | compact neg hh mm => cases neg <;> rfl
  | cons x xs =>
    have h := takeWhile_digits (x :: xs) hf o.render (off_render_head o)
    simp only [List.map_cons, List.cons_append] at h
    simp [renderFrac, splitFrac, h.1, h.2]

theorem fracNanos_render (f : List Nat) (hl : f.length ≤ 9) (hf : ∀ x ∈ f, x ≤ 9) :
    fracNanos (f.map (48 + ·)) = fracValue f 8 := by
  match f, hl, hf with
  | [], _, _ => rfl
  | [a], _, h => simp [fracNanos, fracLoop, fracValue, dig_digit, h]; omega
  | [a, b], _, h => simp [fracNanos, fracLoop, fracValue, dig_digit, h]; omega
  | [a, b, c], _, h => simp [fracNanos, fracLoop, fracValue, dig_digit, h]; omega
  | [a, b, c, d], _, h => simp [fracNanos, fracLoop, fracValue, dig_digit, h]; omega
  | [a, b, c, d, e], _, h => simp [fracNanos, fracLoop, fracValue, dig_digit, h]; omega
  | [a, b, c, d, e, g], _, h => simp [fracNanos, fracLoop, fracValue, dig_digit, h]; omega
  | [a, b, c, d, e, g, i], _, h => simp [fracNanos, fracLoop, fracValue, dig_digit, h]; omega
  | [a, b, c, d, e, g, i, j], _, h => simp [fracNanos, fracLoop, fracValue, dig_digit, h]; omega
  | [a, b, c, d, e, g, i, j, k], _, h => simp [fracNanos, fracLoop, fracValue, dig_digit, h]; omega
  | _ :: _ :: _ :: _ :: _ :: _ :: _ :: _ :: _ :: _ :: _, hl, _ => simp at hl


theorem unixOf_valid (y mo d h mi s : Nat) (off : Int) (h1 : 1 ≤ mo) (h2 : mo ≤ 12) :
    unixOf y mo d h mi s off =
      daysFromCivil y mo d * 86400 + (h : Int) * 3600 + (mi : Int) * 60 + (s : Int) - off := by
  have e1 : ((mo : Int) - 1) / 12 = 0 := by omega
  have e2 : (((mo : Int) - 1) % 12).toNat + 1 = mo := by omega
  unfold unixOf
  simp only [e1, e2]
  unfold daysFromCivil
  simp only []
  omega

theorem parseTail_render (y mo d h mi s : Nat) (f : List Nat) (o : Off)
    (hl : f.length ≤ 9) (hf : ∀ x ∈ f, x ≤ 9) (ho : o.Valid) :
    parseTail y mo d h mi s (renderFrac f ++ o.render) =
      .ok (unixOf y mo d h mi s o.seconds) (fracValue f 8) := by
  unfold parseTail
  rw [splitFrac_render f hf o]
  simp only [parseTZ_render o ho, off_render_ne_nil o, if_false]
  cases f with
  | nil => simp [renderFrac, fracValue]
  | cons x xs =>
    have := fracNanos_render (x :: xs) hl hf
    simp only [List.map_cons] at this
    simp [renderFrac, this]

/-- **C13 (exactness).** For every valid timestamp, parsing its RFC 3339 rendering yields the
instant it denotes, to the nanosecond. -/
theorem C13_exact (t : TS) (hv : t.Valid) :
    parse t.render = .ok t.instant.1 t.instant.2 := by
  obtain ⟨hy, hmo1, hmo2, hd1, hd2, hh, hmi, hs, hfl, hfd, ho⟩ := hv
  have ey := atoi4_d4 t.y hy
  have emo := atoi2_d2 t.mo (by omega)
  have ed := atoi2_d2 t.d (by omega)
  have eh := atoi2_d2 t.h (by omega)
  have emi := atoi2_d2 t.mi (by omega)
  have es := atoi2_d2 t.s (by omega)
  simp only [TS.render, d4, d2, List.cons_append, List.nil_append, parse]
  simp only [ey, emo, ed, eh, emi, es, List.append_assoc]
  simp only [parseTail_render _ _ _ _ _ _ t.frac t.off hfl hfd ho]
  simp [TS.instant, unixOf_valid _ _ _ _ _ _ _ hmo1 hmo2]

/-- **C13 (totality).** For every byte string the statement-level model of the Go function returns
a value — no index or slice expression can fail — and that value is `parse t`. -/
theorem C13_total (t : Bytes) : parseGo t = .ok (parse t) := by
  rcases t with _ | ⟨a0, _ | ⟨a1, _ | ⟨a2, _ | ⟨a3, _ | ⟨a4, _ | ⟨a5, _ | ⟨a6, _ | ⟨a7, _ | ⟨a8, _ | ⟨a9, _ | ⟨a10, _ | ⟨a11, _ | ⟨a12, _ | ⟨a13, _ | ⟨a14, _ | ⟨a15, _ | ⟨a16, _ | ⟨a17, _ | ⟨a18, rest⟩⟩⟩⟩⟩⟩⟩⟩⟩⟩⟩⟩⟩⟩⟩⟩⟩⟩⟩
  all_goals first | rfl | skip
  simp [parseGo, parse, idx, slice, bind, Except.bind, pure, Except.pure]
  rw [if_neg (by omega)]
  split <;> rfl

/-- **C13 (malformed ⇒ error).** A string shorter than 19 bytes — empty, the NIL value `-`,
truncated — is an error. -/
theorem C13_malformed_short (t : Bytes) (h : t.length < 19) : parse t = .err := by
  rcases t with _ | ⟨a0, _ | ⟨a1, _ | ⟨a2, _ | ⟨a3, _ | ⟨a4, _ | ⟨a5, _ | ⟨a6, _ | ⟨a7, _ | ⟨a8, _ | ⟨a9, _ | ⟨a10, _ | ⟨a11, _ | ⟨a12, _ | ⟨a13, _ | ⟨a14, _ | ⟨a15, _ | ⟨a16, _ | ⟨a17, _ | ⟨a18, rest⟩⟩⟩⟩⟩⟩⟩⟩⟩⟩⟩⟩⟩⟩⟩⟩⟩⟩⟩
  all_goals first | rfl | skip
  simp at h; omega

/-- the five separators of the date-time shape -/
def separatorsOk (t : Bytes) : Bool :=
  t[4]? = some 45 && t[7]? = some 45 && t[10]? = some 84 && t[13]? = some 58 && t[16]? = some 58

/-- **C13 (malformed ⇒ error).** A wrong separator is an error. -/
theorem C13_malformed_separator (t : Bytes) (h : separatorsOk t = false) : parse t = .err := by
  rcases t with _ | ⟨a0, _ | ⟨a1, _ | ⟨a2, _ | ⟨a3, _ | ⟨a4, _ | ⟨a5, _ | ⟨a6, _ | ⟨a7, _ | ⟨a8, _ | ⟨a9, _ | ⟨a10, _ | ⟨a11, _ | ⟨a12, _ | ⟨a13, _ | ⟨a14, _ | ⟨a15, _ | ⟨a16, _ | ⟨a17, _ | ⟨a18, rest⟩⟩⟩⟩⟩⟩⟩⟩⟩⟩⟩⟩⟩⟩⟩⟩⟩⟩⟩
  all_goals first | rfl | skip
  simp [separatorsOk] at h
  simp [parse]
  intro h4 h7 h10 h13 h16
  exact absurd h16 (h h4 h7 h10 h13)

/-- **C13 (error is counted, fallback kept).** -/
theorem C13_transform_error_counted (v : Bytes) (fs : Int) (fn : Nat) (h : parse v = .err) :
    transform v fs fn = ((fs, fn), true) := by
  simp [transform, h]

theorem C13_transform_ok (v : Bytes) (fs : Int) (fn : Nat) (s : Int) (n : Nat)
    (h : parse v = .ok s n) : transform v fs fn = ((s, n), false) := by
  simp [transform, h]

/-- the code before the F-6 repair panics on the NIL value -/
theorem legacy_panics_on_nil : parseGoLegacyPanics (b!"-") = .error .index := by decide

/-! ### fact obligations (Tie B): what the model assumes about the current source -/

/-- the length guard before the first index expression is `len(t) < 19` -/
theorem C13_fact_min_len : Facts.time_min_len = some 19 := by decide
/-- the fraction loop reads nine digits -/
theorem C13_fact_frac_digits : Facts.time_frac_digits = some 9 := by decide
/-- `Transform` counts every unparsable value (no silent early return) -/
theorem C13_fact_error_counted : Facts.time_error_counted = some true := by decide
/-- the zone cache owns its keys (repaired: a key that was a substring of the record's pooled buffer was overwritten by
later records; `Time.transform` has no state between values, and the correspondence runs sequences through one reused buffer) -/
theorem C13_fact_zone_cache_keys : Facts.time_zone_cache_keys = ["strings.Clone(tzStr)"] := by decide

/-! ### non-vacuity -/

def sampleTS : TS :=
  { y := 2019, mo := 8, d := 15, h := 15, mi := 50, s := 46, frac := [0, 0, 0, 1, 2, 9],
    off := .colon false 3 0 }

example : sampleTS.Valid := by simp [TS.Valid, sampleTS, Off.Valid]
example : sampleTS.render = b!"2019-08-15T15:50:46.000129+03:00" := by decide
example : sampleTS.instant = (1565873446, 129000) := by decide
example : parse (b!"-") = .err := by decide
example : parse (b!"2019X08-15T15:50:46Z") = .err := by decide

end C13
