import SlogModel.Model.FrameIdx
import SlogModel.Props.C08
import SlogModel.Gen.Facts

/-!
  C08, index level — `processBuffer`'s index loop computes what the byte-fed model computes.

  * `C08_process_buffer_is_feed` : for every state of the reader (any pending record, any unscanned partial line)
      and every fragment, the index loop of `processBuffer` over the flat buffer emits exactly the records of
      `Frame.feed` and leaves exactly its buffer contents, `offsetSearch` and `offsetAppend`.
  * `C08_fragmentation_index_level` : hence any two fragmentations of a stream, run through the index loop call by
      call, emit the same records and end in the same buffer (C08_fragmentation transported to the index level).
  * `C08_flush_index_level`, `C08_flushAll_index_level`, `C08_checkOverflow_index_level`, `C08_read_index_level` : `Flush`
      (`bytes.LastIndexByte`, `buffer[:n]`, relocation of `buffer[n+1:]`), `FlushAll`, `checkOverflow` (`buffer[searchStart:]`,
      `buffer[:searchStart-1]`) and a whole `Read` call, transcribed over the flat buffer, are the byte-list model's — so the whole
      reader of `multilinereader.go` is modelled at index level and every C08 theorem is a theorem about it.
  Five whole-body facts pin the transcriptions.
-/

open Frame FrameIdx

namespace C08

/-! ### bytes.IndexByte -/

theorem ib_go_none (b : Nat) : ∀ (s : Bytes) (i : Nat), indexByte.go b s i = none → b ∉ s
  | [], _, _ => by simp
  | x :: xs, i, h => by
    simp only [indexByte.go] at h
    split at h
    · cases h
    · rename_i hx
      intro hm
      simp only [List.mem_cons] at hm
      rcases hm with e | m
      · exact hx e.symm
      · exact ib_go_none b xs (i + 1) h m

theorem ib_go_some (b : Nat) : ∀ (s : Bytes) (i k : Nat), indexByte.go b s i = some k →
    ∃ pre post, s = pre ++ b :: post ∧ b ∉ pre ∧ k = i + pre.length
  | [], _, _, h => by simp [indexByte.go] at h
  | x :: xs, i, k, h => by
    simp only [indexByte.go] at h
    split at h
    · rename_i hx
      cases h
      exact ⟨[], xs, by simp [hx], by simp, by simp⟩
    · rename_i hx
      obtain ⟨pre, post, h1, h2, h3⟩ := ib_go_some b xs (i + 1) k h
      refine ⟨x :: pre, post, by simp [h1], ?_, by simp; omega⟩
      intro hm
      simp only [List.mem_cons] at hm
      rcases hm with e | m
      · exact hx e.symm
      · exact h2 m

theorem indexByte_none (s : Bytes) (h : indexByte s 10 = none) : 10 ∉ s := ib_go_none 10 s 0 h

theorem indexByte_some (s : Bytes) (k : Nat) (h : indexByte s 10 = some k) :
    ∃ l post, s = l ++ 10 :: post ∧ 10 ∉ l ∧ k = l.length := by
  obtain ⟨pre, post, h1, h2, h3⟩ := ib_go_some 10 s 0 k h
  exact ⟨pre, post, h1, h2, by omega⟩

/-! ### a whole line through the byte-fed model -/

theorem feed_line (t : Bytes → Bool) (s : St) (l : Bytes) (h10 : 10 ∉ l) (hrest : s.restRev = []) :
    feed t s (l ++ [10]) = lineStep t { curRev := s.curRev, restRev := l.reverse } := by
  rw [feed_append, feed_no_newline t s l h10]
  simp only [feed, feedAux, feedByte, hrest, if_true, List.append_nil, List.nil_append]
  simp only [lineStep]
  by_cases hc : s.curRev ≠ [] ∧ l.reverse.reverse ≠ [] ∧ t l.reverse.reverse = true
  · rw [if_pos hc]; simp
  · rw [if_neg hc]; simp

/-! ### slices of the flat buffer -/

theorem drop_take_split (b : Bytes) (rs ss : Nat) (h : rs ≤ ss) (hs : ss ≤ b.length) :
    (b.take ss).drop rs ++ b.drop ss = b.drop rs := by
  have : b.drop rs = (b.take ss ++ b.drop ss).drop rs := by rw [List.take_append_drop]
  rw [this, List.drop_append_of_le_length (by rw [List.length_take]; omega)]

theorem take_add_drop (b : Bytes) (rs ss k : Nat) (h : rs ≤ ss) (hs : ss ≤ b.length) :
    (b.take (ss + k)).drop rs = (b.take ss).drop rs ++ (b.drop ss).take k := by
  rw [List.take_add, List.drop_append_of_le_length (by rw [List.length_take]; omega)]

/-- the loop invariant: the state of the byte-fed model is the part of the buffer between the two cursors -/
structure Link (buffer : Bytes) (rs ss : Nat) (s : St) : Prop where
  cur : s.curRev.reverse = (buffer.take ss).drop rs
  rest : s.restRev = []
  le : rs ≤ ss
  lt : rs > 0 → rs < ss
  inb : ss ≤ buffer.length

theorem finish_of_link (buffer : Bytes) (rs ss : Nat) (s : St) (hl : Link buffer rs ss s) (rem : Bytes)
    (hrem : buffer.drop ss = rem) :
    finish buffer rs ss = ofSt { s with restRev := rem.reverse ++ s.restRev } := by
  have hlen : s.curRev.length = ss - rs := by
    have := congrArg List.length hl.cur
    simp only [List.length_reverse, List.length_drop, List.length_take] at this
    have := hl.inb; omega
  have hbuf : (rem.reverse ++ s.restRev ++ s.curRev).reverse = buffer.drop rs := by
    rw [hl.rest]; simp only [List.append_nil, List.reverse_append, List.reverse_reverse]
    rw [hl.cur, ← hrem]; exact drop_take_split buffer rs ss hl.le hl.inb
  unfold finish ofSt
  by_cases h0 : rs > 0
  · simp only [h0, if_true, hbuf, hlen]
  · have : rs = 0 := by omega
    subst this
    simp only [Nat.lt_irrefl, if_false, hbuf, hlen, List.drop_zero, Nat.sub_zero]

theorem pbLoop_feed (t : Bytes → Bool) (buffer : Bytes) : ∀ (fuel : Nat) (rem : Bytes), rem.length < fuel →
    ∀ (rs ss : Nat) (acc : List Bytes) (s : St), Link buffer rs ss s → buffer.drop ss = rem →
    ∃ rs' ss', pbLoop t buffer fuel rs ss acc = (rs', ss', (feed t s rem).2.reverse ++ acc) ∧
      finish buffer rs' ss' = ofSt (feed t s rem).1
  | 0, _, h, _, _, _, _, _, _ => by omega
  | fuel + 1, rem, hfuel, rs, ss, acc, s, hl, hrem => by
    simp only [pbLoop, hrem]
    cases hib : indexByte rem 10 with
    | none =>
      have h10 := indexByte_none rem hib
      rw [feed_no_newline t s rem h10]
      exact ⟨rs, ss, by simp, finish_of_link buffer rs ss s hl rem hrem⟩
    | some k =>
      obtain ⟨l, post, hsplit, h10, hk⟩ := indexByte_some rem k hib
      subst hk
      have hsl : subSlice buffer ss (l.length + ss) = l := by
        unfold subSlice; rw [hrem, hsplit]; simp
      have hlen : s.curRev.length = ss - rs := by
        have := congrArg List.length hl.cur
        simp only [List.length_reverse, List.length_drop, List.length_take] at this
        have := hl.inb; omega
      have hcurne : (s.curRev ≠ []) ↔ ss > 0 := by
        rw [← List.length_pos_iff, hlen]
        constructor
        · intro h; omega
        · intro h
          by_cases h0 : rs > 0
          · have := hl.lt h0; omega
          · omega
      have hline : (l ≠ []) ↔ ss < l.length + ss := by
        rw [← List.length_pos_iff]; omega
      have hremlen : rem.length = l.length + 1 + post.length := by rw [hsplit]; simp; omega
      have hinb' : l.length + ss + 1 ≤ buffer.length := by
        have := congrArg List.length hrem
        rw [List.length_drop] at this; omega
      have hdrop' : buffer.drop (l.length + ss + 1) = post := by
        have : buffer.drop (l.length + ss + 1) = (buffer.drop ss).drop (l.length + 1) := by
          rw [List.drop_drop]; congr 1; omega
        rw [this, hrem, hsplit]
        rw [show l ++ 10 :: post = (l ++ [10]) ++ post by simp, List.drop_left' (by simp)]
      have hfeed : feed t s rem = ((feed t (lineStep t { curRev := s.curRev, restRev := l.reverse }).1 post).1,
          (lineStep t { curRev := s.curRev, restRev := l.reverse }).2 ++
            (feed t (lineStep t { curRev := s.curRev, restRev := l.reverse }).1 post).2) := by
        rw [hsplit, show l ++ 10 :: post = (l ++ [10]) ++ post by simp, feed_append, feed_line t s l h10 hl.rest]
      simp only [hsl]
      by_cases hc : ss > 0 ∧ ss < l.length + ss ∧ t l = true
      · -- the next record starts here: the pending record is emitted
        simp only [hc, and_self, if_true]
        have hcond : s.curRev ≠ [] ∧ l ≠ [] ∧ t l = true := ⟨hcurne.mpr hc.1, hline.mpr hc.2.1, hc.2.2⟩
        have hstep : lineStep t { curRev := s.curRev, restRev := l.reverse } =
            ({ curRev := 10 :: l.reverse, restRev := [] }, [s.curRev.tail.reverse]) := by
          simp [lineStep, hcond]
        have hemit : subSlice buffer rs (ss - 1) = s.curRev.tail.reverse := by
          rw [← List.dropLast_reverse, hl.cur, List.dropLast_eq_take, List.drop_take, List.take_take]
          unfold subSlice
          congr 1
          simp only [List.length_take, List.length_drop]
          have := hl.inb; omega
        have hl' : Link buffer ss (l.length + ss + 1) { curRev := 10 :: l.reverse, restRev := [] } := by
          refine ⟨?_, rfl, by omega, by intro _; omega, hinb'⟩
          simp only [List.reverse_cons, List.reverse_reverse]
          rw [List.drop_take, hrem, hsplit, show l.length + ss + 1 - ss = l.length + 1 by omega]
          rw [show l ++ 10 :: post = (l ++ [10]) ++ post by simp, List.take_left' (by simp)]
        obtain ⟨rs', ss', h1, h2⟩ := pbLoop_feed t buffer fuel post (by omega) ss (l.length + ss + 1)
          (subSlice buffer rs (ss - 1) :: acc) _ hl' hdrop'
        refine ⟨rs', ss', ?_, ?_⟩
        · rw [h1, hfeed, hstep, hemit]; simp
        · rw [h2, hfeed, hstep]
      · -- a continuation line (or the first line of the buffer): nothing is emitted
        simp only [hc, if_false]
        have hcond : ¬ (s.curRev ≠ [] ∧ l ≠ [] ∧ t l = true) := by
          intro h; exact hc ⟨hcurne.mp h.1, hline.mp h.2.1, h.2.2⟩
        have hstep : lineStep t { curRev := s.curRev, restRev := l.reverse } =
            ({ curRev := 10 :: (l.reverse ++ s.curRev), restRev := [] }, []) := by
          simp only [lineStep, List.reverse_reverse]
          rw [if_neg hcond]
        have hl' : Link buffer rs (l.length + ss + 1) { curRev := 10 :: (l.reverse ++ s.curRev), restRev := [] } := by
          refine ⟨?_, rfl, by have := hl.le; omega, by intro h; have := hl.le; omega, hinb'⟩
          simp only [List.reverse_cons, List.reverse_append, List.reverse_reverse]
          rw [show l.length + ss + 1 = ss + (l.length + 1) by omega, take_add_drop buffer rs ss _ hl.le hl.inb, hl.cur, hrem,
            hsplit, show l ++ 10 :: post = (l ++ [10]) ++ post by simp, List.take_left' (by simp)]
          simp
        obtain ⟨rs', ss', h1, h2⟩ := pbLoop_feed t buffer fuel post (by omega) rs (l.length + ss + 1) acc _ hl' hdrop'
        refine ⟨rs', ss', ?_, ?_⟩
        · rw [h1, hfeed, hstep]; simp
        · rw [h2, hfeed, hstep]

/-- the reader's states: the unscanned tail holds no newline -/
def Scanned (s : St) : Prop := 10 ∉ s.restRev

/-- **C08 (the index loop is the byte-fed model).** -/
theorem C08_process_buffer_is_feed (t : Bytes → Bool) (s : St) (hs : Scanned s) (frag : Bytes) :
    processBuffer t (ofSt s) frag = (ofSt (feed t s frag).1, (feed t s frag).2) := by
  -- the unscanned tail is re-scanned by the loop and was merely accumulated by the model
  have hre : feed t s frag = feed t { curRev := s.curRev, restRev := [] } (s.restRev.reverse ++ frag) := by
    rw [feed_append t _ s.restRev.reverse frag, feed_no_newline t _ s.restRev.reverse (by simpa [Scanned] using hs)]
    simp
  let buffer := (ofSt s).buf ++ frag
  have hbuf : buffer = s.curRev.reverse ++ (s.restRev.reverse ++ frag) := by
    simp [buffer, ofSt, List.reverse_append, List.append_assoc]
  have hl : Link buffer 0 s.curRev.length { curRev := s.curRev, restRev := [] } := by
    refine ⟨?_, rfl, by omega, by intro h; omega, by rw [hbuf]; simp⟩
    rw [hbuf, List.drop_zero, List.take_left' (by simp)]
  have hrem : buffer.drop s.curRev.length = s.restRev.reverse ++ frag := by
    rw [hbuf, List.drop_left' (by simp)]
  obtain ⟨rs', ss', h1, h2⟩ := pbLoop_feed t buffer (buffer.length + 1) (s.restRev.reverse ++ frag)
    (by rw [hbuf]; simp; omega) 0 s.curRev.length [] _ hl hrem
  unfold processBuffer
  simp only [show (ofSt s).buf ++ frag = buffer from rfl, show (ofSt s).offsetSearch = s.curRev.length from rfl, h1]
  rw [h2, hre]; simp


/-! ### call after call -/

theorem feedAux_scanned (t : Bytes → Bool) : ∀ (bs : Bytes) (s : St) (acc : List Bytes), Scanned s → Scanned (feedAux t s bs acc).1
  | [], _, _, h => h
  | b :: bs, s, acc, h => by
    simp only [feedAux]
    apply feedAux_scanned t bs
    unfold feedByte
    by_cases hb : b = 10
    · simp only [hb, if_true, lineStep]
      split <;> simp [Scanned]
    · simp only [hb, if_false, Scanned, List.mem_cons, not_or]
      exact ⟨fun e => hb e.symm, h⟩

theorem feed_scanned (t : Bytes → Bool) (s : St) (bs : Bytes) (h : Scanned s) : Scanned (feed t s bs).1 := by
  simp only [feed]; exact feedAux_scanned t bs s [] h

/-- successive `processBuffer` calls (no overflow handling in between), records concatenated -/
def runIdx (t : Bytes → Bool) : Idx → List Bytes → Idx × List Bytes
  | x, [] => (x, [])
  | x, f :: fs =>
    let (x1, o1) := processBuffer t x f
    let (x2, o2) := runIdx t x1 fs
    (x2, o1 ++ o2)

theorem runIdx_is_feed (t : Bytes → Bool) : ∀ (frags : List Bytes) (s : St), Scanned s →
    runIdx t (ofSt s) frags = (ofSt (feed t s frags.flatten).1, (feed t s frags.flatten).2)
  | [], s, _ => by simp [runIdx, feed_nil]
  | f :: fs, s, hs => by
    simp only [runIdx, C08_process_buffer_is_feed t s hs f, List.flatten_cons]
    rw [runIdx_is_feed t fs _ (feed_scanned t s f hs), feed_append]

/-- **C08 (fragmentation, at the level of the index loop).** Two fragmentations of one byte stream, each run through
`processBuffer`'s index loop call after call from the same reader state, emit the same records and leave the same buffer
and offsets. -/
theorem C08_fragmentation_index_level (t : Bytes → Bool) (s : St) (hs : Scanned s) (f₁ f₂ : List Bytes)
    (h : f₁.flatten = f₂.flatten) : runIdx t (ofSt s) f₁ = runIdx t (ofSt s) f₂ := by
  rw [runIdx_is_feed t f₁ s hs, runIdx_is_feed t f₂ s hs, h]

/-- non-vacuity: two records, the second with a continuation line, cut inside a line and right after a newline -/
example : (runIdx (fun l => l.head? = some 60) { buf := [], offsetSearch := 0 } [b!"<a\n<b", b!"\n x\n", b!"<c\n"]).2 =
    [b!"<a", b!"<b\n x"] := by decide
example : (runIdx (fun l => l.head? = some 60) { buf := [], offsetSearch := 0 } [b!"<a\n<b\n x\n<c\n"]).1 =
    { buf := b!"<c\n", offsetSearch := 3 } := by decide



/-! ### `Flush`, `FlushAll` and `checkOverflow` at index level -/

theorem ofSt_empty : ofSt ({} : St) = { buf := [], offsetSearch := 0 } := rfl

/-- **C08 (`Flush` at index level).** -/
theorem C08_flush_index_level (t : Bytes → Bool) (s : St) :
    FrameIdx.flush t (ofSt s) = (ofSt (Frame.flush t s).1, (Frame.flush t s).2) := by
  unfold FrameIdx.flush Frame.flush lastIndexNL
  have hb : (ofSt s).buf.reverse = s.restRev ++ s.curRev := by simp [ofSt]
  rw [hb]
  cases hib : indexByte (s.restRev ++ s.curRev) 10 with
  | none =>
    have h10 := indexByte_none _ hib
    simp [splitLastNL_none _ [] h10]
  | some k =>
    obtain ⟨after, r, hsplit, h10, hk⟩ := indexByte_some _ k hib
    subst hk
    rw [hsplit, splitLastNL_some after r [] h10]
    have hbuf : (ofSt s).buf = r.reverse ++ 10 :: after.reverse := by
      have : (ofSt s).buf = ((ofSt s).buf.reverse).reverse := by simp
      rw [this, hb, hsplit]; simp
    have hlen : (ofSt s).buf.length - 1 - after.length = r.length := by
      rw [hbuf]; simp
    simp only [Option.map_some, hlen, List.append_nil]
    have htake : (ofSt s).buf.take r.length = r.reverse := by
      rw [hbuf, List.take_left' (by simp)]
    have hdrop : (ofSt s).buf.drop (r.length + 1) = after.reverse := by
      rw [hbuf, show r.reverse ++ 10 :: after.reverse = (r.reverse ++ [10]) ++ after.reverse by simp, List.drop_left' (by simp)]
    rw [htake, hdrop]
    refine Prod.ext ?_ ?_
    · simp [ofSt]
    · by_cases hr : r = []
      · subst hr; simp
      · have : r.reverse ≠ [] := by simpa using hr
        have hpos : 0 < r.length := List.length_pos_iff.mpr hr
        simp [this, hpos]

/-- **C08 (`FlushAll` at index level).** -/
theorem C08_flushAll_index_level (t : Bytes → Bool) (s : St) :
    FrameIdx.flushAll t (ofSt s) = (ofSt (Frame.flushAll t s).1, (Frame.flushAll t s).2) := by
  unfold FrameIdx.flushAll Frame.flushAll
  generalize hb : s.restRev ++ s.curRev = bufRev
  have hbuf : (ofSt s).buf = bufRev.reverse := by simp [ofSt, hb]
  rw [hbuf]
  refine Prod.ext (by simp [ofSt]) ?_
  cases bufRev with
  | nil => simp
  | cons x r =>
    by_cases hx : x = 10
    · subst hx
      simp [List.take_left']
    · have h1 : ¬ (some x = some 10) := by simpa using hx
      simp only [List.reverse_cons, List.length_append, List.length_reverse, List.length_cons, List.length_nil, gt_iff_lt,
        Nat.zero_lt_succ, if_true, List.getLast?_append, List.getLast?_singleton, Option.some_or]
      have hm : (match x :: r with | 10 :: r' => r' | r' => r') = x :: r := by
        cases x with
        | zero => rfl
        | succ n =>
          by_cases hn : n + 1 = 10
          · exact absurd hn hx
          · split
            · rename_i heq; cases heq; exact absurd rfl hx
            · rfl
      simp [hx, hm]

/-- **C08 (`checkOverflow` at index level).** -/
theorem C08_checkOverflow_index_level (c : Cfg) (t : Bytes → Bool) (s : St) :
    FrameIdx.checkOverflow c t (ofSt s) = (ofSt (Frame.checkOverflow c t s).1, (Frame.checkOverflow c t s).2) := by
  unfold FrameIdx.checkOverflow Frame.checkOverflow
  have hlen : (ofSt s).buf.length = s.offsetAppend := by
    simp only [ofSt, St.offsetAppend, List.length_reverse, List.length_append]; omega
  have hos : (ofSt s).offsetSearch = s.curRev.length := rfl
  have hbuf : (ofSt s).buf = s.curRev.reverse ++ s.restRev.reverse := by simp [ofSt]
  rw [hlen]
  by_cases hroom : c.cap - s.offsetAppend ≥ c.soft
  · simp [hroom]
  · simp only [hroom, if_false, hos]
    have hdrop : (ofSt s).buf.drop s.curRev.length = s.restRev.reverse := by
      rw [hbuf, List.drop_left' (by simp)]
    have htake : (ofSt s).buf.take (s.curRev.length - 1) = s.curRev.tail.reverse := by
      rw [hbuf, List.take_append_of_le_length (by simp), ← List.dropLast_reverse, List.dropLast_eq_take]
      simp
    have hne : (s.curRev.length > 0) ↔ s.curRev ≠ [] := by rw [← List.length_pos_iff]
    rw [hdrop, htake]
    by_cases hc : s.curRev ≠ [] ∧ t s.restRev.reverse = true
    · have hc' : s.curRev.length > 0 ∧ t s.restRev.reverse = true := ⟨hne.mpr hc.1, hc.2⟩
      simp [hc.1, hc.2, hc'.1, ofSt]
    · have hc' : ¬ (s.curRev.length > 0 ∧ t s.restRev.reverse = true) := fun h => hc ⟨hne.mp h.1, h.2⟩
      have hm : ¬ (s.curRev ≠ [] ∧ t s.restRev.reverse = true) := hc
      simp only [hc', if_false]
      rw [if_neg hm]
      simp [hbuf, ofSt]

/-- `Read` = `processBuffer` then `checkOverflow`, at index level, is the model's `read` (a non-empty fragment) -/
theorem C08_read_index_level (c : Cfg) (t : Bytes → Bool) (s : St) (hs : Scanned s) (frag : Bytes) (hne : frag ≠ []) :
    (let (x1, o1) := processBuffer t (ofSt s) frag
     let (x2, o2) := FrameIdx.checkOverflow c t x1
     (x2, o1 ++ o2)) = (ofSt (Frame.read c t s frag).1, (Frame.read c t s frag).2) := by
  simp only [C08_process_buffer_is_feed t s hs frag, C08_checkOverflow_index_level, Frame.read, hne, if_false]

/-! ### fact obligations (Tie B): the statements `FrameIdx.pbLoop` / `finish` / `processBuffer` transcribe -/

/-- `processBuffer`, statement by statement: cursors, `bytes.IndexByte`, the guard of the start test, the two slices, the
relocation and the offsets — and `checkOverflow` last -/
theorem C08_fact_process_buffer : Facts.frame_process_buffer =
    ["recordStart := 0", "searchStart := mlr.offsetSearch", "buffer := mlr.buffer[:bufferEnd]", "test := mlr.testRecordStart",
     "for {", "nextEndRel := bytes.IndexByte(buffer[searchStart:], '\\n')", "if nextEndRel == -1 {", "break", "}",
     "nextEnd := nextEndRel + searchStart", "if searchStart > 0 && searchStart < nextEnd {",
     "nextLine := buffer[searchStart:nextEnd]", "if test(nextLine) {", "prevRecord := buffer[recordStart : searchStart-1]",
     "mlr.consumeRecord(prevRecord)", "recordStart = searchStart", "}", "}", "searchStart = nextEnd + 1", "}",
     "if recordStart > 0 {", "mlr.offsetAppend = copy(mlr.buffer, buffer[recordStart:])",
     "mlr.offsetSearch = searchStart - recordStart", "} else {", "mlr.offsetAppend = bufferEnd",
     "mlr.offsetSearch = searchStart", "}", "mlr.checkOverflow()"] := by decide

/-- `Read`: the new bytes land behind `offsetAppend` and `processBuffer` sees the buffer up to their end -/
theorem C08_fact_read : Facts.frame_read =
    ["n, err := mlr.readInput(mlr.buffer[mlr.offsetAppend:])", "if n > 0 {", "bufferedLength := n + mlr.offsetAppend",
     "mlr.processBuffer(bufferedLength)", "}", "return err"] := by decide

/-- `Flush`, `FlushAll`, `checkOverflow`, statement by statement (`FrameIdx.flush` / `flushAll` / `checkOverflow`) -/
theorem C08_fact_flush : Facts.frame_flush =
    ["buffer := mlr.buffer[:mlr.offsetAppend]", "n := bytes.LastIndexByte(buffer, '\\n')", "if n == -1 {", "return", "}",
     "record := buffer[:n]", "if len(record) > 0 && mlr.testRecordStart(record) {", "mlr.consumeRecord(record)", "}",
     "mlr.offsetAppend = copy(mlr.buffer, buffer[n+1:])", "mlr.offsetSearch = 0"] := by decide
theorem C08_fact_flush_all : Facts.frame_flush_all =
    ["record := mlr.buffer[:mlr.offsetAppend]", "if len(record) > 0 {", "if record[len(record)-1] == '\\n' {",
     "record = record[:len(record)-1]", "}", "if mlr.testRecordStart(record) {", "mlr.consumeRecord(record)", "}", "}",
     "mlr.offsetAppend = 0", "mlr.offsetSearch = 0"] := by decide
theorem C08_fact_check_overflow : Facts.frame_check_overflow =
    ["if len(mlr.buffer)-mlr.offsetAppend >= mlr.softRecordLimit {", "return", "}", "buffer := mlr.buffer[:mlr.offsetAppend]",
     "if searchStart := mlr.offsetSearch; searchStart > 0 {", "if nextRecord := buffer[searchStart:]; mlr.testRecordStart(nextRecord) {",
     "if prevRecord := buffer[:searchStart-1]; mlr.testRecordStart(prevRecord) {", "mlr.consumeRecord(prevRecord)", "}",
     "mlr.consumeRecord(nextRecord)", "goto RESET", "}", "}", "if wholeRecord := buffer; mlr.testRecordStart(wholeRecord) {",
     "mlr.consumeRecord(wholeRecord)", "}", "RESET:", "mlr.offsetAppend = 0", "mlr.offsetSearch = 0"] := by decide

end C08
