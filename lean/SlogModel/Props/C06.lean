import SlogModel.Model.Route
import SlogModel.Gen.Facts

/-!
  C06 — Routing, queueing and tagging follow exactly the record's own key fields.

  * `C06_merge_injective` : the lookup key of the pipeline map / metric-key map determines the tuple
  * `C06_routes_own`      : for every arrival order, the pipeline a record reaches was created from
                            exactly that record's key tuple (so its id and tag are the record's own)
  * `C06_id_roundtrip`    : `splitId (joinId ks) = ks` — queued chunks found at startup are
                            re-attached to the key set that produced them
  * `C06_id_injective`, `C06_id_nonempty`, `C06_dir_injective`
  * `legacy_*`            : the code before the repairs violates each of them (kept as witnesses)
-/

namespace C06
open Route

theorem uvarint_lt {n : Nat} (h : n < 128) : uvarint n = [n] := by
  rw [uvarint]; simp [h]

theorem uvarint_ge {n : Nat} (h : ¬ n < 128) : uvarint n = (n % 128 + 128) :: uvarint (n / 128) := by
  rw [uvarint]; simp [h]

/-- the length prefix is self-delimiting -/
theorem uvarint_prefix_free : ∀ (n m : Nat) (x y : Bytes),
    uvarint n ++ x = uvarint m ++ y → n = m ∧ x = y := by
  intro n
  induction n using Nat.strongRecOn with
  | _ n ih =>
    intro m x y h
    by_cases hn : n < 128
    · by_cases hm : m < 128
      · rw [uvarint_lt hn, uvarint_lt hm] at h
        simp at h; exact h
      · rw [uvarint_lt hn, uvarint_ge hm] at h
        simp at h; omega
    · by_cases hm : m < 128
      · rw [uvarint_ge hn, uvarint_lt hm] at h
        simp at h; omega
      · rw [uvarint_ge hn, uvarint_ge hm] at h
        simp only [List.cons_append, List.cons.injEq] at h
        obtain ⟨h1, h2⟩ := h
        have := ih (n / 128) (by omega) (m / 128) x y h2
        exact ⟨by omega, this.2⟩

theorem uvarint_ne_nil (n : Nat) : uvarint n ≠ [] := by
  by_cases hn : n < 128
  · rw [uvarint_lt hn]; simp
  · rw [uvarint_ge hn]; simp

/-- **C06 (no merging).** Two key tuples with the same lookup key are the same tuple — for any byte
strings, any arities, empty values and shifted boundaries included. -/
theorem C06_merge_injective : ∀ (a b : List Bytes), mergeKey a = mergeKey b → a = b := by
  intro a
  induction a with
  | nil =>
    intro b h
    cases b with
    | nil => rfl
    | cons k ks =>
      simp only [mergeKey, List.append_assoc] at h
      exact absurd (List.append_eq_nil_iff.mp h.symm).1 (uvarint_ne_nil _)
  | cons k ks ih =>
    intro b h
    cases b with
    | nil =>
      simp only [mergeKey, List.append_assoc] at h
      exact absurd (List.append_eq_nil_iff.mp h).1 (uvarint_ne_nil _)
    | cons k' ks' =>
      simp only [mergeKey, List.append_assoc] at h
      obtain ⟨hl, h2⟩ := uvarint_prefix_free _ _ _ _ h
      obtain ⟨h3, h4⟩ := List.append_inj h2 hl
      rw [h3, ih ks' h4]

/-! ### the pipeline map -/

/-- pipelines created so far: lookup key ↦ the key tuple the pipeline was created from
(`newPipeline` derives id, tag, queue directory and metric labels from that tuple) -/
abbrev PMap := List (Bytes × List Bytes)

/-- `LocalCachedMap.GetOrCreate` + `GlobalCachedMap.getOrCreate`: returns the creating tuple of the
pipeline that receives a record with key tuple `keys` -/
def route (merge : List Bytes → Bytes) (m : PMap) (keys : List Bytes) : PMap × List Bytes :=
  match m.lookup (merge keys) with
  | some creator => (m, creator)
  | none => ((merge keys, keys) :: m, keys)

def routeAll (merge : List Bytes → Bytes) : PMap → List (List Bytes) → PMap × List (List Bytes)
  | m, [] => (m, [])
  | m, k :: ks =>
    let (m1, c) := route merge m k
    let (m2, cs) := routeAll merge m1 ks
    (m2, c :: cs)

def PMap.WF (m : PMap) : Prop := ∀ p ∈ m, p.1 = mergeKey p.2

theorem route_own (m : PMap) (h : m.WF) (keys : List Bytes) :
    (route mergeKey m keys).2 = keys ∧ (route mergeKey m keys).1.WF := by
  unfold route
  split
  · rename_i creator hl
    have hm : (mergeKey keys, creator) ∈ m := by
      have := List.lookup_eq_some_iff.mp hl
      obtain ⟨l1, l2, h1, _⟩ := this
      rw [h1]; simp
    have := h _ hm
    exact ⟨(C06_merge_injective _ _ this).symm, h⟩
  · refine ⟨rfl, ?_⟩
    intro p hp
    simp at hp
    rcases hp with rfl | hp
    · rfl
    · exact h p hp

/-- **C06 (own pipeline, any arrival order).** Whatever records arrive in whatever order, each is
processed by a pipeline created from exactly its own key tuple: id, tag, queue directory and metric
labels (all functions of the creating tuple) are the record's own. -/
theorem C06_routes_own (recs : List (List Bytes)) (m : PMap) (h : m.WF) :
    (routeAll mergeKey m recs).2 = recs := by
  induction recs generalizing m with
  | nil => rfl
  | cons k ks ih =>
    obtain ⟨h1, h2⟩ := route_own m h k
    simp only [routeAll]
    rw [ih _ h2, h1]

/-! ### pipeline ids -/

theorem splitAux_other (c : Nat) (r cur : Bytes) (acc : List Bytes) (h1 : c ≠ 92) (h2 : c ≠ 44) :
    splitAux (c :: r) cur acc = splitAux r (c :: cur) acc := by
  rw [splitAux.eq_def]; simp [h1, h2]

theorem splitAux_comma (r cur : Bytes) (acc : List Bytes) :
    splitAux (44 :: r) cur acc = splitAux r [] (cur.reverse :: acc) := by
  rw [splitAux.eq_def]; simp

theorem splitAux_escKey (k rest cur : Bytes) (acc : List Bytes) :
    splitAux (escKey k ++ rest) cur acc = splitAux rest (k.reverse ++ cur) acc := by
  induction k generalizing cur with
  | nil => simp [escKey]
  | cons c r ih =>
    by_cases h : c = 44 ∨ c = 92
    · simp only [escKey, h, if_true, List.cons_append, splitAux]
      rw [ih]; simp
    · have h1 : c ≠ 92 := fun e => h (Or.inr e)
      have h2 : c ≠ 44 := fun e => h (Or.inl e)
      simp only [escKey, if_neg h, List.cons_append]
      rw [splitAux_other _ _ _ _ h1 h2, ih]; simp

theorem splitAux_joinEsc (ks : List Bytes) (hne : ks ≠ []) (acc : List Bytes) :
    splitAux (joinEsc ks) [] acc = acc.reverse ++ ks := by
  induction ks generalizing acc with
  | nil => exact absurd rfl hne
  | cons k ks ih =>
    cases ks with
    | nil =>
      have := splitAux_escKey k [] [] acc
      simp only [List.append_nil] at this
      simp [joinEsc, this, splitAux]
    | cons k2 ks2 =>
      simp only [joinEsc]
      rw [splitAux_escKey]
      have e : splitAux (44 :: joinEsc (k2 :: ks2)) (k.reverse ++ []) acc =
          splitAux (joinEsc (k2 :: ks2)) [] (k :: acc) := by rw [splitAux_comma]; simp
      rw [e, ih (by simp)]
      simp

theorem escKey_ne_empty_token (k : Bytes) (rest : Bytes) : escKey k ++ rest = [92, 101] → k = [] := by
  intro h
  cases k with
  | nil => rfl
  | cons c r =>
    by_cases hc : c = 44 ∨ c = 92
    · simp only [escKey, hc, if_true, List.cons_append, List.cons.injEq] at h
      omega
    · simp only [escKey, hc, if_false, List.cons_append, List.cons.injEq] at h
      omega

theorem joinEsc_ne_empty_token (ks : List Bytes) (h : ks ≠ [[]]) : joinEsc ks ≠ [92, 101] := by
  intro he
  cases ks with
  | nil => simp [joinEsc] at he
  | cons k ks =>
    cases ks with
    | nil =>
      have := escKey_ne_empty_token k [] (by simpa [joinEsc] using he)
      subst this; exact h rfl
    | cons k2 ks2 =>
      simp only [joinEsc] at he
      have := escKey_ne_empty_token k _ he
      subst this
      simp [escKey] at he

/-- **C06 (recovery).** Splitting a pipeline id found on disk gives back exactly the key tuple that
produced it — for any byte strings, including empty values, commas and backslashes. -/
theorem C06_id_roundtrip (ks : List Bytes) (hne : ks ≠ []) : splitId (joinId ks) = ks := by
  unfold joinId
  by_cases h : ks = [[]]
  · simp [h, splitId]
  · simp only [h, if_false, splitId, joinEsc_ne_empty_token ks h]
    simpa using splitAux_joinEsc ks hne []

/-- **C06 (no two tuples share a pipeline id / queue).** -/
theorem C06_id_injective (a b : List Bytes) (ha : a ≠ []) (hb : b ≠ [])
    (h : joinId a = joinId b) : a = b := by
  rw [← C06_id_roundtrip a ha, ← C06_id_roundtrip b hb, h]

/-- **C06 (every key set has a queue directory of its own).** The id is never empty, so the queue is
never the root directory itself (whose chunks the start-up scan does not see). -/
theorem C06_id_nonempty (ks : List Bytes) (hne : ks ≠ []) : joinId ks ≠ [] := by
  unfold joinId
  by_cases h : ks = [[]]
  · simp [h]
  · simp only [h, if_false]
    intro he
    cases ks with
    | nil => exact hne rfl
    | cons k ks =>
      cases ks with
      | nil =>
        simp only [joinEsc] at he
        cases k with
        | nil => exact h rfl
        | cons c r => by_cases hc : c = 44 ∨ c = 92 <;> simp [escKey, hc] at he
      | cons k2 ks2 => simp [joinEsc] at he

/-- **C06 (directories).** Two ids with the same directory name have the same sanitised name and
the same MD5 tail; under the stated hypothesis on the hash (no collision of the 32-bit tail among
the ids in use) they are the same id. -/
theorem C06_dir_injective (tail : Bytes → Bytes) (htl : ∀ i, (tail i).length = 8)
    (hcf : ∀ i j, sanitize i = sanitize j → tail i = tail j → i = j)
    (a b : Bytes) (h : dirName a (tail a) = dirName b (tail b)) : a = b := by
  unfold dirName at h
  by_cases ha : a = [] <;> by_cases hb : b = [] <;> simp [ha, hb] at h
  · rw [ha, hb]
  · have hlen : (sanitize a).length = (sanitize b).length := by
      have := congrArg List.length h
      simp [htl] at this; omega
    obtain ⟨h1, h2⟩ := List.append_inj h hlen
    exact hcf a b h1 (by simpa using h2)

/-! ### the code before the repairs (F-1, F-2, F-20): witnesses -/

theorem legacy_merge_collides :
    mergeKeyLegacy [b!"ab", b!"c"] = mergeKeyLegacy [b!"a", b!"bc"] := by decide
theorem legacy_merge_collides_empty :
    mergeKeyLegacy [b!"x", b!""] = mergeKeyLegacy [b!"", b!"x"] := by decide
theorem legacy_routes_foreign :
    (routeAll mergeKeyLegacy [] [[b!"ab", b!"c"], [b!"a", b!"bc"]]).2 = [[b!"ab", b!"c"], [b!"ab", b!"c"]] := by
  decide
theorem legacy_id_collides : joinIdLegacy [b!"a,b", b!"c"] = joinIdLegacy [b!"a", b!"b,c"] := by decide
theorem legacy_id_empty : joinIdLegacy [b!""] = [] := by decide

/-! ### fact obligations (Tie B) -/

theorem C06_fact_merge_length_prefixed : Facts.route_merge_length_prefixed = some true := by decide
theorem C06_fact_metric_merge_length_prefixed : Facts.route_metric_merge_length_prefixed = some true := by decide
theorem C06_fact_id_join_split : Facts.route_id_uses_join_split = some true := by decide
theorem C06_fact_hash_length : Facts.route_dir_hash_length = some 8 := by decide

/-! ### non-vacuity -/

example : mergeKey [b!"ab", b!"c"] ≠ mergeKey [b!"a", b!"bc"] := by
  intro h; have := C06_merge_injective _ _ h; simp at this
example : splitId (joinId [b!"a,b", b!"", b!"c\\"]) = [b!"a,b", b!"", b!"c\\"] := by decide
example : splitId (joinId [b!""]) = [b!""] := by decide


/-! ### which entries of the queue root are queues (F-29) -/

/-- `stat.Mode&unix.S_IFMT == unix.S_IFDIR` -/
def isDirMode (mode : Nat) : Bool := mode &&& 0o170000 == 0o040000
/-- the test before the repair: `stat.Mode&unix.DT_DIR != 0` — `DT_DIR` = 4 is a directory-entry type, here it selects the
others-read permission bit -/
def legacyIsDir (mode : Nat) : Bool := mode &&& 4 != 0

set_option maxRecDepth 20000 in
/-- **C06 (a queue directory is found again whatever its permission bits).** For all 4096 settings of the permission, set-id
and sticky bits a directory is recognised as one, and a regular file never is. -/
theorem C06_queue_dir_recognised_for_every_mode :
    ∀ p : Fin 4096, (isDirMode (0o040000 ||| p.val) && !isDirMode (0o100000 ||| p.val)) = true := by
  decide +kernel

/-- the test before the repair skipped a directory created under umask 027 and took a world-readable file for a directory -/
theorem legacy_F29 : legacyIsDir 0o040750 = false ∧ legacyIsDir 0o100644 = true := by decide

theorem C06_fact_dir_test : Facts.route_dir_test = ["stat.Mode&unix.S_IFMT != unix.S_IFDIR"] := by decide

end C06
