import SlogModel.Lemmas.BufferCounters
import SlogModel.Props.C03
import SlogModel.Props.C09
import SlogModel.Props.C06
import SlogModel.Gen.Facts

/-!
  C19 — Metrics balance with what actually happened.

  * `C19_buffer_balance` : in every reachable state of the buffer model (every generation start,
      every operation sequence) `pending_chunks = input{transient} + input{persistent} − consumed −
      leftover − dropped`.
  * `C19_dropped_counts_drops`, `C19_consumed_counts_confirms` : `dropped_chunks_total` is exactly the
      number of chunks the model dropped (the ghost list the conservation theorem C03_conserved speaks
      of), `consumed_chunks_total` exactly the number of confirmations.
  * `C19_shutdown_balance` : after `destroy`, with everything the consumer held resolved, accepted +
      recovered = consumed + dropped + kept (files for the next start).
  * `C19_input_counted_once` : every call of the parser increments exactly one of the pass / drop
      counters (restated from C09).
  Tie: C03's state-by-state comparison covers every buffer counter and gauge after every operation;
  the end-to-end harness compares the summed counters of real agent runs (input passed + dropped = lines
  sent, pipeline passed + dropped = input passed, filtered = pipeline dropped, consumed = distinct chunks
  acknowledged by the upstream = output acknowledged) over fault scripts and restarts; facts pin the
  call sites of the forwarded / acknowledged counters.
  Not modelled: label attribution of per-key-set counters (exercised by C06's metric-key correspondence).
-/

open Buffer

namespace C19

/-- **C19 (pending balances).** -/
theorem C19_buffer_balance (cfg : Cfg) (disk : List (Nat × Bytes)) (ops : List Op) (s : St)
    (h : run (recover cfg disk) ops = some s) :
    s.c.pending = (s.c.inT : Int) + s.c.inP - s.c.consumed - s.c.leftover - s.c.dropped := by
  have := run_bal ops _ s h
  rw [recover_bal] at this
  simp only [bal] at this
  omega

/-- **C19 (the dropped counter counts the drops).** -/
theorem C19_dropped_counts_drops (cfg : Cfg) (disk : List (Nat × Bytes)) (ops : List Op) (s : St)
    (h : run (recover cfg disk) ops = some s) : s.c.dropped = s.droppedG.length := by
  have := (run_dd ops _ s h (recover_dd cfg disk)).1
  omega

theorem C19_consumed_counts_confirms (cfg : Cfg) (disk : List (Nat × Bytes)) (ops : List Op) (s : St)
    (h : run (recover cfg disk) ops = some s) : s.c.consumed = s.confirmedG.length := by
  have := (run_dd ops _ s h (recover_dd cfg disk)).2
  omega

/-- **C19 (chunk counts balance at shutdown).** -/
theorem C19_shutdown_balance (cfg : Cfg) (disk : List (Nat × Bytes)) (hd : (disk.map (·.1)).Nodup)
    (ops : List Op) (s : St) (h : run (recover cfg disk) ops = some s) (hl : C03.Legal (recover cfg disk) ops)
    (hdes : s.destroyed = true) (hheld : s.held = []) :
    s.accepted.length = s.c.consumed + s.c.dropped + s.keptG.length := by
  obtain ⟨hc, hn⟩ := C03.C03_shutdown_accounted cfg disk hd ops s h hl hdes
  rw [hheld] at hc hn
  simp only [List.map_nil, List.nil_append] at hc hn
  have hperm : (s.accepted.map (·.1)).Perm (s.confirmedG ++ s.droppedG ++ s.keptG) := by
    rw [List.perm_iff_count]; exact hc
  have := hperm.length_eq
  rw [C19_dropped_counts_drops cfg disk ops s h, C19_consumed_counts_confirms cfg disk ops s h]
  simp at this
  omega

/-- **C19 (every parser call is counted once)** — restated from C09. -/
theorem C19_input_counted_once (raw : Nat) (o : Parse.Outcome) :
    (Parse.counts raw o).passed + (Parse.counts raw o).dropped = 1 ∧
    (Parse.counts raw o).passedBytes + (Parse.counts raw o).droppedBytes = raw :=
  C09.C09_counted_once raw o

/-! ### fact obligations (Tie B) -/

/-- `OnForwarded` is called as soon as `SendChunk` has succeeded — before the hand-off to the acknowledger, which the stop
request or the end of the acknowledger may win (repaired F-18) — and `OnAcknowledged` after the consumed callback -/
theorem C19_fact_client_metric_sites : Facts.metric_client_sites =
    ["sendChunk: OnForwarding", "sendChunk: return on SendChunk error", "sendChunk: OnForwarded", "sendChunk: hand-off select",
     "runAcknowledger: onChunkAcked, OnAcknowledged"] := by decide
/-- the chunk manager updates the pending gauge in every On* callback -/
theorem C19_fact_pending_sites : Facts.metric_pending_sites =
    [("OnChunkInput", 1), ("OnChunkInputRecovered", 1), ("OnChunkConsumed", 2), ("OnChunkLeftover", 2),
     ("OnChunkCorrupted", 2), ("OnChunkDropped", 2)] := by decide   -- 1 = Inc, 2 = Dec

/-- labelled counters are attributed to the right label values: metric key sets are merged with a length prefix per
key (injective: `C06.C06_merge_injective`), so different label tuples never share a counter set -/
theorem C19_fact_metric_keys_separated : Facts.route_metric_merge_length_prefixed = some true := by decide

theorem C19_label_sets_distinct (a b : List Bytes) (h : Route.mergeKey a = Route.mergeKey b) : a = b :=
  C06.C06_merge_injective a b h

end C19
