import SlogModel.Lemmas.BufferCounters
import SlogModel.Props.C03
import SlogModel.Props.C09
import SlogModel.Props.C06
import SlogModel.Props.C02
import SlogModel.Gen.Facts

/-!
  C19 — Metrics balance with what actually happened.

  * `C19_buffer_balance` : in every reachable state of the buffer model (every generation start,
      every operation sequence) `pending_chunks = input{transient} + input{persistent} − consumed −
      leftover − dropped`.
  * `C19_dropped_counts_drops`, `C19_consumed_counts_confirms` : `dropped_chunks_total` is exactly the
      number of chunks the model dropped (the ghost list the conservation theorem C03_conserved speaks
      of), `consumed_chunks_total` exactly the number of confirmations.
  * `C19_shutdown_balance` : after `destroy`, with everything the consumer held resolved, accepted +
      recovered = consumed + dropped + kept (files for the next start).
  * `C19_input_counted_once` : every call of the parser increments exactly one of the pass / drop
      counters (restated from C09).
  Tie: C03's state-by-state comparison covers every buffer counter and gauge after every operation;
  the end-to-end harness compares the summed counters of real agent runs (input passed + dropped = lines
  sent, pipeline passed + dropped = input passed, filtered = pipeline dropped, consumed = distinct chunks
  acknowledged by the upstream = output acknowledged) over fault scripts and restarts; facts pin the
  call sites of the forwarded / acknowledged counters.
  Not modelled: label attribution of per-key-set counters (exercised by C06's metric-key correspondence).
-/

open Buffer

namespace C19

/-- **C19 (pending balances).** -/
theorem C19_buffer_balance (cfg : Cfg) (disk : List (Nat × Bytes)) (ops : List Op) (s : St)
    (h : run (recover cfg disk) ops = some s) :
    s.c.pending = (s.c.inT : Int) + s.c.inP - s.c.consumed - s.c.leftover - s.c.dropped := by
  have := run_bal ops _ s h
  rw [recover_bal] at this
  simp only [bal] at this
  omega

/-- **C19 (the dropped counter counts the drops).** -/
theorem C19_dropped_counts_drops (cfg : Cfg) (disk : List (Nat × Bytes)) (ops : List Op) (s : St)
    (h : run (recover cfg disk) ops = some s) : s.c.dropped = s.droppedG.length := by
  have := (run_dd ops _ s h (recover_dd cfg disk)).1
  omega

theorem C19_consumed_counts_confirms (cfg : Cfg) (disk : List (Nat × Bytes)) (ops : List Op) (s : St)
    (h : run (recover cfg disk) ops = some s) : s.c.consumed = s.confirmedG.length := by
  have := (run_dd ops _ s h (recover_dd cfg disk)).2
  omega

/-- **C19 (chunk counts balance at shutdown).** -/
theorem C19_shutdown_balance (cfg : Cfg) (disk : List (Nat × Bytes)) (hd : (disk.map (·.1)).Nodup)
    (ops : List Op) (s : St) (h : run (recover cfg disk) ops = some s) (hl : C03.Legal (recover cfg disk) ops)
    (hdes : s.destroyed = true) (hheld : s.held = []) :
    s.accepted.length = s.c.consumed + s.c.dropped + s.keptG.length := by
  obtain ⟨hc, hn⟩ := C03.C03_shutdown_accounted cfg disk hd ops s h hl hdes
  rw [hheld] at hc hn
  simp only [List.map_nil, List.nil_append] at hc hn
  have hperm : (s.accepted.map (·.1)).Perm (s.confirmedG ++ s.droppedG ++ s.keptG) := by
    rw [List.perm_iff_count]; exact hc
  have := hperm.length_eq
  rw [C19_dropped_counts_drops cfg disk ops s h, C19_consumed_counts_confirms cfg disk ops s h]
  simp at this
  omega

/-- **C19 (every parser call is counted once)** — restated from C09. -/
theorem C19_input_counted_once (raw : Nat) (o : Parse.Outcome) :
    (Parse.counts raw o).passed + (Parse.counts raw o).dropped = 1 ∧
    (Parse.counts raw o).passedBytes + (Parse.counts raw o).droppedBytes = raw :=
  C09.C09_counted_once raw o

/-! ### fact obligations (Tie B) -/

/-- `OnForwarded` is called as soon as `SendChunk` has succeeded — before the hand-off to the acknowledger, which the stop
request or the end of the acknowledger may win (repaired F-18) — and `OnAcknowledged` after the consumed callback -/
theorem C19_fact_client_metric_sites : Facts.metric_client_sites =
    ["sendChunk: OnForwarding", "sendChunk: return on SendChunk error", "sendChunk: OnForwarded", "sendChunk: hand-off select",
     "runAcknowledger: onChunkAcked, OnAcknowledged"] := by decide
/-- the chunk manager updates the pending gauge in every On* callback -/
theorem C19_fact_pending_sites : Facts.metric_pending_sites =
    [("OnChunkInput", 1), ("OnChunkInputRecovered", 1), ("OnChunkConsumed", 2), ("OnChunkLeftover", 2),
     ("OnChunkCorrupted", 2), ("OnChunkDropped", 2)] := by decide   -- 1 = Inc, 2 = Dec

/-- labelled counters are attributed to the right label values: metric key sets are merged with a length prefix per
key (injective: `C06.C06_merge_injective`), so different label tuples never share a counter set -/
theorem C19_fact_metric_keys_separated : Facts.route_metric_merge_length_prefixed = some true := by decide

theorem C19_label_sets_distinct (a b : List Bytes) (h : Route.mergeKey a = Route.mergeKey b) : a = b :=
  C06.C06_merge_injective a b h


/-! ### the forwarding client's counters (forwarded / acknowledged) over every run of `Client.step`

`forwarded_chunks_total` is one per complete transmission (`Client.forwardedN` of the event history: counted when
`SendChunk` has returned nil), `acknowledged_chunks_total` one per `OnChunkConsumed` (`Client.acknowledgedN`).  For every
interleaving and fault script: the acknowledged counter is the number of chunks reported delivered, these are distinct
chunks, each was counted as forwarded before (on the connection that carried its ACK), hence acknowledged ≤ forwarded; and the
counters balance with the queue side: taken = acknowledged + handed back + still held.  The harness compares the real
counters with these functions of the observed trace (`client tracem`) and with what the scripted upstream received. -/

theorem sentOkOf_length : ∀ (h : List Client.Ev), (Client.sentOkOf h).length = Client.forwardedN h
  | [] => rfl
  | e :: r => by cases e <;> simp [Client.sentOkOf, Client.forwardedN, sentOkOf_length r]

theorem mem_sentOkOf : ∀ (h : List Client.Ev) (k c : Nat), Client.Ev.sendOk k c ∈ h → c ∈ Client.sentOkOf h
  | [], _, _, hm => by simp at hm
  | e :: r, k, c, hm => by
    simp only [List.mem_cons] at hm
    rcases hm with rfl | hm
    · simp [Client.sentOkOf]
    · have := mem_sentOkOf r k c hm
      cases e <;> simp [Client.sentOkOf, this]

theorem length_le_of_nodup_subset : ∀ (l m : List Nat), l.Nodup → (∀ c ∈ l, c ∈ m) → l.length ≤ m.length
  | [], _, _, _ => by simp
  | x :: l, m, hn, hs => by
    have hn' := List.nodup_cons.mp hn
    have hx : x ∈ m := hs x (by simp)
    have ih := length_le_of_nodup_subset l (m.erase x) hn'.2 (by
      intro c hc
      have hcm := hs c (by simp [hc])
      have hne : c ≠ x := fun e => hn'.1 (e ▸ hc)
      exact (List.mem_erase_of_ne hne).mpr hcm)
    have := List.length_erase_of_mem hx
    simp only [List.length_cons]
    have hpos : 0 < m.length := List.length_pos_of_mem hx
    omega

/-- **C19 (acknowledged counter).** In every reachable state of the client the acknowledged counter equals the number of
chunks reported delivered, and no chunk is among them twice. -/
theorem C19_client_acknowledged_counts_confirmations (q : List Nat) (hq : q.Nodup) (acts : List Client.Act) (s : Client.St)
    (h : Client.run (Client.init q) acts = some s) :
    Client.acknowledgedN s.hist = s.confirmed.length ∧ s.confirmed.Nodup := by
  have he := C02.run_evinv _ _ acts h (by simp [C02.EvInv, Client.init, Client.consumedOf, Client.leftoverOf])
  refine ⟨by simp [Client.acknowledgedN, he.1], ?_⟩
  have := (C02.C02_resolved_exactly_once q hq acts s h).2
  rw [List.append_assoc] at this
  exact (List.nodup_append.mp this).1

/-- **C19 (every acknowledged chunk was counted as forwarded; acknowledged ≤ forwarded).** -/
theorem C19_client_acknowledged_le_forwarded (q : List Nat) (hq : q.Nodup) (acts : List Client.Act) (s : Client.St)
    (h : Client.run (Client.init q) acts = some s) :
    (∀ c ∈ s.confirmed, c ∈ Client.sentOkOf s.hist) ∧ Client.acknowledgedN s.hist ≤ Client.forwardedN s.hist := by
  have hj := C02.C02_confirmed_after_ack q acts s h
  have hsub : ∀ c ∈ s.confirmed, c ∈ Client.sentOkOf s.hist := by
    intro c hc
    obtain ⟨pre, mid, post, k, id, heq, _⟩ := hj c hc
    exact mem_sentOkOf s.hist k c (by rw [heq]; simp)
  obtain ⟨h1, h2⟩ := C19_client_acknowledged_counts_confirmations q hq acts s h
  refine ⟨hsub, ?_⟩
  rw [h1, ← sentOkOf_length]
  exact length_le_of_nodup_subset _ _ h2 hsub

/-- **C19 (client side of the per-output balance).** taken from the queue = acknowledged + handed back + still held. -/
theorem C19_client_balance (q : List Nat) (hq : q.Nodup) (acts : List Client.Act) (s : Client.St)
    (h : Client.run (Client.init q) acts = some s) :
    s.taken.length = Client.acknowledgedN s.hist + s.handed.length + (Client.inflight s).length := by
  have hc := (C02.run_inv _ _ acts h (C02.init_inv q hq)).cons
  obtain ⟨h1, _⟩ := C19_client_acknowledged_counts_confirmations q hq acts s h
  have hperm : s.taken.Perm (s.confirmed ++ s.handed ++ Client.inflight s) := List.perm_iff_count.mpr hc
  rw [h1, hperm.length_eq]; simp only [List.length_append]

example : (Client.run (Client.init [1, 2, 3]) C02.demoActs).map (fun s => (Client.forwardedN s.hist, Client.acknowledgedN s.hist)) =
    some (3, 1) := by
  simp [C02.demoActs, Client.run, Client.step, Client.init, Client.newLeft, Client.dedupSorted, Client.ackCap, List.mergeSort,
    List.MergeSort.Internal.splitInTwo, Client.forwardedN, Client.acknowledgedN, Client.consumedOf]


/-! ### labelled counters: attributed to the label values of the records that caused them

`SelectMetricKeySet` finds a record's counter set by the length-prefixed merge of its metric key values
(`Route.mergeKey`, after the repair of F-2) and creates it, with these values as its `key_*` labels, when it is new
(`C06.route`).  The labels of the counter set a record increments are therefore the record's own values, and the
counter exported under label values `t` has been incremented once by every record carrying `t` and by no other. -/

/-- **C19 (label attribution).** For every sequence of records and every counter sets created before: the number of
increments that went to a counter set labelled `t` is the number of records whose metric key values are `t`. -/
theorem C19_labelled_counter_counts_its_records (recs : List (List Bytes)) (m : C06.PMap) (h : m.WF) (t : List Bytes) :
    ((C06.routeAll Route.mergeKey m recs).2).count t = recs.count t := by
  rw [C06.C06_routes_own recs m h]

end C19
