import SlogModel.Lemmas.E2E
import SlogModel.Gen.Facts

/-!
  C05 — Arrival order is preserved per connection and key set.

  On the same chunk-level system as C01 (`E2E.step`; records and chunks are numbered in arrival /
  creation order; a pipeline receives the records of its key set in the order the connection handlers
  hand them over — C08 keeps the order within a connection, C06 routes by key set):

  * `C05_chunks_hold_arrival_order` : the records of the chunks, concatenated in chunk-id order and
      followed by the chunk being filled, are exactly the records read, in arrival order.
  * `C05_chunk_order_per_connection` : on every upstream connection chunks are transmitted in
      strictly increasing id (= creation) order.
  * `C05_first_delivery_in_order` : whenever a chunk is transmitted for the first time, every chunk
      transmitted before it is older — so first deliveries of records appear in arrival order, whatever
      was spilled, recovered or retransmitted in between.
  * `C05_never_skips_older` : a queued or saved chunk that was never transmitted is newer than
      everything ever transmitted.
-/

open E2E C01

namespace C05

/-- **C05 (chunks hold the records in arrival order).** -/
theorem C05_chunks_hold_arrival_order (acts : List Act) (s : St) (h : run {} acts = some s) :
    s.content.flatMap (·.2) ++ s.cur = List.range s.nextRec ∧ s.content.map (·.1) = List.range s.nextChunk := by
  have hp := run_pinv acts {} s h init_pinv
  exact ⟨hp.recs, hp.ids⟩

/-- **C05 (creation order on every upstream connection).** -/
theorem C05_chunk_order_per_connection (acts : List Act) (s : St) (h : run {} acts = some s) (k : Nat) :
    (onConn k s.sentLog).Pairwise (· < ·) :=
  (run_oinv acts {} s h init_pinv init_oinv).perConn k

/-- **C05 (first deliveries in order).** -/
theorem C05_first_delivery_in_order (acts : List Act) (s : St) (h : run {} acts = some s) :
    firstOK [] s.sentLog :=
  (run_oinv acts {} s h init_pinv init_oinv).first

/-- **C05 (an older undelivered chunk is never skipped).** -/
theorem C05_never_skips_older (acts : List Act) (s : St) (h : run {} acts = some s) :
    (s.inflight ++ s.queue).Pairwise (· < ·) ∧
    ∀ q ∈ s.queue ++ s.disk, q ∉ ids s.sentLog → ∀ p ∈ s.sentLog, p.2 < q := by
  have ho := run_oinv acts {} s h init_pinv init_oinv
  exact ⟨ho.sorted, ho.fresh⟩

/-- what `firstOK` says, spelled out on a split of the log -/
theorem firstOK_split : ∀ (pre : List (Nat × Nat)) (seen : List Nat) (k c : Nat) (post : List (Nat × Nat)),
    firstOK seen (pre ++ (k, c) :: post) → c ∉ seen → c ∉ ids pre → ∀ c' ∈ seen ++ ids pre, c' < c
  | [], seen, k, c, post, h, hs, _ => by
    simp only [List.nil_append, firstOK] at h
    rcases h.1 with h1 | h1
    · exact absurd h1 hs
    · simpa [ids] using h1
  | (k0, c0) :: r, seen, k, c, post, h, hs, hp => by
    simp only [List.cons_append, firstOK] at h
    have hne : c ≠ c0 := by intro e; apply hp; simp [ids, e]
    have := firstOK_split r (c0 :: seen) k c post h.2 (by simp [hne, hs]) (by intro hm; apply hp; simp [ids] at hm ⊢; right; exact hm)
    intro c' hc'
    apply this
    simp [ids] at hc' ⊢
    rcases hc' with h1 | h1 | h1
    · right; left; exact h1
    · left; exact h1
    · right; right; exact h1

/-- every transmission that is the first of its chunk comes after only older chunks -/
theorem C05_first_delivery_spelled_out (acts : List Act) (s : St) (h : run {} acts = some s)
    (pre post : List (Nat × Nat)) (k c : Nat) (hs : s.sentLog = pre ++ (k, c) :: post) (hfirst : c ∉ ids pre) :
    ∀ c' ∈ ids pre, c' < c := by
  have := C05_first_delivery_in_order acts s h
  rw [hs] at this
  have := firstOK_split pre [] k c post this (by simp) hfirst
  simpa using this

/-! ### fact obligations (Tie B): the mechanisms behind the actions of `E2E.step` -/

/-- `connFail` / `stop`: leftovers are merged in id order (sort + de-duplication) -/
theorem C05_fact_leftovers_sorted : Facts.client_leftover_sort = ["return chunks[i].ID < chunks[j].ID", "if c.ID == lastChunkID"] ∧
    Facts.client_leftover_sources = ["fromPrevious...", "fromAckerChannel...", "fromAckerPending...", "*session.lastChunk"] := by decide
/-- `take` after a reconnect: the recovery stage runs to its end before any new input is received, in separate loops -/
theorem C05_fact_session_stages : Facts.order_session_stages = ["session.runAcknowledger", "session.resendLeftovers", "session.processInput"] ∧
    Facts.order_input_sources = ["resendLeftovers:leftovers", "processInput:input"] := by decide
/-- `restart`: the whole queue directory is read at once and sorted once; recovery precedes the feeder -/
theorem C05_fact_scan_sorted : Facts.order_scan_sorted = ["Readdirnames(0)", "sort.Strings(fnames)", "range fnames"] ∧
    Facts.buffer_start_calls = ["buf.recoverExistingChunks()", "go buf.feeder.Run()"] := by decide
/-- chunk ids increase with creation (the id format and epoch rule of C11) -/
theorem C05_fact_ids : Facts.pack_id_format = ["%019d-%08d"] ∧ Facts.pack_id_epoch_compare = ["nextTimestamp > generator.epochNano"] := by decide

end C05
