import SlogModel.Lemmas.Client
import SlogModel.Lemmas.Buffer
import SlogModel.Gen.Facts

/-!
  C18 — Shutdown always completes in bounded time.

  Time is not part of the models; what the models decide is that shutdown can never wedge, and how many
  bounded waits it consists of:

  * `C18_client_can_always_finish` : from every state of the client transition system (any fault
      history, any interleaving so far) in which a stop was requested, the plan `finishPlan` — at most
      five actions: enter `collectLeftovers`, end the acknowledger (its pending ACK read fails because
      the connection is aborted, or it is aborted while idle), merge the leftovers, hand them back and
      call `OnFinished` — is enabled step by step and ends with `finished`.  Each of these actions is a
      wait that the code bounds by a timeout or by the stop signal (facts below).
  * `C18_buffer_destroy_enabled` : `destroy` is enabled in every state of the buffer model that is not
      yet destroyed, and leaves nothing queued (`C03.Drained`): every chunk is saved or counted dropped
      (C03_shutdown_accounted) — no chunk is left only in memory when the directory is usable.
  * facts: every blocking operation on the stop path selects on the stop signal or carries a deadline.
  Tie: the end-to-end harness measures every graceful stop of the real agent (upstream refusing,
  resetting, silent, late; idle, mid-chunk, pending ACKs) against the sum of the scaled timeouts;
  C02's harness reports a client that does not finish within 25 s of the stop request.
  PARTIAL: the time bound itself is measured, not proved.
-/

open Client
namespace C18

/-- the actions that end a session after a stop request -/
def endSession (x : Sess) : List Act :=
  (if x.collecting.isNone then [Act.beginCollect] else []) ++
  (if x.ackEnded then [] else if x.ackCur.isSome then [Act.ackErr] else [Act.escalate, Act.ackAbort]) ++
  [Act.finishCollect]

def finishPlan (s : St) : List Act :=
  (match s.sess with | some x => endSession x | none => []) ++ [Act.workerFinal]

theorem finishPlan_length (s : St) : (finishPlan s).length ≤ 5 := by
  unfold finishPlan endSession
  cases s.sess with
  | none => simp
  | some x =>
    simp only [List.length_append]
    split <;> split <;> (try split) <;> simp

theorem finishPlan_works (s : St) (hf : s.finished = false) (hstop : s.stop = true) :
    ∃ s', run s (finishPlan s) = some s' ∧ s'.finished = true := by
  obtain ⟨queue, left, sess, confirmed, handed, taken, stop, finished, nextConn, hist⟩ := s
  simp only at hf hstop
  subst hf hstop
  cases sess with
  | none => simp [finishPlan, run, step]
  | some x =>
    obtain ⟨conn, normal, lastC, sentOk, ackChan, chanClosed, ackCur, pending, ackEnded, abort, connClosed, collecting⟩ := x
    cases collecting <;> cases ackEnded <;> cases ackCur <;> simp [finishPlan, endSession, run, step]

/-- **C18 (the client can always finish).** -/
theorem C18_client_can_always_finish (s : St) (hf : s.finished = false) (hstop : s.stop = true) :
    ∃ acts s', acts.length ≤ 5 ∧ run s acts = some s' ∧ s'.finished = true := by
  obtain ⟨s', h1, h2⟩ := finishPlan_works s hf hstop
  exact ⟨finishPlan s, s', finishPlan_length s, h1, h2⟩

/-- **C18 (the buffer can always be destroyed, and then holds nothing in memory).** -/
theorem C18_buffer_destroy_enabled (s : Buffer.St) (h : s.destroyed = false) :
    ∃ s', Buffer.step s .destroy = some s' ∧ s'.inQ = [] ∧ s'.hand = none ∧ s'.outW = [] := by
  simp only [Buffer.step, h]
  refine ⟨_, rfl, ?_⟩
  obtain ⟨a1, a2, a3, _⟩ := C03.saveAll_counts (s.inQ ++ Buffer.handEntry s.hand ++ s.outW)
    { s with inQ := [], hand := none, outW := [], destroyed := true }
  exact ⟨a1, a2, a3⟩

/-! ### every way down the stop path is short and ends finished

`C18_client_can_always_finish` gives one plan.  Here: once the stop is requested, *every* run made of the stop path's actions —
the sender enters `collectLeftovers` (having seen the stop in a `select`, a send / ping error after the connection was
aborted, or a closed acknowledger), the pending ACK read fails, the acknowledger is aborted after the bounded wait (once: the
code escalates once per session) or sees its channel closed, the leftovers are merged, the worker hands them back — is at
most six steps long, and it cannot stop before `OnFinished`: in every state on the way one of these actions is enabled. -/

def stopActs : List Act :=
  [.beginCollect, .pushStop, .pushAckEnded, .ackErr, .escalate, .ackAbort, .ackChanClosed, .finishCollect, .workerFinal]

/-- the stop path escalates (`ackerAbort.Signal()` + `abortConn`) once per session -/
def stepS (s : St) (a : Act) : Option St :=
  match a, s.sess with
  | .escalate, some x => if x.abort then none else step s a
  | _, _ => step s a

def runS (s : St) : List Act → Option St
  | [] => some s
  | a :: as => match stepS s a with | some s' => runS s' as | none => none

def b2n (b : Bool) : Nat := if b then 1 else 0

/-- bounded waits left until `OnFinished` -/
def nu (s : St) : Nat :=
  b2n (!s.finished) + (match s.sess with
    | none => 0
    | some x => 1 + b2n x.collecting.isNone + b2n (!x.ackEnded) + b2n (!x.abort) + b2n x.ackCur.isSome)

theorem nu_le (s : St) : nu s ≤ 6 := by
  unfold nu b2n
  cases s.sess with
  | none => simp; split <;> omega
  | some x => simp only; repeat' split
              all_goals omega

theorem stepS_dec (s s' : St) (a : Act) (ha : a ∈ stopActs) (h : stepS s a = some s') :
    nu s' < nu s ∧ s'.stop = s.stop := by
  obtain ⟨queue, left, sess, confirmed, handed, taken, stop, finished, nextConn, hist⟩ := s
  simp only [stopActs, List.mem_cons, List.mem_nil_iff, or_false] at ha
  cases sess with
  | none =>
    rcases ha with rfl | rfl | rfl | rfl | rfl | rfl | rfl | rfl | rfl <;> simp [stepS, step] at h
    obtain ⟨⟨hs, hf⟩, rfl⟩ := h
    simp [nu, b2n, hf]
  | some x =>
    obtain ⟨conn, normal, lastC, sentOk, ackChan, chanClosed, ackCur, pending, ackEnded, abort, connClosed, collecting⟩ := x
    rcases ha with rfl | rfl | rfl | rfl | rfl | rfl | rfl | rfl | rfl
    all_goals
      cases collecting <;> cases ackEnded <;> cases abort <;> cases ackCur <;>
        simp [stepS, step] at h <;>
        (try (obtain ⟨_, rfl⟩ := h)) <;> (try subst h) <;> simp [nu, b2n] <;> (try (cases finished <;> simp))

theorem stop_progress (s : St) (hstop : s.stop = true) (hf : s.finished = false) : ∃ a ∈ stopActs, (stepS s a).isSome = true := by
  obtain ⟨queue, left, sess, confirmed, handed, taken, stop, finished, nextConn, hist⟩ := s
  simp only at hstop hf
  subst hstop hf
  cases sess with
  | none => exact ⟨.workerFinal, by simp [stopActs], by simp [stepS, step]⟩
  | some x =>
    obtain ⟨conn, normal, lastC, sentOk, ackChan, chanClosed, ackCur, pending, ackEnded, abort, connClosed, collecting⟩ := x
    cases collecting with
    | none => exact ⟨.beginCollect, by simp [stopActs], by simp [stepS, step]⟩
    | some prev =>
      cases ackEnded with
      | true => exact ⟨.finishCollect, by simp [stopActs], by simp [stepS, step]⟩
      | false =>
        cases ackCur with
        | some cur => exact ⟨.ackErr, by simp [stopActs], by simp [stepS, step]⟩
        | none =>
          cases abort with
          | true => exact ⟨.ackAbort, by simp [stopActs], by simp [stepS, step]⟩
          | false => exact ⟨.escalate, by simp [stopActs], by simp [stepS, step]⟩

theorem runS_bound : ∀ (acts : List Act) (s s' : St), (∀ a ∈ acts, a ∈ stopActs) → runS s acts = some s' →
    acts.length + nu s' ≤ nu s ∧ s'.stop = s.stop
  | [], s, s', _, h => by simp [runS] at h; subst h; exact ⟨by simp, rfl⟩
  | a :: as, s, s', hall, h => by
    simp only [runS] at h
    cases hs : stepS s a with
    | none => simp [hs] at h
    | some s1 =>
      simp only [hs] at h
      obtain ⟨d1, e1⟩ := stepS_dec s s1 a (hall a (by simp)) hs
      obtain ⟨d2, e2⟩ := runS_bound as s1 s' (fun b hb => hall b (by simp [hb])) h
      exact ⟨by simp only [List.length_cons]; omega, e2.trans e1⟩

theorem stepS_step (s s' : St) (a : Act) (h : stepS s a = some s') : step s a = some s' := by
  unfold stepS at h
  split at h
  · split at h
    · cases h
    · exact h
  · exact h

theorem runS_run : ∀ (acts : List Act) (s s' : St), runS s acts = some s' → run s acts = some s'
  | [], s, s', h => by simpa [runS, run] using h
  | a :: as, s, s', h => by
    simp only [runS] at h
    cases hs : stepS s a with
    | none => simp [hs] at h
    | some s1 =>
      simp only [hs] at h
      simp only [run, stepS_step s s1 a hs]
      exact runS_run as s1 s' h

/-- **C18 (the stop path is short and has one end).** From any state in which a stop was requested: every run of stop-path
actions has at most six steps, and a run that cannot be continued has reached `finished`. -/
theorem C18_every_stop_run_ends_finished (s : St) (hstop : s.stop = true) (acts : List Act) (hacts : ∀ a ∈ acts, a ∈ stopActs)
    (s' : St) (h : runS s acts = some s') :
    acts.length ≤ 6 ∧ ((∀ a ∈ stopActs, stepS s' a = none) → s'.finished = true) := by
  obtain ⟨hb, hs⟩ := runS_bound acts s s' hacts h
  refine ⟨by have := nu_le s; omega, ?_⟩
  intro hstuck
  cases hf : s'.finished with
  | true => rfl
  | false =>
    obtain ⟨a, ha, h2⟩ := stop_progress s' (by rw [hs]; exact hstop) hf
    rw [hstuck a ha] at h2; cases h2

/-! ### fact obligations (Tie B) -/

/-- every `select` of the client's sender and worker loop has a case on the stop signal or a closed channel -/
theorem C18_fact_client_selects : Facts.stop_client_selects =
    [("resendLeftovers", 1), ("processInput", 1), ("sendChunk", 1), ("runSession", 1)] := by decide
/-- the stop signal aborts the active connection -/
theorem C18_fact_abort_on_stop : Facts.stop_abort_on_stop = ["client.inputClosed.Next", "sess.Abort"] := by decide
/-- waits in `collectLeftovers`, `Destroy` and `WaitPendingChunks` carry a timeout -/
theorem C18_fact_bounded_waits : Facts.stop_bounded_waits =
    ["session.ackerEnded.Wait(defs.ForwarderAckerStopTimeout)", "session.ackerEnded.Wait(defs.IntermediateChannelTimeout)",
     "buf.feeder.Stopped().Wait(runTimeout)", "man.metrics.pendingChunks.WaitForZero(defs.BufferShutDownTimeout)",
     "client.inputClosed.Wait(defs.ForwarderRetryInterval)"] := by decide
/-- send, ping and ACK read each get a deadline -/
theorem C18_fact_io_deadlines : Facts.stop_io_deadlines = ["SendChunk:SetWriteDeadline", "SendPing:SetWriteDeadline", "ReadChunkAck:SetReadDeadline"] := by decide

/-- "no chunk only in memory": the chunk in hand is remembered until it is queued for acknowledgement, and the leftovers
not yet resent are part of what `collectLeftovers` merges (same obligations as C02) -/
theorem C18_fact_nothing_forgotten : Facts.client_last_chunk_assignments =
    ["resendLeftovers:&chunk", "resendLeftovers:nil(after-send=true,after-failure-return=true)",
     "processInput:&chunk", "processInput:nil(after-send=true,after-failure-return=true)"] ∧
    Facts.client_leftover_sources = ["fromPrevious...", "fromAckerChannel...", "fromAckerPending...", "*session.lastChunk"] ∧
    Facts.stop_resend_collects_previous = ["collectLeftovers(leftovers, endImmediately)", "collectLeftovers(leftovers, endImmediately)"] := by decide
/-- after the stop signal `run.Run` ends the inputs first, then the pipelines (which save what is pending), and only then the
metrics listener, whose `Shutdown` waits for active requests without a limit -/
theorem C18_fact_run_order : Facts.stop_run_order = ["shutdownInputs", "orchestrator.Shutdown", "msrv.Shutdown"] := by decide
/-- a stop request that arrives while a connection attempt is in progress does not wait for it (the attempt has its own,
much longer timeout): in the transition system `workerFinal` needs no session and no connect action -/
theorem C18_fact_stop_during_connect : Facts.stop_connect_branch = ["return leftovers, noReconnect"] := by decide
/-- when a pipeline's processing worker has stopped, its buffers are destroyed one after the other — `Destroy` bounds its own
waits (`C18_fact_bounded_waits`) — and nothing waits for a buffer's `Stopped()` (which follows an unbounded wait for the consumer) -/
theorem C18_fact_pipeline_teardown : Facts.stop_pipeline_teardown = ["settings.bufferer.Destroy", "onStopped"] := by decide
/-- every connection of the listener has a closer goroutine waiting on the stop request -/
theorem C18_fact_listener_closers : Facts.stop_listener_closers =
    ["run: AnyAwaitables(listener.stopRequest, abortListener) -> socket.Close", "launchConnectionCloser: AnyAwaitables(listener.stopRequest, abortConn) -> conn.Close"] := by decide

end C18
