import SlogModel.Model.Pack
import SlogModel.Lemmas.Msgpack
import SlogModel.Gen.Facts

/-!
  C11 — Chunks are complete, ordered, self-describing batches.

  * `C11_concat`   : for every interleaving of writes and flushes, the records of the emitted chunks,
                     in emission order, followed by what is still pending, are exactly the streams
                     written — nothing lost, duplicated or reordered at chunk boundaries or flushes
  * `C11_concat_flushed` : after a final flush nothing is pending
  * `C11_count`    : the record count announced by a chunk equals its contents
  * `C11_limits`   : no chunk exceeds the record limit; no chunk exceeds the byte limit unless it
                     holds a single record
  * `C11_indices`  : chunks are emitted in creation order (ordinals strictly increasing)
  * `C11_ids_increasing` : for non-decreasing clock readings the (timestamp, sequence) pairs printed
                     into the ids are strictly increasing, hence unique
  * `C11_id_width` : the id has fixed width (so byte-wise order of ids is the order of the pairs)
  * `C11_envelope_packed`, `C11_envelope_forward` : the Forward request decodes to
                     `[tag, entries | bin payload, {size, chunk, compressed?}]`
  * `C11_datadog_framing`
-/

namespace C11
open Pack MP

/-! ### conservation -/

def pend (s : St) : List Bytes := match s.cur with | some k => k.recordsRev.reverse | none => []

def writesOf : List Op → List Bytes
  | [] => []
  | .write st :: r => st :: writesOf r
  | .flush :: r => writesOf r

theorem flush_conserves (c : Cfg) (s : St) :
    ((flush c s).2.toList.map (·.records)).flatten ++ pend (flush c s).1 = pend s := by
  obtain ⟨cur, next⟩ := s
  cases cur <;> simp [flush, pend, finalize]

theorem step_conserves (c : Cfg) (s : St) (op : Op) :
    ((step c s op).2.toList.map (·.records)).flatten ++ pend (step c s op).1 = pend s ++ writesOf [op] := by
  cases op with
  | flush => simpa [step, writesOf] using flush_conserves c s
  | write st =>
    obtain ⟨cur, next⟩ := s
    cases cur with
    | none => simp [step, writesOf, write, pend, curWrite, newCur]
    | some k =>
      by_cases ha : canAppend c k st.length
      · simp [step, writesOf, write, pend, ha, curWrite]
      · simp [step, writesOf, write, pend, ha, curWrite, newCur, finalize]

/-- **C11 (nothing lost, duplicated or reordered).** -/
theorem C11_concat (c : Cfg) (s : St) (ops : List Op) :
    ((run c s ops).2.map (·.records)).flatten ++ pend (run c s ops).1 = pend s ++ writesOf ops := by
  induction ops generalizing s with
  | nil => simp [run, writesOf]
  | cons op ops ih =>
    have h1 := step_conserves c s op
    have h2 := ih (step c s op).1
    simp only [run, List.map_append, List.flatten_append, List.append_assoc]
    rw [h2, ← List.append_assoc, h1]
    cases op <;> simp [writesOf]

theorem run_append (c : Cfg) (s : St) (a b : List Op) :
    run c s (a ++ b) = ((run c (run c s a).1 b).1, (run c s a).2 ++ (run c (run c s a).1 b).2) := by
  induction a generalizing s with
  | nil => simp [run]
  | cons x xs ih => simp [run, ih, List.append_assoc]

theorem writesOf_append (a b : List Op) : writesOf (a ++ b) = writesOf a ++ writesOf b := by
  induction a with
  | nil => rfl
  | cons o os ih => cases o <;> simp [writesOf, ih]

/-- **C11 (complete after a flush).** From the initial state, after a final flush, concatenating the
chunks in emission order reproduces the written sequence exactly. -/
theorem C11_concat_flushed (c : Cfg) (ops : List Op) :
    ((run c {} (ops ++ [.flush])).2.map (·.records)).flatten = writesOf ops := by
  have h := C11_concat c {} (ops ++ [.flush])
  have hp : pend (run c {} (ops ++ [.flush])).1 = [] := by
    rw [run_append]
    generalize (run c {} ops).1 = s1
    obtain ⟨cur, next⟩ := s1
    cases cur <;> simp [run, step, flush, pend]
  rw [hp, writesOf_append] at h
  simpa [pend, writesOf] using h

/-! ### counts and limits -/

def plen (c : Cfg) (recs : List Bytes) : Nat :=
  if isDD c then 1 + (recs.map (fun r => r.length + 1)).sum else (recs.map List.length).sum

/-- invariant of the chunk being assembled -/
def CurOK (c : Cfg) (k : Cur) : Prop :=
  k.numRecords = k.recordsRev.length ∧ 1 ≤ k.numRecords ∧
  k.numBytes = plen c k.recordsRev ∧
  (c.maxRecords > 0 → k.numRecords ≤ c.maxRecords) ∧
  (c.maxBytes > 0 → 2 ≤ k.numRecords → k.numBytes ≤ c.maxBytes)

def StOK (c : Cfg) (s : St) : Prop := ∀ k, s.cur = some k → CurOK c k ∧ k.idx < s.next

/-- what is required of an emitted chunk -/
def ChunkOK (c : Cfg) (k : Chunk) : Prop :=
  k.numRecords = k.records.length ∧ 1 ≤ k.numRecords ∧
  (c.maxRecords > 0 → k.numRecords ≤ c.maxRecords) ∧
  (c.maxBytes > 0 → k.numRecords = 1 ∨ plen c k.records ≤ c.maxBytes)

theorem plen_reverse (c : Cfg) (l : List Bytes) : plen c l.reverse = plen c l := by
  unfold plen; split <;> simp [List.sum_reverse]

theorem finalize_ok (c : Cfg) (k : Cur) (h : CurOK c k) : ChunkOK c (finalize c k) := by
  obtain ⟨h1, h2, h3, h4, h5⟩ := h
  refine ⟨by simp [finalize, h1], by simp [finalize, h2], by simpa [finalize] using h4, ?_⟩
  intro hb
  simp only [finalize, plen_reverse]
  by_cases h : k.numRecords = 1
  · exact Or.inl h
  · exact Or.inr (by have := h5 hb (by omega); omega)

theorem curWrite_first_ok (c : Cfg) (idx : Nat) (st : Bytes) : CurOK c (curWrite c (newCur c idx) st) := by
  unfold CurOK curWrite newCur plen
  refine ⟨by simp, by simp, ?_, ?_, ?_⟩
  · by_cases h : isDD c <;> simp [h]; omega
  · intro h; simp; omega
  · intro _ h; simp at h

theorem curWrite_more_ok (c : Cfg) (k : Cur) (st : Bytes) (hk : CurOK c k)
    (ha : canAppend c k st.length = true) : CurOK c (curWrite c k st) := by
  obtain ⟨h1, h2, h3, h4, h5⟩ := hk
  have hr : ¬ (c.maxRecords > 0 ∧ k.numRecords ≥ c.maxRecords) := by
    intro h; simp [canAppend, h] at ha
  have hb : ¬ (c.maxBytes > 0 ∧ k.numBytes + st.length + (if isDD c then 1 else 0) > c.maxBytes) := by
    intro h; simp [canAppend, hr, h] at ha
  unfold CurOK curWrite
  refine ⟨by simp [h1], by simp, ?_, ?_, ?_⟩
  · simp only [h3, plen]
    by_cases h : isDD c <;> simp [h] <;> omega
  · intro hm
    have : ¬ (k.numRecords ≥ c.maxRecords) := fun hge => hr ⟨hm, hge⟩
    simp; omega
  · intro hm _
    have : ¬ (k.numBytes + st.length + (if isDD c then 1 else 0) > c.maxBytes) := fun hg => hb ⟨hm, hg⟩
    simp only []
    by_cases h : isDD c <;> simp [h] at this ⊢ <;> omega

/-- lower bound of the ordinals of all chunks that can still be emitted -/
def lb (s : St) : Nat := match s.cur with | some k => k.idx | none => s.next

theorem step_ok (c : Cfg) (s : St) (op : Op) (hs : StOK c s) :
    StOK c (step c s op).1 ∧
    (∀ k ∈ (step c s op).2.toList, ChunkOK c k ∧ lb s ≤ k.idx ∧ k.idx < lb (step c s op).1) ∧
    lb s ≤ lb (step c s op).1 := by
  obtain ⟨cur, next⟩ := s
  cases op with
  | flush =>
    cases cur with
    | none => exact ⟨by intro k hk; simp [step, flush] at hk, by simp [step, flush], by simp [step, flush]⟩
    | some k =>
      obtain ⟨hk, hi⟩ := hs k rfl
      refine ⟨by intro k' hk'; simp [step, flush] at hk', ?_, by simp [step, flush, lb]; exact Nat.le_of_lt hi⟩
      intro k' hk'
      simp [step, flush] at hk'
      subst hk'
      exact ⟨finalize_ok c k hk, by simp [finalize, lb], by simpa [finalize, lb, step, flush] using hi⟩
  | write st =>
    cases cur with
    | none =>
      refine ⟨?_, by simp [step, write], by simp [step, write, lb, curWrite, newCur]⟩
      intro k' hk'
      simp [step, write] at hk'
      subst hk'
      exact ⟨curWrite_first_ok c next st, by simp [curWrite, newCur, step, write]⟩
    | some k =>
      obtain ⟨hk, hi⟩ := hs k rfl
      simp only at hi
      by_cases ha : canAppend c k st.length
      · refine ⟨?_, by simp [step, write, ha], by simp [step, write, ha, lb, curWrite]⟩
        intro k' hk'
        simp [step, write, ha] at hk'
        subst hk'
        exact ⟨curWrite_more_ok c k st hk ha, by simpa [curWrite, step, write, ha] using hi⟩
      · refine ⟨?_, ?_, by simp [step, write, ha, lb, curWrite, newCur]; exact Nat.le_of_lt hi⟩
        · intro k' hk'
          simp [step, write, ha] at hk'
          subst hk'
          exact ⟨curWrite_first_ok c next st, by simp [curWrite, newCur, step, write, ha]⟩
        · intro k' hk'
          simp [step, write, ha] at hk'
          subst hk'
          exact ⟨finalize_ok c k hk, by simp [finalize, lb], by simpa [finalize, lb, step, write, ha, curWrite, newCur] using hi⟩

theorem run_ok (c : Cfg) (s : St) (ops : List Op) (hs : StOK c s) :
    StOK c (run c s ops).1 ∧ (∀ k ∈ (run c s ops).2, ChunkOK c k ∧ lb s ≤ k.idx) ∧
    ((run c s ops).2.map (·.idx)).Pairwise (· < ·) := by
  induction ops generalizing s with
  | nil => simp [run, hs]
  | cons op ops ih =>
    obtain ⟨h1, h2, h3⟩ := step_ok c s op hs
    obtain ⟨i1, i2, i4⟩ := ih (step c s op).1 h1
    simp only [run]
    refine ⟨i1, ?_, ?_⟩
    · intro k hk
      simp at hk
      rcases hk with hk | hk
      · have := h2 k (by simpa using hk); exact ⟨this.1, this.2.1⟩
      · have := i2 k hk; exact ⟨this.1, by omega⟩
    · simp only [List.map_append, List.pairwise_append]
      refine ⟨by cases (step c s op).2 <;> simp, i4, ?_⟩
      intro a ha b hb
      simp at ha hb
      obtain ⟨ka, hka, rfl⟩ := ha
      obtain ⟨kb, hkb, rfl⟩ := hb
      have l1 := (h2 ka (by simpa using hka)).2.2
      have l2 := (i2 kb hkb).2
      omega

theorem init_ok (c : Cfg) : StOK c {} := by intro k hk; simp at hk

/-- **C11 (count matches contents).** -/
theorem C11_count (c : Cfg) (ops : List Op) :
    ∀ k ∈ (run c {} ops).2, k.numRecords = k.records.length ∧ 1 ≤ k.records.length := by
  intro k hk
  have := ((run_ok c {} ops (init_ok c)).2.1 k hk).1
  exact ⟨this.1, by have h1 := this.1; have h2 := this.2.1; omega⟩

/-- the payload length is what the limit is checked against -/
theorem payload_length (c : Cfg) (k : Chunk) (h : 1 ≤ k.records.length) :
    (payload c k).length = plen c k.records := by
  unfold payload plen
  by_cases hd : isDD c
  · simp only [hd, if_true]
    have : ∀ l : List Bytes, 1 ≤ l.length → (ddJoin l).length + 1 = (l.map (fun r => r.length + 1)).sum := by
      intro l
      induction l with
      | nil => simp
      | cons r rs ih =>
        intro _
        cases rs with
        | nil => simp [ddJoin]
        | cons r2 rs2 =>
          have := ih (by simp)
          simp only [ddJoin, List.length_append, List.length_cons, List.map_cons, List.sum_cons] at this ⊢
          omega
    have := this k.records h
    simp; omega
  · simp [hd, List.length_flatten]

/-- **C11 (limits).** No chunk holds more records than the record limit, and no chunk's payload is
larger than the byte limit unless the chunk holds a single record. -/
theorem C11_limits (c : Cfg) (ops : List Op) :
    ∀ k ∈ (run c {} ops).2,
      (c.maxRecords > 0 → k.records.length ≤ c.maxRecords) ∧
      (c.maxBytes > 0 → k.records.length = 1 ∨ (payload c k).length ≤ c.maxBytes) := by
  intro k hk
  obtain ⟨h1, h2, h3, h4⟩ := ((run_ok c {} ops (init_ok c)).2.1 k hk).1
  refine ⟨by intro h; have := h3 h; omega, ?_⟩
  intro h
  rw [payload_length c k (by omega)]
  rcases h4 h with h5 | h5
  · exact Or.inl (by omega)
  · exact Or.inr h5

/-- **C11 (emission order = creation order).** -/
theorem C11_indices (c : Cfg) (ops : List Op) : ((run c {} ops).2.map (·.idx)).Pairwise (· < ·) :=
  (run_ok c {} ops (init_ok c)).2.2

/-! ### chunk ids -/

/-- order of the (timestamp, sequence) pairs printed into the ids -/
def pairLt (a b : Nat × Nat) : Prop := a.1 < b.1 ∨ (a.1 = b.1 ∧ a.2 < b.2)

theorem idgen_after (g : IdGen) (ts : List Nat) (hge : ∀ t ∈ ts, g.epoch ≤ t) (hmono : ts.Pairwise (· ≤ ·)) :
    ∀ p ∈ IdGen.run g ts, g.epoch < p.1 ∨ (g.epoch = p.1 ∧ g.seq < p.2) := by
  induction ts generalizing g with
  | nil => simp [IdGen.run]
  | cons t rest ih =>
    intro p hp
    have hmono' := (List.pairwise_cons.mp hmono)
    simp only [IdGen.run, List.mem_cons] at hp
    have hte := hge t (by simp)
    by_cases hgt : t > g.epoch
    · have e : g.next t = ({ epoch := t, seq := 0 }, (t, 0)) := by simp [IdGen.next, hgt]
      rw [e] at hp
      rcases hp with rfl | hp
      · exact Or.inl hgt
      · have := ih { epoch := t, seq := 0 } (fun x hx => hmono'.1 x hx) hmono'.2 p hp
        simp at this
        rcases this with h | ⟨h, _⟩ <;> left <;> omega
    · have e : g.next t = ({ g with seq := g.seq + 1 }, (t, g.seq + 1)) := by simp [IdGen.next, hgt]
      rw [e] at hp
      have hteq : t = g.epoch := by omega
      rcases hp with rfl | hp
      · exact Or.inr ⟨by simp; omega, by simp⟩
      · have := ih { g with seq := g.seq + 1 } (fun x hx => by have := hmono'.1 x hx; simp; omega) hmono'.2 p hp
        simp at this
        rcases this with h | ⟨h, h2⟩
        · exact Or.inl h
        · exact Or.inr ⟨h, by omega⟩

/-- **C11 (unique, increasing ids).** When the clock readings do not decrease, the pairs printed
into successive chunk ids are strictly increasing (timestamp, then sequence): every id is unique
and ids order chunks by creation. -/
theorem C11_ids_increasing (g : IdGen) (ts : List Nat) (hge : ∀ t ∈ ts, g.epoch ≤ t)
    (hmono : ts.Pairwise (· ≤ ·)) : (IdGen.run g ts).Pairwise pairLt := by
  induction ts generalizing g with
  | nil => simp [IdGen.run]
  | cons t rest ih =>
    have hmono' := (List.pairwise_cons.mp hmono)
    have hte := hge t (by simp)
    simp only [IdGen.run, List.pairwise_cons]
    by_cases hgt : t > g.epoch
    · have e : g.next t = ({ epoch := t, seq := 0 }, (t, 0)) := by simp [IdGen.next, hgt]
      rw [e]
      refine ⟨?_, ih _ (fun x hx => hmono'.1 x hx) hmono'.2⟩
      intro p hp
      have := idgen_after { epoch := t, seq := 0 } rest (fun x hx => hmono'.1 x hx) hmono'.2 p hp
      simpa [pairLt] using this
    · have e : g.next t = ({ g with seq := g.seq + 1 }, (t, g.seq + 1)) := by simp [IdGen.next, hgt]
      rw [e]
      have hteq : t = g.epoch := by omega
      refine ⟨?_, ih _ (fun x hx => by have := hmono'.1 x hx; simp; omega) hmono'.2⟩
      intro p hp
      have := idgen_after { g with seq := g.seq + 1 } rest
        (fun x hx => by have := hmono'.1 x hx; simp; omega) hmono'.2 p hp
      simp at this
      unfold pairLt
      rcases this with h | ⟨h, h2⟩
      · left; simp; omega
      · right; simp; omega

theorem fixedDigits_length (w n : Nat) : (fixedDigits w n).length = w := by
  induction w generalizing n with
  | zero => rfl
  | succ w ih => simp [fixedDigits, ih]

theorem fixedDigits_inj (w a b : Nat) (ha : a < 10 ^ w) (hb : b < 10 ^ w)
    (h : fixedDigits w a = fixedDigits w b) : a = b := by
  induction w generalizing a b with
  | zero => simp at ha hb; omega
  | succ w ih =>
    simp only [fixedDigits] at h
    have hl : (fixedDigits w (a / 10)).length = (fixedDigits w (b / 10)).length := by
      simp [fixedDigits_length]
    obtain ⟨h1, h2⟩ := List.append_inj h hl
    have ha' : a / 10 < 10 ^ w := by rw [Nat.pow_succ] at ha; omega
    have hb' : b / 10 < 10 ^ w := by rw [Nat.pow_succ] at hb; omega
    have := ih _ _ ha' hb' h1
    simp at h2
    omega

/-- **C11 (fixed-width, injective id format).** With a timestamp below 10¹⁹ (every int64 nanosecond
reading) and a sequence below 10⁸ the id is `19 digits - 8 digits suffix`, and different
(timestamp, sequence) pairs give different ids. -/
theorem C11_id_format (p q : Nat × Nat) (sfx : Bytes)
    (hp : p.1 < 10 ^ 19 ∧ p.2 < 10 ^ 8) (hq : q.1 < 10 ^ 19 ∧ q.2 < 10 ^ 8) :
    (fmtId p sfx).length = 28 + sfx.length ∧ (fmtId p sfx = fmtId q sfx → p = q) := by
  unfold fmtId padDigits
  simp only [hp.1, hp.2, hq.1, hq.2, if_true]
  refine ⟨by simp [fixedDigits_length]; omega, ?_⟩
  intro h
  have hl : (fixedDigits 19 p.1).length = (fixedDigits 19 q.1).length := by simp [fixedDigits_length]
  simp only [List.append_assoc] at h
  obtain ⟨h1, h2⟩ := List.append_inj h hl
  have e1 := fixedDigits_inj 19 _ _ hp.1 hq.1 h1
  simp only [List.cons_append, List.nil_append, List.cons.injEq, true_and] at h2
  have hl2 : (fixedDigits 8 p.2).length = (fixedDigits 8 q.2).length := by simp [fixedDigits_length]
  obtain ⟨h3, _⟩ := List.append_inj h2 hl2
  have e2 := fixedDigits_inj 8 _ _ hp.2 hq.2 h3
  exact Prod.ext e1 e2

/-! ### envelope -/

theorem decode_libStr (d : Nat) (v rest : Bytes) (h : v.length < 4294967296) :
    decode d (libStr v ++ rest) = some (.str v, rest) := by
  unfold libStr
  by_cases h1 : v.length < 32
  · simp only [h1, if_true, List.cons_append]
    rw [decode_fixstr _ _ _ (by omega) (by omega)]
    simp [takeN_append]
  · by_cases h2 : v.length < 256
    · simp only [h1, h2, if_true, if_false, List.cons_append]
      rw [decode_str8]
      simp [rd8, takeN_append]
    · by_cases h3 : v.length < 65536
      · simp only [h1, h2, h3, if_true, if_false, List.cons_append, List.append_assoc]
        rw [decode_str16]
        simp [rd16_be16 _ h3, takeN_append]
      · simp only [h1, h2, h3, if_false, List.cons_append, List.append_assoc]
        rw [decode_str32]
        simp [rd32_be32 _ h, takeN_append]

theorem decode_libBin (d : Nat) (v rest : Bytes) (h : v.length < 4294967296) :
    decode d (libBin v ++ rest) = some (.bin v, rest) := by
  unfold libBin
  by_cases h2 : v.length < 256
  · simp only [h2, if_true, List.cons_append]
    rw [decode_bin8]
    simp [rd8, takeN_append]
  · by_cases h3 : v.length < 65536
    · simp only [h2, h3, if_true, if_false, List.cons_append, List.append_assoc]
      rw [decode_bin16]
      simp [rd16_be16 _ h3, takeN_append]
    · simp only [h2, h3, if_false, List.cons_append, List.append_assoc]
      rw [decode_bin32]
      simp [rd32_be32 _ h, takeN_append]

theorem decode_libUint (d : Nat) (n : Nat) (rest : Bytes) (h : n < 9223372036854775808) :
    decode d (libUint n ++ rest) = some (.uint n, rest) := by
  unfold libUint
  simp only [List.cons_append]
  rw [decode_int64, rd64_be64 n (by omega)]
  simp [h]

def expectedOption (n : Nat) (id : Bytes) (compressed : Bool) : Val :=
  .map ([(.str kSize, .uint n), (.str kChunk, .str id)] ++
        (if compressed then [(.str kCompressed, .str vGzip)] else []))

theorem decode_option (d : Nat) (n : Nat) (id rest : Bytes) (compressed : Bool)
    (hn : n < 9223372036854775808) (hid : id.length < 4294967296) :
    decode (d + 1) (optionMap n id compressed ++ rest) = some (expectedOption n id compressed, rest) := by
  unfold optionMap expectedOption
  cases compressed with
  | false =>
    simp only [Bool.false_eq_true, if_false, List.append_nil, List.cons_append, List.nil_append, List.append_assoc]
    rw [decode_fixmap d 130 _ (by decide) (by decide)]
    simp only [show (130 - 128 : Nat) = 2 from rfl, decodePairs]
    rw [decode_libStr d kSize _ (by decide)]
    simp only [decode_libUint d n _ hn]
    rw [decode_libStr d kChunk _ (by decide)]
    simp only [decode_libStr d id _ hid]
    simp
  | true =>
    simp only [if_true, List.cons_append, List.nil_append, List.append_assoc]
    rw [decode_fixmap d 131 _ (by decide) (by decide)]
    simp only [show (131 - 128 : Nat) = 3 from rfl, decodePairs]
    rw [decode_libStr d kSize _ (by decide)]
    simp only [decode_libUint d n _ hn]
    rw [decode_libStr d kChunk _ (by decide)]
    simp only [decode_libStr d id _ hid]
    rw [decode_libStr d kCompressed _ (by decide)]
    simp only [decode_libStr d vGzip _ (by decide)]
    simp

/-- **C11 (PackedForward / CompressedPackedForward request).** The chunk decodes to
`[tag, bin body, {size: n, chunk: id (, compressed: "gzip")}]` with nothing left over; `body` is the
stored payload (gzip of the records in compressed mode). -/
theorem C11_envelope_packed (c : Cfg) (n : Nat) (id body : Bytes) (hm : c.mode = .packed ∨ c.mode = .compressed)
    (ht : c.tag.length < 4294967296) (hb : body.length < 4294967296) (hid : id.length < 4294967296)
    (hn : n < 9223372036854775808) :
    decode 2 (envelope c n id body) =
      some (.arr [.str c.tag, .bin body, expectedOption n id (c.mode == .compressed)], []) := by
  unfold envelope
  have hf : (c.mode == Mode.forward) = false := by rcases hm with h | h <;> simp [h]
  simp only [hf, Bool.false_eq_true, if_false, List.cons_append, List.nil_append, List.append_assoc]
  rw [show (2 : Nat) = 1 + 1 from rfl, decode_fixarray 1 147 _ (by decide) (by decide)]
  simp only [show (147 - 144 : Nat) = 3 from rfl, decodeSeq]
  rw [decode_libStr 1 c.tag _ ht]
  simp only [decode_libBin 1 body _ hb]
  have := decode_option 0 n id [] (c.mode == .compressed) hn hid
  simp only [List.append_nil] at this
  simp [this]

theorem decode_libArrHdr (d n : Nat) (body rest : Bytes) (l : List Val) (hn : n < 4294967296)
    (h : decodeSeq d n body = some (l, rest)) :
    decode (d + 1) (libArrHdr n ++ body) = some (.arr l, rest) := by
  unfold libArrHdr
  by_cases h1 : n < 16
  · simp only [h1, if_true, List.cons_append, List.nil_append]
    rw [decode_fixarray _ _ _ (by omega) (by omega)]
    simp [h]
  · by_cases h2 : n < 65536
    · simp only [h1, h2, if_true, if_false, List.cons_append]
      rw [decode_array16]
      simp [rd16_be16 _ h2, h]
    · simp only [h1, h2, if_false, List.cons_append]
      rw [decode_array32]
      simp [rd32_be32 _ hn, h]

/-- **C11 (Forward request).** When the body is a sequence of `n` well-formed entries (C10), the
chunk decodes to `[tag, [entry₁ … entryₙ], {size: n, chunk: id}]` with nothing left over. -/
theorem C11_envelope_forward (c : Cfg) (n : Nat) (id body : Bytes) (entries : List Val) (hm : c.mode = .forward)
    (ht : c.tag.length < 4294967296) (hid : id.length < 4294967296) (hn : n < 4294967296)
    (hentries : ∀ rest, decodeSeq 0 n (body ++ rest) = some (entries, rest)) :
    decode 2 (envelope c n id body) =
      some (.arr [.str c.tag, .arr entries, expectedOption n id false], []) := by
  unfold envelope
  simp only [hm, beq_self_eq_true, if_true, List.cons_append, List.nil_append, List.append_assoc]
  rw [show (2 : Nat) = 1 + 1 from rfl, decode_fixarray 1 147 _ (by decide) (by decide)]
  simp only [show (147 - 144 : Nat) = 3 from rfl, decodeSeq]
  rw [decode_libStr 1 c.tag _ ht]
  have h1 := decode_libArrHdr 0 n (body ++ optionMap n id false) (optionMap n id false) entries hn (hentries _)
  simp only [show (Mode.forward == Mode.compressed) = false from rfl]
  simp only [h1]
  have := decode_option 0 n id [] false (by omega) hid
  simp only [List.append_nil] at this
  simp [this]

/-- **C11 (Datadog framing).** The payload is `[` r₁ `,` … `,` rₙ `]`. -/
theorem C11_datadog_framing (c : Cfg) (k : Chunk) (h : c.mode = .datadog) :
    payload c k = 91 :: ddJoin k.records ++ [93] := by
  simp [payload, isDD, h]

/-! ### fact obligations (Tie B) -/

/-! translated function (Tie B, semantic form) -/

theorem C11_fact_can_append_found : Facts.gen_can_append_ff_found = true ∧ Facts.gen_can_append_dd_found = true := by decide

/-- `CanAppendData` of both chunk kinds, translated from the source, is the model's `canAppend` for all limits and fill levels -/
theorem C11_gen_can_append (c : Cfg) (k : Cur) (len : Nat) :
    canAppend c k len =
      (if isDD c then Facts.gen_can_append_dd c.maxRecords k.numRecords c.maxBytes k.numBytes len
       else Facts.gen_can_append_ff c.maxRecords k.numRecords c.maxBytes k.numBytes len) := by
  unfold canAppend Facts.gen_can_append_dd Facts.gen_can_append_ff
  cases hd : isDD c
  · simp only [Bool.false_eq_true, if_false, Nat.add_zero]
    by_cases h1 : c.maxRecords > 0 ∧ k.numRecords ≥ c.maxRecords
    · have : (decide ((c.maxRecords : Int) > 0) && decide ((k.numRecords : Int) ≥ (c.maxRecords : Int))) = true := by simp; omega
      simp only [h1, and_self, if_true, this]
    · have : (decide ((c.maxRecords : Int) > 0) && decide ((k.numRecords : Int) ≥ (c.maxRecords : Int))) = false := by
        simp; omega
      simp only [h1, if_false, this, Bool.false_eq_true]
      by_cases h2 : c.maxBytes > 0 ∧ k.numBytes + len > c.maxBytes
      · have : (decide ((c.maxBytes : Int) > 0) && decide ((k.numBytes : Int) + (len : Int) > (c.maxBytes : Int))) = true := by simp; omega
        simp only [h2, and_self, if_true, this]
      · have : (decide ((c.maxBytes : Int) > 0) && decide ((k.numBytes : Int) + (len : Int) > (c.maxBytes : Int))) = false := by
          simp; omega
        simp only [h2, if_false, this, Bool.false_eq_true]
  · simp only [if_true]
    by_cases h1 : c.maxRecords > 0 ∧ k.numRecords ≥ c.maxRecords
    · have : (decide ((c.maxRecords : Int) > 0) && decide ((k.numRecords : Int) ≥ (c.maxRecords : Int))) = true := by simp; omega
      simp only [h1, and_self, if_true, this]
    · have : (decide ((c.maxRecords : Int) > 0) && decide ((k.numRecords : Int) ≥ (c.maxRecords : Int))) = false := by
        simp; omega
      simp only [h1, if_false, this, Bool.false_eq_true]
      by_cases h2 : c.maxBytes > 0 ∧ k.numBytes + len + 1 > c.maxBytes
      · have : (decide ((c.maxBytes : Int) > 0) && decide ((k.numBytes : Int) + (len : Int) + 1 > (c.maxBytes : Int))) = true := by simp; omega
        simp only [h2, and_self, if_true, this]
      · have : (decide ((c.maxBytes : Int) > 0) && decide ((k.numBytes : Int) + (len : Int) + 1 > (c.maxBytes : Int))) = false := by
          simp; omega
        simp only [h2, if_false, this, Bool.false_eq_true]

theorem C11_fact_id_format : Facts.pack_id_format = ["%019d-%08d"] := by decide
theorem C11_fact_id_compare : Facts.pack_id_epoch_compare = ["nextTimestamp > generator.epochNano"] := by decide
theorem C11_fact_suffixes : Facts.pack_id_suffixes = [".ff", ".dd"] := by decide
theorem C11_fact_limits_args : Facts.pack_chunk_limit_args_in_order = some true := by decide
theorem C11_fact_dd_limits : Facts.pack_dd_limits = [1000, 5242880] := by decide
theorem C11_fact_ff_limits : Facts.pack_ff_limits = [0, 7340032] := by decide

/-! ### non-vacuity -/

def sampleCfg : Cfg := { mode := .packed, maxBytes := 10, maxRecords := 0, tag := b!"t" }
example : ((run sampleCfg {} [.write (b!"aaaa"), .write (b!"bbbb"), .flush, .write (b!"cccccccccccc"), .write (b!"d"),
    .flush]).2.map (·.records)) = [[b!"aaaa", b!"bbbb"], [b!"cccccccccccc"], [b!"d"]] := by decide
example : (IdGen.run {} [5, 5, 5, 7, 7]) = [(5, 0), (5, 1), (5, 2), (7, 0), (7, 1)] := by decide

end C11
