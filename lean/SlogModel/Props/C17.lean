import SlogModel.Lemmas.Reload
import SlogModel.Gen.Facts

/-!
  C17 — Configuration reload is safe at any moment.

  The theorems quantify over every finite sequence of actions of `Reload.step` from the initial state:
  any number of connections (client number = socket descriptor, handed out by the OS only while no open
  socket has it), registration of their sinks, records and ticks, closes (sink first, then socket),
  successful and failed reloads, in every interleaving at the granularity of the lock-protected
  sections of `reloadable.go`.

  * `C17_no_dead_delivery` : no downstream call (Accept / Tick / Close) ever reaches a sink of a
      downstream that has been shut down, and a new sink never replaces one still in place.
  * `C17_registered_never_crashes` : `Accept`, `Tick` and `Close` of a registered connection are always
      enabled (no nil dereference), whatever reloads happened in between.
  * `C17_slots_current` : at every moment every stored sink belongs to the current downstream, the slot
      of a client number is occupied exactly while its connection is registered, and shut-down
      generations are all older than the current one.
  * `C17_failed_reload_no_effect` : a failed reload changes nothing but the log.
  * `C17_reload_takes_over` : a successful reload closes every sink in place, shuts the old
      downstream down, and re-creates a sink on the new downstream for exactly the occupied slots.
  * `legacy_F15_*`, `legacy_F16_*` : the interleavings of the code before the repairs reach a
      violation (concrete runs).
  Not modelled here: what a downstream does with the records (C01 / C03: the queued chunks of the old
  pipelines are saved at Shutdown and recovered by the new ones), the content of configuration
  compatibility (facts below + the harness's real `Reloader` runs).
-/

open Reload

namespace C17

/-- **C17 (nothing is handed to a pipeline set that was shut down).** -/
theorem C17_no_dead_delivery (acts : List Act) (s : St) (h : run {} acts = some s) : s.bad = [] :=
  (run_rinv acts {} s h init_rinv).ok

/-- **C17 (slots are always current).** -/
theorem C17_slots_current (acts : List Act) (s : St) (h : run {} acts = some s) :
    (∀ p ∈ s.slots, p.2.gen = s.gen) ∧ (∀ g ∈ s.shut, g < s.gen) ∧
    (∀ n, aget s.phases n = some .registered ↔ (aget s.slots n).isSome) := by
  have hi := run_rinv acts {} s h init_rinv
  exact ⟨hi.gens, hi.cur, hi.reg⟩

/-- **C17 (a registered connection never crashes).** -/
theorem C17_registered_never_crashes (acts : List Act) (s : St) (h : run {} acts = some s) (n r : Nat)
    (hreg : aget s.phases n = some .registered) :
    (step s (.accept n r)).isSome ∧ (step s (.tick n)).isSome ∧ (step s (.closeSink n)).isSome := by
  have hi := run_rinv acts {} s h init_rinv
  have hs := (hi.reg n).mp hreg
  cases hk : aget s.slots n with
  | none => simp [hk] at hs
  | some k => simp [step, hreg, callVia, closeVia, hk]

/-- **C17 (a failed reload has no effect).** -/
theorem C17_failed_reload_no_effect (s : St) :
    step s .reloadFail = some { s with hist := s.hist ++ [.reloadFailed] } := rfl

/-- **C17 (a successful reload takes every connection over).** -/
theorem C17_reload_takes_over (s s' : St) (h : step s .reload = some s') :
    s'.gen = s.gen + 1 ∧ s'.shut = s.shut ++ [s.gen] ∧ s'.phases = s.phases ∧ s'.fds = s.fds ∧
    (∀ n, (aget s'.slots n).isSome = (aget s.slots n).isSome) ∧ (∀ p ∈ s'.slots, p.2.gen = s.gen + 1) := by
  simp only [step] at h
  cases h
  refine ⟨rfl, rfl, rfl, rfl, ?_, fun p hp => mem_renew _ _ _ p hp⟩
  intro n
  simp only [reloadStep]
  rw [aget_renew_isSome, aget_sortSlots_isSome]

/-! ### the code before the repairs: concrete bad runs -/

/-- F-15: the downstream sink is created before the lock, a reload slips in, the connection ends up
bound to a sink of the downstream that was just shut down -/
theorem legacy_F15_stale_sink :
    (runLegacy {} [.connect 5, .createSink 5, .reload, .storeSink 5, .accept 5 1]).map (·.bad) =
      some ["Accept on a sink of a downstream that was shut down"] := by decide

/-- F-16: the socket is closed before the sink; a new connection gets the same number, the old one
closes the new connection's sink, and the new connection's next record dereferences nil -/
theorem legacy_F16_slot_reuse :
    (runLegacy {} [.connect 7, .register 7, .closeSocketFirst 7, .connect 7, .register 7]).map (·.bad) =
      some ["created new sink while old sink is still in place"] ∧
    runLegacy {} [.connect 7, .register 7, .closeSocketFirst 7, .connect 7, .register 7, .closeSinkLate 7, .accept 7 1] = none := by
  decide

/-! ### non-vacuity -/

example : (run {} [.connect 3, .register 3, .accept 3 1, .reload, .accept 3 2, .connect 4, .register 4, .reloadFail,
    .closeSink 3, .closeSocket 3, .connect 3, .register 3, .reload, .tick 4]).map (fun s => (s.gen, s.slots.map (·.1), s.bad)) =
    some (2, [3, 4], []) := by decide

/-! ### fact obligations (Tie B) -/

/-- `NewSink`: read lock first, then the downstream sink, then the store -/
theorem C17_fact_newsink_order : Facts.reload_newsink_order =
    ["RLock", "orc.downstream.NewSink", "store downstreamSinks[clientNumber]"] := by decide
/-- every method of `ReloadableSink` takes the read lock before it touches the downstream pointer -/
theorem C17_fact_sink_methods_locked : Facts.reload_sink_methods = [("Accept", 1), ("Tick", 1), ("Close", 1)] := by decide
/-- `reload`: initiate before the lock; under the write lock: close sinks, shut down, complete, re-create -/
theorem C17_fact_reload_order : Facts.reload_reload_order =
    ["initiateReload", "return on error + reloadFailureCounter.Inc", "Lock", "sink.Close", "orc.downstream.Shutdown",
     "completeRenewal", "orc.downstream.NewSink", "reloadSuccessCounter.Inc"] := by decide
/-- the listener closes a connection's sink before it lets the socket be closed -/
theorem C17_fact_close_order : Facts.reload_conn_close_order = ["recvChan.Flush", "recvChan.Close", "connAborter.Signal"] := by decide
/-- what the compatibility check compares -/
theorem C17_fact_compat_checks : Facts.reload_compat_checks =
    ["schema/maxFields", "inputs", "orchestration/type", "orchestration/keys", "outputBufferPairs", "schema/fields"] := by decide
/-- the new configuration is loaded and checked before anything is torn down -/
theorem C17_fact_initiate_order : Facts.reload_initiate_order =
    ["NewLoaderFromConfigFile", "checkConfigCompatibility", "return closure"] := by decide

end C17
