import SlogModel.Lemmas.Disk
import SlogModel.Lemmas.Buffer
import SlogModel.Gen.Facts

/-!
  C04 — Spilled chunks survive I/O faults and crashes intact or not at all.

  * `C04_write_all_or_nothing` : `WriteFileAt` under any file-size / space limit either leaves the
      complete chunk under its final name and reports success, or reports failure and leaves the final
      name untouched; the temporary name is gone in both cases; no other file is touched.
  * `C04_crash_no_torn_final` : a kill at any step of `WriteFileAt`, or inside its write at any byte
      offset, leaves the final name untouched or complete.
  * `C04_no_torn_chunk_forwarded` : for every list of chunks, every position of the affected chunk,
      every fault (limit at any offset, kill at any step, kill inside the write at any offset): every
      chunk the next start loads and forwards from the directory is byte-identical to a chunk that was
      produced (or was in the directory before); a zero-length file is never forwarded.
  * `C04_saved_implies_complete` : `UnloadChunk` marks a chunk saved and releases its memory only
      when the write reported success (`Buffer.unload` + `writeFile`).
  * `C04_bad_file_isolated` : a feeder step that meets a missing, unreadable or zero-length file
      drops exactly that entry and leaves the rest of the queue as it was.
  * `C04_temp_never_matches` : the temporary name of any chunk id is rejected by both outputs' matchers.
  * `legacy_*` : the code before the repair (F-4) violates the first three (concrete witnesses).
  Out of scope: power loss (unsynced page cache); `ReadFileAt` returning fewer bytes than the file
  holds (a single `read` on a regular file is assumed to return the whole file).
-/

open Disk

namespace C04

/-- **C04 (all or nothing).** -/
theorem C04_write_all_or_nothing (fs : FS) (id : Nat) (data : Bytes) (limit : Option Nat) :
    ((writeFile fs id data limit).2 = true → fget (writeFile fs id data limit).1 (.final id) = some (.file data)) ∧
    ((writeFile fs id data limit).2 = false → fget (writeFile fs id data limit).1 (.final id) = fget fs (.final id)) ∧
    fget (writeFile fs id data limit).1 (.temp id) = none ∧
    ∀ n, n ≠ .final id → n ≠ .temp id → fget (writeFile fs id data limit).1 n = fget fs n :=
  writeFile_spec fs id data limit

/-- success is reported exactly when the data fits -/
theorem C04_write_result (fs : FS) (id : Nat) (data : Bytes) (limit : Option Nat) :
    (writeFile fs id data limit).2 = fits limit data.length := by
  unfold writeFile; simp only; split <;> simp_all

/-- **C04 (crash).** -/
theorem C04_crash_no_torn_final (fs : FS) (id : Nat) (data : Bytes) (k : Kill) :
    (fget (crashFile fs id data k) (.final id) = fget fs (.final id) ∨
     fget (crashFile fs id data k) (.final id) = some (.file data)) ∧
    ∀ n, n ≠ .final id → n ≠ .temp id → fget (crashFile fs id data k) n = fget fs n :=
  crashFile_safe fs id data k

/-- **C04 (no torn chunk is forwarded).** -/
theorem C04_no_torn_chunk_forwarded (fs0 : FS) (h0 : (Names fs0).Nodup) (chunks : List (Nat × Bytes)) (pos : Nat)
    (f : Fault) (i : Nat) (d : Bytes) (e : Nat × Option Bytes)
    (he : e ∈ scan (victim fs0 chunks pos f)) (hl : load e = .forward i d) :
    (fget fs0 (.final i) = some (.file d) ∨ (i, d) ∈ chunks) ∧ d ≠ [] := by
  obtain ⟨j, od⟩ := e
  cases od with
  | none => simp [load] at hl
  | some d' =>
    simp only [load] at hl
    split at hl
    · cases hl
    · rename_i hne
      cases hl
      refine ⟨?_, by intro e; subst e; simp at hne⟩
      have hm := mem_scan _ _ _ he
      have hg := fget_of_mem _ _ _ (victim_nodup chunks fs0 pos f h0) hm
      have hfin := victim_finals chunks [] fs0 fs0 pos f (by intro i x hx; exact Or.inl hx)
      rcases hfin i _ hg with h1 | ⟨dd, h1, h2⟩
      · exact Or.inl h1
      · simp at h1
        cases h2
        exact Or.inr h1

/-- **C04 (saved implies complete).** In the buffer model a chunk becomes `saved` with its memory
released only through a successful write of its whole data under its final name. -/
theorem C04_saved_implies_complete (s : Buffer.St) (e : Buffer.Entry) (d : Bytes)
    (he : e.saved = false) (hd : e.data = some d) (hok : (Buffer.unload s e).2.2 = true) :
    Buffer.lookup (Buffer.unload s e).1.disk e.id = some d ∧ (Buffer.unload s e).2.1.saved = true ∧
      (Buffer.unload s e).2.1.data = none := by
  unfold Buffer.unload at *
  simp only [he, hd] at hok ⊢
  simp only [Bool.false_eq_true, if_false] at hok ⊢
  split at hok
  · simp at hok
  · split at hok
    · simp at hok
    · rename_i h1 h2
      simp only [h1, h2, if_false]
      refine ⟨?_, by simp, by simp⟩
      unfold Buffer.lookup Buffer.remove
      simp only [Bool.false_eq_true, if_false]
      rw [List.find?_append]
      have : List.find? (fun p => decide (p.1 = e.id)) (List.filter (fun p => decide (p.1 ≠ e.id)) s.disk) = none := by
        apply List.find?_eq_none.mpr
        intro x hx
        simp at hx
        simp [hx.2]
      rw [this]
      simp

/-- **C04 (a bad file is isolated).** -/
theorem C04_bad_file_isolated (s s' : Buffer.St) (e : Buffer.Entry) (rest : List Buffer.Entry)
    (h : Buffer.feederStep s = some s') (hh : s.hand = none) (hq : s.inQ = e :: rest) :
    s'.inQ = rest ∧ s'.outW = s.outW ∧ s'.held = s.held ∧
      (s'.hand = none → s'.droppedG = s.droppedG ++ [e.id]) := by
  rcases C03.feederStep_cases s s' h with ⟨q, d, h1, _, _⟩ | ⟨e', rest', disk, c, _, h2, rfl⟩ | ⟨e', rest', d, c, _, h2, rfl⟩
  · rw [hh] at h1; cases h1
  · rw [hq] at h2; cases h2
    exact ⟨rfl, rfl, rfl, fun _ => rfl⟩
  · rw [hq] at h2; cases h2
    exact ⟨rfl, rfl, rfl, fun h => by simp at h⟩

/-! ### names -/

def tmpSuffix : Bytes := (b!".tmp")

def matchesSuffix (name suffix : Bytes) : Bool := suffix.isSuffixOf name

/-- **C04 (temporary names are never recovered).** -/
theorem C04_temp_never_matches (id : Bytes) :
    matchesSuffix (id ++ tmpSuffix) (b!".ff") = false ∧ matchesSuffix (id ++ tmpSuffix) (b!".dd") = false := by
  have key : ∀ (suf : Bytes) (c : Nat), c ≠ 112 → (suf ++ [c]).isSuffixOf (id ++ tmpSuffix) = false := by
    intro suf c hc
    apply Bool.eq_false_iff.mpr
    intro h
    have h' := List.isSuffixOf_iff_suffix.mp h
    obtain ⟨t, ht⟩ := h'
    have h1 : (t ++ (suf ++ [c])).getLast? = some c := by simp
    have h2 : (id ++ tmpSuffix).getLast? = some 112 := by simp [tmpSuffix]
    rw [ht] at h1
    rw [h1] at h2
    cases h2
    exact hc rfl
  exact ⟨key [46, 102] 102 (by decide), key [46, 100] 100 (by decide)⟩

/-! ### the code before the repair (F-4): witnesses -/

theorem legacy_short_write_reported_as_success :
    writeFileLegacy [] 1 [10, 20, 30] (some 2) = ([(.final 1, .file [10, 20])], true) := by decide

theorem legacy_torn_chunk_forwarded :
    load (1, some [10, 20]) = .forward 1 [10, 20] ∧ ((1 : Nat), ([10, 20] : Bytes)) ∉ [((1 : Nat), ([10, 20, 30] : Bytes))] := by decide

/-! ### non-vacuity -/

example : scan (victim [] [(1, [1, 2, 3]), (2, [4, 5]), (3, [6])] 1 (.limitKill 1)) = [(1, some [1, 2, 3])] := by decide
example : victim [] [(1, [1, 2, 3]), (2, [4, 5]), (3, [6])] 1 (.limit 1) =
    [(.final 1, .file [1, 2, 3]), (.final 3, .file [6])] := by decide

/-! ### fact obligations (Tie B) -/

/-- the system calls of `WriteFileAt`, in source order, and the use of the byte count in the write loop -/
theorem C04_fact_write_steps : Facts.disk_write_steps =
    ["Openat(tmpname)", "writeAll", "Close", "Renameat(tmpname->filename)", "Unlinkat(tmpname) on error"] := by decide
theorem C04_fact_write_loop : Facts.disk_write_loop = ["for len(data) > 0", "n, werr := unix.Write(fd, data)", "data = data[n:]"] := by decide
theorem C04_fact_temp_suffix : Facts.disk_temp_suffix = [".tmp"] := by decide
/-- the temporary name is the final name plus the suffix (`Name.temp n` in the model): writers of different chunks never share it -/
theorem C04_fact_temp_name : Facts.disk_temp_name = ["filename + TempFileSuffix"] := by decide
/-- both matchers are suffix tests on the chunk id suffixes `.ff` / `.dd` -/
theorem C04_fact_matchers : Facts.disk_matchers = ["strings.HasSuffix(chunkID, chunkIDSuffix)", "strings.HasSuffix(chunkID, chunkIDSuffix)"] ∧
    Facts.pack_id_suffixes = [".ff", ".dd"] := by decide
/-- `UnloadChunk` marks the chunk saved only after `WriteFileAt` returned nil -/
theorem C04_fact_saved_after_write : Facts.disk_unload_order = ["WriteFileAt", "return false on error", "Data = nil", "Saved = true"] := by decide
/-- zero-length chunks are treated as corrupt in `loadToOutput` -/
theorem C04_fact_zero_length : Facts.disk_zero_length_check = ["len(chunk.Data) == 0 -> OnChunkCorrupted"] := by decide

end C04
