import SlogModel.Model.Dist
import SlogModel.Gen.Facts

/-!
  C05 (from the connection handler to the pipeline channel) — `Model/Dist.lean`.

  * `C05_path_keeps_order` : under every interleaving of parsing, hand-over and flushing on any number of
      connections, what the pipeline channel of a key set has received from a connection is, in order, a
      prefix of what was parsed on that connection for that key set.
  * `C05_path_complete_when_flushed` : once the connection's buffers are empty (the listener flushes before
      it closes a sink), the channel has received all of it.
  * the timeout branch of `channelInputBuffer.Flush` (a batch discarded when the pipeline channel stays full) is the
      action `cdiscard`: the order theorem holds with it (a subsequence of what was parsed, a prefix of what was not
      discarded); prefix of everything and completeness hold when no flush timed out.
  Tied to the code by five regenerated source facts (append / whole-buffer hand-over / per-record loop /
  copy-and-send; `C05_fact_cache_flush` pins the timeout branch and that nothing else discards records).
-/

namespace C05
open Dist

/-- what was parsed on connection `c` for key set `k` and not discarded, in order, is: what the channel of `k` received
from `c`, then the connection's buffer for `k`, then what still waits in the connection's first buffer -/
structure DInv (s : St) : Prop where
  ord : ∀ c k, (s.chan k).filter (fun r => r.conn = c) ++ s.cache c k ++ (s.b1 c).filter (fun r => r.key = k) = s.kept c k
  sub : ∀ c k, (s.kept c k).Sublist ((s.hist c).filter (fun r => r.key = k))
  nod : s.discards = 0 → ∀ c k, s.kept c k = (s.hist c).filter (fun r => r.key = k)
  b1c : ∀ c, ∀ r ∈ s.b1 c, r.conn = c
  cc : ∀ c k, ∀ r ∈ s.cache c k, r.conn = c ∧ r.key = k
  chk : ∀ k, ∀ r ∈ s.chan k, r.key = k
  hc : ∀ c, ∀ r ∈ s.hist c, r.conn = c

theorem init_dinv : DInv {} := by
  refine ⟨?_, ?_, ?_, ?_, ?_, ?_, ?_⟩
  · intro c k; rfl
  · intro c k; exact List.Sublist.refl _
  · intro _ c k; rfl
  · intro c r h; simp at h
  · intro c k r h; simp at h
  · intro k r h; simp at h
  · intro c r h; simp at h

theorem upd2_same (f : Nat → Nat → List R) (i k : Nat) (v : List R) : upd2 f i k v i k = v := by simp [upd2]
theorem upd2_other (f : Nat → Nat → List R) (i k j l : Nat) (v : List R) (h : ¬ (j = i ∧ l = k)) : upd2 f i k v j l = f j l := by
  simp [upd2, h]

theorem step_dinv (s s' : St) (a : Act) (h : step s a = some s') (hi : DInv s) : DInv s' := by
  cases a with
  | accept r =>
    simp only [step] at h; cases h
    refine ⟨?_, ?_, ?_, ?_, hi.cc, hi.chk, ?_⟩
    · intro c k
      have := hi.ord c k
      dsimp only
      by_cases hc : c = r.conn
      · subst hc
        by_cases hk : k = r.key
        · subst hk
          simp only [upd, if_true, upd2_same, List.filter_append, List.filter_cons, decide_true, List.filter_nil]
          rw [← List.append_assoc, this]
        · have hk' : ¬ r.key = k := fun e => hk e.symm
          rw [upd2_other _ _ _ _ _ _ (by intro e; exact hk e.2)]
          simp only [upd, if_true, List.filter_append, List.filter_cons, hk', decide_false, List.filter_nil, Bool.false_eq_true, if_false, List.append_nil]
          exact this
      · rw [upd2_other _ _ _ _ _ _ (by intro e; exact hc e.1)]
        simp only [upd, hc, if_false]; exact this
    · intro c k
      have := hi.sub c k
      dsimp only
      by_cases hc : c = r.conn
      · subst hc
        by_cases hk : k = r.key
        · subst hk
          simp only [upd, if_true, upd2_same, List.filter_append, List.filter_cons, decide_true, List.filter_nil]
          exact List.Sublist.append this (List.Sublist.refl _)
        · have hk' : ¬ r.key = k := fun e => hk e.symm
          rw [upd2_other _ _ _ _ _ _ (by intro e; exact hk e.2)]
          simp only [upd, if_true, List.filter_append, List.filter_cons, hk', decide_false, List.filter_nil, Bool.false_eq_true, if_false, List.append_nil]
          exact this
      · rw [upd2_other _ _ _ _ _ _ (by intro e; exact hc e.1)]
        simp only [upd, hc, if_false]; exact this
    · intro hd c k
      have := hi.nod hd c k
      dsimp only
      by_cases hc : c = r.conn
      · subst hc
        by_cases hk : k = r.key
        · subst hk
          simp only [upd, if_true, upd2_same, List.filter_append, List.filter_cons, decide_true, List.filter_nil, this]
        · have hk' : ¬ r.key = k := fun e => hk e.symm
          rw [upd2_other _ _ _ _ _ _ (by intro e; exact hk e.2)]
          simp only [upd, if_true, List.filter_append, List.filter_cons, hk', decide_false, List.filter_nil, Bool.false_eq_true, if_false, List.append_nil]
          exact this
      · rw [upd2_other _ _ _ _ _ _ (by intro e; exact hc e.1)]
        simp only [upd, hc, if_false]; exact this
    · intro c x hx
      by_cases hc : c = r.conn
      · subst hc
        simp only [upd, if_true, List.mem_append, List.mem_singleton] at hx
        rcases hx with hx | rfl
        · exact hi.b1c _ x hx
        · rfl
      · simp only [upd, hc, if_false] at hx; exact hi.b1c c x hx
    · intro c x hx
      by_cases hc : c = r.conn
      · subst hc
        simp only [upd, if_true, List.mem_append, List.mem_singleton] at hx
        rcases hx with hx | rfl
        · exact hi.hc _ x hx
        · rfl
      · simp only [upd, hc, if_false] at hx; exact hi.hc c x hx
  | move c =>
    simp only [step] at h
    cases hb : s.b1 c with
    | nil => simp [hb] at h
    | cons r rest =>
      simp only [hb] at h; cases h
      have hrc : r.conn = c := hi.b1c c r (by rw [hb]; simp)
      refine ⟨?_, hi.sub, hi.nod, ?_, ?_, hi.chk, hi.hc⟩
      · intro c' k
        have := hi.ord c' k
        by_cases hc : c' = c
        · subst hc
          rw [hb] at this
          by_cases hk : k = r.key
          · subst hk
            simp only [upd, upd2, if_true, and_self]
            simp only [List.filter_cons, decide_true, if_true] at this
            rw [← this]; simp [List.append_assoc]
          · have hk' : ¬ r.key = k := fun e => hk e.symm
            simp only [upd, upd2, if_true, hk, and_false, if_false]
            simp only [List.filter_cons, hk', decide_false] at this
            exact this
        · simp only [upd, upd2, hc, false_and, if_false]; exact this
      · intro c' x hx
        by_cases hc : c' = c
        · subst hc
          simp only [upd, if_true] at hx
          exact hi.b1c _ x (by rw [hb]; exact List.mem_cons_of_mem _ hx)
        · simp only [upd, hc, if_false] at hx; exact hi.b1c c' x hx
      · intro c' k x hx
        by_cases hck : c' = c ∧ k = r.key
        · obtain ⟨rfl, rfl⟩ := hck
          simp only [upd2, and_self, if_true, List.mem_append, List.mem_singleton] at hx
          rcases hx with hx | rfl
          · exact hi.cc _ _ x hx
          · exact ⟨hrc, rfl⟩
        · simp only [upd2, hck, if_false] at hx; exact hi.cc c' k x hx
  | cflush c k =>
    simp only [step] at h; cases h
    refine ⟨?_, hi.sub, hi.nod, hi.b1c, ?_, ?_, hi.hc⟩
    · intro c' k'
      have := hi.ord c' k'
      by_cases hk : k' = k
      · subst hk
        simp only [upd, if_true, List.filter_append]
        by_cases hc : c' = c
        · subst hc
          have hall : (s.cache c' k').filter (fun r => r.conn = c') = s.cache c' k' :=
            List.filter_eq_self.mpr (fun x hx => by simp [(hi.cc c' k' x hx).1])
          simp only [upd2, and_self, if_true, hall, List.append_nil]
          rw [← this]
        · have hnone : (s.cache c k').filter (fun r => r.conn = c') = [] :=
            List.filter_eq_nil_iff.mpr (fun x hx => by
              have := (hi.cc c k' x hx).1
              simp [this]; exact fun e => hc e.symm)
          simp only [upd2, hc, false_and, if_false, hnone, List.append_nil]
          exact this
      · simp only [upd, hk, if_false]
        have : upd2 s.cache c k [] c' k' = s.cache c' k' := by
          simp only [upd2]; split
          · rename_i h'; exact absurd h'.2 hk
          · rfl
        rw [this]; exact hi.ord c' k'
    · intro c' k' x hx
      by_cases hck : c' = c ∧ k' = k
      · simp only [upd2, hck, and_self, if_true] at hx; cases hx
      · simp only [upd2, hck, if_false] at hx; exact hi.cc c' k' x hx
    · intro k' x hx
      by_cases hk : k' = k
      · subst hk
        simp only [upd, if_true, List.mem_append] at hx
        rcases hx with hx | hx
        · exact hi.chk _ x hx
        · exact (hi.cc c k' x hx).2
      · simp only [upd, hk, if_false] at hx; exact hi.chk k' x hx
  | cdiscard c k =>
    simp only [step] at h; cases h
    refine ⟨?_, ?_, ?_, hi.b1c, ?_, hi.chk, hi.hc⟩
    · intro c' k'
      dsimp only
      by_cases hck : c' = c ∧ k' = k
      · obtain ⟨rfl, rfl⟩ := hck
        simp only [upd2_same, List.append_nil]
      · rw [upd2_other _ _ _ _ _ _ hck, upd2_other _ _ _ _ _ _ hck]; exact hi.ord c' k'
    · intro c' k'
      dsimp only
      by_cases hck : c' = c ∧ k' = k
      · obtain ⟨rfl, rfl⟩ := hck
        simp only [upd2_same]
        refine List.Sublist.trans ?_ (hi.sub c' k')
        rw [← hi.ord c' k']
        exact List.Sublist.append (List.sublist_append_left _ _) (List.Sublist.refl _)
      · rw [upd2_other _ _ _ _ _ _ hck]; exact hi.sub c' k'
    · intro hd; simp at hd
    · intro c' k' x hx
      by_cases hck : c' = c ∧ k' = k
      · simp only [upd2, hck, and_self, if_true] at hx; cases hx
      · simp only [upd2, hck, if_false] at hx; exact hi.cc c' k' x hx

theorem run_dinv : ∀ (as : List Act) (s s' : St), run s as = some s' → DInv s → DInv s'
  | [], s, s', h, hi => by simp [run] at h; subst h; exact hi
  | a :: as, s, s', h, hi => by
    simp only [run] at h
    cases hs : step s a with
    | none => simp [hs] at h
    | some s1 => simp [hs] at h; exact run_dinv as s1 s' h (step_dinv s s1 a hs hi)

/-- **C05 (the path keeps the order).** Under every interleaving of parsing, hand-over, flushing and discarding (a flush
that times out on a full channel) on any number of connections: what the pipeline channel of a key set has received from a
connection is, in order, a subsequence of what was parsed on that connection for that key set — a prefix of the records
that were not discarded. -/
theorem C05_path_keeps_order (as : List Act) (s : St) (h : run {} as = some s) (c k : Nat) :
    ((s.chan k).filter (fun r => r.conn = c)).Sublist ((s.hist c).filter (fun r => r.key = k)) ∧
    (s.chan k).filter (fun r => r.conn = c) <+: s.kept c k := by
  have hi := run_dinv as {} s h init_dinv
  have hp : (s.chan k).filter (fun r => r.conn = c) <+: s.kept c k := by
    rw [← hi.ord c k, List.append_assoc]; exact List.prefix_append _ _
  exact ⟨List.Sublist.trans hp.sublist (hi.sub c k), hp⟩

/-- when no flush ever timed out it is a prefix of everything parsed -/
theorem C05_path_prefix_without_discards (as : List Act) (s : St) (h : run {} as = some s) (hd : s.discards = 0) (c k : Nat) :
    (s.chan k).filter (fun r => r.conn = c) <+: (s.hist c).filter (fun r => r.key = k) := by
  have hi := run_dinv as {} s h init_dinv
  rw [← hi.nod hd c k]
  exact (C05_path_keeps_order as s h c k).2

/-- **C05 (nothing stays behind once flushed).** -/
theorem C05_path_complete_when_flushed (as : List Act) (s : St) (h : run {} as = some s) (c k : Nat)
    (h1 : s.b1 c = []) (h2 : s.cache c k = []) (hd : s.discards = 0) :
    (s.chan k).filter (fun r => r.conn = c) = (s.hist c).filter (fun r => r.key = k) := by
  have hi := run_dinv as {} s h init_dinv
  have := hi.ord c k
  rw [h1, h2, hi.nod hd c k] at this
  simpa using this

/-- non-vacuity: two connections, two key sets, a discarded batch in the middle — the order of what arrives is kept -/
example : (run {} [.accept ⟨0, 7, 1⟩, .accept ⟨1, 7, 2⟩, .accept ⟨0, 7, 3⟩, .move 0, .cflush 0 7, .move 0, .cdiscard 0 7,
                   .accept ⟨0, 7, 4⟩, .move 0, .move 1, .cflush 1 7, .cflush 0 7]).map (fun s => ((s.chan 7).map (·.id), s.discards)) =
    some ([1, 2, 4], 1) := by decide

/-! ### fact obligations (Tie B) -/

set_option maxRecDepth 8192 in
theorem C05_fact_parse_sink_accept : Facts.dist_parse_sink_accept =
    ["record := sess.parser.Parse(lines, sess.now)", "if record == nil { return }",
     "sess.bufferedLogs = append(sess.bufferedLogs, record)", "sess.bufferedBytes += record.RawLength",
     "if sess.bufferedBytes >= defs.IntermediateBufferMaxTotalBytes || len(sess.bufferedLogs) >= defs.IntermediateBufferMaxNumLogs { sess.sendBuffer() }"] := by decide
theorem C05_fact_parse_sink_send : Facts.dist_parse_sink_send =
    ["sess.outputSink.Accept(sess.bufferedLogs)", "sess.bufferedLogs = sess.bufferedLogs[:0]", "sess.bufferedBytes = 0"] := by decide
theorem C05_fact_orch_accept : Facts.dist_orch_accept =
    ["for _, record := range buffer", "tempKeySet := keySetExtractor.Extract(record)",
     "cache := workerMap.GetOrCreate(tempKeySet, oc.onNewLinkToPipeline)",
     "if cache.Append(record) { cache.Flush(now, oc.logger, tempKeySet) }"] := by decide
theorem C05_fact_cache_append : Facts.dist_cache_append = ["cache.PendingLogs = append(cache.PendingLogs, record)"] := by decide
theorem C05_fact_cache_flush : Facts.dist_cache_flush =
    ["pendingLogs := cache.PendingLogs", "reusableLogBuffer := bsupport.CopyLogBuffer(pendingLogs)",
     "cache.PendingLogs = pendingLogs[:0]", "cache.PendingBytes = 0", "cache.LastFlushTime = now",
     "case cache.Channel <- reusableLogBuffer", "case <-time.After(defs.IntermediateChannelTimeout)"] := by decide

/-! ### non-vacuity: two connections, two key sets, interleaved -/

example : (run {} [.accept ⟨1, 7, 0⟩, .accept ⟨2, 7, 1⟩, .accept ⟨1, 8, 2⟩, .move 2, .cflush 2 7, .move 1, .accept ⟨1, 7, 3⟩,
    .move 1, .cflush 1 7, .move 1, .cflush 1 7]).map (fun s => ((s.chan 7).map (·.id), (s.cache 1 8).map (·.id))) =
    some ([1, 0, 3], [2]) := by decide

end C05
