import SlogModel.Model.FlushPolicy
import SlogModel.Gen.Facts

/-!
  C08 (flush policy) — when the listener flushes a connection's framer.

  * `C08_timeout_means_idle`, `C08_idle_ticks_after_pause` : a flush after a read timeout follows an
      idle period of at least the flush interval `m`.
  * `C08_renewal_flushes_bounded` : flushes "for deadline update" (which can cut a multi-line record
      although the sender did not pause) number at most one per flush interval of connection lifetime,
      plus one.
  * `consistent_of_renew` : the observer's check of a real `Read` accepts every behaviour of the model.
-/

namespace C08
open FlushPolicy

/-- **C08 (a read timeout means a flush pause).** A read that times out was entered at least `m`
before its deadline: nothing arrived for at least the flush interval (and at most `2·m`, unless an
older deadline was still further away). -/
theorem C08_timeout_means_idle (m D now : Int) (hm : 0 ≤ m) :
    renew m D now - now ≥ m ∧ (renew m D now = D ∨ renew m D now = now + 2 * m) := by
  unfold renew
  by_cases h : D - now < m
  · simp only [h, if_true]; exact ⟨by omega, by simp⟩
  · simp only [h, if_false]; exact ⟨by omega, by simp⟩

/-- consecutive deadlines are more than `m` apart -/
theorem renew_spaced (m D now : Int) (hm : 0 ≤ m) (h : renew m D now ≠ D) :
    renew m D now > D + m ∧ renew m D now = now + 2 * m := by
  unfold renew at *; split at h
  · rename_i hlt; simp only [hlt, if_true]; exact ⟨by omega, trivial⟩
  · exact absurd rfl h

def owed (s : St) : Nat := if s.prev = some s.D then 0 else 1

/-- after the first read: `c` renewals put the deadline at least `(c+1)·m` after the first entry time,
and it is never more than `2·m` after the last one -/
structure WInv (m fst last : Int) (s : St) : Prop where
  pos : s.changes ≥ 1
  lo : s.D ≥ fst + ((s.changes : Int) + 1) * m
  hi : s.D ≤ last + 2 * m
  ord : fst ≤ last

/-- every renewal flush, and a renewal not yet flushed for, is paid for by a deadline change -/
def LInv (s : St) : Prop := renewals s.ticks + owed s ≤ s.changes

theorem renewals_append (a b : List Tick) : renewals (a ++ b) = renewals a + renewals b := by
  simp [renewals]

theorem stepW_winv (m : Int) (hm : 0 < m) (fst last now : Int) (s : St) (hl : last ≤ now)
    (hi : WInv m fst last s) : WInv m fst now (stepW m s now) := by
  have hsp := renew_spaced m s.D now (by omega)
  obtain ⟨p0, p1, p2, p3⟩ := hi
  unfold stepW
  simp only
  by_cases hch : renew m s.D now = s.D
  · simp only [hch, if_true]
    exact ⟨p0, p1, by dsimp only; omega, by omega⟩
  · obtain ⟨q1, q2⟩ := hsp hch
    simp only [hch, if_false]
    refine ⟨by dsimp only; omega, ?_, by dsimp only; omega, by omega⟩
    dsimp only
    have : ((s.changes + 1 : Nat) : Int) + 1 = ((s.changes : Int) + 1) + 1 := by omega
    rw [this, Int.add_mul]
    omega

theorem stepW_linv (m : Int) (s : St) (now : Int) (hi : LInv s) : LInv (stepW m s now) := by
  unfold stepW LInv at *
  simp only
  by_cases hch : renew m s.D now = s.D
  · simp only [hch, if_true]
    simpa [owed] using hi
  · simp only [hch, if_false]
    simp only [owed] at hi ⊢
    split <;> (split at hi <;> omega)

theorem stepL_winv (m fst last : Int) (s : St) (e : Ev) (hi : WInv m fst last s) : WInv m fst last (stepL s e) := by
  cases e with
  | timeout now => exact ⟨hi.pos, hi.lo, hi.hi, hi.ord⟩
  | data now =>
    simp only [stepL]
    split
    · exact ⟨hi.pos, hi.lo, hi.hi, hi.ord⟩
    · split
      · exact hi
      · exact ⟨hi.pos, hi.lo, hi.hi, hi.ord⟩

theorem stepL_linv (s : St) (e : Ev) (hc : LInv s) : LInv (stepL s e) := by
  unfold LInv at *
  cases e with
  | timeout now =>
    simp only [stepL]
    simp only [renewals_append, owed] at hc ⊢
    simp [renewals] at hc ⊢; exact hc
  | data now =>
    simp only [stepL]
    split
    · rename_i hp
      simp only [owed] at hc ⊢; simp at hc ⊢; omega
    · rename_i p hp
      split
      · exact hc
      · rename_i hne
        have hp1 : owed s = 1 := by
          simp only [owed, hp]; simp; exact fun h => hne h.symm
        simp only [renewals_append, owed] at hc hp1 ⊢
        simp [renewals] at hc ⊢
        omega

theorem run_inv (m : Int) (hm : 0 < m) (fst : Int) : ∀ (es : List Ev) (last : Int) (s : St), Mono last es →
    WInv m fst last s → LInv s → WInv m fst (endTime last es) (run m s es) ∧ LInv (run m s es)
  | [], last, s, _, hw, hl => ⟨hw, hl⟩
  | e :: r, last, s, hmono, hw, hl => by
    obtain ⟨h1, h2⟩ := hmono
    have w2 := stepL_winv m fst e.now _ e (stepW_winv m hm fst last e.now s h1 hw)
    have l2 := stepL_linv _ e (stepW_linv m s e.now hl)
    exact run_inv m hm fst r e.now (step m s e) h2 w2 l2

/-- the first read of a connection (zero deadline) renews, and is never flushed "for deadline update" -/
theorem first_step (m : Int) (hm : 0 < m) (e : Ev) (h0 : 0 < e.now) :
    WInv m e.now e.now (step m {} e) ∧ LInv (step m {} e) := by
  have hr : renew m 0 e.now = e.now + 2 * m := by unfold renew; split <;> omega
  have hne : ¬ (e.now + 2 * m = 0) := by omega
  cases e with
  | timeout now =>
    simp only [Ev.now] at *
    simp only [step, stepW, stepL, Ev.now, hr, hne, if_false]
    refine ⟨⟨by simp, by simp, by simp, Int.le_refl _⟩, ?_⟩
    simp [LInv, renewals, owed]
  | data now =>
    simp only [Ev.now] at *
    simp only [step, stepW, stepL, Ev.now, hr, hne, if_false]
    refine ⟨⟨by simp, by simp, by simp, Int.le_refl _⟩, ?_⟩
    simp [LInv, renewals, owed]

/-- **C08 (flushes without a pause are rare).** On a connection whose reads are entered at
non-decreasing times, the number `f` of flushes "for deadline update" — the only flush ticks that do
not follow an idle period of at least `m` — satisfies `f·m ≤ (last − first) + m`: at most one per
flush interval of connection lifetime, plus one. -/
theorem C08_renewal_flushes_bounded (m : Int) (hm : 0 < m) (e : Ev) (r : List Ev) (h0 : 0 < e.now)
    (hmono : Mono e.now r) :
    (renewals (run m {} (e :: r)).ticks : Int) * m ≤ (endTime e.now r - e.now) + m := by
  obtain ⟨w1, l1⟩ := first_step m hm e h0
  obtain ⟨w, l⟩ := run_inv m hm e.now r e.now (step m {} e) hmono w1 l1
  have hrun : run m {} (e :: r) = run m (step m {} e) r := rfl
  rw [hrun]
  generalize run m (step m {} e) r = s at w l
  obtain ⟨p0, p1, p2, p3⟩ := w
  unfold LInv at l
  have hf : (renewals s.ticks : Int) ≤ s.changes := by omega
  have h1 : ((s.changes : Int) + 1) * m ≤ endTime e.now r - e.now + 2 * m := by omega
  have h2 : (renewals s.ticks : Int) * m ≤ (s.changes : Int) * m := Int.mul_le_mul_of_nonneg_right hf (by omega)
  rw [Int.add_mul] at h1
  omega

/-- the bound as the driver evaluates it on an observed connection (`flush bound`) -/
theorem boundOK_of_run (m : Int) (hm : 0 < m) (e : Ev) (r : List Ev) (h0 : 0 < e.now) (hmono : Mono e.now r)
    (L : Int) (hL : endTime e.now r - e.now ≤ L) :
    boundOK m L (renewals (run m {} (e :: r)).ticks) = true := by
  have := C08_renewal_flushes_bounded m hm e r h0 hmono
  simp only [boundOK, decide_eq_true_eq]
  omega

/-- every idle flush tick of a run fired at least `m` after the read was entered -/
theorem C08_idle_ticks_after_pause (m : Int) (hm : 0 ≤ m) (es : List Ev) (s : St)
    (hs : ∀ t ∈ s.ticks, ∀ a b, t = .idle a b → b - a ≥ m) :
    ∀ t ∈ (run m s es).ticks, ∀ a b, t = .idle a b → b - a ≥ m := by
  induction es generalizing s with
  | nil => exact hs
  | cons e r ih =>
    apply ih
    intro t ht a b hab
    cases e with
    | timeout now =>
      simp only [step, stepW, stepL, Ev.now, List.mem_append, List.mem_singleton] at ht
      rcases ht with ht | ht
      · exact hs t ht a b hab
      · rw [ht] at hab
        simp only [Tick.idle.injEq] at hab
        obtain ⟨rfl, rfl⟩ := hab
        exact (C08_timeout_means_idle m s.D _ hm).1
    | data now =>
      simp only [step, stepW, stepL, Ev.now] at ht
      split at ht
      · exact hs t ht a b hab
      · rename_i p _
        by_cases hpd : renew m s.D now = p
        · simp only [hpd, if_true] at ht
          exact hs t ht a b hab
        · simp only [hpd, if_false] at ht
          simp only [List.mem_append, List.mem_singleton] at ht
          rcases ht with ht | ht
          · exact hs t ht a b hab
          · rw [ht] at hab; cases hab

/-- what an observer can check of one real `Read` is sound for the model: a call entered at some
`now ∈ [t0, t1]` that behaves like `renew` is accepted by `consistent` -/
theorem consistent_of_renew (m t0 t1 Db now : Int) (h0 : t0 ≤ now) (h1 : now ≤ t1) (hm : 0 < m) :
    consistent m t0 t1 Db (renew m Db now) = true := by
  unfold consistent
  by_cases hch : renew m Db now = Db
  · simp only [hch, if_true]
    unfold renew at hch
    split at hch
    · omega
    · simp; omega
  · obtain ⟨q1, q2⟩ := renew_spaced m Db now (by omega) hch
    simp only [hch, if_false]
    rw [q2]
    simp
    refine ⟨by omega, by omega, ?_⟩
    unfold renew at hch
    split at hch
    · omega
    · exact absurd rfl hch

example : (run 10 {} [.data 1, .data 5, .data 12, .timeout 13, .data 40]).ticks =
    [.renewal 32, .idle 13 32, .renewal 60] := by decide

/-! ### translated condition (Tie B, semantic form) -/

theorem C08_fact_renew_rule_found : Facts.gen_renew_rule_found = true := by decide
/-- the renewal test translated from `NetConnWrapper.Read` is `renew`'s -/
theorem C08_gen_renew_rule (m D now : Int) :
    renew m D now = if Facts.gen_renew_rule D now m then now + 2 * m else D := by
  unfold renew Facts.gen_renew_rule
  by_cases h : D - now < m <;> simp [h]

/-! ### fact obligations (Tie B): the code has the shape `renew` / `stepL` model -/

/-- `NetConnWrapper.Read` renews when less than `readTimeoutMin` is left, to `now + readTimeoutMax` -/
theorem C08_fact_wrapper_read : Facts.flush_wrapper_read =
    ["if cw.readTimeoutMin > 0", "now := time.Now()", "if cw.readDeadline.Sub(now) < cw.readTimeoutMin",
     "nextDeadline := now.Add(cw.readTimeoutMax)", "init err := cw.conn.SetReadDeadline(nextDeadline)", "if err != nil",
     "err := cw.conn.SetReadDeadline(nextDeadline)", "return 0, err", "cw.readDeadline = nextDeadline",
     "return cw.conn.Read(p)"] := by decide
/-- the deadline is set two intervals ahead; it starts as the zero time -/
theorem C08_fact_wrapper_max : Facts.flush_wrapper_max =
    ["readTimeoutMin: readTimeout", "readTimeoutMax: readTimeout * 2", "readDeadline: time.Time{}"] := by decide
/-- the listener's reader uses the flush interval as `m` -/
theorem C08_fact_listener_reader : Facts.flush_listener_reader = ["util.WrapNetConn(conn, defs.InputFlushInterval, 0)"] := by decide
/-- the read loop is `stepL`: remember the first deadline; flush and remember when it differs; flush on a timeout -/
theorem C08_fact_listener_loop : Facts.flush_listener_loop =
    ["readErr := mlineReader.Read()", "if readErr == nil", "  if prevDeadline.Equal(emptyTime)",
     "    prevDeadline = connReader.ReadDeadline()", "  else", "    if !connReader.ReadDeadline().Equal(prevDeadline)",
     "      mlineReader.Flush()", "      recvChan.Flush()", "      prevDeadline = connReader.ReadDeadline()", "  continue",
     "if util.IsNetworkTimeout(readErr)", "  mlineReader.Flush()", "  recvChan.Flush()", "  continue"] := by decide

end C08
