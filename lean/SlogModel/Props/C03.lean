import SlogModel.Lemmas.Buffer
import SlogModel.Lemmas.BufferData
import SlogModel.Lemmas.BufferSpace
import SlogModel.Lemmas.BufferMemory
import SlogModel.Lemmas.BufferSched
import SlogModel.Lemmas.BufferLoaded
import SlogModel.Lemmas.BufferSchedData
import SlogModel.Gen.Facts

/-!
  C03 — The hybrid buffer conserves chunks in FIFO order within its bounds.

  The theorems quantify over every generation start `Buffer.recover cfg disk` (any capacities, any
  size limit, usable directory or not, any set of files with distinct names found at start) and every
  finite sequence of operations `Buffer.step` — accept with arbitrary data, consumer take / confirm /
  hand back in any order, destroy, finish — in which the environment keeps its promises (`C03.Legal`:
  chunk ids are new, nobody tampers with the queue directory).  `Buffer.step` runs the feeder to
  quiescence after every operation; the correspondence check compares the real buffer with it at
  exactly those points (counters, gauges, window, hand, directory contents).

  * `C03_conserved` : every accepted or recovered chunk is, with multiplicity one, exactly one of:
      queued / in the feeder's hand / in the output window / held by the consumer, confirmed,
      counted as dropped, or kept as a file for the next start.
  * `C03_shutdown_accounted` : after `destroy` nothing is queued any more: every chunk is held by
      the consumer, confirmed, dropped (counted) or kept.
  * `C03_fifo` : what the consumer received, followed by the window, the hand and the queue, is a
      subsequence of (recovered files in name order) ++ (acceptance order).
  * `C03_window_bound` : the output window never holds more than `memCap` chunks.
  * `C03_recovered_first` : the acceptance order starts with the recovered files, in name order.
  * `C03_delivered_unchanged` : every chunk the consumer receives is byte-for-byte a chunk that was
      accepted or recovered; `C03_files_hold_accepted_bytes` : every file named by an accepted id holds
      the accepted bytes (so what is kept for the next start is unchanged too).
  * `C03_space_bound` : the bytes of the files in the directory never exceed the
      `persistent_chunk_bytes` gauge, which never exceeds the size limit (or what was found at the
      start, when that was more); `C03_space_within_limit` : a directory that starts within the limit
      stays within it.
  * `C03_memory_bound` : at every quiescent point every queued entry is unloaded, so the loaded chunks
      inside the buffer are the window (≤ `memCap`) and at most one in the feeder's hand.
  * `C03_conserved_every_schedule`, `C03_fifo_every_schedule`, `C03_unchanged_every_schedule` : conservation, FIFO, byte identity and the window bound
      hold for every interleaving of single feeder steps with the operations, including a start at which
      chunks are accepted before the feeder has run (`Lemmas/BufferSched.lean`); the quiescing runs that
      the correspondence compares are among these schedules (`C03_quiescent_runs_are_schedules`).
  The model writes a file atomically with its quota check (one feeder, one `Accept` caller, one
  consumer at a time); the slack "plus the chunks being saved concurrently at shutdown" and the
  loaded chunks in the input channel between quiescent points are outside it (correspondence and
  harness oracle only).
-/

open Buffer

namespace C03

/-- **C03 (conservation).** -/
theorem C03_conserved (cfg : Cfg) (disk : List (Nat × Bytes)) (hd : (disk.map (·.1)).Nodup)
    (ops : List Op) (s : St) (h : run (recover cfg disk) ops = some s) (hl : Legal (recover cfg disk) ops) :
    (∀ i, ((s.accepted.map (·.1)).count i =
      (s.inQ.map (·.id)).count i + (handIds s.hand).count i + (s.outW.map (·.id)).count i + (s.held.map (·.id)).count i +
      s.confirmedG.count i + s.droppedG.count i + s.keptG.count i)) ∧ (s.accepted.map (·.1)).Nodup := by
  obtain ⟨a1, a2, _, _⟩ := recover_conserved cfg disk hd
  have hi := run_cinv ops _ s h ⟨a1, a2⟩ hl
  refine ⟨fun i => ?_, hi.nodup⟩
  have := hi.cons i
  rw [count_live] at this
  exact this

/-- **C03 (nothing is silently discarded).** After `destroy`, every accepted or recovered chunk is
held by the consumer, or confirmed, or counted as dropped, or kept as a file — exactly one of them. -/
theorem C03_shutdown_accounted (cfg : Cfg) (disk : List (Nat × Bytes)) (hd : (disk.map (·.1)).Nodup)
    (ops : List Op) (s : St) (h : run (recover cfg disk) ops = some s) (hl : Legal (recover cfg disk) ops)
    (hdes : s.destroyed = true) :
    (∀ i, (s.accepted.map (·.1)).count i =
      (s.held.map (·.id) ++ s.confirmedG ++ s.droppedG ++ s.keptG).count i) ∧
    (s.held.map (·.id) ++ s.confirmedG ++ s.droppedG ++ s.keptG).Nodup := by
  obtain ⟨a1, a2, _, a4⟩ := recover_conserved cfg disk hd
  obtain ⟨k1, k2⟩ := C03_conserved cfg disk hd ops s h hl
  obtain ⟨d1, d2, d3⟩ := run_drained ops _ s h ⟨a1, a2⟩ hl (by intro hh; rw [a4] at hh; cases hh) hdes
  have hcount : ∀ i, (s.accepted.map (·.1)).count i =
      (s.held.map (·.id) ++ s.confirmedG ++ s.droppedG ++ s.keptG).count i := by
    intro i
    have := k1 i
    rw [d1, d2, d3] at this
    simp [handIds, List.count_append] at this ⊢
    omega
  refine ⟨hcount, ?_⟩
  rw [List.nodup_iff_count]
  intro i
  rw [← hcount i]
  exact List.nodup_iff_count.mp k2 i

/-- **C03 (FIFO).** -/
theorem C03_fifo (cfg : Cfg) (disk : List (Nat × Bytes)) (ops : List Op) (s : St)
    (h : run (recover cfg disk) ops = some s) :
    (s.taken.map (·.1) ++ s.outW.map (·.id) ++ handIds s.hand ++ s.inQ.map (·.id)).Sublist (s.accepted.map (·.1)) :=
  run_fifo ops _ s h (recover_fifo cfg disk)

/-- in particular the consumer receives chunks in acceptance order -/
theorem C03_taken_in_order (cfg : Cfg) (disk : List (Nat × Bytes)) (ops : List Op) (s : St)
    (h : run (recover cfg disk) ops = some s) : (s.taken.map (·.1)).Sublist (s.accepted.map (·.1)) := by
  refine List.Sublist.trans ?_ (C03_fifo cfg disk ops s h)
  rw [List.append_assoc, List.append_assoc]
  exact List.sublist_append_left _ _

/-- **C03 (byte-for-byte unchanged).** -/
theorem C03_delivered_unchanged (cfg : Cfg) (disk : List (Nat × Bytes)) (hd : (disk.map (·.1)).Nodup)
    (ops : List Op) (s : St) (h : run (recover cfg disk) ops = some s) (hl : Legal (recover cfg disk) ops) :
    ∀ p ∈ s.taken, p ∈ s.accepted := by
  obtain ⟨a1, a2, _, _⟩ := recover_conserved cfg disk hd
  exact (run_dinv ops _ s h ⟨a1, a2⟩ hl (recover_dinv cfg disk hd)).tk

theorem C03_files_hold_accepted_bytes (cfg : Cfg) (disk : List (Nat × Bytes)) (hd : (disk.map (·.1)).Nodup)
    (ops : List Op) (s : St) (h : run (recover cfg disk) ops = some s) (hl : Legal (recover cfg disk) ops) :
    ∀ p ∈ s.disk, p.1 ∈ s.accepted.map (·.1) → p ∈ s.accepted := by
  obtain ⟨a1, a2, _, _⟩ := recover_conserved cfg disk hd
  exact (run_dinv ops _ s h ⟨a1, a2⟩ hl (recover_dinv cfg disk hd)).disk

/-- **C03 (window bound).** -/
theorem C03_window_bound (cfg : Cfg) (disk : List (Nat × Bytes)) (ops : List Op) (s : St)
    (h : run (recover cfg disk) ops = some s) : s.outW.length ≤ s.cfg.memCap :=
  run_win ops _ s h (recover_win cfg disk)

/-- **C03 (space bound).** With a usable directory, under every legal history: the files of the
queue directory hold at most `persistent_chunk_bytes` bytes, and that gauge never exceeds the
configured limit — or the bytes found at the start of the generation, when those were more. -/
theorem C03_space_bound (cfg : Cfg) (disk : List (Nat × Bytes)) (hd : (disk.map (·.1)).Nodup) (hdir : cfg.hasDir = true)
    (ops : List Op) (s : St) (h : run (recover cfg disk) ops = some s) (hl : Legal (recover cfg disk) ops) :
    (diskBytes s.disk : Int) ≤ s.c.gBytes ∧ s.c.gBytes ≤ max (cfg.maxBytes : Int) (diskBytes disk) := by
  obtain ⟨a1, a2, _, _⟩ := recover_conserved cfg disk hd
  have := run_sp _ ops _ s h ⟨a1, a2⟩ hl (recover_dinv cfg disk hd) (recover_sp cfg disk hdir)
  exact ⟨this.sb, this.qb⟩

/-- a directory that starts within the limit stays within it -/
theorem C03_space_within_limit (cfg : Cfg) (disk : List (Nat × Bytes)) (hd : (disk.map (·.1)).Nodup) (hdir : cfg.hasDir = true)
    (h0 : diskBytes disk ≤ cfg.maxBytes)
    (ops : List Op) (s : St) (h : run (recover cfg disk) ops = some s) (hl : Legal (recover cfg disk) ops) :
    diskBytes s.disk ≤ cfg.maxBytes := by
  obtain ⟨a, b⟩ := C03_space_bound cfg disk hd hdir ops s h hl
  omega

/-- **C03 (memory bound at quiescent points).** Every queued entry is unloaded; the feeder holds a
loaded chunk in hand only while the window is full; the window holds at most `memCap` chunks. -/
theorem C03_memory_bound (cfg : Cfg) (disk : List (Nat × Bytes)) (ops : List Op) (s : St)
    (h : run (recover cfg disk) ops = some s) :
    (∀ e ∈ s.inQ, e.data = none) ∧ (s.hand ≠ none → s.outW.length = s.cfg.memCap) ∧ s.outW.length ≤ s.cfg.memCap := by
  have hm := run_minv ops _ s h (recover_minv cfg disk)
  have hw := C03_window_bound cfg disk ops s h
  exact ⟨hm.unl, fun hn => by have := hm.quiet.2 hn; omega, hw⟩

/-! ### every schedule of the feeder goroutine (not only quiescent points) -/

/-- **C03 (conservation, every schedule).** With the feeder's steps interleaved arbitrarily with the
operations — from the very start, before the feeder has moved a single recovered chunk — every accepted
or recovered chunk is exactly one of queued / in hand / in the window / held / confirmed / dropped / kept. -/
theorem C03_conserved_every_schedule (cfg : Cfg) (disk : List (Nat × Bytes)) (hd : (disk.map (·.1)).Nodup)
    (as : List IAct) (s : St) (h : runI (recoverRaw cfg disk) as = some s) (hl : LegalI (recoverRaw cfg disk) as) :
    (∀ i, ((s.accepted.map (·.1)).count i =
      (s.inQ.map (·.id)).count i + (handIds s.hand).count i + (s.outW.map (·.id)).count i + (s.held.map (·.id)).count i +
      s.confirmedG.count i + s.droppedG.count i + s.keptG.count i)) ∧ (s.accepted.map (·.1)).Nodup := by
  have hi := runI_cinv as _ s h (recoverRaw_cinv cfg disk hd) hl
  refine ⟨fun i => ?_, hi.nodup⟩
  have := hi.cons i
  rw [count_live] at this
  exact this

/-- **C03 (FIFO and window bound, every schedule).** -/
theorem C03_fifo_every_schedule (cfg : Cfg) (disk : List (Nat × Bytes)) (as : List IAct) (s : St)
    (h : runI (recoverRaw cfg disk) as = some s) :
    (s.taken.map (·.1) ++ s.outW.map (·.id) ++ handIds s.hand ++ s.inQ.map (·.id)).Sublist (s.accepted.map (·.1)) ∧
    s.outW.length ≤ s.cfg.memCap := by
  obtain ⟨a, b⟩ := recoverRaw_fifo_win cfg disk
  exact runI_fifo_win as _ s h a b

/-- chunks whose bytes are in memory: loaded entries of the input channel, the chunk in the feeder's hand, the window -/
def loaded (s : St) : Nat :=
  (s.inQ.filter (fun e => e.data.isSome)).length + (if s.hand.isSome then 1 else 0) + s.outW.length

/-- **C03 (only a fixed number of chunks stay in memory, every schedule).** At every point of every interleaving of the
feeder's steps with the operations — not only at quiescent points — at most `queueCap + 1 + memCap` chunks are loaded: the
input channel never exceeds its capacity, the feeder holds at most one chunk, the window at most `memCap`.  (At quiescent
points the queued entries are all unloaded: `C03_memory_bound`.) -/
theorem C03_loaded_bound_every_schedule (cfg : Cfg) (disk : List (Nat × Bytes)) (as : List IAct) (s : St)
    (h : runI (recoverRaw cfg disk) as = some s) : loaded s ≤ s.cfg.queueCap + 1 + s.cfg.memCap := by
  have hq : s.inQ.length ≤ s.cfg.queueCap := runI_qb as _ s h (recoverRaw_qb cfg disk)
  have hw := (C03_fifo_every_schedule cfg disk as s h).2
  have hf : (s.inQ.filter (fun e => e.data.isSome)).length ≤ s.inQ.length := List.length_filter_le _ _
  unfold loaded
  split <;> omega

/-- non-vacuity: three accepts before the feeder has taken a step — three loaded chunks with a window of two -/
example : (runI { cfg := { memCap := 2, queueCap := 5, maxBytes := 100, hasDir := true } }
    [.op (.accept 1 [1]), .op (.accept 2 [2]), .op (.accept 3 [3])]).map loaded = some 3 := by decide

/-- **C03 (byte-for-byte unchanged, every schedule).** -/
theorem C03_unchanged_every_schedule (cfg : Cfg) (disk : List (Nat × Bytes)) (hd : (disk.map (·.1)).Nodup)
    (as : List IAct) (s : St) (h : runI (recoverRaw cfg disk) as = some s) (hl : LegalI (recoverRaw cfg disk) as) :
    (∀ p ∈ s.taken, p ∈ s.accepted) ∧ (∀ p ∈ s.disk, p.1 ∈ s.accepted.map (·.1) → p ∈ s.accepted) := by
  have hd' := runI_dinv as _ s h (recoverRaw_cinv cfg disk hd) hl (recoverRaw_dinv cfg disk hd)
  exact ⟨hd'.tk, hd'.disk⟩

/-- the runs compared with the real buffer at quiescent points are among these schedules -/
theorem C03_quiescent_runs_are_schedules (cfg : Cfg) (disk : List (Nat × Bytes)) (ops : List Op) (s : St)
    (h : run (recover cfg disk) ops = some s) : ∃ as, runI (recoverRaw cfg disk) as = some s := by
  obtain ⟨as, has⟩ := run_is_schedule ops _ s h
  obtain ⟨k, hk⟩ := settle_feeds (2 * (recoverRaw cfg disk).inQ.length + 2) (recoverRaw cfg disk)
  refine ⟨List.replicate k IAct.feed ++ as, ?_⟩
  rw [runI_append, hk]
  exact has

/-- **C03 (recovered first).** The acceptance order of a generation starts with recovered files — a
subsequence, in name order, of the files found — before anything accepted later. -/
theorem C03_recovered_first (cfg : Cfg) (disk : List (Nat × Bytes)) :
    ((recover cfg disk).accepted.map (·.1)).Sublist ((scanned cfg disk).map (·.1)) ∧
    ((scanned cfg disk).map (·.1)).Pairwise (· ≤ ·) := by
  constructor
  · obtain ⟨_, _, _, _, _, _, _, _, _, extra, a10, a11⟩ :=
      recFold_inv cfg (scanned cfg disk) (start cfg disk) rfl rfl rfl rfl rfl rfl (by simp [accIds, start])
    obtain ⟨_, b2, _, _⟩ := quiesce_conserved ((scanned cfg disk).foldl (recStep cfg) (start cfg disk)) (by
      obtain ⟨a1, a2, a3, a4, a5, a6, a7, _⟩ :=
        recFold_inv cfg (scanned cfg disk) (start cfg disk) rfl rfl rfl rfl rfl rfl (by simp [accIds, start])
      intro i
      rw [count_live, a1, a2, a3, a4, a5, a6, a7]
      simp [handIds])
    unfold recover
    rw [b2]
    have hs : accIds (start cfg disk) = [] := rfl
    rw [hs, List.nil_append] at a10
    unfold accIds at a10
    rw [a10]
    exact a11
  · unfold scanned
    split
    · have := List.pairwise_mergeSort (le := fun (a b : Nat × Bytes) => decide (a.1 ≤ b.1))
        (fun a b c h1 h2 => by simp at *; omega) (fun a b => by simp; omega) disk
      exact List.pairwise_map.mpr (this.imp (by intro a b h; simpa using h))
    · simp

/-! ### non-vacuity: a concrete legal run with a spill, a window overflow, a drop, a hand-back and a restart -/

def demoOps : List Op :=
  [.accept 1 [1, 2], .accept 2 [3], .accept 3 [4], .accept 4 [5, 6], .accept 5 [7], .take, .confirm 1, .take,
   .destroy, .handBack 2, .finish]

def demoCfg : Cfg := { memCap := 2, queueCap := 1, maxBytes := 3, hasDir := true }

example : (run { cfg := demoCfg } demoOps).map (fun s => (s.confirmedG, s.droppedG, s.keptG, s.disk.map (·.1), s.c.gBytes)) =
    some ([1], [4], [3, 5, 2], [2, 3, 5], 3) := by decide

/-- a schedule that is not a quiescing run: two accepts before the feeder moves anything (both stay loaded in the queue) -/
example : ((runI { cfg := { memCap := 2, queueCap := 5, maxBytes := 100, hasDir := true } }
    [.op (.accept 1 [1]), .op (.accept 2 [2]), .feed, .feed, .op .take]).map
    (fun s => (s.taken.map (·.1), s.inQ.map (·.id)))) = some ([1], [2]) := by decide

/-- the demo run ends with 3 bytes of files, exactly the limit: the bound is tight -/
example : (run { cfg := demoCfg } demoOps).map (fun s => diskBytes s.disk) = some 3 := by decide

/-! ### translated conditions (Tie B, semantic form) -/

theorem C03_fact_rules_found : Facts.gen_quota_rule_found = true ∧ Facts.gen_spill_rule_found = true := by decide
/-- the quota test translated from `UnloadChunk` decides `Buffer.unload`: an unsaved loaded chunk is written iff the test is false -/
theorem C03_gen_quota_rule (s : St) (e : Entry) (d : Bytes) (hs : e.saved = false) (hd : e.data = some d) (hdir : s.cfg.hasDir = true) :
    (unload s e).2.2 = !Facts.gen_quota_rule s.c.gBytes d.length s.cfg.maxBytes := by
  unfold unload Facts.gen_quota_rule
  simp only [hs, hd, hdir, Bool.false_eq_true, if_false, Bool.not_true]
  by_cases h : s.c.gBytes + (d.length : Int) > (s.cfg.maxBytes : Int) <;> simp [h]
/-- the spill test translated from `Accept` is the model's (`outW.length ≥ memCap / 2`) -/
theorem C03_gen_spill_rule (w cap : Nat) : Facts.gen_spill_rule w cap = decide (w ≥ cap / 2) := by
  unfold Facts.gen_spill_rule
  have : ((2 : Int)) = ((2 : Nat) : Int) := rfl
  rw [this, Int.tdiv_natCast]
  generalize cap / 2 = q
  simp

/-! ### fact obligations (Tie B) -/

/-- `Accept` never waits: its only channel operation is a `select` with a `default` branch that counts the drop -/
theorem C03_fact_accept_nonblocking : Facts.buffer_accept_select = ["case buf.inputChannel <- chunk", "default: OnChunkDropped"] := by decide
/-- the spill rule `NumOutput() >= defs.BufferMaxNumChunksInMemory/2` -/
theorem C03_fact_spill_rule : Facts.buffer_spill_condition = ["buf.feeder.NumOutput() >= defs.BufferMaxNumChunksInMemory/2"] := by decide
/-- recovery runs before the feeder starts -/
theorem C03_fact_start_order : Facts.buffer_start_calls = ["buf.recoverExistingChunks()", "go buf.feeder.Run()"] := by decide
/-- channel capacities are the two `defs` parameters -/
theorem C03_fact_channel_caps : Facts.buffer_channel_caps = ["defs.BufferMaxNumChunksInQueue", "defs.BufferMaxNumChunksInMemory"] := by decide
/-- quota test before the write in `UnloadChunk` -/
theorem C03_fact_quota_check : Facts.buffer_quota_condition = ["op.metrics.persistentChunkBytes.Get()+int64(len(chunkRef.Data)) > op.maxTotalBytes"] := by decide
/-- a hand-back that cannot be saved is dropped (repaired F-3): `OnChunkLeftover` uses `UnloadOrDropChunk` -/
theorem C03_fact_leftover_checked : Facts.buffer_leftover_calls = ["man.UnloadOrDropChunk"] := by decide
/-- shutdown saves the queue, the chunk in hand, then the window -/
theorem C03_fact_save_order : Facts.buffer_save_everything = ["range feeder.inputChannel", "lastInputChunk", "range feeder.outputChannel"] := by decide

end C03
