import SlogModel.Model.Xform
import SlogModel.Lemmas.Utf8
import SlogModel.Gen.Facts

/-!
  C15 — Transforms and matchers behave as documented for all values.

  The Lean interpreter `Xform.runSteps` *is* the independent reference interpreter the property
  names; the correspondence run compares the real transforms with it on generated programs.  The
  theorems below pin the documented semantics of the language on the interpreter itself:

  * `C15_sampler_tracks`   : sampled dropping stays within one record of the configured rate at
                             every prefix of the matched stream
  * `C15_first_drop_wins`, `C15_block_inline`, `C15_if_*`, `C15_switch_*` : control structure laws
  * `C15_match_order_irrelevant` : cost sorting of match conditions cannot change the result
  * `C15_slice_spec`       : `${name[a:b]}` is the Python slice
  * `C15_truncate_*`, `C15_mapvalue_*`, `C15_delfields`, `C15_unescape_once`
  * `C15_extract_head_decompose` : text = left ++ tag ++ right ++ rest, label = trimmed tag,
                             boundary found within the search range
  * `C15_extract_total`    : extraction never panics for extractors accepted at load time
-/

namespace C15
open Xform

/-! ### sampler -/

def sampleRun (rate : Nat) : Nat → Nat × Nat
  | 0 => (0, 0)
  | n + 1 => (sampleDrop rate (sampleRun rate n)).2

/-- **C15 (sampling tracks the percentage).** After any number `n` of matched records the number of
dropped ones `d` satisfies `rate·n − rate ≤ 100·d ≤ rate·n + 100`: within one record of `rate %`. -/
theorem C15_sampler_tracks (rate : Nat) (h1 : 1 ≤ rate) (h2 : rate ≤ 100) (n : Nat) :
    (sampleRun rate n).1 = n ∧
    100 * (sampleRun rate n).2 ≤ rate * n + 100 ∧ rate * n ≤ 100 * (sampleRun rate n).2 + rate := by
  induction n with
  | zero => simp [sampleRun]
  | succ n ih =>
    obtain ⟨hm, hu, hl⟩ := ih
    simp only [sampleRun, sampleDrop]
    generalize sampleRun rate n = md at hm hu hl
    obtain ⟨m, d⟩ := md
    simp only at hm hu hl
    subst hm
    by_cases hc : m > 0 ∧ 100 * d / m < rate
    · obtain ⟨hpos, hlt⟩ := hc
      have hlt' : 100 * d < rate * m := by
        have := (Nat.div_lt_iff_lt_mul hpos).mp hlt
        simpa [Nat.mul_comm] using this
      simp only [hpos, hlt, and_self, if_true]
      refine ⟨trivial, ?_, ?_⟩
      · rw [Nat.mul_add, Nat.mul_add]; omega
      · rw [Nat.mul_add, Nat.mul_add]; omega
    · simp only [hc, if_false]
      refine ⟨trivial, ?_, ?_⟩
      · rw [Nat.mul_add]; omega
      · by_cases hpos : m > 0
        · have hge : ¬ (100 * d / m < rate) := fun h => hc ⟨hpos, h⟩
          have : rate * m ≤ 100 * d := by
            have := Nat.le_of_not_lt hge
            have := (Nat.le_div_iff_mul_le hpos).mp this
            simpa [Nat.mul_comm] using this
          rw [Nat.mul_add]; omega
        · have : m = 0 := by omega
          subst this; simp

/-! ### control structures -/

theorem runSteps_append (st : XState) (r : Rec) (a b : List Step) :
    runSteps st r (a ++ b) =
      (match runSteps st r a with
       | .ok (.pass, r1, st1) => runSteps st1 r1 b
       | other => other) := by
  induction a generalizing st r with
  | nil => simp [runSteps]
  | cons s rest ih =>
    simp only [List.cons_append, runSteps, bind, Except.bind]
    cases h : runStep st r s with
    | error e => simp
    | ok v =>
      obtain ⟨res, r1, st1⟩ := v
      cases res with
      | drop => simp [pure, Except.pure]
      | pass => simp [ih]

/-- **C15 (first drop wins).** Once a step drops the record, no later step runs. -/
theorem C15_first_drop_wins (st : XState) (r r1 : Rec) (st1 : XState) (a b : List Step)
    (h : runSteps st r a = .ok (.drop, r1, st1)) : runSteps st r (a ++ b) = .ok (.drop, r1, st1) := by
  rw [runSteps_append, h]

/-- **C15 (block).** A block behaves as its steps written in line. -/
theorem C15_block_inline (st : XState) (r : Rec) (steps : List Step) :
    runStep st r (.block steps) = runSteps st r steps := by
  simp [runStep]

theorem C15_if_true (st : XState) (r : Rec) (m : Xform.Match) (thn : List Step) (h : matchRec m r = true) :
    runStep st r (.iff m thn) = runSteps st r thn := by
  simp [runStep, h]

theorem C15_if_false (st : XState) (r : Rec) (m : Xform.Match) (thn : List Step) (h : matchRec m r = false) :
    runStep st r (.iff m thn) = .ok (.pass, r, st) := by
  simp [runStep, h]

/-- **C15 (switch).** The first case whose condition matches decides; later cases are not consulted. -/
theorem C15_switch_first_match (st : XState) (r : Rec) (pre : List (Xform.Match × List Step))
    (m : Xform.Match) (thn : List Step) (post : List (Xform.Match × List Step))
    (hpre : ∀ c ∈ pre, matchRec c.1 r = false) (hm : matchRec m r = true) :
    runStep st r (.switch (pre ++ (m, thn) :: post)) = runSteps st r thn := by
  simp only [runStep]
  induction pre with
  | nil => simp [runCases, hm]
  | cons c cs ih =>
    obtain ⟨cm, ct⟩ := c
    have := hpre (cm, ct) (by simp)
    simp only at this
    simp only [List.cons_append, runCases, this]
    exact ih (fun c hc => hpre c (by simp [hc]))

theorem C15_switch_no_match (st : XState) (r : Rec) (cases : List (Xform.Match × List Step))
    (h : ∀ c ∈ cases, matchRec c.1 r = false) : runStep st r (.switch cases) = .ok (.pass, r, st) := by
  simp only [runStep]
  induction cases with
  | nil => simp [runCases]
  | cons c cs ih =>
    obtain ⟨cm, ct⟩ := c
    have := h (cm, ct) (by simp)
    simp only at this
    simp only [runCases, this]
    exact ih (fun c hc => h c (by simp [hc]))

/-- **C15 (match order irrelevant).** Conditions are sorted by cost before evaluation; any
reordering gives the same result. -/
theorem C15_match_order_irrelevant (m₁ m₂ : Xform.Match) (r : Rec) (h : m₁.Perm m₂) :
    matchRec m₁ r = matchRec m₂ r := by
  unfold matchRec
  induction h with
  | nil => rfl
  | cons x _ ih => simp [List.all_cons, ih]
  | swap x y l => simp [List.all_cons, Bool.and_left_comm]
  | trans _ _ ih1 ih2 => rw [ih1, ih2]

/-! ### templates: substring expressions -/

/-- Python's `v[a:b]` -/
def pySlice (v : Bytes) (a b : Option Int) : Bytes :=
  let n : Int := v.length
  let norm (x : Int) : Int := if x < 0 then (if x + n < 0 then 0 else x + n) else (if x > n then n else x)
  let s := norm (a.getD 0)
  let e := match b with | some y => norm y | none => n
  if s < e then (v.drop s.toNat).take (e - s).toNat else []

/-- **C15 (substring expressions).** `${name[a:b]}` yields Python's `name[a:b]` for every value
shorter than 2³¹ bytes and all bounds, including negative and out-of-range ones. -/
theorem C15_slice_spec (v : Bytes) (a b : Option Int) (hv : v.length < 2147483647) :
    Route.sliceStr v a b = pySlice v a b := by
  unfold Route.sliceStr pySlice
  simp only []
  cases a <;> cases b <;> simp only [Option.getD] <;> (repeat' split) <;> first | rfl | omega | (congr 1 <;> omega) | skip
  all_goals first | (simp; omega) | skip

/-! ### truncate, mapValue, delFields, unescape -/

theorem toValidAux_length (fuel : Nat) (s : Bytes) : (Utf8.toValidAux fuel s).length ≤ s.length := by
  induction fuel generalizing s with
  | zero => simp [Utf8.toValidAux]
  | succ n ih =>
    cases s with
    | nil => simp [Utf8.toValidAux]
    | cons b rest =>
      simp only [Utf8.toValidAux]
      split
      · have := ih rest; simp; omega
      · have := ih ((b :: rest).drop (Utf8.runeWidth (b :: rest)))
        simp only [List.length_append, List.length_take, List.length_drop] at this ⊢
        omega

theorem clean_length (s : Bytes) : (Utf8.clean s).length ≤ s.length := by
  unfold Utf8.clean
  simp only [Utf8.toValidTR_eq, Utf8.toValid, List.length_append, List.length_take]
  have := toValidAux_length (s.drop (Utf8.lastAsciiEnd s)).length (s.drop (Utf8.lastAsciiEnd s))
  simp only [List.length_drop] at this ⊢
  omega

/-- **C15 (truncate).** Values within `maxLen + len(suffix)` are untouched; longer ones become a
clean-up of their first `maxLen` bytes followed by the suffix, never longer than `maxLen + len(suffix)`. -/
theorem C15_truncate_spec (v : Bytes) (maxLen : Nat) (suffix : Bytes) :
    (v.length ≤ maxLen + suffix.length → truncateVal v maxLen suffix = v) ∧
    (v.length > maxLen + suffix.length →
      truncateVal v maxLen suffix = Utf8.clean (v.take maxLen) ++ suffix ∧
      (truncateVal v maxLen suffix).length ≤ maxLen + suffix.length) := by
  unfold truncateVal
  refine ⟨fun h => by simp [Nat.not_lt.mpr h], fun h => ?_⟩
  simp only [h, if_true, List.length_append, true_and]
  have := clean_length (v.take maxLen)
  simp only [List.length_take] at this
  omega

/-- pure-ASCII values are cut exactly at `maxLen` -/
theorem lastAsciiEnd_go_ascii (s : Bytes) (i best : Nat) (h : ∀ b ∈ s, b ≤ 127) :
    Utf8.lastAsciiEnd.go s i best = if s = [] then best else i + s.length := by
  induction s generalizing i best with
  | nil => simp [Utf8.lastAsciiEnd.go]
  | cons b r ih =>
    have hb : b ≤ 127 := h b (by simp)
    simp only [Utf8.lastAsciiEnd.go, hb, if_true]
    rw [ih _ _ (fun x hx => h x (by simp [hx]))]
    cases r <;> simp; omega

theorem C15_truncate_ascii (v : Bytes) (maxLen : Nat) (suffix : Bytes) (h : ∀ b ∈ v, b ≤ 127)
    (hl : v.length > maxLen + suffix.length) : truncateVal v maxLen suffix = v.take maxLen ++ suffix := by
  have hc : Utf8.clean (v.take maxLen) = v.take maxLen := by
    unfold Utf8.clean Utf8.lastAsciiEnd
    rw [lastAsciiEnd_go_ascii _ _ _ (fun b hb => h b (List.mem_of_mem_take hb))]
    by_cases he : v.take maxLen = []
    · simp [he, Utf8.toValidTR_eq, Utf8.toValid, Utf8.toValidAux]
    · simp [he, Utf8.toValidTR_eq, Utf8.toValid, Utf8.toValidAux]
      rw [List.take_take]; congr 1; omega
  simp [truncateVal, hl, hc]

/-- **C15 (truncate cuts at a valid UTF-8 boundary).** A valid UTF-8 value longer than the limit
becomes a valid prefix of itself, at most three bytes (one cut rune) short of `maxLen`, then the suffix. -/
theorem C15_truncate_utf8 (v : Bytes) (maxLen : Nat) (suffix : Bytes) (hv : Utf8.valid v = true)
    (hl : v.length > maxLen + suffix.length) :
    ∃ k, truncateVal v maxLen suffix = v.take k ++ suffix ∧ Utf8.valid (v.take k) = true ∧
      k ≤ maxLen ∧ maxLen ≤ k + 3 := by
  obtain ⟨k, a, b, c, d⟩ := Utf8.clean_take_valid v hv maxLen
  exact ⟨k, by simp [truncateVal, hl, a], b, c, d (by omega)⟩

theorem C15_mapvalue_spec (st : XState) (r : Rec) (key : Nat) (mapping : List (Bytes × Bytes)) (dflt : Bytes) :
    runStep st r (.mapValue key mapping dflt) =
      .ok (.pass, (if r.get key = [] then r else
            r.set key (match mapping.lookup (r.get key) with | some v => v | none => dflt)), st) := by
  simp only [runStep]
  split
  · rfl
  · cases mapping.lookup (r.get key) <;> rfl

theorem Rec.get_set (r : Rec) (i : Nat) (v : Bytes) (h : i < r.fields.length) : (r.set i v).get i = v := by
  simp [Rec.get, Rec.set, h]

theorem Rec.get_set_ne (r : Rec) (i j : Nat) (v : Bytes) (h : i ≠ j) : (r.set i v).get j = r.get j := by
  simp [Rec.get, Rec.set, List.getD_eq_getElem?_getD, List.getElem?_set_ne h]

/-- **C15 (delFields).** The listed fields become empty, all others keep their value. -/
theorem C15_delfields (st : XState) (r : Rec) (keys : List Nat) (hk : ∀ k ∈ keys, k < r.fields.length) :
    ∃ r', runStep st r (.delFields keys) = .ok (.pass, r', st) ∧
      (∀ k ∈ keys, r'.get k = []) ∧ (∀ j, j ∉ keys → r'.get j = r.get j) ∧
      r'.fields.length = r.fields.length := by
  refine ⟨_, rfl, ?_⟩
  induction keys generalizing r with
  | nil => simp
  | cons k ks ih =>
    have hlen : (r.set k []).fields.length = r.fields.length := by simp [Rec.set]
    obtain ⟨h1, h2, h3⟩ := ih (r.set k []) (fun x hx => by rw [hlen]; exact hk x (by simp [hx]))
    simp only [List.foldl_cons]
    refine ⟨?_, ?_, by rw [h3, hlen]⟩
    · intro x hx
      simp at hx
      rcases hx with rfl | hx
      · by_cases hin : x ∈ ks
        · exact h1 x hin
        · rw [h2 x hin]; exact Rec.get_set r x [] (hk x (by simp))
      · exact h1 x hx
    · intro j hj
      simp at hj
      rw [h2 j hj.2, Rec.get_set_ne _ _ _ _ (fun e => hj.1 e.symm)]

/-- **C15 (unescape once).** Unescaping marks the record; a record already marked (multi-line
input, or unescaped before) is not unescaped again. -/
theorem C15_unescape_once (st : XState) (r : Rec) (key : Nat) :
    (r.unescaped = true → runStep st r (.unescape key) = .ok (.pass, r, st)) ∧
    (r.unescaped = false → ∃ r', runStep st r (.unescape key) = .ok (.pass, r', st) ∧ r'.unescaped = true ∧
      runStep st r' (.unescape key) = .ok (.pass, r', st)) := by
  refine ⟨fun h => by simp [runStep, h], fun h => ?_⟩
  simp only [runStep, h, Bool.false_eq_true, if_false]
  refine ⟨_, rfl, ?_, ?_⟩
  · split <;> rfl
  · have hu : (if ({ r with unescaped := true } : Rec).get key = [] then ({ r with unescaped := true } : Rec)
        else ({ r with unescaped := true } : Rec).set key (Ser.unescape (({ r with unescaped := true } : Rec).get key))).unescaped = true := by
      split <;> rfl
    simp [hu]

/-! ### head extraction -/

theorem hasPrefix_iff (s p : Bytes) : hasPrefix s p = true ↔ ∃ t, s = p ++ t := by
  unfold hasPrefix
  constructor
  · intro h
    simp at h
    refine ⟨s.drop p.length, ?_⟩
    have := List.take_append_drop p.length s
    rw [h.2] at this
    exact this.symm
  · rintro ⟨t, rfl⟩; simp

/-- `strings.Index` finds an occurrence -/
theorem indexOf_some (s sub : Bytes) (i : Nat) (h : indexOf s sub = some i) :
    s = s.take i ++ sub ++ s.drop (i + sub.length) := by
  induction s generalizing i with
  | nil =>
    simp only [indexOf] at h
    split at h
    · rename_i hs; subst hs; simp at h; subst h; simp
    · cases h
  | cons c r ih =>
    simp only [indexOf] at h
    split at h
    · rename_i hp
      simp at h; subst h
      obtain ⟨t, ht⟩ := (hasPrefix_iff _ _).mp hp
      rw [ht]; simp
    · cases hi : indexOf r sub with
      | none => simp [hi] at h
      | some j =>
        simp [hi] at h
        subst h
        have := ih j hi
        simp only [List.take_succ_cons, List.cons_append]
        rw [show j + 1 + sub.length = (j + sub.length) + 1 by omega, List.drop_succ_cons]
        exact congrArg (c :: ·) this


theorem stripLeft_some (e : Extractor) (text s : Bytes) (h : stripLeft e text = some s) : text = e.left ++ s := by
  unfold stripLeft at h
  split at h
  · split at h
    · rename_i hp
      obtain ⟨t, ht⟩ := (hasPrefix_iff _ _).mp hp
      simp at h; subst h; rw [ht]; simp
    · cases h
  · rename_i hl
    simp at hl h
    subst h; simp [hl]

theorem indexOf_bound (s sub : Bytes) (i : Nat) (h : indexOf s sub = some i) : i + sub.length ≤ s.length := by
  induction s generalizing i with
  | nil =>
    simp only [indexOf] at h
    split at h
    · rename_i hs; subst hs; simp at h; subst h; simp
    · cases h
  | cons c r ih =>
    simp only [indexOf] at h
    split at h
    · rename_i hp
      simp at h; subst h
      simp [hasPrefix] at hp
      simp; omega
    · cases hi : indexOf r sub with
      | none => simp [hi] at h
      | some j =>
        simp [hi] at h
        subst h
        have := ih j hi
        simp; omega

theorem headSearch_some (e : Extractor) (s : Bytes) (i : Nat) (h : headSearch e s = some i) :
    s = s.take i ++ e.right ++ s.drop (i + e.right.length) ∧
    (i + e.right.length ≤ e.maxRange ∨ s.length ≤ e.maxRange) := by
  unfold headSearch at h
  split at h
  · have hb := indexOf_bound _ _ _ h
    have hd := indexOf_some _ _ _ h
    simp only [List.length_take] at hb
    have hi : i + e.right.length ≤ e.maxRange := by omega
    refine ⟨?_, Or.inl hi⟩
    -- s = take m s ++ drop m s, and take m s decomposes
    have hs := (List.take_append_drop e.maxRange s).symm
    rw [hd] at hs
    rw [List.take_take, List.drop_take] at hs
    have e1 : min i e.maxRange = i := by omega
    rw [e1] at hs
    conv => lhs; rw [hs]
    simp only [List.append_assoc]
    congr 2
    -- take (m - (i+|r|)) (drop (i+|r|) s) ++ drop m s = drop (i+|r|) s
    have := List.take_append_drop (e.maxRange - (i + e.right.length)) (s.drop (i + e.right.length))
    rw [List.drop_drop] at this
    rw [show i + e.right.length + (e.maxRange - (i + e.right.length)) = e.maxRange by omega] at this
    exact this
  · exact ⟨indexOf_some _ _ _ h, Or.inr (by omega)⟩

/-- **C15 (extractHead decomposes the text).** When head extraction with a right boundary succeeds,
the text is `left ++ tag ++ right ++ rest`, the extracted label is the tag with surrounding blanks
and control characters trimmed, the remaining text is `rest`, and the boundary was found within the
search range. -/
theorem C15_extract_head_decompose (e : Extractor) (text label rest : Bytes)
    (hr : e.right ≠ []) (h : extractStart e text = .ok (some (label, rest))) :
    ∃ tag, text = e.left ++ tag ++ e.right ++ rest ∧ label = trimCtl tag ∧
      (tag.length + e.right.length ≤ e.maxRange ∨ text.length ≤ e.left.length + e.maxRange) := by
  unfold extractStart at h
  simp only [bind, Except.bind, pure, Except.pure, hr, ne_eq, not_false_eq_true, if_true] at h
  repeat' split at h
  all_goals first | (cases h; done) | skip
  all_goals (
    simp only [Except.ok.injEq, Option.some.injEq, Prod.mk.injEq] at h
    obtain ⟨h1, h2⟩ := h
    have hS := stripLeft_some _ _ _ ‹stripLeft e text = some _›
    have hH := headSearch_some _ _ _ ‹headSearch e _ = some _›
    refine ⟨_, ?_, h1.symm, ?_⟩
    · rw [← h2]; conv => lhs; rw [hS, hH.1]
      simp [List.append_assoc]
    · rcases hH.2 with hb | hb
      · left
        have := indexOf_bound
        simp only [List.length_take]
        omega
      · right; rw [hS]; simp; omega)

/-! ### tail extraction, first / last boundary -/

theorem hasSuffix_iff (s p : Bytes) : hasSuffix s p = true ↔ ∃ t, s = t ++ p := by
  unfold hasSuffix
  constructor
  · intro h
    simp at h
    refine ⟨s.take (s.length - p.length), ?_⟩
    have := List.take_append_drop (s.length - p.length) s
    rw [h.2] at this
    exact this.symm
  · rintro ⟨t, rfl⟩; simp

theorem stripRight_some (e : Extractor) (text s : Bytes) (h : stripRight e text = some s) : text = s ++ e.right := by
  unfold stripRight at h
  split at h
  · split at h
    · rename_i hp
      obtain ⟨t, ht⟩ := (hasSuffix_iff _ _).mp hp
      simp at h; subst h; rw [ht]; simp
    · cases h
  · rename_i hl
    simp at hl h
    subst h; simp [hl]

theorem findRev (p : Nat → Bool) (n i : Nat) (h : (List.range n).reverse.find? p = some i) :
    i < n ∧ p i = true ∧ ∀ j, i < j → j < n → p j = false := by
  induction n with
  | zero => simp at h
  | succ n ih =>
    rw [List.range_succ, List.reverse_append] at h
    simp only [List.reverse_cons, List.reverse_nil, List.nil_append, List.singleton_append, List.find?_cons] at h
    cases hp : p n with
    | true =>
      rw [hp] at h; simp at h; subst h
      exact ⟨by omega, hp, fun j h1 h2 => by omega⟩
    | false =>
      rw [hp] at h; simp only [] at h
      obtain ⟨a, b, c⟩ := ih h
      refine ⟨by omega, b, fun j h1 h2 => ?_⟩
      by_cases hj : j = n
      · subst hj; exact hp
      · exact c j h1 (by omega)

theorem decomp_of_hasPrefix (s sub : Bytes) (i : Nat) (hp : hasPrefix (s.drop i) sub = true) (hi : i ≤ s.length) :
    s = s.take i ++ sub ++ s.drop (i + sub.length) ∧ i + sub.length ≤ s.length := by
  obtain ⟨t, ht⟩ := (hasPrefix_iff _ _).mp hp
  have hlen : i + sub.length ≤ s.length := by
    have := congrArg List.length ht
    simp at this; omega
  refine ⟨?_, hlen⟩
  have h1 := (List.take_append_drop i s).symm
  conv => lhs; rw [h1, ht]
  have : t = List.drop (i + sub.length) s := by
    rw [← List.drop_drop, ht]; simp
  rw [this]; simp [List.append_assoc]

/-- `strings.LastIndex` finds an occurrence, and none starts later -/
theorem lastIndexOf_some (s sub : Bytes) (i : Nat) (h : lastIndexOf s sub = some i) :
    hasPrefix (s.drop i) sub = true ∧ i ≤ s.length ∧
    ∀ j, i < j → j ≤ s.length → hasPrefix (s.drop j) sub = false := by
  unfold lastIndexOf at h
  obtain ⟨hm, hp, hlast⟩ := findRev _ _ _ h
  exact ⟨hp, by omega, fun j h1 h2 => hlast j h1 (by omega)⟩

/-- `strings.Index` finds the first occurrence -/
theorem indexOf_first (s sub : Bytes) (i : Nat) (h : indexOf s sub = some i) :
    ∀ j, j < i → hasPrefix (s.drop j) sub = false := by
  induction s generalizing i with
  | nil =>
    simp only [indexOf] at h
    split at h
    · simp at h; subst h; intro j hj; omega
    · cases h
  | cons c r ih =>
    simp only [indexOf] at h
    split at h
    · simp at h; subst h; intro j hj; omega
    · rename_i hp
      cases hr : indexOf r sub with
      | none => rw [hr] at h; cases h
      | some k =>
        rw [hr] at h; simp at h; subst h
        intro j hj
        cases j with
        | zero => simpa using hp
        | succ j => simpa using ih k hr j (by omega)

theorem tailSearch_some (e : Extractor) (s : Bytes) (i : Nat) (h : tailSearch e s = some i) :
    s = s.take i ++ e.left ++ s.drop (i + e.left.length) ∧ i + e.left.length ≤ s.length ∧
    (s.length ≤ i + e.maxRange) ∧
    (∀ j, i < j → j ≤ s.length → hasPrefix (s.drop j) e.left = false) := by
  unfold tailSearch at h
  split at h
  · rename_i hgt
    cases hl : lastIndexOf (s.drop (s.length - e.maxRange)) e.left with
    | none => rw [hl] at h; cases h
    | some k =>
      rw [hl] at h; simp at h; subst h
      obtain ⟨hp, hb, hlast⟩ := lastIndexOf_some _ _ _ hl
      simp only [List.length_drop, List.drop_drop] at hb hlast hp
      have hp' : hasPrefix (s.drop (k + (s.length - e.maxRange))) e.left = true := by
        rw [show k + (s.length - e.maxRange) = (s.length - e.maxRange) + k by omega]; exact hp
      obtain ⟨a, b⟩ := decomp_of_hasPrefix s e.left _ hp' (by omega)
      refine ⟨a, b, by omega, fun j h1 h2 => ?_⟩
      have := hlast (j - (s.length - e.maxRange)) (by omega) (by omega)
      rw [show s.length - e.maxRange + (j - (s.length - e.maxRange)) = j by omega] at this
      exact this
  · obtain ⟨a, b, c⟩ := lastIndexOf_some _ _ _ h
    obtain ⟨d, f⟩ := decomp_of_hasPrefix s e.left i a b
    exact ⟨d, f, by omega, c⟩

/-- **C15 (extractTail decomposes the text).** When tail extraction with a left boundary succeeds,
the text is `rest ++ left ++ tag ++ right`, the extracted label is the tag with surrounding blanks
and control characters trimmed, the boundary was found within the search range, and it is the last
occurrence of the boundary before the right end. -/
theorem C15_extract_tail_decompose (e : Extractor) (text label rest : Bytes)
    (hl : e.left ≠ []) (h : extractEnd e text = .ok (some (label, rest))) :
    ∃ tag, text = rest ++ e.left ++ tag ++ e.right ∧ label = trimCtl tag ∧
      e.left.length + tag.length ≤ e.maxRange ∧
      (∀ j, rest.length < j → j + e.right.length ≤ text.length →
        hasPrefix ((text.take (text.length - e.right.length)).drop j) e.left = false) := by
  unfold extractEnd at h
  simp only [bind, Except.bind, pure, Except.pure, hl, ne_eq, not_false_eq_true, if_true] at h
  repeat' split at h
  all_goals first | (cases h; done) | skip
  all_goals (
    simp only [Except.ok.injEq, Option.some.injEq, Prod.mk.injEq] at h
    obtain ⟨h1, h2⟩ := h
    have hS := stripRight_some _ _ _ ‹stripRight e text = some _›
    obtain ⟨hA, hB, hC, hD⟩ := tailSearch_some _ _ _ ‹tailSearch e _ = some _›
    refine ⟨_, ?_, h1.symm, ?_, ?_⟩
    · rw [← h2]; conv => lhs; rw [hS, hA]
    · simp only [List.length_drop]; omega
    · intro j hj1 hj2
      rw [← h2] at hj1
      simp only [List.length_take] at hj1
      subst hS
      simp only [List.length_append, Nat.add_sub_cancel, List.take_left'] at hj2 ⊢
      exact hD j (by omega) (by omega))

theorem hasPrefix_take (s p : Bytes) (n : Nat) (h : hasPrefix s p = true) (hn : p.length ≤ n) :
    hasPrefix (s.take n) p = true := by
  obtain ⟨t, rfl⟩ := (hasPrefix_iff _ _).mp h
  rw [hasPrefix_iff]
  refine ⟨t.take (n - p.length), ?_⟩
  rw [List.take_append]
  simp [List.take_of_length_le hn]

theorem headSearch_first (e : Extractor) (s : Bytes) (i : Nat) (h : headSearch e s = some i) :
    ∀ j, j < i → hasPrefix (s.drop j) e.right = false := by
  unfold headSearch at h
  split at h
  · intro j hj
    have hb := indexOf_bound _ _ _ h
    have hf := indexOf_first _ _ _ h j hj
    simp only [List.length_take] at hb
    cases hq : hasPrefix (s.drop j) e.right with
    | false => rfl
    | true =>
      have := hasPrefix_take _ _ (e.maxRange - j) hq (by omega)
      rw [← List.drop_take] at this
      rw [this] at hf; cases hf
  · exact indexOf_first _ _ _ h

/-- **C15 (extractHead takes the first boundary).** No occurrence of the right boundary starts
inside the tag before the one that ended it. -/
theorem C15_extract_head_first (e : Extractor) (text label rest : Bytes)
    (hr : e.right ≠ []) (h : extractStart e text = .ok (some (label, rest))) :
    ∀ j, j + e.right.length + rest.length < (text.drop e.left.length).length →
      hasPrefix ((text.drop e.left.length).drop j) e.right = false := by
  unfold extractStart at h
  simp only [bind, Except.bind, pure, Except.pure, hr, ne_eq, not_false_eq_true, if_true] at h
  repeat' split at h
  all_goals first | (cases h; done) | skip
  all_goals (
    simp only [Except.ok.injEq, Option.some.injEq, Prod.mk.injEq] at h
    obtain ⟨h1, h2⟩ := h
    have hS := stripLeft_some _ _ _ ‹stripLeft e text = some _›
    have hH := headSearch_some _ _ _ ‹headSearch e _ = some _›
    have hF := headSearch_first _ _ _ ‹headSearch e _ = some _›
    intro j hj
    subst hS
    simp only [List.drop_left'] at hj ⊢
    apply hF
    rw [← h2] at hj
    simp only [List.length_drop] at hj
    omega)

/-! ### extraction never panics for extractors accepted at load time -/

/-- what `newStringExtractor` guarantees (repaired F-10): a bare `*` has the boundary on its far
side, a character class has a full 256-entry table -/
def _root_.Xform.Extractor.WF (e : Extractor) : Prop :=
  (e.valid = none → if e.fromEnd then e.left ≠ [] else e.right ≠ []) ∧
  (∀ t, e.valid = some t → t.length = 256)

theorem tableAt_ok (t : List Bool) (c : Nat) (ht : t.length = 256) :
    ∃ b, tableAt (some t) c = .ok b := ⟨t.getD c false, by simp [tableAt, ht]⟩

theorem matchFromStart_ok (t : List Bool) (ht : t.length = 256) (s : Bytes) (i : Nat) :
    ∃ n, matchFromStart (some t) s i = .ok n := by
  induction s generalizing i with
  | nil => exact ⟨i, rfl⟩
  | cons c r ih =>
    obtain ⟨b, hb⟩ := tableAt_ok t c ht
    simp only [matchFromStart, bind, Except.bind, hb]
    cases b
    · exact ⟨i, rfl⟩
    · simpa using ih (i + 1)

theorem matchFromEnd_ok (t : List Bool) (ht : t.length = 256) (s : Bytes) :
    ∃ n, matchFromEnd (some t) s = .ok n := by
  obtain ⟨n, hn⟩ := matchFromStart_ok t ht s.reverse 0
  exact ⟨s.length - n, by simp [matchFromEnd, bind, Except.bind, hn, pure, Except.pure]⟩

/-- **C15 / C07 (head extraction is total).** -/
theorem C15_extract_head_total (e : Extractor) (text : Bytes) (hwf : e.WF) (hf : e.fromEnd = false) :
    ∃ o, extractStart e text = .ok o := by
  obtain ⟨w1, w2⟩ := hwf
  unfold extractStart
  cases hsl : stripLeft e text with
  | none => exact ⟨none, rfl⟩
  | some s =>
    cases hv : e.valid with
    | none =>
      have hr : e.right ≠ [] := by have := w1 hv; simpa [hf] using this
      simp only [bind, Except.bind, pure, Except.pure, hr, ne_eq, not_false_eq_true, if_true, Option.isSome_none]
      cases s <;> (cases headSearch e _ <;> exact ⟨_, rfl⟩)
    | some t =>
      have ht := w2 t hv
      simp only [bind, Except.bind, pure, Except.pure, Option.isSome_some, if_true]
      have hm : ∀ (x : Bytes), ∃ n, matchFromStart (some t) x 0 = .ok n := fun x => matchFromStart_ok t ht x 0
      cases s with
      | nil =>
        simp only []
        by_cases hr : e.right = []
        · obtain ⟨n, hn⟩ := hm []
          simp only [hr, ne_eq, not_true_eq_false, if_false, hn]
          split <;> exact ⟨_, rfl⟩
        · simp only [hr, ne_eq, not_false_eq_true, if_true]
          cases hh : headSearch e [] with
          | none => exact ⟨_, rfl⟩
          | some i =>
            obtain ⟨n, hn⟩ := hm (([] : Bytes).take i)
            simp only [hn]
            split <;> exact ⟨_, rfl⟩
      | cons c r =>
        obtain ⟨b, hb1⟩ := tableAt_ok t c ht
        simp only [hb1]
        cases b
        · exact ⟨_, rfl⟩
        · simp only [Bool.not_true, Bool.false_eq_true, if_false]
          by_cases hr : e.right = []
          · obtain ⟨n, hn⟩ := hm (c :: r)
            simp only [hr, ne_eq, not_true_eq_false, if_false, hn]
            split <;> exact ⟨_, rfl⟩
          · simp only [hr, ne_eq, not_false_eq_true, if_true]
            cases hh : headSearch e (c :: r) with
            | none => exact ⟨_, rfl⟩
            | some i =>
              obtain ⟨n, hn⟩ := hm ((c :: r).take i)
              simp only [hn]
              split <;> exact ⟨_, rfl⟩

/-- **C15 / C07 (tail extraction is total).** -/
theorem C15_extract_tail_total (e : Extractor) (text : Bytes) (hwf : e.WF) (hf : e.fromEnd = true) :
    ∃ o, extractEnd e text = .ok o := by
  obtain ⟨w1, w2⟩ := hwf
  unfold extractEnd
  cases hsl : stripRight e text with
  | none => exact ⟨none, rfl⟩
  | some s =>
    cases hv : e.valid with
    | none =>
      have hl : e.left ≠ [] := by have := w1 hv; simpa [hf] using this
      simp only [bind, Except.bind, pure, Except.pure, hl, ne_eq, not_false_eq_true, if_true, Option.isSome_none]
      cases s.getLast? <;> (cases tailSearch e _ <;> exact ⟨_, rfl⟩)
    | some t =>
      have ht := w2 t hv
      simp only [bind, Except.bind, pure, Except.pure, Option.isSome_some, if_true]
      have hm : ∀ (x : Bytes), ∃ n, matchFromEnd (some t) x = .ok n := fun x => matchFromEnd_ok t ht x
      cases hg : s.getLast? with
      | none =>
        simp only []
        by_cases hl : e.left = []
        · obtain ⟨n, hn⟩ := hm s
          simp only [hl, ne_eq, not_true_eq_false, if_false, hn]
          split <;> exact ⟨_, rfl⟩
        · simp only [hl, ne_eq, not_false_eq_true, if_true]
          cases hh : tailSearch e s with
          | none => exact ⟨_, rfl⟩
          | some i =>
            obtain ⟨n, hn⟩ := hm (s.drop (i + e.left.length))
            simp only [hn]
            split <;> exact ⟨_, rfl⟩
      | some c =>
        obtain ⟨b, hb1⟩ := tableAt_ok t c ht
        simp only [hb1]
        cases b
        · exact ⟨_, rfl⟩
        · simp only [Bool.not_true, Bool.false_eq_true, if_false]
          by_cases hl : e.left = []
          · obtain ⟨n, hn⟩ := hm s
            simp only [hl, ne_eq, not_true_eq_false, if_false, hn]
            split <;> exact ⟨_, rfl⟩
          · simp only [hl, ne_eq, not_false_eq_true, if_true]
            cases hh : tailSearch e s with
            | none => exact ⟨_, rfl⟩
            | some i =>
              obtain ⟨n, hn⟩ := hm (s.drop (i + e.left.length))
              simp only [hn]
              split <;> exact ⟨_, rfl⟩

/-! ### fact obligations (Tie B) -/

theorem C15_fact_sampler_rule : Facts.xform_drop_rule = ["tf.totalMatched > 0 && 100*tf.totalDropped/tf.totalMatched < tf.targetRate"] := by decide
/-- the counters are only ever incremented (no rescaling / windowing): `sampleDrop`'s state is the exact pair of counts -/
theorem C15_fact_sampler_counters : Facts.xform_drop_counter_writes =
    ["tf.totalMatched++", "tf.totalDropped++", "tf.totalMatched++"] := by decide
theorem C15_fact_truncate_copies : Facts.xform_truncate_builds_new_value = some true := by decide
theorem C15_fact_star_needs_boundary : Facts.xform_star_requires_far_boundary = some true := by decide
theorem C15_fact_slice_default_end : Facts.tmpl_slice_default_end = ["math.MaxInt32"] := by decide

/-! ### translated condition (Tie B, semantic form) -/

theorem C15_fact_drop_rule_found : Facts.gen_drop_rule_found = true := by decide
/-- the sampled-drop decision translated from `tdrop.go` is the model's, for all counter values and rates -/
theorem C15_gen_drop_rule (m d r : Nat) : Facts.gen_drop_rule m d r = (Xform.sampleDrop r (m, d)).1 := by
  have h : ((100 : Int) * (d : Int)) = ((100 * d : Nat) : Int) := by simp
  unfold Facts.gen_drop_rule Xform.sampleDrop
  rw [h, Int.tdiv_natCast]
  generalize 100 * d / m = q
  by_cases h1 : m > 0 ∧ q < r
  · simp only [h1, and_self, if_true]
    simp; omega
  · simp only [h1, if_false]
    simp; omega

/-! ### non-vacuity -/

example : (sampleRun 33 10) = (10, 3) := by decide
example : ∃ e, newExtractor true (b!" \\[*\\]") 50 = some e ∧
    extractEnd e (b!"rest [x] [ tag ]") = .ok (some (b!"tag", b!"rest [x]")) := ⟨_, rfl, by decide⟩
example : ∃ e, newExtractor false (b!"\\[*\\] ") 50 = some e ∧
    extractStart e (b!"[ tag ] rest") = .ok (some (b!"tag", b!"rest")) := ⟨_, rfl, by decide⟩

end C15
