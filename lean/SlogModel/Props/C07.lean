import SlogModel.Model.Pipe
import SlogModel.Props.C09
import SlogModel.Props.C13
import SlogModel.Lemmas.XformTotal
import SlogModel.Gen.Facts

/-!
  C07 — No input can crash or wedge the agent.

  `Pipe.process` is the record path parse -> transforms -> serialize as the composition of the stage
  models, with every index / slice operation of the Go code a checked operation.

  * `C07_pipeline_total` : for every byte string, receive time and sampler state the path returns —
      rejected (counted by the input), filtered, or serialized — never a panic.  Built from C09_total
      (parser), XT.runSteps_total (every transform program accepted by the configuration check; C16) and
      the totality of the serializer model.
  * `C07_stream_total` : every sequence of lines is processed to its end, one outcome per line: bad
      records never stop the records behind them.
  * framing (C08_total / C08_no_overflow_of_prefixes) and the timestamp parser (C13_total) are the
      remaining stages of the byte path.
  Tie: the pipe harness runs the real parser, transforms, serializer and chunk maker on generated
  programs and on hostile lines and compares each outcome with `Pipe.process`; the end-to-end harness
  feeds hostile byte streams over TCP (malformed headers, NIL / short timestamps, oversized fields,
  invalid UTF-8, binary garbage, abrupt disconnects) and requires that the listener stays alive and
  every well-formed record around them is delivered.
-/

open Pipe

namespace C07

theorem toX_len (n off : Nat) (r : Parse.Rec) (sec : Int) (nsec : Nat) (h : off + 9 ≤ n) : (toX n off r sec nsec).fields.length = n := by
  simp [toX]; omega

/-- **C07 (no input can panic the record path).** For every byte string presented as a record,
every receive time and every sampler state, the parse → transform → serialize path returns: the
record is rejected (counted), filtered or serialized — never a panic. -/
theorem C07_pipeline_total (c : Cfg) (st : Xform.XState) (line : Bytes) (sec : Int) (nsec : Nat)
    (h1 : 1 ≤ c.parse.minLen) (h8 : 8 ≤ c.parse.levels.length) (hn : c.off + 9 ≤ c.nFields) (hwf : XT.stepsWF c.nFields c.steps) :
    ∃ o, process c st line sec nsec = .ok o := by
  obtain ⟨o, ho⟩ := C09.C09_total c.parse line h1 h8
  unfold process
  simp only [bind, Except.bind, ho, pure, Except.pure]
  cases o with
  | drop reason => exact ⟨_, rfl⟩
  | pass r ov =>
    simp only []
    obtain ⟨res, r', st', hr, _⟩ := XT.runSteps_total c.nFields st (toX c.nFields c.off r sec nsec) (toX_len _ _ _ _ _ hn) c.steps hwf
    rw [hr]
    cases res <;> exact ⟨_, rfl⟩

/-- every sequence of lines is processed to the end: a bad record never stops the records behind it -/
theorem C07_stream_total (c : Cfg) (h1 : 1 ≤ c.parse.minLen) (h8 : 8 ≤ c.parse.levels.length) (hn : c.off + 9 ≤ c.nFields)
    (hwf : XT.stepsWF c.nFields c.steps) : ∀ (lines : List Bytes) (st : Xform.XState),
    ∃ outs, processAll c st lines = .ok outs ∧ outs.length = lines.length
  | [], _ => ⟨[], rfl, rfl⟩
  | l :: ls, st => by
    obtain ⟨⟨o, st'⟩, ho⟩ := C07_pipeline_total c st l 0 0 h1 h8 hn hwf
    obtain ⟨outs, h2, h3⟩ := C07_stream_total c h1 h8 hn hwf ls st'
    exact ⟨o :: outs, by simp [processAll, bind, Except.bind, ho, h2, pure, Except.pure], by simp [h3]⟩

/-! ### fact obligations (Tie B): the listener's error paths -/

/-- a connection that ends for any reason other than the stop request has its sink closed and then its socket
closed (`connAborter.Signal`): no descriptor leaks, the accept loop keeps running -/
theorem C07_fact_conn_error_path : Facts.reload_conn_close_order = ["recvChan.Flush", "recvChan.Close", "connAborter.Signal"] ∧
    Facts.c07_error_condition = ["util.IsNetworkClosed(readErr) && listener.stopRequest.Peek()"] := by decide


/-! ### the accept loop (`tcplinelistener.go` `run`): what can end it

The outcomes of `AcceptTCP` are the environment's: a connection, a temporary failure (no free file descriptor, no buffer
space, a connection aborted before it was accepted), or any other error; the stop request closes the socket.  After the
repair of F-30 a temporary failure is retried. -/

inductive AcceptEv where
  | conn            -- a connection is accepted
  | temporary       -- EMFILE / ENFILE / ENOBUFS / ENOMEM / ECONNABORTED
  | fatal           -- any other error
  | stop            -- stop request: the socket is closed, AcceptTCP returns "use of closed network connection"
  deriving DecidableEq, Repr

structure AcceptSt where
  accepting : Bool := true
  stopRequested : Bool := false
  accepted : Nat := 0
  deriving DecidableEq, Repr

def acceptStep (s : AcceptSt) : AcceptEv → AcceptSt
  | .conn => if s.accepting then { s with accepted := s.accepted + 1 } else s
  | .temporary => if s.accepting ∧ s.stopRequested then { s with accepting := false } else s      -- retried unless stopping
  | .fatal => { s with accepting := false }
  | .stop => { s with accepting := false, stopRequested := true }

/-- the loop before the repair: every error ends it -/
def legacyAcceptStep (s : AcceptSt) : AcceptEv → AcceptSt
  | .temporary => { s with accepting := false }
  | e => acceptStep s e

/-- **C07 (keeps accepting connections).** Whatever sequence of connections and temporary accept failures the clients and the
system produce, the listener is still accepting afterwards and has accepted every connection that arrived. -/
theorem C07_listener_keeps_accepting (evs : List AcceptEv) (h : ∀ e ∈ evs, e = .conn ∨ e = .temporary) :
    (evs.foldl acceptStep {}).accepting = true ∧ (evs.foldl acceptStep {}).accepted = evs.count .conn := by
  suffices ∀ s : AcceptSt, s.accepting = true → s.stopRequested = false →
      (evs.foldl acceptStep s).accepting = true ∧ (evs.foldl acceptStep s).accepted = s.accepted + evs.count .conn by
    simpa using this {} rfl rfl
  induction evs with
  | nil => intro s h1 _; exact ⟨h1, by simp⟩
  | cons e es ih =>
    intro s h1 h2
    have he := h e (by simp)
    have ih' := ih (fun x hx => h x (by simp [hx]))
    rcases he with rfl | rfl
    · have := ih' (acceptStep s .conn) (by simp [acceptStep, h1]) (by simp [acceptStep, h1, h2])
      simp only [List.foldl_cons]
      refine ⟨this.1, ?_⟩
      rw [this.2]; simp [acceptStep, h1]; omega
    · have hs : acceptStep s .temporary = s := by simp [acceptStep, h2]
      simp only [List.foldl_cons, hs]
      have := ih' s h1 h2
      refine ⟨this.1, ?_⟩
      rw [this.2]; simp

/-- before the repair one temporary failure was enough (F-30) -/
theorem legacy_F30 : ([AcceptEv.conn, .temporary, .conn].foldl legacyAcceptStep {}).accepted = 1 ∧
    ([AcceptEv.conn, .temporary, .conn].foldl acceptStep {}).accepted = 2 := by decide

/-- the error handling of the accept loop, in order, and the errors that count as temporary -/
theorem C07_fact_accept_errors : Facts.c07_accept_error_branches =
    ["util.IsTemporaryAcceptError(acceptErr) && !listener.stopRequest.Peek()",
     "!(listener.stopRequest.Peek() && util.IsNetworkClosed(acceptErr))",
     "syscall.EMFILE", "syscall.ENFILE", "syscall.ENOBUFS", "syscall.ENOMEM", "syscall.ECONNABORTED"] := by decide

end C07
