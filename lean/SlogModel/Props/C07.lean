import SlogModel.Model.Pipe
import SlogModel.Props.C09
import SlogModel.Props.C13
import SlogModel.Lemmas.XformTotal
import SlogModel.Gen.Facts

/-!
  C07 — No input can crash or wedge the agent.

  `Pipe.process` is the record path parse -> transforms -> serialize as the composition of the stage
  models, with every index / slice operation of the Go code a checked operation.

  * `C07_pipeline_total` : for every byte string, receive time and sampler state the path returns —
      rejected (counted by the input), filtered, or serialized — never a panic.  Built from C09_total
      (parser), XT.runSteps_total (every transform program accepted by the configuration check; C16) and
      the totality of the serializer model.
  * `C07_stream_total` : every sequence of lines is processed to its end, one outcome per line: bad
      records never stop the records behind them.
  * framing (C08_total / C08_no_overflow_of_prefixes) and the timestamp parser (C13_total) are the
      remaining stages of the byte path.
  Tie: the pipe harness runs the real parser, transforms, serializer and chunk maker on generated
  programs and on hostile lines and compares each outcome with `Pipe.process`; the end-to-end harness
  feeds hostile byte streams over TCP (malformed headers, NIL / short timestamps, oversized fields,
  invalid UTF-8, binary garbage, abrupt disconnects) and requires that the listener stays alive and
  every well-formed record around them is delivered.
-/

open Pipe

namespace C07

theorem toX_len (n off : Nat) (r : Parse.Rec) (sec : Int) (nsec : Nat) (h : off + 9 ≤ n) : (toX n off r sec nsec).fields.length = n := by
  simp [toX]; omega

/-- **C07 (no input can panic the record path).** For every byte string presented as a record,
every receive time and every sampler state, the parse → transform → serialize path returns: the
record is rejected (counted), filtered or serialized — never a panic. -/
theorem C07_pipeline_total (c : Cfg) (st : Xform.XState) (line : Bytes) (sec : Int) (nsec : Nat)
    (h1 : 1 ≤ c.parse.minLen) (h8 : 8 ≤ c.parse.levels.length) (hn : c.off + 9 ≤ c.nFields) (hwf : XT.stepsWF c.nFields c.steps) :
    ∃ o, process c st line sec nsec = .ok o := by
  obtain ⟨o, ho⟩ := C09.C09_total c.parse line h1 h8
  unfold process
  simp only [bind, Except.bind, ho, pure, Except.pure]
  cases o with
  | drop reason => exact ⟨_, rfl⟩
  | pass r ov =>
    simp only []
    obtain ⟨res, r', st', hr, _⟩ := XT.runSteps_total c.nFields st (toX c.nFields c.off r sec nsec) (toX_len _ _ _ _ _ hn) c.steps hwf
    rw [hr]
    cases res <;> exact ⟨_, rfl⟩

/-- every sequence of lines is processed to the end: a bad record never stops the records behind it -/
theorem C07_stream_total (c : Cfg) (h1 : 1 ≤ c.parse.minLen) (h8 : 8 ≤ c.parse.levels.length) (hn : c.off + 9 ≤ c.nFields)
    (hwf : XT.stepsWF c.nFields c.steps) : ∀ (lines : List Bytes) (st : Xform.XState),
    ∃ outs, processAll c st lines = .ok outs ∧ outs.length = lines.length
  | [], _ => ⟨[], rfl, rfl⟩
  | l :: ls, st => by
    obtain ⟨⟨o, st'⟩, ho⟩ := C07_pipeline_total c st l 0 0 h1 h8 hn hwf
    obtain ⟨outs, h2, h3⟩ := C07_stream_total c h1 h8 hn hwf ls st'
    exact ⟨o :: outs, by simp [processAll, bind, Except.bind, ho, h2, pure, Except.pure], by simp [h3]⟩

/-! ### fact obligations (Tie B): the listener's error paths -/

/-- a connection that ends for any reason other than the stop request has its sink closed and then its socket
closed (`connAborter.Signal`): no descriptor leaks, the accept loop keeps running -/
theorem C07_fact_conn_error_path : Facts.reload_conn_close_order = ["recvChan.Flush", "recvChan.Close", "connAborter.Signal"] ∧
    Facts.c07_error_condition = ["util.IsNetworkClosed(readErr) && listener.stopRequest.Peek()"] := by decide

end C07
