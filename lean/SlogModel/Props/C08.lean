import SlogModel.Model.Frame
import SlogModel.Gen.Facts

/-!
  C08 — Record framing is independent of TCP segmentation and flush timing.

  * `C08_fragmentation` : two fragmentations of the same byte stream, neither of which overflows
                          the buffer, emit the same records and end in the same state — namely
                          those of feeding the stream byte by byte (`feed`).
  * `C08_no_overflow_of_prefixes` : the no-overflow condition can be stated on the stream alone
                          (every prefix leaves room), so it does not depend on the fragmentation.
  * `C08_flush_single_line` : for streams of single-line valid records, under any placement of
                          `Flush` between reads and any fragmentation, the emitted valid records
                          are exactly the lines, once each, in order.
  * `C08_continuation`  : a continuation line is attached to the record it follows when no flush
                          separates them.
  In `Props/C08Flush.lean`:
  * `C08_timeout_means_idle`, `C08_idle_ticks_after_pause` : a flush after a read timeout follows an
                          idle period of at least the flush interval `m` (the lazily renewed read
                          deadline of `NetConnWrapper` is never less than `m` ahead when a read is
                          entered).
  * `C08_renewal_flushes_bounded` : the only other flushes — "for deadline update", which can cut a
                          multi-line record although the sender did not pause — number at most one
                          per flush interval of connection lifetime plus one (`f·m ≤ lifetime + m`).
-/

namespace C08
open Frame

/-! ### feed is a monoid action -/

theorem feedAux_acc (t : Bytes → Bool) (s : St) (bs : Bytes) (acc : List Bytes) :
    feedAux t s bs acc = ((feedAux t s bs []).1, (feedAux t s bs []).2 ++ acc) := by
  induction bs generalizing s acc with
  | nil => simp [feedAux]
  | cons b bs ih =>
    simp only [feedAux]
    rw [ih _ ((feedByte t s b).2 ++ acc), ih _ ((feedByte t s b).2 ++ [])]
    simp

theorem feedAux_append (t : Bytes → Bool) (s : St) (a b : Bytes) (acc : List Bytes) :
    feedAux t s (a ++ b) acc = feedAux t (feedAux t s a acc).1 b (feedAux t s a acc).2 := by
  induction a generalizing s acc with
  | nil => simp [feedAux]
  | cons x xs ih => simp only [List.cons_append, feedAux]; exact ih _ _

theorem feed_append (t : Bytes → Bool) (s : St) (a b : Bytes) :
    feed t s (a ++ b) = ((feed t (feed t s a).1 b).1, (feed t s a).2 ++ (feed t (feed t s a).1 b).2) := by
  simp only [feed, feedAux_append]
  rw [feedAux_acc t (feedAux t s a []).1 b (feedAux t s a []).2]
  simp

theorem feed_nil (t : Bytes → Bool) (s : St) : feed t s [] = (s, []) := by
  simp [feed, feedAux]

/-! ### reads without overflow are feeds -/

/-- the buffer has room for another record of maximal length (`checkOverflow` does nothing) -/
def Room (c : Cfg) (s : St) : Prop := c.cap - s.offsetAppend ≥ c.soft

theorem read_eq_feed (c : Cfg) (t : Bytes → Bool) (s : St) (frag : Bytes)
    (h : Room c (feed t s frag).1) : Frame.read c t s frag = feed t s frag := by
  unfold Frame.read
  by_cases hf : frag = []
  · simp [hf, feed_nil]
  · simp only [hf, if_false]
    unfold Room at h
    simp [checkOverflow, h]

/-- every read of the fragmentation leaves room -/
def Safe (c : Cfg) (t : Bytes → Bool) : St → List Bytes → Prop
  | _, [] => True
  | s, f :: fs => Room c (feed t s f).1 ∧ Safe c t (feed t s f).1 fs

theorem run_reads_eq_feed (c : Cfg) (t : Bytes → Bool) (s : St) (frags : List Bytes)
    (h : Safe c t s frags) : run c t s (frags.map .read) = feed t s frags.flatten := by
  induction frags generalizing s with
  | nil => simp [run, feed_nil]
  | cons f fs ih =>
    obtain ⟨h1, h2⟩ := h
    simp only [List.map_cons, run, step, List.flatten_cons]
    rw [read_eq_feed c t s f h1, ih _ h2, feed_append]

/-- **C08 (fragmentation independence).** Any two ways of cutting the same byte stream into reads,
neither of which overflows the buffer, produce the same records in the same order and the same
final reader state: those of the byte-fed reference framer. -/
theorem C08_fragmentation (c : Cfg) (t : Bytes → Bool) (s : St) (f₁ f₂ : List Bytes)
    (hsame : f₁.flatten = f₂.flatten) (h₁ : Safe c t s f₁) (h₂ : Safe c t s f₂) :
    run c t s (f₁.map .read) = run c t s (f₂.map .read) ∧
    run c t s (f₁.map .read) = feed t s f₁.flatten := by
  rw [run_reads_eq_feed c t s f₁ h₁, run_reads_eq_feed c t s f₂ h₂, hsame]
  exact ⟨rfl, rfl⟩

/-- **C08 (the side condition is a property of the stream).** If every prefix of the stream
leaves room in the buffer, every fragmentation of it is safe. -/
theorem C08_no_overflow_of_prefixes (c : Cfg) (t : Bytes → Bool) (s : St) (frags : List Bytes)
    (h : ∀ p, p <+: frags.flatten → Room c (feed t s p).1) : Safe c t s frags := by
  induction frags generalizing s with
  | nil => trivial
  | cons f fs ih =>
    refine ⟨h f (by simp), ih _ ?_⟩
    intro p hp
    have := h (f ++ p) (by simpa using (List.prefix_append_right_inj f).mpr hp)
    rw [feed_append] at this
    exact this

/-! ### flushes at arbitrary places: atoms -/

inductive Atom where
  | byte (b : Nat)
  | flush

def atomStep (t : Bytes → Bool) (s : St) : Atom → St × List Bytes
  | .byte b => feedByte t s b
  | .flush => flush t s

def runAtoms (t : Bytes → Bool) : St → List Atom → St × List Bytes
  | s, [] => (s, [])
  | s, a :: as =>
    ((runAtoms t (atomStep t s a).1 as).1, (atomStep t s a).2 ++ (runAtoms t (atomStep t s a).1 as).2)

def bytesOf : List Atom → Bytes
  | [] => []
  | .byte b :: as => b :: bytesOf as
  | .flush :: as => bytesOf as

theorem runAtoms_append (t : Bytes → Bool) (s : St) (a b : List Atom) :
    runAtoms t s (a ++ b) =
      ((runAtoms t (runAtoms t s a).1 b).1, (runAtoms t s a).2 ++ (runAtoms t (runAtoms t s a).1 b).2) := by
  induction a generalizing s with
  | nil => simp [runAtoms]
  | cons x xs ih => simp [runAtoms, ih, List.append_assoc]

theorem feedByte_out_rev (t : Bytes → Bool) (s : St) (b : Nat) :
    (feedByte t s b).2.reverse = (feedByte t s b).2 := by
  unfold feedByte lineStep
  split
  · simp only []
    split <;> simp
  · simp

theorem feedAux_eq_runAtoms (t : Bytes → Bool) (s : St) (bs : Bytes) :
    ((feedAux t s bs []).1, (feedAux t s bs []).2.reverse) = runAtoms t s (bs.map .byte) := by
  induction bs generalizing s with
  | nil => simp [feedAux, runAtoms]
  | cons b bs ih =>
    simp only [feedAux, List.map_cons, runAtoms, atomStep]
    rw [feedAux_acc, ← ih]
    simp [feedByte_out_rev]

theorem feed_eq_runAtoms (t : Bytes → Bool) (s : St) (bs : Bytes) :
    feed t s bs = runAtoms t s (bs.map .byte) := by
  rw [← feedAux_eq_runAtoms]; rfl

/-- complete lines of `acc ++ bs` (where `acc` is the partial line so far) and the final partial line -/
def splitLines : Bytes → Bytes → List Bytes × Bytes
  | acc, [] => ([], acc)
  | acc, b :: r =>
    if b = 10 then ((acc :: (splitLines [] r).1), (splitLines [] r).2)
    else splitLines (acc ++ [b]) r

/-- a single-line valid record: passes the start test, is non-empty, contains no newline -/
def LineOK (t : Bytes → Bool) (l : Bytes) : Prop := t l = true ∧ l ≠ [] ∧ 10 ∉ l

/-- reader states reachable on streams of single-line valid records -/
def Inv (t : Bytes → Bool) (s : St) : Prop :=
  (s.curRev = [] ∨ ∃ l, LineOK t l ∧ s.curRev = 10 :: l.reverse) ∧ 10 ∉ s.restRev

/-- the complete line held back in the buffer, if any -/
def pending (s : St) : List Bytes := if s.curRev = [] then [] else [s.curRev.tail.reverse]

theorem splitLastNL_none (xs after : Bytes) (h : 10 ∉ xs) : splitLastNL xs after = none := by
  induction xs generalizing after with
  | nil => rfl
  | cons x xs ih =>
    have hx : x ≠ 10 := fun e => h (by simp [e])
    simp only [splitLastNL, hx, if_false]
    exact ih _ (fun m => h (by simp [m]))

theorem splitLastNL_some (xs r after : Bytes) (h : 10 ∉ xs) :
    splitLastNL (xs ++ 10 :: r) after = some (r, xs.reverse ++ after) := by
  induction xs generalizing after with
  | nil => simp [splitLastNL]
  | cons x xs ih =>
    have hx : x ≠ 10 := fun e => h (by simp [e])
    simp only [List.cons_append, splitLastNL, hx, if_false]
    rw [ih _ (fun m => h (by simp [m]))]
    simp

/-- main invariant lemma: from an `Inv` state, running any mix of bytes and flushes emits, together
with what is still pending, exactly the pending line followed by the complete lines of the input -/
theorem runAtoms_lines (t : Bytes → Bool) (as : List Atom) (s : St) (hi : Inv t s)
    (hok : ∀ l ∈ (splitLines s.restRev.reverse (bytesOf as)).1, LineOK t l) :
    (runAtoms t s as).2 ++ pending (runAtoms t s as).1 =
      pending s ++ (splitLines s.restRev.reverse (bytesOf as)).1 ∧
    (runAtoms t s as).1.restRev.reverse = (splitLines s.restRev.reverse (bytesOf as)).2 ∧
    Inv t (runAtoms t s as).1 := by
  induction as generalizing s with
  | nil => simp [runAtoms, bytesOf, splitLines, hi]
  | cons a as ih =>
    obtain ⟨hcur, hrest⟩ := hi
    cases a with
    | flush =>
      simp only [runAtoms, atomStep, bytesOf] at hok ⊢
      rcases hcur with hc | ⟨l, ⟨hl1, hl2, hl3⟩, hc⟩
      · have hf : flush t s = (s, []) := by
          simp [flush, hc, splitLastNL_none _ _ hrest]
        rw [hf]
        simpa using ih s ⟨Or.inl hc, hrest⟩ hok
      · have hl3' : 10 ∉ l.reverse := by simpa using hl3
        have hf : flush t s = ({ curRev := [], restRev := s.restRev }, [l]) := by
          simp [flush, hc, splitLastNL_some _ _ _ hrest, hl1, hl2]
        rw [hf]
        have := ih { curRev := [], restRev := s.restRev } ⟨Or.inl rfl, hrest⟩ hok
        simp only [pending, hc] at this ⊢
        simpa using this
    | byte b =>
      simp only [runAtoms, atomStep, bytesOf] at hok ⊢
      by_cases hb : b = 10
      · subst hb
        simp only [splitLines, if_true] at hok ⊢
        have hline : LineOK t s.restRev.reverse := hok _ (by simp)
        obtain ⟨ht, hne, hnl⟩ := hline
        rcases hcur with hc | ⟨l, hlok, hc⟩
        · have hs : feedByte t s 10 = ({ curRev := 10 :: s.restRev, restRev := [] }, []) := by
            simp [feedByte, lineStep, hc]
          rw [hs]
          have := ih { curRev := 10 :: s.restRev, restRev := [] }
            ⟨Or.inr ⟨s.restRev.reverse, ⟨ht, hne, hnl⟩, by simp⟩, by simp⟩
            (by intro l hl; exact hok l (by simp at hl ⊢; exact Or.inr hl))
          simp only [pending, hc] at this ⊢
          simpa using this
        · have hs : feedByte t s 10 = ({ curRev := 10 :: s.restRev, restRev := [] }, [l]) := by
            simp [feedByte, lineStep, hc, hne, ht]
          rw [hs]
          have := ih { curRev := 10 :: s.restRev, restRev := [] }
            ⟨Or.inr ⟨s.restRev.reverse, ⟨ht, hne, hnl⟩, by simp⟩, by simp⟩
            (by intro l hl; exact hok l (by simp at hl ⊢; exact Or.inr hl))
          simp only [pending, hc] at this ⊢
          simpa using this
      · simp only [splitLines, hb, if_false] at hok ⊢
        have hs : feedByte t s b = ({ s with restRev := b :: s.restRev }, []) := by
          simp [feedByte, hb]
        rw [hs]
        have := ih { s with restRev := b :: s.restRev }
          ⟨hcur, by simp; exact ⟨fun e => hb e.symm, hrest⟩⟩ (by simpa using hok)
        simpa [pending] using this

/-! ### the theorem for reads and flushes of the real reader -/

/-- operations between which the stream is cut: a read of a fragment, or a flush tick -/
inductive RFOp where
  | read (frag : Bytes)
  | flush

def RFOp.toOp : RFOp → Op
  | .read f => .read f
  | .flush => .flush

def atomsOf : List RFOp → List Atom
  | [] => []
  | .read f :: r => f.map .byte ++ atomsOf r
  | .flush :: r => .flush :: atomsOf r

def readsOf : List RFOp → Bytes
  | [] => []
  | .read f :: r => f ++ readsOf r
  | .flush :: r => readsOf r

/-- every read leaves room in the buffer (no overflow handling is triggered) -/
def SafeOps (c : Cfg) (t : Bytes → Bool) : St → List RFOp → Prop
  | _, [] => True
  | s, .read f :: r => Room c (feed t s f).1 ∧ SafeOps c t (feed t s f).1 r
  | s, .flush :: r => SafeOps c t (flush t s).1 r

theorem bytesOf_append (a b : List Atom) : bytesOf (a ++ b) = bytesOf a ++ bytesOf b := by
  induction a with
  | nil => rfl
  | cons x xs ih => cases x <;> simp [bytesOf, ih]

theorem bytesOf_map_byte (f : Bytes) : bytesOf (f.map .byte) = f := by
  induction f with
  | nil => rfl
  | cons x xs ih => simp [bytesOf, ih]

theorem bytesOf_atomsOf (ops : List RFOp) : bytesOf (atomsOf ops) = readsOf ops := by
  induction ops with
  | nil => rfl
  | cons o os ih =>
    cases o <;> simp [atomsOf, readsOf, bytesOf, bytesOf_append, bytesOf_map_byte, ih]

theorem run_eq_runAtoms (c : Cfg) (t : Bytes → Bool) (s : St) (ops : List RFOp)
    (h : SafeOps c t s ops) : run c t s (ops.map RFOp.toOp) = runAtoms t s (atomsOf ops) := by
  induction ops generalizing s with
  | nil => simp [run, runAtoms, atomsOf]
  | cons o os ih =>
    cases o with
    | read f =>
      obtain ⟨h1, h2⟩ := h
      simp only [List.map_cons, RFOp.toOp, run, step, atomsOf]
      rw [read_eq_feed c t s f h1, ih _ h2, runAtoms_append, ← feed_eq_runAtoms]
    | flush =>
      simp only [List.map_cons, RFOp.toOp, run, step, atomsOf, runAtoms, atomStep]
      rw [ih _ h]

theorem run_append (c : Cfg) (t : Bytes → Bool) (s : St) (a b : List Op) :
    run c t s (a ++ b) =
      ((run c t (run c t s a).1 b).1, (run c t s a).2 ++ (run c t (run c t s a).1 b).2) := by
  induction a generalizing s with
  | nil => simp [run]
  | cons x xs ih => simp [run, ih, List.append_assoc]

theorem splitLines_line (acc l r : Bytes) (h : 10 ∉ l) :
    splitLines acc (l ++ 10 :: r) = ((acc ++ l) :: (splitLines [] r).1, (splitLines [] r).2) := by
  induction l generalizing acc with
  | nil => simp [splitLines]
  | cons x xs ih =>
    have hx : x ≠ 10 := fun e => h (by simp [e])
    simp only [List.cons_append, splitLines, hx, if_false]
    rw [ih _ (fun m => h (by simp [m]))]
    simp

theorem splitLines_recs (recs : List Bytes) (h : ∀ r ∈ recs, 10 ∉ r) :
    splitLines [] (recs.map (· ++ [10])).flatten = (recs, []) := by
  induction recs with
  | nil => rfl
  | cons r rs ih =>
    simp only [List.map_cons, List.flatten_cons, List.append_assoc, List.singleton_append]
    rw [splitLines_line [] r _ (h r (by simp)), ih (fun x hx => h x (by simp [hx]))]
    simp

/-- **C08 (flush timing, single-line records).** For a stream of single-line valid records, cut
into reads in any way, with flush ticks at any positions between the reads (and no overflow), the
reader emits exactly the records of the stream — each once, in order — by the time the connection
ends. -/
theorem C08_flush_single_line (c : Cfg) (t : Bytes → Bool) (recs : List Bytes)
    (hv : ∀ r ∈ recs, LineOK t r) (ops : List RFOp)
    (hbytes : readsOf ops = (recs.map (· ++ [10])).flatten) (hsafe : SafeOps c t {} ops) :
    (run c t {} (ops.map RFOp.toOp ++ [.flushAll])).2 = recs := by
  rw [run_append, run_eq_runAtoms c t {} ops hsafe]
  have hsl := splitLines_recs recs (fun r hr => (hv r hr).2.2)
  have hinv : Inv t ({} : St) := ⟨Or.inl rfl, by simp⟩
  have hmain := runAtoms_lines t (atomsOf ops) {} hinv
    (by simp only [bytesOf_atomsOf, hbytes, List.reverse_nil]; rw [hsl]; exact hv)
  simp only [bytesOf_atomsOf, hbytes, List.reverse_nil, hsl] at hmain
  obtain ⟨h1, h2, ⟨h3, _⟩⟩ := hmain
  have hr : (runAtoms t {} (atomsOf ops)).1.restRev = [] := by simpa using h2
  simp only [pending, List.nil_append] at h1
  simp only [run, step, List.append_nil]
  rcases h3 with hc | ⟨l, ⟨hl1, hl2, hl3⟩, hc⟩
  · simp [hc] at h1
    simp [flushAll, hc, hr, h1]
  · simp [hc] at h1
    simp [flushAll, hc, hr, hl1, h1]

/-! ### continuation lines -/

theorem feed_no_newline (t : Bytes → Bool) (s : St) (l : Bytes) (h : 10 ∉ l) :
    feed t s l = ({ s with restRev := l.reverse ++ s.restRev }, []) := by
  rw [feed_eq_runAtoms]
  induction l generalizing s with
  | nil => simp [runAtoms]
  | cons x xs ih =>
    have hx : x ≠ 10 := fun e => h (by simp [e])
    simp only [List.map_cons, runAtoms, atomStep, feedByte, hx, if_false]
    rw [ih _ (fun m => h (by simp [m]))]
    simp

/-- **C08 (continuation).** A line that is not a valid record start, arriving while a record is
pending and with no flush in between, is attached to that record: nothing is emitted and the
pending record grows by exactly this line. -/
theorem C08_continuation (t : Bytes → Bool) (s : St) (l : Bytes) (h10 : 10 ∉ l)
    (hnot : t l = false) (hrest : s.restRev = []) :
    feed t s (l ++ [10]) = ({ curRev := 10 :: (l.reverse ++ s.curRev), restRev := [] }, []) := by
  rw [feed_append, feed_no_newline t s l h10]
  simp [feed, feedAux, feedByte, lineStep, hrest, hnot]

/-- **C08 (a record is emitted whole).** When the next valid record start arrives, the pending
record — its first line and all continuation lines attached since — is emitted as one record. -/
theorem C08_next_start_emits (t : Bytes → Bool) (s : St) (l : Bytes) (h10 : 10 ∉ l)
    (hok : t l = true) (hne : l ≠ []) (hrest : s.restRev = []) (hcur : s.curRev ≠ []) :
    feed t s (l ++ [10]) = ({ curRev := 10 :: l.reverse, restRev := [] }, [s.curRev.tail.reverse]) := by
  rw [feed_append, feed_no_newline t s l h10]
  simp [feed, feedAux, feedByte, lineStep, hrest, hok, hne, hcur]

/-! ### fact obligations (Tie B) and non-vacuity -/

/-- the reader's buffer holds at least three records of maximal length (`newMultiLineReader`) -/
theorem C08_fact_buffer_factor : Facts.frame_buffer_factor = some 3 := by decide
/-- overflow handling is skipped exactly while `Room` holds (`cap - offsetAppend ≥ soft`), and is evaluated after every read -/
theorem C08_fact_overflow_condition : Facts.frame_overflow_condition =
    ["return if len(mlr.buffer)-mlr.offsetAppend >= mlr.softRecordLimit", "processBuffer ends with mlr.checkOverflow()"] := by decide
theorem C08_fact_room_rule_found : Facts.gen_room_rule_found = true := by decide
/-- the no-overflow test translated from `checkOverflow` is `Room`, whenever the buffer holds the data -/
theorem C08_gen_room_rule (c : Cfg) (s : St) (h : s.offsetAppend ≤ c.cap) :
    Facts.gen_room_rule c.cap s.offsetAppend c.soft = true ↔ Room c s := by
  unfold Facts.gen_room_rule Room
  have : ((c.cap : Int) - (s.offsetAppend : Int)) = ((c.cap - s.offsetAppend : Nat) : Int) := by omega
  rw [this]
  simp
/-- `runConnection` sizes the reader with the record limit as soft limit -/
theorem C08_fact_soft_limit : Facts.frame_soft_is_max_record = some true := by decide

def v1 : Bytes := b!"<13>1 2019-08-15T15:50:46Z h a 1 s - one"
def v2 : Bytes := b!"<163>1 2019-08-15T15:50:46Z h a 2 s - two"

example : LineOK recordStart v1 ∧ LineOK recordStart v2 := by unfold LineOK; decide
example : SafeOps { cap := 600, soft := 200 } recordStart {}
    [.read (v1.take 7), .flush, .read (v1.drop 7 ++ [10] ++ v2), .flush, .read [10]] := by
  simp only [SafeOps, Room]; decide
example : (run { cap := 600, soft := 200 } recordStart {}
    ([RFOp.read (v1.take 7), .flush, .read (v1.drop 7 ++ [10] ++ v2), .flush, .read [10]].map RFOp.toOp
      ++ [.flushAll])).2 = [v1, v2] := by decide

end C08
