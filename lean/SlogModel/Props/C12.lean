import SlogModel.Lemmas.XformTotal
import SlogModel.Model.Pipe
import SlogModel.Gen.Facts

/-!
  C12 — Records are isolated from each other despite pooling and buffer reuse.

  In the models isolation is structural — every stage is a function of the record, the
  configuration and (for percentage sampling only) the sampler counters; what has to be proved is that
  nothing else is threaded through:

  * `runSteps_stateless` : a transform program without percentage sampling returns the state it was
      given and its result does not depend on that state (mutual induction over steps / switch cases).
  * `process_stateless`, `C12_isolated` : on such a pipeline the outcome of a line after any sequence
      of other lines equals its outcome on a fresh pipeline.
  * the serializer and the chunk maker have no cross-record state in their models (C10 / C11: the
      output is a function of the record; `C11_concat`: chunks reproduce the written sequence).
  Tie: the models say nothing about pooling — the pipe harness does: every line is processed on a
  long-lived real pipeline (pooled records and buffers, released after each record) and again on a
  fresh pipeline; both must agree with each other and with `Pipe.process`; C10's and C11's harnesses add
  pooled records with identical layouts and live-chunk aliasing checks.
-/

open Xform
namespace C12

-- no percentage sampling anywhere in the program (the documented stateful exception)
mutual
def stepNS : Step → Prop
  | .iff _ thn => stepsNS thn
  | .switch cases => casesNS cases
  | .block steps => stepsNS steps
  | .drop _ rate _ => rate = 100
  | _ => True
def stepsNS : List Step → Prop
  | [] => True
  | s :: r => stepNS s ∧ stepsNS r
def casesNS : List (Xform.Match × List Step) → Prop
  | [] => True
  | (_, thn) :: r => stepsNS thn ∧ casesNS r
end

/-- the same result with the state replaced -/
def withSt (st : XState) : GoM (Res × Rec × XState) → GoM (Res × Rec × XState)
  | .ok (a, b, _) => .ok (a, b, st)
  | .error e => .error e

mutual
theorem runStep_stateless (st : XState) (r : Rec) : (s : Step) → stepNS s → runStep st r s = withSt st (runStep [] r s)
  | .addFields pairs, _ => by
    simp only [runStep, bind, Except.bind, pure, Except.pure]
    cases addPairs r pairs <;> rfl
  | .delFields keys, _ => rfl
  | .mapValue key mapping dflt, _ => by simp only [runStep]; split <;> rfl
  | .iff m thn, h => by
    simp only [runStep]
    split
    · exact runSteps_stateless st r thn h
    · rfl
  | .switch cases, h => by simp only [runStep]; exact runCases_stateless st r cases h
  | .block steps, h => by simp only [runStep]; exact runSteps_stateless st r steps h
  | .drop m rate id, h => by
    simp only [stepNS] at h
    subst h
    simp only [runStep]
    split <;> rfl
  | .extract e key dest, _ => by
    simp only [runStep, bind, Except.bind, pure, Except.pure]
    split
    · rfl
    · cases (if e.fromEnd then extractEnd e (r.get key) else extractStart e (r.get key)) with
      | error _ => rfl
      | ok o =>
        cases o with
        | none => rfl
        | some p => simp only []; split <;> rfl
  | .truncate key maxLen suffix, _ => rfl
  | .unescape key, _ => by simp only [runStep]; split <;> rfl
  | .redactEmail key, _ => by simp only [runStep]; split <;> rfl
  | .parseTime key, _ => by simp only [runStep]; split <;> rfl
  | .opaque _ _, _ => rfl

theorem runSteps_stateless (st : XState) (r : Rec) : (l : List Step) → stepsNS l → runSteps st r l = withSt st (runSteps [] r l)
  | [], _ => rfl
  | s :: rest, h => by
    have h1 := runStep_stateless st r s h.1
    simp only [runSteps, bind, Except.bind]
    rw [h1]
    cases hs : runStep [] r s with
    | error e => rfl
    | ok p =>
      obtain ⟨res, r1, st1⟩ := p
      simp only [withSt]
      cases res with
      | drop => rfl
      | pass =>
        simp only []
        have hs0 : st1 = [] := by
          have := runStep_stateless [] r s h.1
          rw [hs] at this
          simp only [withSt] at this
          injection this with this
          injection this with _ this
          injection this with _ this
        subst hs0
        exact runSteps_stateless st r1 rest h.2

theorem runCases_stateless (st : XState) (r : Rec) : (l : List (Xform.Match × List Step)) → casesNS l →
    runCases st r l = withSt st (runCases [] r l)
  | [], _ => rfl
  | (m, thn) :: rest, h => by
    simp only [runCases]
    split
    · exact runSteps_stateless st r thn h.1
    · exact runCases_stateless st r rest h.2
end

end C12

namespace C12
open Pipe

theorem process_stateless (c : Cfg) (st : Xform.XState) (line : Bytes) (sec : Int) (nsec : Nat) (hns : stepsNS c.steps) :
    process c st line sec nsec = (match process c [] line sec nsec with | .ok (o, _) => .ok (o, st) | .error e => .error e) := by
  unfold process
  simp only [bind, Except.bind, pure, Except.pure]
  cases Parse.parseGo c.parse line with
  | error e => rfl
  | ok o =>
    cases o with
    | drop reason => rfl
    | pass r ov =>
      simp only []
      rw [runSteps_stateless st _ c.steps hns]
      cases hs : Xform.runSteps [] (toX c.nFields c.off r sec nsec) c.steps with
      | error e => rfl
      | ok p =>
        obtain ⟨res, r', st'⟩ := p
        simp only [withSt]
        cases res <;> rfl

/-- **C12 (records are isolated).** On a pipeline without percentage sampling the output of a record
is the same after any sequence of other records as on a fresh pipeline. -/
theorem C12_isolated (c : Cfg) (hns : stepsNS c.steps) (pre : List Bytes) (line : Bytes) (st : Xform.XState)
    (outs : List Out) (h : processAll c st (pre ++ [line]) = .ok outs) :
    ∃ o st', process c [] line 0 0 = .ok (o, st') ∧ outs.getLast? = some o := by
  induction pre generalizing st outs with
  | nil =>
    simp only [List.nil_append, processAll, bind, Except.bind, pure, Except.pure] at h
    rw [process_stateless c st line 0 0 hns] at h
    cases hp : process c [] line 0 0 with
    | error e => rw [hp] at h; simp at h
    | ok p =>
      obtain ⟨o, st'⟩ := p
      rw [hp] at h
      simp only [] at h
      cases h
      exact ⟨o, st', rfl, rfl⟩
  | cons l ls ih =>
    simp only [List.cons_append, processAll, bind, Except.bind, pure, Except.pure] at h
    cases hp : process c st l 0 0 with
    | error e => rw [hp] at h; simp at h
    | ok p =>
      obtain ⟨o1, st1⟩ := p
      rw [hp] at h
      simp only [] at h
      cases hr : processAll c st1 (ls ++ [line]) with
      | error e => rw [hr] at h; simp at h
      | ok rest =>
        rw [hr] at h
        simp only [] at h
        cases h
        obtain ⟨o, st', h1, h2⟩ := ih st1 rest hr
        refine ⟨o, st', h1, ?_⟩
        cases rest with
        | nil => simp at h2
        | cons x xs => simpa using h2

end C12
