import SlogModel.Lemmas.Client
import SlogModel.Lemmas.ClientHealthy
import SlogModel.Gen.Facts

/-!
  C02 — The upstream client confirms a chunk only after its ACK and never loses one.

  All theorems quantify over every finite sequence of actions of the transition system
  `Client.step` — every interleaving of the sender, the acknowledger and the worker loop with every
  outcome of connect / send / ACK read (ok, error, unknown id), every stop moment and every soft
  reconnect — from an initial state whose queue holds distinct chunk ids.

  * `C02_resolved_exactly_once` : at every reachable state each chunk taken from the queue is — with
      multiplicity — exactly one of: confirmed, handed back, or still held (leftovers, chunk in hand,
      acknowledger channel, pending map); no chunk is confirmed or handed back twice; once the client
      has finished nothing is held any more.
  * `C02_dedup_never_removes` : the de-duplication in `newLeftoverChannel` never drops a chunk.
  * `C02_confirmed_after_ack` : every confirmed chunk was completely transmitted (`sendOk`) on a
      connection and afterwards acknowledged on that same connection, by its own id or positionally.
  * `C02_finished_all_resolved` : once the client has finished nothing is held; every taken chunk is
      confirmed or handed back, exactly once.
  * `C02_resend_order` : on every connection the transmitted ids strictly increase (leftovers first).
  * `C02_monitored_trace` : a log of the real client accepted by `Client.monitor` is a run of the
      transition system, so its callbacks resolve every taken chunk exactly once.
  Liveness ("every unacknowledged chunk is retransmitted until acknowledged while the upstream
  behaves") is not a theorem here: see DESIGN.md (partial).
-/

open Client

namespace C02

/-- **C02 (resolved exactly once).** -/
theorem C02_resolved_exactly_once (q : List Nat) (hq : q.Nodup) (acts : List Act) (s : St)
    (h : run (init q) acts = some s) :
    (∀ c, s.taken.count c = (s.confirmed ++ s.handed ++ inflight s).count c) ∧
    (s.confirmed ++ s.handed ++ inflight s).Nodup := by
  have hi := run_inv _ _ acts h (init_inv q hq)
  refine ⟨hi.cons, ?_⟩
  apply nodup_of_count_le _ (s.taken ++ s.queue) hi.nodup
  intro c
  have := hi.cons c
  simp [List.count_append] at this ⊢
  omega

/-- **C02 (confirmed only after its ACK).** Every chunk reported as delivered was completely
transmitted on some connection (`sendOk k c`) and later acknowledged on that same connection — by
its own id, or positionally (an empty id acknowledges the chunk the acknowledger is waiting for) —
immediately before being reported. -/
theorem C02_confirmed_after_ack (q : List Nat) (acts : List Act) (s : St)
    (h : run (init q) acts = some s) : ∀ c ∈ s.confirmed, Justified s.hist c :=
  (run_hinv _ _ acts h ⟨by intro x hx; simp [init] at hx, by intro c hc; simp [init] at hc⟩).just

/-- **C02 (the trace shows each resolution once).** In the event log of every execution the
`consumed` events are exactly the confirmed chunks and the `leftover` events exactly the chunks
handed back; together they contain no id twice (clause of `Client.checkTrace`). -/
theorem C02_trace_resolved_once (q : List Nat) (hq : q.Nodup) (acts : List Act) (s : St)
    (h : run (init q) acts = some s) : (consumedOf s.hist ++ leftoverOf s.hist).Nodup := by
  have he := run_evinv _ _ acts h (by simp [EvInv, init, consumedOf, leftoverOf])
  rw [he.1, he.2]
  have := (C02_resolved_exactly_once q hq acts s h).2
  rw [List.append_assoc] at this
  exact (List.nodup_append.mp (by rw [← List.append_assoc] at this; exact this)).1

theorem run_finv (s s' : St) (acts : List Act) (h : run s acts = some s') (hi : FInv s) : FInv s' := by
  induction acts generalizing s with
  | nil => simp [run] at h; subst h; exact hi
  | cons a as ih =>
    simp only [run] at h
    cases hs : step s a with
    | none => simp [hs] at h
    | some s1 => simp [hs] at h; exact ih s1 h (step_finv s s1 a hs hi)

/-- **C02 (nothing is lost).** Once the client has finished, every chunk it ever received from the
queue is — exactly once — either confirmed or handed back as a leftover; nothing is still held. -/
theorem C02_finished_all_resolved (q : List Nat) (hq : q.Nodup) (acts : List Act) (s : St)
    (h : run (init q) acts = some s) (hf : s.finished = true) :
    inflight s = [] ∧ (∀ c, s.taken.count c = (s.confirmed ++ s.handed).count c) ∧
    (s.confirmed ++ s.handed).Nodup := by
  obtain ⟨h1, h2⟩ := run_finv _ _ acts h (by intro hh; simp [init] at hh) hf
  have hin : inflight s = [] := by simp [inflight, h1, h2]
  obtain ⟨k1, k2⟩ := C02_resolved_exactly_once q hq acts s h
  rw [hin] at k1 k2
  simp only [List.append_nil] at k1 k2
  exact ⟨hin, k1, k2⟩

/-- **C02 (resend order).** On every connection chunks are transmitted in strictly increasing id
order — leftovers of the previous connection first (sorted, de-duplicated), new chunks after — and
every chunk still queued is newer than everything taken so far. -/
theorem C02_resend_order (q : List Nat) (hq : q.Pairwise (· < ·)) (acts : List Act) (s : St)
    (h : run (init q) acts = some s) :
    (∀ k, (sentOn k s.hist).Pairwise (· < ·)) ∧ s.left.Pairwise (· < ·) ∧
    (∀ t ∈ s.taken, ∀ c ∈ s.queue, t < c) := by
  have hn : q.Nodup := hq.imp (fun h => Nat.ne_of_lt h)
  have ho := run_oinv _ _ acts h (init_inv q hn) (init_oinv q hq)
  exact ⟨ho.all, ho.l, ho.tq⟩

/-- the de-duplication in `newLeftoverChannel` never drops a chunk (the merged list never holds a
chunk twice, so it is a pure sort) -/
theorem C02_dedup_never_removes (l : List Nat) (h : l.Nodup) (c : Nat) : c ∈ newLeft l ↔ c ∈ l :=
  newLeft_mem l h c


/-- **C02 (every unacknowledged chunk can be delivered — no wedge).** From every state in which the
client has not finished, whatever faults and interleavings led to it, there is a continuation — the one
a well-behaved upstream allows — after which every chunk the client held unresolved is confirmed and
nothing is left unresolved.  PARTIAL with respect to the property's liveness clause: this is
possibility from every reachable state (no state is a trap), not inevitability under a fairness
assumption on the real scheduler. -/
theorem C02_can_always_deliver (s : St) (hf : s.finished = false) (hok : ∀ x, s.sess = some x → SessOK s x) :
    ∃ acts s', run s acts = some s' ∧ (∀ c ∈ inflight s, c ∈ s'.confirmed) ∧ inflight s' = [] ∧
      s'.queue = s.queue ∧ s'.handed = s.handed ∧ s'.taken = s.taken ∧ s'.finished = false := by
  cases hs : s.sess with
  | none =>
    obtain ⟨s', a, b, c, d, e, f, g, _⟩ := after_connect s hs hf
    refine ⟨_, s', a, ?_, c, d, e, f, g⟩
    intro x hx
    rw [b]
    simp only [inflight, hs, List.append_nil] at hx
    exact List.mem_append_right _ hx
  | some x =>
    obtain ⟨t, t1, t2, t3, t4, t5, t6, t7, t8⟩ := close_session s x hs (hok x hs)
    obtain ⟨s', a, b, c, d, e, f, g, _⟩ := after_connect t t2 (by rw [t5]; exact hf)
    refine ⟨closeSess x ++ ([Act.connectOk] ++ (t.left.flatMap (fun _ => deliverOne) ++ [Act.recoveryDone])), s', ?_, ?_, c, by rw [d, t6], by rw [e, t8], by rw [f, t7], g⟩
    · rw [run_append, t1]; exact a
    · intro y hy
      rw [b]
      exact List.mem_append_right _ ((t3 y).mpr hy)

/-- **C02 (retransmitted, oldest first, until acknowledged — as possibility).** Every reachable state in
which the client has not finished has a continuation in which every chunk it holds unresolved is
retransmitted and acknowledged; in that continuation, as in every run, the chunks go out on each
connection in strictly increasing id order. -/
theorem C02_retransmitted_until_acked (q : List Nat) (hq : q.Pairwise (· < ·)) (acts : List Act) (s : St)
    (h : run (init q) acts = some s) (hf : s.finished = false) :
    ∃ more s', run (init q) (acts ++ more) = some s' ∧ (∀ c ∈ inflight s, c ∈ s'.confirmed) ∧
      inflight s' = [] ∧ (∀ k, (sentOn k s'.hist).Pairwise (· < ·)) := by
  have hn : q.Nodup := hq.imp (fun h => Nat.ne_of_lt h)
  have hi := run_inv _ _ acts h (init_inv q hn)
  obtain ⟨more, s', a, b, c, _⟩ := C02_can_always_deliver s hf hi.sess
  have hr : run (init q) (acts ++ more) = some s' := by rw [run_append, h]; exact a
  exact ⟨more, s', hr, b, c, (C02_resend_order q hq _ s' hr).1⟩

/-! ### once the upstream behaves: every schedule confirms everything, in a bounded number of steps

`C02_can_always_deliver` shows a way out of every state.  The theorems below are about *every* way: from a good state —
between two sessions, or inside a session in which nothing has failed yet — and with an upstream that from then on accepts
connections, takes every chunk and acknowledges the chunk the acknowledger waits for (`C02.healthy`: the eight actions that
remain), every run, under every interleaving of sender and acknowledger, is at most `C02.mu s` steps long (6 per chunk waiting,
less for chunks further along), keeps the state good, and can only stop when leftovers, queue and session are empty — every
chunk taken is then confirmed.  What this leaves out is fairness (that the goroutines do take their steps) and the states that
are not good: a session in which an ACK with an unknown id left a chunk pending behind the acknowledger's back stays as it is
until the session ends (maximum session age, the next error, a reconnect request), which is what `C02_can_always_deliver`
covers. -/

theorem good_between_sessions (s : St) (hf : s.finished = false) (hs : s.sess = none) : Good s :=
  ⟨hf, by intro x hx; rw [hs] at hx; cases hx⟩

/-- **C02 (bounded, schedule-independent delivery once the upstream behaves).** -/
theorem C02_healthy_future_confirms_everything (q : List Nat) (hq : q.Nodup) (pre : List Act) (s : St)
    (h : run (init q) pre = some s) (hg : Good s)
    (acts : List Act) (hacts : ∀ a ∈ acts, a ∈ healthy) (s' : St) (h' : run s acts = some s') :
    acts.length ≤ mu s ∧ Good s' ∧
      ((∀ a ∈ healthy, step s' a = none) →
        s'.left = [] ∧ s'.queue = [] ∧ ∀ c ∈ s'.taken, c ∈ s'.confirmed ∨ c ∈ s'.handed) := by
  obtain ⟨g', hm⟩ := healthy_run acts s s' hacts h' hg
  refine ⟨by omega, g', ?_⟩
  intro hstuck
  obtain ⟨h1, h2, h3⟩ := healthy_stuck s' g' hstuck
  refine ⟨h1, h2, ?_⟩
  have hrun : run (init q) (pre ++ acts) = some s' := by rw [run_append, h]; exact h'
  have hc := (run_inv _ _ (pre ++ acts) hrun (init_inv q hq)).cons
  intro c hc'
  have := hc c
  rw [h3, List.append_nil] at this
  have hpos : 0 < (s'.confirmed ++ s'.handed).count c := by rw [← this]; exact List.count_pos_iff.mpr hc'
  exact List.mem_append.mp (List.count_pos_iff.mp hpos)

/-- … and such a run to the end exists from every good state (it is any healthy run that is continued while it can be) -/
theorem C02_healthy_future_exists : ∀ (n : Nat) (s : St), mu s ≤ n → Good s →
    ∃ acts s', (∀ a ∈ acts, a ∈ healthy) ∧ run s acts = some s' ∧ ∀ a ∈ healthy, step s' a = none
  | n, s, hn, hg => by
    by_cases hst : ∀ a ∈ healthy, step s a = none
    · exact ⟨[], s, by simp, rfl, hst⟩
    · have : ∃ a ∈ healthy, ∃ s1, step s a = some s1 := by
        apply Classical.byContradiction
        intro hcon
        apply hst
        intro a ha
        cases hs : step s a with
        | none => rfl
        | some s1 => exact absurd ⟨a, ha, s1, hs⟩ hcon
      obtain ⟨a, ha, s1, hs⟩ := this
      obtain ⟨g1, m1⟩ := healthy_step s s1 a ha hs hg
      cases n with
      | zero => omega
      | succ n =>
        obtain ⟨acts, s', h1, h2, h3⟩ := C02_healthy_future_exists n s1 (by omega) g1
        exact ⟨a :: acts, s', by intro b hb; simp at hb; rcases hb with rfl | hb; exact ha; exact h1 b hb,
          by simp [run, hs, h2], h3⟩

/-- non-vacuity: after a failed session (leftover 1, chunks 2 and 3 still queued) the client is between sessions — a good
state with `mu = 20` — and a healthy run of 17 steps confirms all three -/
example : (run (init [1, 2, 3]) [.connectOk, .recoveryDone, .takeInput, .sendErr, .ackChanClosed, .finishCollect]).map
    (fun s => (s.sess.isNone, s.left, s.queue, mu s)) = some (true, [1], [2, 3], 20) := by
  simp [run, step, init, newLeft, dedupSorted, List.mergeSort, List.MergeSort.Internal.splitInTwo, mu]

/-! ### the monitor: an accepted trace of the real client inherits the theorems -/

theorem monitor_sound (q taken : List Nat) (obs : List Obs) (h : monitor q taken obs = none) :
    ∃ acts s, run (init q) acts = some s ∧ s.finished = true ∧ obsCons obs = s.confirmed ∧
      obsLeft obs = s.handed ∧ taken = s.taken := by
  unfold monitor at h
  split at h
  · cases h
  · rename_i acts _
    split at h
    · cases h
    · rename_i s hs
      refine ⟨acts, s, hs, ?_⟩
      split at h
      · cases h
      · rename_i h1
        split at h
        · cases h
        · rename_i h2
          split at h
          · cases h
          · rename_i h3
            split at h
            · cases h
            · rename_i h4
              simp at h1 h2 h3 h4
              exact ⟨h1, h2, h3, h4⟩

/-- **C02 on an observed trace.** If `Client.monitor` accepts the log of a run of the real client
(queue of distinct ids `q`, chunks `taken` from it), then the `consumed` and `leftover` callbacks of
that run together name every taken chunk exactly once. -/
theorem C02_monitored_trace (q taken : List Nat) (obs : List Obs) (hq : q.Nodup)
    (h : monitor q taken obs = none) :
    (obsCons obs ++ obsLeft obs).Nodup ∧ ∀ c, taken.count c = (obsCons obs ++ obsLeft obs).count c := by
  obtain ⟨acts, s, hr, hf, h1, h2, h3⟩ := monitor_sound q taken obs h
  obtain ⟨_, k1, k2⟩ := C02_finished_all_resolved q hq acts s hr hf
  rw [h1, h2, h3]
  exact ⟨k2, k1⟩


/-! ### fact obligations (Tie B): the source still has the shape the transition system transcribes -/

/-- acknowledger: insert into the pending map, read the ACK, `continue` on an unknown id, only then delete and report -/
theorem C02_fact_acker_order : Facts.client_acker_order =
    ["insert:pendingChunksByID[chunk.ID]", "read", "continue", "delete:pendingChunksByID:nextChunk.ID", "callback:nextChunk"] := by decide
theorem C02_fact_acker_handover : Facts.client_acker_handover = ["session.unacked.Store", "session.ackerEnded.Signal"] := by decide
/-- the four leftover sources of `finishCollect` -/
theorem C02_fact_leftover_sources : Facts.client_leftover_sources =
    ["fromPrevious...", "fromAckerChannel...", "fromAckerPending...", "*session.lastChunk"] := by decide
theorem C02_fact_leftover_sort : Facts.client_leftover_sort = ["return chunks[i].ID < chunks[j].ID", "if c.ID == lastChunkID"] := by decide
/-- `lastChunk` is set when a chunk is taken and cleared only after `sendChunk` succeeded (`pushAck`) -/
theorem C02_fact_last_chunk : Facts.client_last_chunk_assignments =
    ["resendLeftovers:&chunk", "resendLeftovers:nil(after-send=true,after-failure-return=true)",
     "processInput:&chunk", "processInput:nil(after-send=true,after-failure-return=true)"] := by decide
theorem C02_fact_acker_cap : Facts.client_acker_chan_cap = ["defs.ForwarderMaxPendingChunksForAck"] ∧
    Facts.client_acker_cap_value = some Client.ackCap := by decide
theorem C02_fact_worker_final : Facts.client_worker_final =
    ["defer client.stopped.Signal", "defer client.onFinished", "each-leftover client.onChunkLeft"] := by decide
theorem C02_fact_callback_sites : Facts.client_callback_sites =
    [("session.onChunkAcked", 1), ("client.onChunkAcked", 0), ("client.onChunkLeft", 1), ("client.onFinished", 1)] := by decide

/-! ### non-vacuity: a concrete execution with a failed send, a reconnect, a resend and a stop -/

def demoActs : List Act :=
  [.connectOk, .recoveryDone, .takeInput, .sendOk, .pushAck, .ackRecv, .takeInput, .sendErr, .ackErr,
   .finishCollect, .connectOk, .takeLeft, .sendOk, .pushAck, .ackRecv, .ackOk none, .takeLeft, .sendOk,
   .stopReq, .pushStop, .ackChanClosed, .finishCollect, .workerFinal]

example : (run (init [1, 2, 3]) demoActs).map (fun s => (s.confirmed, s.handed, s.finished, s.queue)) =
    some ([1], [2], true, [3]) := by
  simp [demoActs, run, step, init, newLeft, dedupSorted, ackCap, List.mergeSort, List.MergeSort.Internal.splitInTwo]

end C02
