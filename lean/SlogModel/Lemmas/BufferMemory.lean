import SlogModel.Lemmas.Buffer

/-!
  Memory invariant of the buffer model at quiescent points: every queued entry is unloaded, so the
  loaded chunks inside the buffer are the output window plus at most one in the feeder's hand —
  helper lemmas for `Props/C03.lean`.
-/

open Buffer
namespace C03

def AllUnloaded (s : St) : Prop := ∀ e ∈ s.inQ, e.data = none

/-- the feeder cannot move: nothing queued, or blocked on the full window with a chunk in hand -/
def Quiet (s : St) : Prop := (s.hand = none → s.inQ = []) ∧ (s.hand ≠ none → s.cfg.memCap ≤ s.outW.length)

def handCount (s : St) : Nat := (handEntry s.hand).length
def work (s : St) : Nat := 2 * s.inQ.length + handCount s

theorem feederStep_none (s : St) (h : feederStep s = none) : Quiet s := by
  unfold feederStep at h
  split at h
  · rename_i q d hh
    split at h
    · cases h
    · rename_i hlt
      refine ⟨fun hn => ?_, fun _ => by omega⟩
      rw [hn] at hh; cases hh
  · rename_i hh
    split at h
    · rename_i hq
      exact ⟨fun _ => hq, fun hn => absurd hh hn⟩
    · simp only at h
      split at h
      · split at h <;> cases h
      · split at h <;> cases h

theorem feederStep_work (s s' : St) (h : feederStep s = some s') : work s' < work s := by
  rcases feederStep_cases s s' h with ⟨q, d, h1, _, rfl⟩ | ⟨e, rest, disk, c, h1, h2, rfl⟩ | ⟨e, rest, d, c, h1, h2, rfl⟩
  · simp only [work, handCount, handEntry, h1, List.length_cons, List.length_nil]; omega
  · simp only [work, handCount, handEntry, h1, h2, List.length_cons, List.length_nil]; omega
  · simp only [work, handCount, handEntry, h1, h2, List.length_cons, List.length_nil]; omega

theorem settle_quiet : ∀ (n : Nat) (s : St), work s < n → Quiet (settle n s)
  | 0, _, h => by omega
  | n + 1, s, h => by
    unfold settle
    cases hf : feederStep s with
    | none => exact feederStep_none s hf
    | some s' =>
      have := feederStep_work s s' hf
      exact settle_quiet n s' (by omega)

theorem quiesce_quiet (s : St) : Quiet (quiesce s) := by
  unfold quiesce
  apply settle_quiet
  unfold work handCount handEntry
  split <;> simp <;> omega

theorem feederStep_unloaded (s s' : St) (h : feederStep s = some s') (hu : AllUnloaded s) : AllUnloaded s' := by
  rcases feederStep_cases s s' h with ⟨q, d, h1, _, rfl⟩ | ⟨e, rest, disk, c, h1, h2, rfl⟩ | ⟨e, rest, d, c, h1, h2, rfl⟩
  · exact hu
  · intro x hx; exact hu x (by rw [h2]; exact List.mem_cons_of_mem _ hx)
  · intro x hx; exact hu x (by rw [h2]; exact List.mem_cons_of_mem _ hx)

def Small (s : St) : Prop := s.inQ.length + handCount s ≤ 1

theorem feederStep_small (s s' : St) (h : feederStep s = some s') (hu : Small s) : Small s' := by
  rcases feederStep_cases s s' h with ⟨q, d, h1, _, rfl⟩ | ⟨e, rest, disk, c, h1, h2, rfl⟩ | ⟨e, rest, d, c, h1, h2, rfl⟩
  · simp only [Small, handCount, handEntry, h1, List.length_cons, List.length_nil] at hu ⊢; omega
  · simp only [Small, handCount, handEntry, h1, h2, List.length_cons, List.length_nil] at hu ⊢; omega
  · simp only [Small, handCount, handEntry, h1, h2, List.length_cons, List.length_nil] at hu ⊢; omega

theorem quiet_small_unloaded (s : St) (hq : Quiet s) (hs : Small s) : AllUnloaded s := by
  have : s.inQ = [] := by
    cases hh : s.hand with
    | none => exact hq.1 hh
    | some p =>
      simp [Small, handCount, handEntry, hh] at hs
      exact hs
  intro e he; rw [this] at he; cases he

theorem unload_unloaded (s : St) (e : Entry) (hs : e.saved = false) (hok : (unload s e).2.2 = true) :
    (unload s e).2.1.data = none := by
  unfold unload at hok ⊢
  simp only [hs, Bool.false_eq_true, if_false] at hok ⊢
  split
  · rename_i hd; simp [hd] at hok ⊢
  · rename_i d hd
    simp only [hd] at hok
    split
    · rename_i h1; simp [h1] at hok
    · rename_i h1
      simp only [h1, if_false] at hok
      split
      · rename_i h2; simp [h2] at hok
      · rfl

/-- `accept` before the feeder runs: either every queued entry is still unloaded, or the queue was
empty and idle and now holds the one new (loaded) chunk -/
theorem accept_mem (s : St) (id : Nat) (data : Bytes) (hq : Quiet s) (hu : AllUnloaded s) :
    AllUnloaded (accept s id data) ∨ Small (accept s id data) := by
  unfold accept
  simp only
  split
  · left
    cases hx : unload
      { s with accepted := s.accepted ++ [(id, data)], c := { s.c with pending := s.c.pending + 1, inP := s.c.inP + 1 } }
      { id := id, data := some data, saved := false } with
    | mk s1 r =>
      cases r with
      | mk e1 ok =>
        have hfr := unload_frame
          { s with accepted := s.accepted ++ [(id, data)], c := { s.c with pending := s.c.pending + 1, inP := s.c.inP + 1 } }
          { id := id, data := some data, saved := false }
        have hun := unload_unloaded
          { s with accepted := s.accepted ++ [(id, data)], c := { s.c with pending := s.c.pending + 1, inP := s.c.inP + 1 } }
          { id := id, data := some data, saved := false } rfl
        rw [hx] at hfr hun
        obtain ⟨disk, c, hfr, _⟩ := hfr
        simp only at hfr hun
        unfold unloadOrDrop
        rw [hx]
        simp only
        cases ok with
        | true =>
          simp only [if_true]
          split
          · rw [hfr]
            intro x hx'
            simp only [List.mem_append, List.mem_singleton] at hx'
            rcases hx' with h | rfl
            · exact hu x h
            · exact hun rfl
          · obtain ⟨c', hd⟩ := onDropped_frame s1 e1
            rw [hd, hfr]; exact hu
        | false =>
          simp only [Bool.false_eq_true, if_false]
          obtain ⟨c', hd⟩ := onDropped_frame s1 e1
          rw [hd, hfr]; exact hu
  · rename_i hlt
    right
    -- the window is below half its capacity, so the feeder is not blocked: the queue is empty
    have hnone : s.hand = none := by
      cases hh : s.hand with
      | none => rfl
      | some p =>
        have := hq.2 (by rw [hh]; simp)
        simp at hlt
        omega
    have hempty := hq.1 hnone
    split
    · simp [Small, handCount, handEntry, hnone, hempty]
    · obtain ⟨c', hd⟩ := onDropped_frame { s with accepted := s.accepted ++ [(id, data)], c := { s.c with pending := s.c.pending + 1, inT := s.c.inT + 1 } } { id := id, data := some data, saved := false }
      rw [hd]
      simp [Small, handCount, handEntry, hnone, hempty]

structure MInv (s : St) : Prop where
  quiet : Quiet s
  unl : AllUnloaded s

theorem quiesce_minv (s : St) (h : AllUnloaded s ∨ Small s) : MInv (quiesce s) := by
  refine ⟨quiesce_quiet s, ?_⟩
  rcases h with h | h
  · exact settle_ind AllUnloaded feederStep_unloaded _ s h
  · exact quiet_small_unloaded _ (quiesce_quiet s) (settle_ind Small feederStep_small _ s h)

theorem step_minv (s s' : St) (o : Op) (h : step s o = some s') (hm : MInv s) : MInv s' := by
  cases o with
  | accept id data =>
    simp only [step] at h
    split at h
    · cases h
    · cases h; exact quiesce_minv _ (accept_mem s id data hm.quiet hm.unl)
  | take =>
    simp only [step] at h
    split at h
    · cases h
    · split at h
      · cases h
      · cases h; exact quiesce_minv _ (Or.inl hm.unl)
  | confirm id =>
    obtain ⟨e, disk, c, _, _, rfl | rfl | rfl⟩ := resolve_cases s s' id (Or.inl h) <;> exact ⟨hm.quiet, hm.unl⟩
  | handBack id =>
    obtain ⟨e, disk, c, _, _, rfl | rfl | rfl⟩ := resolve_cases s s' id (Or.inr h) <;> exact ⟨hm.quiet, hm.unl⟩
  | destroy =>
    simp only [step] at h
    split at h
    · cases h
    · cases h
      obtain ⟨a1, a2, a3, a4, a5, a6, a7, a8, a9⟩ := saveAll_counts (s.inQ ++ handEntry s.hand ++ s.outW)
        { s with inQ := [], hand := none, outW := [], destroyed := true }
      refine ⟨⟨?_, ?_⟩, ?_⟩
      · intro _; rw [a1]
      · intro hn; rw [a2] at hn; exact absurd rfl hn
      · intro e he; rw [a1] at he; cases he
  | finish =>
    simp only [step] at h
    split at h
    · cases h; exact hm
    · cases h
  | extZero id =>
    simp only [step] at h
    split at h
    · cases h; exact ⟨hm.quiet, hm.unl⟩
    · cases h
  | extRemove id =>
    simp only [step] at h
    split at h
    · cases h; exact ⟨hm.quiet, hm.unl⟩
    · cases h

theorem run_minv : ∀ (ops : List Op) (s s' : St), run s ops = some s' → MInv s → MInv s'
  | [], s, s', h, hf => by simp [run] at h; subst h; exact hf
  | o :: os, s, s', h, hf => by
    simp only [run] at h
    cases hs : step s o with
    | none => simp [hs] at h
    | some s1 => simp [hs] at h; exact run_minv os s1 s' h (step_minv s s1 o hs hf)

theorem recFold_unloaded (cfg : Cfg) : ∀ (files : List (Nat × Bytes)) (s : St), AllUnloaded s →
    AllUnloaded (files.foldl (recStep cfg) s)
  | [], _, h => h
  | f :: fs, s, h => by
    simp only [List.foldl_cons]
    apply recFold_unloaded cfg fs
    unfold recStep
    split
    · intro e he
      simp only [List.mem_append, List.mem_singleton] at he
      rcases he with he | rfl
      · exact h e he
      · rfl
    · exact h

theorem recover_minv (cfg : Cfg) (disk : List (Nat × Bytes)) : MInv (recover cfg disk) := by
  unfold recover
  apply quiesce_minv
  left
  apply recFold_unloaded
  intro e he; simp [start] at he

end C03
