import SlogModel.Lemmas.BufferSched
import SlogModel.Lemmas.BufferData

/-! the data invariant (byte-for-byte identity) for every schedule of the feeder -/

open Buffer
namespace C03

theorem stepRaw_dinv (s s' : St) (o : Op) (h : stepRaw s o = some s') (hc : Conserved s) (hok : okOp s o) (hd : DInv s) : DInv s' := by
  cases o with
  | accept id data =>
    simp only [stepRaw] at h
    split at h
    · cases h
    · cases h
      obtain ⟨disk, c, hsub, hcase⟩ := accept_casesD s id data
      have hbase := dinv_accept s hd id data hok.2 disk c hsub
      rcases hcase with ⟨e, hid, hdata, he⟩ | he
      · rw [he]
        refine ⟨?_, hbase.w, hbase.h, hbase.hand, hbase.disk, hbase.tk⟩
        intro e' he' d' hd'
        rcases List.mem_append.mp he' with h1 | h1
        · exact hbase.q e' h1 d' hd'
        · simp at h1; subst h1
          rcases hdata with h2 | h2
          · rw [h2] at hd'; cases hd'; rw [hid]; simp
          · rw [h2] at hd'; cases hd'
      · rw [he]
        exact ⟨hbase.q, hbase.w, hbase.h, hbase.hand, hbase.disk, hbase.tk⟩
  | take =>
    simp only [stepRaw] at h
    split at h
    · cases h
    · split at h
      · cases h
      · rename_i e rest ho
        cases h
        obtain ⟨d, hd1, hd2⟩ := hd.w e (by rw [ho]; simp)
        refine ⟨hd.q, ?_, ?_, hd.hand, hd.disk, ?_⟩
        · intro e' he'; exact hd.w e' (by rw [ho]; exact List.mem_cons_of_mem _ he')
        · intro e' he' d' hd'
          rcases List.mem_append.mp he' with h1 | h1
          · exact hd.h e' h1 d' hd'
          · simp at h1; subst h1; rw [hd1] at hd'; cases hd'; exact hd2
        · intro p hp
          rcases List.mem_append.mp hp with h1 | h1
          · exact hd.tk p h1
          · simp at h1; subst h1; simp [hd1]; exact hd2
  | confirm id => exact step_dinv s s' (.confirm id) h hc hok hd
  | handBack id => exact step_dinv s s' (.handBack id) h hc hok hd
  | destroy => exact step_dinv s s' .destroy h hc hok hd
  | finish => exact step_dinv s s' .finish h hc hok hd
  | extZero id => exact step_dinv s s' (.extZero id) h hc hok hd
  | extRemove id => exact step_dinv s s' (.extRemove id) h hc hok hd

theorem runI_dinv : ∀ (as : List IAct) (s s' : St), runI s as = some s' → CInv s → LegalI s as → DInv s → DInv s'
  | [], s, s', h, _, _, hd => by simp [runI] at h; subst h; exact hd
  | a :: as, s, s', h, hi, hl, hd => by
    simp only [runI] at h
    cases hs : stepI s a with
    | none => simp [hs] at h
    | some s1 =>
      simp [hs] at h
      have hi1 := stepI_cinv s s1 a hs hi hl.1
      cases a with
      | op o => exact runI_dinv as s1 s' h hi1 (hl.2 s1 hs) (stepRaw_dinv s s1 o hs hi.cons hl.1 hd)
      | feed => exact runI_dinv as s1 s' h hi1 (hl.2 s1 hs) (feederStep_dinv s s1 hs hi.cons hd)

theorem recoverRaw_dinv (cfg : Cfg) (disk : List (Nat × Bytes)) (hd : (disk.map (·.1)).Nodup) : DInv (recoverRaw cfg disk) := by
  obtain ⟨a1, a2, a3, a4⟩ := recFold_D cfg (scanned cfg disk) (start cfg disk) (by intro e he; simp [start] at he) (by intro p hp; simp [start] at hp)
  obtain ⟨b1, b2, b3, b4, b5, b6, b7, _⟩ :=
    recFold_inv cfg (scanned cfg disk) (start cfg disk) rfl rfl rfl rfl rfl rfl (by simp [accIds, start])
  unfold recoverRaw
  have hacc : ∀ p ∈ ((scanned cfg disk).foldl (recStep cfg) (start cfg disk)).accepted, p ∈ disk := by
    intro p hp
    rcases a2 p hp with h | h
    · simpa [start] using h
    · exact scanned_sub cfg disk p h
  refine ⟨?_, ?_, ?_, ?_, ?_, ?_⟩
  · intro e he d hd'; rw [a1 e he] at hd'; cases hd'
  · intro e he; rw [b2] at he; cases he
  · intro e he; rw [b3] at he; cases he
  · intro q d hq; rw [b1] at hq; cases hq
  · intro p hp hacc'
    rw [a3] at hp
    simp only [start] at hp
    obtain ⟨p', hp', hid⟩ := List.mem_map.mp hacc'
    have hp'd := hacc p' hp'
    have : p' = p := eq_of_nodup_keys disk hd p' p hp'd hp hid
    rw [← this]; exact hp'
  · intro p hp; rw [a4] at hp; simp [start] at hp

end C03
