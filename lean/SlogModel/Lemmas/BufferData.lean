import SlogModel.Lemmas.Buffer

/-!
  Data invariant of the buffer model: files and loaded chunks of accepted ids hold the accepted bytes
  (helper lemmas for `Props/C03.lean`).
-/

open Buffer
namespace C03

/-- every file, and every loaded chunk anywhere in the buffer or at the consumer, of an accepted id holds the accepted bytes -/
structure DInv (s : St) : Prop where
  q : ∀ e ∈ s.inQ, ∀ d, e.data = some d → (e.id, d) ∈ s.accepted
  w : ∀ e ∈ s.outW, ∃ d, e.data = some d ∧ (e.id, d) ∈ s.accepted
  h : ∀ e ∈ s.held, ∀ d, e.data = some d → (e.id, d) ∈ s.accepted
  hand : ∀ q d, s.hand = some (q, d) → (q.id, d) ∈ s.accepted ∧ ∀ d', q.data = some d' → (q.id, d') ∈ s.accepted
  disk : ∀ p ∈ s.disk, p.1 ∈ accIds s → p ∈ s.accepted
  tk : ∀ p ∈ s.taken, p ∈ s.accepted

theorem mem_of_lookup (disk : List (Nat × Bytes)) (id : Nat) (d : Bytes) (h : lookup disk id = some d) : (id, d) ∈ disk := by
  unfold lookup at h
  cases hf : disk.find? (fun p => p.1 = id) with
  | none => simp [hf] at h
  | some p =>
    simp [hf] at h
    have h1 := List.find?_some hf
    have hm := List.mem_of_find?_eq_some hf
    obtain ⟨a, b⟩ := p
    simp at h1 h
    subst h1; subst h
    exact hm

theorem unload_disk (s : St) (e : Entry) : ∀ p ∈ (unload s e).1.disk, p ∈ s.disk ∨ ∃ d, e.data = some d ∧ p = (e.id, d) := by
  intro p hp
  unfold unload at hp
  split at hp
  · exact Or.inl hp
  · split at hp
    · exact Or.inl hp
    · rename_i d hd
      split at hp
      · exact Or.inl hp
      · split at hp
        · exact Or.inl hp
        · simp only [] at hp
          rcases List.mem_append.mp hp with h | h
          · left; unfold remove at h; exact (List.mem_filter.mp h).1
          · right; simp at h; exact ⟨d, hd, h⟩

theorem unload_entry (s : St) (e : Entry) :
    ((unload s e).2.1 = e) ∨ ((unload s e).2.1 = { e with data := none, saved := true }) := by
  unfold unload
  split
  · left; rfl
  · split
    · left; rfl
    · split
      · left; rfl
      · split
        · left; rfl
        · right; rfl

theorem removeChunk_disk (s : St) (e : Entry) : ∀ p ∈ (removeChunk s e).disk, p ∈ s.disk := by
  intro p hp
  unfold removeChunk at hp
  split at hp
  · exact hp
  · split at hp
    · exact hp
    · split at hp
      · exact hp
      · simp only [] at hp; unfold remove at hp; exact (List.mem_filter.mp hp).1

theorem dinv_disk (s : St) (hd : DInv s) (disk' : List (Nat × Bytes)) (c' : Counters)
    (hsub : ∀ p ∈ disk', p ∈ s.disk ∨ p ∈ s.accepted) : DInv { s with disk := disk', c := c' } := by
  refine ⟨hd.q, hd.w, hd.h, hd.hand, ?_, hd.tk⟩
  intro p hp hacc
  rcases hsub p hp with h | h
  · exact hd.disk p h hacc
  · exact h

/-- the feeder's three outcomes, with what they do to the directory and where the loaded bytes come from -/
theorem feederStep_casesD (s s' : St) (h : feederStep s = some s') :
    (∃ q d, s.hand = some (q, d) ∧ s' = { s with hand := none, outW := s.outW ++ [{ q with data := some d }] }) ∨
    (∃ e rest disk c, s.hand = none ∧ s.inQ = e :: rest ∧ (∀ p ∈ disk, p ∈ s.disk) ∧
        s' = { s with inQ := rest, disk := disk, c := c, droppedG := s.droppedG ++ [e.id] }) ∨
    (∃ e rest d c, s.hand = none ∧ s.inQ = e :: rest ∧ (e.data = some d ∨ lookup s.disk e.id = some d) ∧
        s' = { s with inQ := rest, c := c, hand := some (e, d) }) := by
  unfold feederStep at h
  split at h
  · rename_i q d hh
    split at h
    · cases h; exact Or.inl ⟨q, d, hh, rfl⟩
    · cases h
  · rename_i hh
    split at h
    · cases h
    · rename_i e rest hq
      simp only at h
      split at h
      · split at h
        · obtain ⟨c', hd⟩ := onDropped_frame { s with inQ := rest, c := { (if e.data.isSome = true then { s.c with qT := s.c.qT - 1 } else { s.c with qP := s.c.qP - 1 }) with ioErr := (if e.data.isSome = true then { s.c with qT := s.c.qT - 1 } else { s.c with qP := s.c.qP - 1 }).ioErr + 1 } } e
          rw [hd] at h; cases h
          exact Or.inr (Or.inl ⟨e, rest, s.disk, c', hh, hq, fun p hp => hp, rfl⟩)
        · obtain ⟨c', hd⟩ := onDropped_frame { s with inQ := rest, c := (if e.data.isSome = true then { s.c with qT := s.c.qT - 1 } else { s.c with qP := s.c.qP - 1 }) } e
          rw [hd] at h; cases h
          exact Or.inr (Or.inl ⟨e, rest, s.disk, c', hh, hq, fun p hp => hp, rfl⟩)
      · rename_i d hl
        have hsrc : e.data = some d ∨ lookup s.disk e.id = some d := by
          cases hed : e.data with
          | some d0 => simp [hed] at hl; left; rw [hl]
          | none =>
            simp [hed] at hl
            right; exact hl.2
        split at h
        · have hsub := removeChunk_disk { s with inQ := rest, c := (if e.data.isSome = true then { s.c with qT := s.c.qT - 1 } else { s.c with qP := s.c.qP - 1 }) } { e with data := some d }
          obtain ⟨disk', c', hr⟩ := removeChunk_frame { s with inQ := rest, c := (if e.data.isSome = true then { s.c with qT := s.c.qT - 1 } else { s.c with qP := s.c.qP - 1 }) } { e with data := some d }
          rw [hr] at h hsub; cases h
          exact Or.inr (Or.inl ⟨e, rest, disk', _, hh, hq, hsub, rfl⟩)
        · cases h
          exact Or.inr (Or.inr ⟨e, rest, d, _, hh, hq, hsrc, rfl⟩)

theorem live_in_acc (s : St) (hc : Conserved s) (i : Nat) (h : i ∈ liveIds s) : i ∈ accIds s := by
  have h1 := hc i
  have : 1 ≤ (liveIds s ++ resolved s).count i := List.count_pos_iff.mpr (List.mem_append_left _ h)
  exact List.count_pos_iff.mp (by omega)

theorem feederStep_dinv (s s' : St) (h : feederStep s = some s') (hc : Conserved s) (hd : DInv s) : DInv s' := by
  rcases feederStep_casesD s s' h with ⟨q, d, hh, rfl⟩ | ⟨e, rest, disk, c, hh, hq, hsub, rfl⟩ | ⟨e, rest, d, c, hh, hq, hsrc, rfl⟩
  · refine ⟨hd.q, ?_, hd.h, ?_, hd.disk, hd.tk⟩
    · intro e he
      rcases List.mem_append.mp he with h1 | h1
      · exact hd.w e h1
      · simp at h1; subst h1
        exact ⟨d, rfl, (hd.hand q d hh).1⟩
    · intro q' d' hq'
      cases hq'
  · refine ⟨?_, hd.w, hd.h, ?_, ?_, hd.tk⟩
    · intro e' he' d' hd'
      exact hd.q e' (by rw [hq]; exact List.mem_cons_of_mem _ he') d' hd'
    · intro q' d' hq'
      rw [hh] at hq'
      cases hq'
    · intro p hp hacc
      exact hd.disk p (hsub p hp) hacc
  · refine ⟨?_, hd.w, hd.h, ?_, hd.disk, hd.tk⟩
    · intro e' he' d' hd'
      exact hd.q e' (by rw [hq]; exact List.mem_cons_of_mem _ he') d' hd'
    · intro q' d' hq'
      simp only [Option.some.injEq, Prod.mk.injEq] at hq'
      obtain ⟨h1, h2⟩ := hq'
      subst h1; subst h2
      refine ⟨?_, fun d' hd' => hd.q e (by rw [hq]; simp) d' hd'⟩
      rcases hsrc with h1 | h1
      · exact hd.q e (by rw [hq]; simp) d h1
      · have hm := mem_of_lookup _ _ _ h1
        have hlive : e.id ∈ liveIds s := by simp [liveIds, hq]
        exact hd.disk (e.id, d) hm (live_in_acc s hc _ hlive)

theorem unloadOrDrop_D (s : St) (e : Entry) :
    ∃ disk c, (∀ p ∈ disk, p ∈ s.disk ∨ ∃ d, e.data = some d ∧ p = (e.id, d)) ∧
      ((∃ e', (unloadOrDrop s e) = ({ s with disk := disk, c := c }, some e') ∧ e'.id = e.id ∧ (e' = e ∨ e'.data = none)) ∨
       (unloadOrDrop s e) = ({ s with disk := disk, c := c, droppedG := s.droppedG ++ [e.id] }, none)) := by
  obtain ⟨disk, c, h1, h2⟩ := unload_frame s e
  have hsub := unload_disk s e
  have hent := unload_entry s e
  unfold unloadOrDrop
  cases hu : unload s e with
  | mk s1 r =>
    cases r with
    | mk e1 ok =>
      rw [hu] at h1 h2 hsub hent
      simp only at h1 h2 hsub hent ⊢
      subst h1
      cases ok with
      | true =>
        refine ⟨disk, c, hsub, Or.inl ⟨e1, by simp, h2, ?_⟩⟩
        rcases hent with h | h
        · left; exact h
        · right; rw [h]
      | false =>
        obtain ⟨c', hd⟩ := onDropped_frame { s with disk := disk, c := c } e1
        refine ⟨disk, c', hsub, Or.inr ?_⟩
        simp only [Bool.false_eq_true, if_false]
        rw [hd]
        simp [h2]

theorem accept_casesD (s : St) (id : Nat) (data : Bytes) :
    ∃ disk c, (∀ p ∈ disk, p ∈ s.disk ∨ p = (id, data)) ∧
      ((∃ e, e.id = id ∧ (e.data = some data ∨ e.data = none) ∧ accept s id data =
          { s with accepted := s.accepted ++ [(id, data)], disk := disk, c := c, inQ := s.inQ ++ [e] }) ∨
       accept s id data = { s with accepted := s.accepted ++ [(id, data)], disk := disk, c := c, droppedG := s.droppedG ++ [id] }) := by
  unfold accept
  simp only
  split
  · obtain ⟨disk, c, hsub, hu⟩ := unloadOrDrop_D
      { s with accepted := s.accepted ++ [(id, data)], c := { s.c with pending := s.c.pending + 1, inP := s.c.inP + 1 } }
      { id := id, data := some data, saved := false }
    have hsub' : ∀ p ∈ disk, p ∈ s.disk ∨ p = (id, data) := by
      intro p hp
      rcases hsub p hp with h | ⟨d, h1, h2⟩
      · exact Or.inl h
      · simp at h1; subst h1; exact Or.inr h2
    rcases hu with ⟨e', hu, hid, hdata⟩ | hu
    · rw [hu]
      simp only
      have hd' : e'.data = some data ∨ e'.data = none := by
        rcases hdata with h | h
        · left; rw [h]
        · right; exact h
      split
      · exact ⟨disk, _, hsub', Or.inl ⟨e', hid, hd', rfl⟩⟩
      · obtain ⟨c', hd⟩ := onDropped_frame { s with accepted := s.accepted ++ [(id, data)], disk := disk, c := c } e'
        rw [hd]
        exact ⟨disk, c', hsub', Or.inr (by simp [hid])⟩
    · rw [hu]
      exact ⟨disk, c, hsub', Or.inr rfl⟩
  · split
    · exact ⟨s.disk, _, fun p hp => Or.inl hp, Or.inl ⟨_, rfl, Or.inl rfl, rfl⟩⟩
    · obtain ⟨c', hd⟩ := onDropped_frame { s with accepted := s.accepted ++ [(id, data)], c := { s.c with pending := s.c.pending + 1, inT := s.c.inT + 1 } } { id := id, data := some data, saved := false }
      rw [hd]
      exact ⟨s.disk, c', fun p hp => Or.inl hp, Or.inr rfl⟩

/-- growing `accepted` by a chunk whose id is on no file keeps the invariant -/
theorem dinv_accept (s : St) (hd : DInv s) (id : Nat) (data : Bytes) (hfresh : id ∉ s.disk.map (·.1))
    (disk : List (Nat × Bytes)) (c : Counters) (hsub : ∀ p ∈ disk, p ∈ s.disk ∨ p = (id, data)) :
    DInv { s with accepted := s.accepted ++ [(id, data)], disk := disk, c := c } := by
  refine ⟨?_, ?_, ?_, ?_, ?_, ?_⟩
  · intro e he d hd'; exact List.mem_append_left _ (hd.q e he d hd')
  · intro e he; obtain ⟨d, h1, h2⟩ := hd.w e he; exact ⟨d, h1, List.mem_append_left _ h2⟩
  · intro e he d hd'; exact List.mem_append_left _ (hd.h e he d hd')
  · intro q d hq
    exact ⟨List.mem_append_left _ (hd.hand q d hq).1, fun d' hd' => List.mem_append_left _ ((hd.hand q d hq).2 d' hd')⟩
  · intro p hp hacc
    rcases hsub p hp with h | h
    · simp only [accIds, List.map_append, List.map_cons, List.map_nil, List.mem_append, List.mem_singleton] at hacc
      rcases hacc with h1 | h1
      · exact List.mem_append_left _ (hd.disk p h h1)
      · exfalso; apply hfresh; rw [← h1]; exact List.mem_map.mpr ⟨p, h, rfl⟩
    · rw [h]; simp
  · intro p hp; exact List.mem_append_left _ (hd.tk p hp)

theorem settle_dinv : ∀ (n : Nat) (s : St), Conserved s → DInv s → DInv (settle n s)
  | 0, _, _, h => h
  | n + 1, s, hc, h => by
    unfold settle
    cases hf : feederStep s with
    | none => exact h
    | some s' => exact settle_dinv n s' (feederStep_conserved s s' hf hc).1 (feederStep_dinv s s' hf hc h)

theorem saveOne_D (s : St) (e : Entry) (hd : DInv s) (he : ∀ d, e.data = some d → (e.id, d) ∈ s.accepted) : DInv (saveOne s e) := by
  obtain ⟨disk, c, hsub, hu⟩ := unloadOrDrop_D s e
  have hsub' : ∀ p ∈ disk, p ∈ s.disk ∨ p ∈ s.accepted := by
    intro p hp
    rcases hsub p hp with h | ⟨d, h1, h2⟩
    · exact Or.inl h
    · right; rw [h2]; exact he d h1
  unfold saveOne
  rcases hu with ⟨e', hu, _, _⟩ | hu
  · rw [hu]
    have := dinv_disk s hd disk c hsub'
    exact ⟨this.q, this.w, this.h, this.hand, this.disk, this.tk⟩
  · rw [hu]
    have := dinv_disk s hd disk c hsub'
    exact ⟨this.q, this.w, this.h, this.hand, this.disk, this.tk⟩

theorem saveOne_acc (s : St) (e : Entry) : (saveOne s e).accepted = s.accepted := by
  obtain ⟨disk, c, h | h⟩ := saveOne_frame s e <;> rw [h]

theorem saveAll_D : ∀ (es : List Entry) (s : St), DInv s → (∀ e ∈ es, ∀ d, e.data = some d → (e.id, d) ∈ s.accepted) → DInv (saveAll s es)
  | [], _, hd, _ => hd
  | e :: es, s, hd, he => by
    simp only [saveAll, List.foldl_cons]
    have h1 := saveOne_D s e hd (he e (by simp))
    have := saveAll_D es (saveOne s e) h1 (by
      intro e' he' d hd'
      rw [saveOne_acc]
      exact he e' (List.mem_cons_of_mem _ he') d hd')
    simpa [saveAll] using this

theorem step_dinv (s s' : St) (o : Op) (h : step s o = some s') (hc : Conserved s) (hok : okOp s o) (hd : DInv s) : DInv s' := by
  cases o with
  | accept id data =>
    simp only [step] at h
    split at h
    · cases h
    · cases h
      obtain ⟨a1, _, _, _⟩ := accept_conserved s id data hc
      apply settle_dinv _ _ a1
      obtain ⟨disk, c, hsub, hcase⟩ := accept_casesD s id data
      have hbase := dinv_accept s hd id data hok.2 disk c hsub
      rcases hcase with ⟨e, hid, hdata, he⟩ | he
      · rw [he]
        refine ⟨?_, hbase.w, hbase.h, hbase.hand, hbase.disk, hbase.tk⟩
        intro e' he' d' hd'
        rcases List.mem_append.mp he' with h1 | h1
        · exact hbase.q e' h1 d' hd'
        · simp at h1; subst h1
          rcases hdata with h2 | h2
          · rw [h2] at hd'; cases hd'; rw [hid]; simp
          · rw [h2] at hd'; cases hd'
      · rw [he]
        exact ⟨hbase.q, hbase.w, hbase.h, hbase.hand, hbase.disk, hbase.tk⟩
  | take =>
    simp only [step] at h
    split at h
    · cases h
    · split at h
      · cases h
      · rename_i e rest ho
        cases h
        have a1 : Conserved { s with outW := rest, held := s.held ++ [e], taken := s.taken ++ [(e.id, e.data.getD [])] } := by
          intro i
          have := hc i
          rw [count_live] at this ⊢
          simp [ho, accIds, List.count_append, List.count_cons] at this ⊢
          omega
        apply settle_dinv _ _ a1
        obtain ⟨d, hd1, hd2⟩ := hd.w e (by rw [ho]; simp)
        refine ⟨hd.q, ?_, ?_, hd.hand, hd.disk, ?_⟩
        · intro e' he'; exact hd.w e' (by rw [ho]; exact List.mem_cons_of_mem _ he')
        · intro e' he' d' hd'
          rcases List.mem_append.mp he' with h1 | h1
          · exact hd.h e' h1 d' hd'
          · simp at h1; subst h1; rw [hd1] at hd'; cases hd'; exact hd2
        · intro p hp
          rcases List.mem_append.mp hp with h1 | h1
          · exact hd.tk p h1
          · simp at h1; subst h1; simp [hd1]; exact hd2
  | confirm id =>
    simp only [step] at h
    split at h
    · cases h
    · rename_i e hf
      have hsub := removeChunk_disk s e
      obtain ⟨disk, c, hr⟩ := removeChunk_frame s e
      rw [hr] at h hsub
      cases h
      have := dinv_disk s hd disk c (fun p hp => Or.inl (hsub p hp))
      refine ⟨this.q, this.w, ?_, this.hand, this.disk, this.tk⟩
      intro e' he' d' hd'
      exact hd.h e' (List.mem_filter.mp he').1 d' hd'
  | handBack id =>
    simp only [step] at h
    split at h
    · cases h
    · rename_i e hf
      have hemem : e ∈ s.held := List.mem_of_find?_eq_some hf
      have hsub := unload_disk { s with held := s.held.filter (fun e => e.id ≠ id) } e
      obtain ⟨disk, c, hu, _⟩ := unload_frame { s with held := s.held.filter (fun e => e.id ≠ id) } e
      have hbase : DInv { s with held := s.held.filter (fun e => e.id ≠ id), disk := disk, c := c } := by
        have hsub' : ∀ p ∈ disk, p ∈ s.disk ∨ p ∈ s.accepted := by
          intro p hp
          rw [hu] at hsub
          rcases hsub p hp with h1 | ⟨d, h1, h2⟩
          · exact Or.inl h1
          · right; rw [h2]; exact hd.h e hemem d h1
        have := dinv_disk s hd disk c hsub'
        refine ⟨this.q, this.w, ?_, this.hand, this.disk, this.tk⟩
        intro e' he' d' hd'
        exact hd.h e' (List.mem_filter.mp he').1 d' hd'
      cases hr : unload { s with held := s.held.filter (fun e => e.id ≠ id) } e with
      | mk s1 r =>
        cases r with
        | mk e1 ok =>
          rw [hr] at h hu
          simp only at hu
          subst hu
          cases ok with
          | true =>
            simp only at h; cases h
            exact ⟨hbase.q, hbase.w, hbase.h, hbase.hand, hbase.disk, hbase.tk⟩
          | false =>
            simp only at h
            obtain ⟨c', hdd⟩ := onDropped_frame { s with held := s.held.filter (fun e => e.id ≠ id), disk := disk, c := c } e1
            rw [hdd] at h; cases h
            exact ⟨hbase.q, hbase.w, hbase.h, hbase.hand, hbase.disk, hbase.tk⟩
  | destroy =>
    simp only [step] at h
    split at h
    · cases h
    · cases h
      apply saveAll_D
      · refine ⟨?_, ?_, hd.h, ?_, hd.disk, hd.tk⟩
        · intro e he; cases he
        · intro e he; cases he
        · intro q d hq; cases hq
      · intro e he d hd'
        simp only [List.mem_append] at he
        rcases he with (h1 | h1) | h1
        · exact hd.q e h1 d hd'
        · cases hh : s.hand with
          | none => rw [hh] at h1; simp [handEntry] at h1
          | some p =>
            obtain ⟨q, dq⟩ := p
            rw [hh] at h1
            simp [handEntry] at h1
            subst h1
            exact (hd.hand e dq hh).2 d hd'
        · obtain ⟨d0, h2, h3⟩ := hd.w e h1
          rw [h2] at hd'; cases hd'; exact h3
  | finish =>
    simp only [step] at h
    split at h
    · cases h; exact hd
    · cases h
  | extZero id => exact absurd hok (by simp [okOp])
  | extRemove id => exact absurd hok (by simp [okOp])

theorem run_dinv : ∀ (ops : List Op) (s s' : St), run s ops = some s' → CInv s → Legal s ops → DInv s → DInv s'
  | [], s, s', h, _, _, hd => by simp [run] at h; subst h; exact hd
  | o :: os, s, s', h, hi, hl, hd => by
    simp only [run] at h
    cases hs : step s o with
    | none => simp [hs] at h
    | some s1 =>
      simp [hs] at h
      exact run_dinv os s1 s' h (step_cinv s s1 o hs hi hl.1) (hl.2 s1 hs) (step_dinv s s1 o hs hi.cons hl.1 hd)

/-- the recovery fold: every queued entry is unloaded, and what was accepted is a file of the directory -/
theorem recFold_D (cfg : Cfg) : ∀ (files : List (Nat × Bytes)) (s : St),
    (∀ e ∈ s.inQ, e.data = none) → (∀ p ∈ s.accepted, p ∈ s.disk) →
    (∀ e ∈ (files.foldl (recStep cfg) s).inQ, e.data = none) ∧
    (∀ p ∈ (files.foldl (recStep cfg) s).accepted, p ∈ s.disk ∨ p ∈ files) ∧
    (files.foldl (recStep cfg) s).disk = s.disk ∧ (files.foldl (recStep cfg) s).taken = s.taken
  | [], s, h1, h2 => ⟨h1, fun p hp => Or.inl (h2 p hp), rfl, rfl⟩
  | f :: fs, s, h1, h2 => by
    simp only [List.foldl_cons]
    have hstep : (∀ e ∈ (recStep cfg s f).inQ, e.data = none) ∧ (∀ p ∈ (recStep cfg s f).accepted, p ∈ s.disk ∨ p = f) ∧
        (recStep cfg s f).disk = s.disk ∧ (recStep cfg s f).taken = s.taken := by
      unfold recStep
      split
      · refine ⟨?_, ?_, rfl, rfl⟩
        · intro e he
          rcases List.mem_append.mp he with h | h
          · exact h1 e h
          · simp at h; subst h; rfl
        · intro p hp
          rcases List.mem_append.mp hp with h | h
          · exact Or.inl (h2 p h)
          · simp at h; exact Or.inr h
      · exact ⟨h1, fun p hp => Or.inl (h2 p hp), rfl, rfl⟩
    obtain ⟨a1, a2, a3, a4⟩ := hstep
    -- generalise: accepted ⊆ disk ∪ (f :: fs)
    have key : ∀ (files : List (Nat × Bytes)) (s : St), (∀ e ∈ s.inQ, e.data = none) →
        (∀ e ∈ (files.foldl (recStep cfg) s).inQ, e.data = none) ∧
        (∀ p ∈ (files.foldl (recStep cfg) s).accepted, p ∈ s.accepted ∨ p ∈ files) ∧
        (files.foldl (recStep cfg) s).disk = s.disk ∧ (files.foldl (recStep cfg) s).taken = s.taken := by
      intro files
      induction files with
      | nil => intro s h; exact ⟨h, fun p hp => Or.inl hp, rfl, rfl⟩
      | cons g gs ih =>
        intro s h
        simp only [List.foldl_cons]
        have hs : (∀ e ∈ (recStep cfg s g).inQ, e.data = none) ∧ (∀ p ∈ (recStep cfg s g).accepted, p ∈ s.accepted ∨ p = g) ∧
            (recStep cfg s g).disk = s.disk ∧ (recStep cfg s g).taken = s.taken := by
          unfold recStep
          split
          · refine ⟨?_, ?_, rfl, rfl⟩
            · intro e he
              rcases List.mem_append.mp he with h' | h'
              · exact h e h'
              · simp at h'; subst h'; rfl
            · intro p hp
              rcases List.mem_append.mp hp with h' | h'
              · exact Or.inl h'
              · simp at h'; exact Or.inr h'
          · exact ⟨h, fun p hp => Or.inl hp, rfl, rfl⟩
        obtain ⟨b1, b2, b3, b4⟩ := ih (recStep cfg s g) hs.1
        refine ⟨b1, ?_, by rw [b3, hs.2.2.1], by rw [b4, hs.2.2.2]⟩
        intro p hp
        rcases b2 p hp with h' | h'
        · rcases hs.2.1 p h' with h'' | h''
          · exact Or.inl h''
          · right; rw [h'']; simp
        · right; exact List.mem_cons_of_mem _ h'
    obtain ⟨c1, c2, c3, c4⟩ := key fs (recStep cfg s f) a1
    refine ⟨c1, ?_, by rw [c3, a3], by rw [c4, a4]⟩
    intro p hp
    rcases c2 p hp with h | h
    · rcases a2 p h with h' | h'
      · exact Or.inl h'
      · right; rw [h']; simp
    · right; exact List.mem_cons_of_mem _ h

theorem eq_of_nodup_keys : ∀ (l : List (Nat × Bytes)), (l.map (·.1)).Nodup → ∀ a b, a ∈ l → b ∈ l → a.1 = b.1 → a = b
  | [], _, a, _, ha, _, _ => by cases ha
  | x :: r, hn, a, b, ha, hb, hab => by
    simp only [List.map_cons, List.nodup_cons] at hn
    rcases List.mem_cons.mp ha with h1 | h1
    · rcases List.mem_cons.mp hb with h2 | h2
      · rw [h1, h2]
      · exfalso; apply hn.1; rw [← h1, hab]; exact List.mem_map.mpr ⟨b, h2, rfl⟩
    · rcases List.mem_cons.mp hb with h2 | h2
      · exfalso; apply hn.1; rw [← h2, ← hab]; exact List.mem_map.mpr ⟨a, h1, rfl⟩
      · exact eq_of_nodup_keys r hn.2 a b h1 h2 hab

theorem scanned_sub (cfg : Cfg) (disk : List (Nat × Bytes)) : ∀ p ∈ scanned cfg disk, p ∈ disk := by
  intro p hp
  unfold scanned at hp
  split at hp
  · exact (List.mergeSort_perm disk _).mem_iff.mp hp
  · cases hp

theorem recover_dinv (cfg : Cfg) (disk : List (Nat × Bytes)) (hd : (disk.map (·.1)).Nodup) : DInv (recover cfg disk) := by
  obtain ⟨a1, a2, a3, a4⟩ := recFold_D cfg (scanned cfg disk) (start cfg disk) (by intro e he; simp [start] at he) (by intro p hp; simp [start] at hp)
  obtain ⟨b1, b2, b3, b4, b5, b6, b7, _⟩ :=
    recFold_inv cfg (scanned cfg disk) (start cfg disk) rfl rfl rfl rfl rfl rfl (by simp [accIds, start])
  have hc : Conserved ((scanned cfg disk).foldl (recStep cfg) (start cfg disk)) := by
    intro i
    rw [count_live, b1, b2, b3, b4, b5, b6, b7]
    simp [handIds]
  unfold recover quiesce
  apply settle_dinv _ _ hc
  have hacc : ∀ p ∈ ((scanned cfg disk).foldl (recStep cfg) (start cfg disk)).accepted, p ∈ disk := by
    intro p hp
    rcases a2 p hp with h | h
    · simpa [start] using h
    · exact scanned_sub cfg disk p h
  refine ⟨?_, ?_, ?_, ?_, ?_, ?_⟩
  · intro e he d hd'; rw [a1 e he] at hd'; cases hd'
  · intro e he; rw [b2] at he; cases he
  · intro e he; rw [b3] at he; cases he
  · intro q d hq; rw [b1] at hq; cases hq
  · intro p hp hacc'
    rw [a3] at hp
    simp only [start] at hp
    -- the accepted entry with the same id is a file of the directory too; names are unique
    obtain ⟨p', hp', hid⟩ := List.mem_map.mp hacc'
    have hp'd := hacc p' hp'
    have : p' = p := eq_of_nodup_keys disk hd p' p hp'd hp hid
    rw [← this]; exact hp'
  · intro p hp; rw [a4] at hp; simp [start] at hp

end C03
