import SlogModel.Model.Client

/-!
  Invariants of the client transition system `Client.step` (helper lemmas for `Props/C02.lean`).
-/

open Client

namespace C02
open Client

/-- conservation: every chunk taken from the queue is confirmed, handed back, or still held — with multiplicity -/
def Conserved (s : St) : Prop := ∀ c, (s.taken).count c = (s.confirmed ++ s.handed ++ inflight s).count c

def SessOK (s : St) (x : Sess) : Prop :=
  (∀ c, x.ackCur = some c → c ∈ x.pending) ∧ ((x.normal = true ∨ x.collecting.isSome = true) → s.left = [])

structure Inv (s : St) : Prop where
  cons : Conserved s
  nodup : (s.taken ++ s.queue).Nodup
  sess : ∀ x, s.sess = some x → SessOK s x

theorem dedupSorted_nodup : ∀ (l : List Nat), l.Nodup → dedupSorted l = l
  | [], _ => rfl
  | [_], _ => rfl
  | x :: y :: r, h => by
    have hxy : x ≠ y := by
      intro e; subst e
      have := List.nodup_cons.mp h
      exact this.1 (by simp)
    have ih := dedupSorted_nodup (y :: r) (List.nodup_cons.mp h).2
    simp [dedupSorted, hxy, ih]

theorem newLeft_count (l : List Nat) (h : l.Nodup) (c : Nat) : (newLeft l).count c = l.count c := by
  unfold newLeft
  have hp : (l.mergeSort (· ≤ ·)).Perm l := List.mergeSort_perm l _
  have hn : (l.mergeSort (· ≤ ·)).Nodup := hp.nodup_iff.mpr h
  rw [dedupSorted_nodup _ hn]
  exact hp.count_eq c

theorem count_le_one_of_nodup (l : List Nat) (h : l.Nodup) (c : Nat) : l.count c ≤ 1 :=
  List.nodup_iff_count.mp h c

theorem nodup_of_count_le (l m : List Nat) (hm : m.Nodup) (h : ∀ c, l.count c ≤ m.count c) : l.Nodup :=
  List.nodup_iff_count.mpr (fun c => Nat.le_trans (h c) (count_le_one_of_nodup m hm c))

theorem count_erase_mem (l : List Nat) (t c : Nat) (h : t ∈ l) :
    (l.erase t).count c + (if c = t then 1 else 0) = l.count c := by
  rw [List.count_erase]
  have : 1 ≤ l.count t := List.count_pos_iff.mpr h
  by_cases e : c = t
  · subst e; simp; omega
  · have : (t == c) = false := by simp; exact fun e' => e e'.symm
    simp [e, this]

theorem step_inv (s s' : St) (a : Act) (h : step s a = some s') (hi : Inv s) : Inv s' := by
  obtain ⟨hc, hn, hs⟩ := hi
  cases a with
  | stopReq =>
    simp only [step] at h
    split at h
    · cases h
    · cases h; exact ⟨hc, hn, hs⟩
  | connectOk =>
    simp only [step] at h
    split at h
    · cases h
    · rename_i hsn
      split at h
      · cases h
      · cases h
        refine ⟨?_, hn, ?_⟩
        · intro c; have := hc c; simp [inflight, hsn] at this ⊢; omega
        · intro x hx; simp at hx; subst hx
          exact ⟨by intro c hcur; simp at hcur, by simp⟩
  | connectFail =>
    simp only [step] at h
    split at h
    · cases h
    · cases h; exact ⟨hc, hn, hs⟩
  | takeLeft =>
    simp only [step] at h
    split at h
    · rename_i x c rest hsx hl
      split at h
      · cases h
      · rename_i hcond
        cases h
        simp at hcond
        obtain ⟨h1, h2, h3⟩ := hcond
        obtain ⟨k1, k2⟩ := hs x hsx
        refine ⟨?_, hn, ?_⟩
        · intro d; have := hc d
          simp [inflight, hsx, hl, h2, List.count_append, List.count_cons] at this ⊢; omega
        · intro y hy; simp at hy; subst hy
          refine ⟨k1, ?_⟩
          intro hh; simp [h1, h3] at hh
    · cases h
  | recoveryDone =>
    simp only [step] at h
    split at h
    · rename_i x hsx
      split at h
      · cases h
      · rename_i hcond
        cases h
        simp at hcond
        obtain ⟨k1, k2⟩ := hs x hsx
        refine ⟨?_, hn, ?_⟩
        · intro d; have := hc d; simp [inflight, hsx] at this ⊢; omega
        · intro y hy; simp at hy; subst hy
          exact ⟨k1, fun _ => hcond.2.2.2⟩
    · cases h
  | takeInput =>
    simp only [step] at h
    split at h
    · rename_i x c rest hsx hq
      split at h
      · cases h
      · rename_i hcond
        cases h
        simp at hcond
        obtain ⟨h1, h2, h3⟩ := hcond
        obtain ⟨k1, k2⟩ := hs x hsx
        refine ⟨?_, ?_, ?_⟩
        · intro d; have := hc d
          simp [inflight, hsx, h2, List.count_append, List.count_cons] at this ⊢; omega
        · simpa [hq, List.append_assoc] using hn
        · intro y hy; simp at hy; subst hy
          exact ⟨k1, fun hh => k2 (by simp [h1])⟩
    · cases h
  | sendOk =>
    simp only [step] at h
    split at h
    · rename_i x hsx
      split at h
      · split at h
        · cases h
        · cases h
          obtain ⟨k1, k2⟩ := hs x hsx
          refine ⟨?_, hn, ?_⟩
          · intro d; have := hc d; simp [inflight, hsx] at this ⊢; omega
          · intro y hy; simp at hy; subst hy; exact ⟨k1, k2⟩
      · cases h
    · cases h
  | sendErr =>
    simp only [step] at h
    split at h
    · rename_i x hsx
      split at h
      · rename_i c hl
        split at h
        · cases h
        · rename_i hcond
          cases h
          simp at hcond
          obtain ⟨k1, k2⟩ := hs x hsx
          have hcol : x.collecting = none := by
            cases hx : x.collecting with
            | none => rfl
            | some v => simp [hx] at hcond
          refine ⟨?_, hn, ?_⟩
          · intro d; have := hc d
            cases hnorm : x.normal <;>
              simp [inflight, hsx, hcol, hnorm, List.count_append] at this ⊢ <;> omega
          · intro y hy; simp at hy; subst hy
            refine ⟨k1, ?_⟩
            intro _
            cases hnorm : x.normal
            · simp
            · simp; exact k2 (Or.inl hnorm)
      · cases h
    · cases h
  | pushAck =>
    simp only [step] at h
    split at h
    · rename_i x hsx
      split at h
      · rename_i c hl
        split at h
        · cases h
        · cases h
          obtain ⟨k1, k2⟩ := hs x hsx
          refine ⟨?_, hn, ?_⟩
          · intro d; have := hc d
            simp [inflight, hsx, hl, List.count_append, List.count_cons] at this ⊢; omega
          · intro y hy; simp at hy; subst hy; exact ⟨k1, k2⟩
      · cases h
    · cases h
  | pushStop | pushAckEnded | beginCollect =>
    simp only [step] at h
    split at h
    · rename_i x hsx
      split at h
      · cases h
      · rename_i hcond
        cases h
        obtain ⟨k1, k2⟩ := hs x hsx
        have hcol : x.collecting = none := by
          cases hx : x.collecting with
          | none => rfl
          | some v => simp [hx] at hcond
        refine ⟨?_, hn, ?_⟩
        · intro d; have := hc d
          cases hnorm : x.normal <;>
            simp [inflight, hsx, hcol, hnorm, List.count_append] at this ⊢ <;> omega
        · intro y hy; simp at hy; subst hy
          refine ⟨k1, ?_⟩
          intro _
          cases hnorm : x.normal
          · simp
          · simp; exact k2 (Or.inl hnorm)
    · cases h
  | escalate =>
    simp only [step] at h
    split at h
    · rename_i x hsx
      split at h
      · cases h
      · cases h
        obtain ⟨k1, k2⟩ := hs x hsx
        refine ⟨?_, hn, ?_⟩
        · intro d; have := hc d; simp [inflight, hsx] at this ⊢; omega
        · intro y hy; simp at hy; subst hy; exact ⟨k1, k2⟩
    · cases h
  | ackRecv =>
    simp only [step] at h
    split at h
    · rename_i x hsx
      split at h
      · rename_i c rest hch
        split at h
        · cases h
        · cases h
          obtain ⟨k1, k2⟩ := hs x hsx
          refine ⟨?_, hn, ?_⟩
          · intro d; have := hc d
            simp [inflight, hsx, hch, List.count_append, List.count_cons] at this ⊢; omega
          · intro y hy; simp at hy; subst hy
            exact ⟨by intro e he; simp at he; subst he; simp, k2⟩
      · cases h
    · cases h
  | ackChanClosed | ackAbort =>
    simp only [step] at h
    split at h
    · rename_i x hsx
      split at h
      · cases h
      · cases h
        obtain ⟨k1, k2⟩ := hs x hsx
        refine ⟨?_, hn, ?_⟩
        · intro d; have := hc d; simp [inflight, hsx] at this ⊢; omega
        · intro y hy; simp at hy; subst hy; exact ⟨k1, k2⟩
    · cases h
  | ackOk id =>
    simp only [step] at h
    split at h
    · rename_i x hsx
      obtain ⟨k1, k2⟩ := hs x hsx
      split at h
      · rename_i cur hcur
        split at h
        · cases h
        · split at h
          · rename_i t ht
            cases h
            have htm : t ∈ x.pending := by
              cases id with
              | none => simp at ht; subst ht; exact k1 cur hcur
              | some i =>
                simp only [] at ht
                split at ht
                · simp at ht; subst ht; assumption
                · cases ht
            refine ⟨?_, hn, ?_⟩
            · intro d; have := hc d
              have he := count_erase_mem x.pending t d htm
              simp [inflight, hsx, List.count_append, List.count_cons] at this ⊢
              by_cases e : d = t
              · subst e; simp at he ⊢; omega
              · have e' : ¬ t = d := fun e'' => e e''.symm
                simp [e, e'] at he ⊢; omega
            · intro y hy; simp at hy; subst hy
              exact ⟨by intro e he; simp at he, k2⟩
          · cases h
            refine ⟨?_, hn, ?_⟩
            · intro d; have := hc d; simp [inflight, hsx] at this ⊢; omega
            · intro y hy; simp at hy; subst hy
              exact ⟨by intro e he; simp at he, k2⟩
      · cases h
    · cases h
  | ackErr =>
    simp only [step] at h
    split at h
    · rename_i x hsx
      obtain ⟨k1, k2⟩ := hs x hsx
      split at h
      · cases h
        refine ⟨?_, hn, ?_⟩
        · intro d; have := hc d; simp [inflight, hsx] at this ⊢; omega
        · intro y hy; simp at hy; subst hy
          exact ⟨by intro e he; simp at he, k2⟩
      · cases h
    · cases h
  | finishCollect =>
    simp only [step] at h
    split at h
    · rename_i x hsx
      obtain ⟨k1, k2⟩ := hs x hsx
      split at h
      · rename_i prev hprev
        split at h
        · cases h
        · cases h
          have hleft : s.left = [] := k2 (Or.inr (by simp [hprev]))
          have hM : (prev ++ x.ackChan ++ x.pending ++ x.lastC.toList).Nodup := by
            apply nodup_of_count_le _ (s.taken ++ s.queue) hn
            intro c
            have := hc c
            simp [inflight, hsx, hprev, hleft, List.count_append] at this ⊢
            omega
          refine ⟨?_, hn, by intro y hy; simp at hy⟩
          intro d; have := hc d
          have hnl := newLeft_count _ hM d
          simp [inflight, hsx, hprev, hleft, List.count_append] at this hnl ⊢
          omega
      · cases h
    · cases h
  | workerFinal =>
    simp only [step] at h
    split at h
    · cases h
    · rename_i hcond
      cases h
      simp at hcond
      have hsn : s.sess = none := by
        cases hx : s.sess with
        | none => rfl
        | some v => simp [hx] at hcond
      refine ⟨?_, hn, by intro y hy; simp [hsn] at hy⟩
      intro d; have := hc d
      simp [inflight, hsn, List.count_append] at this ⊢; omega


/-! ### reachability -/


theorem init_inv (q : List Nat) (h : q.Nodup) : Inv (init q) :=
  ⟨by intro c; simp [init, inflight], by simpa [init] using h, by intro x hx; simp [init] at hx⟩

theorem run_inv (s s' : St) (acts : List Act) (h : run s acts = some s') (hi : Inv s) : Inv s' := by
  induction acts generalizing s with
  | nil => simp [run] at h; subst h; exact hi
  | cons a as ih =>
    simp only [run] at h
    cases hs : step s a with
    | none => simp [hs] at h
    | some s1 => simp [hs] at h; exact ih s1 h (step_inv s s1 a hs hi)

/-! ### confirmed only after the ACK -/

def Justified (hist : List Ev) (c : Nat) : Prop :=
  ∃ pre mid post k id, hist = pre ++ [.sendOk k c] ++ mid ++ [.ack k id, .consumed c] ++ post ∧
    (id = some c ∨ id = none)

theorem justified_append (hist more : List Ev) (c : Nat) (h : Justified hist c) : Justified (hist ++ more) c := by
  obtain ⟨pre, mid, post, k, id, h1, h2⟩ := h
  exact ⟨pre, mid, post ++ more, k, id, by rw [h1]; simp [List.append_assoc], h2⟩

structure HInv (s : St) : Prop where
  sent : ∀ x, s.sess = some x →
    (∀ c ∈ x.ackChan ++ x.pending, Ev.sendOk x.conn c ∈ s.hist) ∧
    (x.sentOk = true → ∃ c, x.lastC = some c ∧ Ev.sendOk x.conn c ∈ s.hist) ∧
    (∀ c, x.ackCur = some c → c ∈ x.pending)
  just : ∀ c ∈ s.confirmed, Justified s.hist c

theorem step_hinv (s s' : St) (a : Act) (h : step s a = some s') (hi : HInv s) : HInv s' := by
  obtain ⟨hs, hj⟩ := hi
  cases a with
  | stopReq =>
    simp only [step] at h
    split at h
    · cases h
    · cases h; exact ⟨hs, hj⟩
  | connectOk =>
    simp only [step] at h
    split at h
    · cases h
    · split at h
      · cases h
      · cases h
        exact ⟨by intro x hx; simp at hx; subst hx; simp, hj⟩
  | connectFail =>
    simp only [step] at h
    split at h
    · cases h
    · cases h; exact ⟨hs, hj⟩
  | takeLeft =>
    simp only [step] at h
    split at h
    · rename_i x c rest hsx hl
      split at h
      · cases h
      · rename_i hcond
        cases h
        simp at hcond
        obtain ⟨k1, k2, k3⟩ := hs x hsx
        refine ⟨?_, hj⟩
        intro y hy; simp at hy; subst hy
        refine ⟨k1, ?_, k3⟩
        intro hso
        obtain ⟨c', hc', _⟩ := k2 hso
        simp [hcond.2.1] at hc'
    · cases h
  | recoveryDone =>
    simp only [step] at h
    split at h
    · rename_i x hsx
      split at h
      · cases h
      · cases h
        obtain ⟨k1, k2, k3⟩ := hs x hsx
        exact ⟨by intro y hy; simp at hy; subst hy; exact ⟨k1, k2, k3⟩, hj⟩
    · cases h
  | takeInput =>
    simp only [step] at h
    split at h
    · rename_i x c rest hsx hq
      split at h
      · cases h
      · rename_i hcond
        cases h
        simp at hcond
        obtain ⟨k1, k2, k3⟩ := hs x hsx
        refine ⟨?_, hj⟩
        intro y hy; simp at hy; subst hy
        refine ⟨k1, ?_, k3⟩
        intro hso
        obtain ⟨c', hc', _⟩ := k2 hso
        simp [hcond.2.1] at hc'
    · cases h
  | sendOk =>
    simp only [step] at h
    split at h
    · rename_i x hsx
      split at h
      · rename_i c hl
        split at h
        · cases h
        · cases h
          obtain ⟨k1, k2, k3⟩ := hs x hsx
          refine ⟨?_, fun c hc => justified_append _ _ _ (hj c hc)⟩
          intro y hy; simp at hy; subst hy
          exact ⟨fun d hd => List.mem_append_left _ (k1 d hd), fun _ => ⟨c, hl, List.mem_append_right _ (by simp)⟩, k3⟩
      · cases h
    · cases h
  | sendErr =>
    simp only [step] at h
    split at h
    · rename_i x hsx
      split at h
      · rename_i c hl
        split at h
        · cases h
        · rename_i hcond
          cases h
          simp at hcond
          obtain ⟨k1, k2, k3⟩ := hs x hsx
          refine ⟨?_, fun c hc => justified_append _ _ _ (hj c hc)⟩
          intro y hy; simp at hy; subst hy
          refine ⟨fun d hd => List.mem_append_left _ (k1 d hd), ?_, k3⟩
          intro hso; simp [hcond.1] at hso
      · cases h
    · cases h
  | pushAck =>
    simp only [step] at h
    split at h
    · rename_i x hsx
      split at h
      · rename_i c hl
        split at h
        · cases h
        · rename_i hcond
          cases h
          simp at hcond
          obtain ⟨k1, k2, k3⟩ := hs x hsx
          obtain ⟨c', hc', hin⟩ := k2 hcond.1
          have : c' = c := by rw [hl] at hc'; exact (Option.some.inj hc').symm
          subst this
          refine ⟨?_, hj⟩
          intro y hy; simp at hy; subst hy
          refine ⟨?_, by simp, k3⟩
          intro d hd
          simp only [List.mem_append, List.mem_singleton] at hd
          rcases hd with (hd | hd) | hd
          · exact k1 d (List.mem_append_left _ hd)
          · subst hd; exact hin
          · exact k1 d (List.mem_append_right _ hd)
      · cases h
    · cases h
  | pushStop | pushAckEnded | beginCollect =>
    simp only [step] at h
    split at h
    · rename_i x hsx
      split at h
      · cases h
      · cases h
        obtain ⟨k1, k2, k3⟩ := hs x hsx
        exact ⟨by intro y hy; simp at hy; subst hy; exact ⟨k1, k2, k3⟩, hj⟩
    · cases h
  | escalate =>
    simp only [step] at h
    split at h
    · rename_i x hsx
      split at h
      · cases h
      · cases h
        obtain ⟨k1, k2, k3⟩ := hs x hsx
        exact ⟨by intro y hy; simp at hy; subst hy; exact ⟨k1, k2, k3⟩, hj⟩
    · cases h
  | ackRecv =>
    simp only [step] at h
    split at h
    · rename_i x hsx
      split at h
      · rename_i c rest hch
        split at h
        · cases h
        · cases h
          obtain ⟨k1, k2, k3⟩ := hs x hsx
          refine ⟨?_, hj⟩
          intro y hy; simp at hy; subst hy
          refine ⟨?_, k2, by intro e he; simp at he; subst he; simp⟩
          intro d hd
          simp only [List.mem_append, List.mem_singleton] at hd
          apply k1 d
          rw [hch]
          simp only [List.mem_append, List.mem_cons]
          rcases hd with hd | hd | hd
          · exact Or.inl (Or.inr hd)
          · exact Or.inr hd
          · exact Or.inl (Or.inl hd)
      · cases h
    · cases h
  | ackChanClosed | ackAbort =>
    simp only [step] at h
    split at h
    · rename_i x hsx
      split at h
      · cases h
      · cases h
        obtain ⟨k1, k2, k3⟩ := hs x hsx
        exact ⟨by intro y hy; simp at hy; subst hy; exact ⟨k1, k2, k3⟩, hj⟩
    · cases h
  | ackOk id =>
    simp only [step] at h
    split at h
    · rename_i x hsx
      obtain ⟨k1, k2, k3⟩ := hs x hsx
      split at h
      · rename_i cur hcur
        split at h
        · cases h
        · split at h
          · rename_i t ht
            cases h
            have htm : t ∈ x.pending ∧ (id = some t ∨ id = none) := by
              cases id with
              | none => simp at ht; subst ht; exact ⟨k3 cur hcur, Or.inr rfl⟩
              | some i =>
                simp only [] at ht
                split at ht
                · simp at ht; subst ht; exact ⟨by assumption, Or.inl rfl⟩
                · cases ht
            have hsent := k1 t (by simp [htm.1])
            refine ⟨?_, ?_⟩
            · intro y hy; simp at hy; subst hy
              refine ⟨?_, ?_, by intro e he; simp at he⟩
              · intro d hd
                simp only [List.mem_append] at hd
                apply List.mem_append_left
                apply k1 d
                simp only [List.mem_append]
                rcases hd with hd | hd
                · exact Or.inl hd
                · exact Or.inr (List.mem_of_mem_erase hd)
              · intro hso
                obtain ⟨c', h1, h2⟩ := k2 hso
                exact ⟨c', h1, List.mem_append_left _ h2⟩
            · intro d hd
              simp only [List.mem_append, List.mem_singleton] at hd
              rcases hd with hd | hd
              · exact justified_append _ _ _ (hj d hd)
              · subst hd
                obtain ⟨pre, mid, hsplit⟩ := List.append_of_mem hsent
                exact ⟨pre, mid, [], x.conn, id, by rw [hsplit]; simp [List.append_assoc], htm.2⟩
          · cases h
            refine ⟨?_, fun c hc => justified_append _ _ _ (hj c hc)⟩
            intro y hy; simp at hy; subst hy
            refine ⟨fun d hd => List.mem_append_left _ (k1 d hd), ?_, by intro e he; simp at he⟩
            intro hso
            obtain ⟨c', h1, h2⟩ := k2 hso
            exact ⟨c', h1, List.mem_append_left _ h2⟩
      · cases h
    · cases h
  | ackErr =>
    simp only [step] at h
    split at h
    · rename_i x hsx
      obtain ⟨k1, k2, k3⟩ := hs x hsx
      split at h
      · cases h
        refine ⟨?_, fun c hc => justified_append _ _ _ (hj c hc)⟩
        intro y hy; simp at hy; subst hy
        refine ⟨fun d hd => List.mem_append_left _ (k1 d hd), ?_, by intro e he; simp at he⟩
        intro hso
        obtain ⟨c', h1, h2⟩ := k2 hso
        exact ⟨c', h1, List.mem_append_left _ h2⟩
      · cases h
    · cases h
  | finishCollect =>
    simp only [step] at h
    split at h
    · split at h
      · split at h
        · cases h
        · cases h
          exact ⟨by intro y hy; simp at hy, hj⟩
      · cases h
    · cases h
  | workerFinal =>
    simp only [step] at h
    split at h
    · cases h
    · rename_i hcond
      cases h
      simp at hcond
      refine ⟨?_, fun c hc => by
        have := justified_append s.hist (s.left.map Ev.leftover ++ [Ev.finished]) c (hj c hc)
        simpa [List.append_assoc] using this⟩
      intro y hy
      simp at hy
      have hsn : s.sess = none := by
        cases hx : s.sess with
        | none => rfl
        | some v => simp [hx] at hcond
      simp [hsn] at hy


theorem run_hinv (s s' : St) (acts : List Act) (h : run s acts = some s') (hi : HInv s) : HInv s' := by
  induction acts generalizing s with
  | nil => simp [run] at h; subst h; exact hi
  | cons a as ih =>
    simp only [run] at h
    cases hs : step s a with
    | none => simp [hs] at h
    | some s1 => simp [hs] at h; exact ih s1 h (step_hinv s s1 a hs hi)

/-! ### the event log agrees with the resolutions -/

theorem consumedOf_append (a b : List Ev) : consumedOf (a ++ b) = consumedOf a ++ consumedOf b := by
  induction a with
  | nil => rfl
  | cons e r ih => cases e <;> simp [consumedOf, ih]

theorem leftoverOf_append (a b : List Ev) : leftoverOf (a ++ b) = leftoverOf a ++ leftoverOf b := by
  induction a with
  | nil => rfl
  | cons e r ih => cases e <;> simp [leftoverOf, ih]

theorem leftoverOf_map (l : List Nat) : leftoverOf (l.map Ev.leftover) = l := by
  induction l with
  | nil => rfl
  | cons x xs ih => simp [leftoverOf, ih]

theorem consumedOf_map (l : List Nat) : consumedOf (l.map Ev.leftover) = [] := by
  induction l with
  | nil => rfl
  | cons x xs ih => simp [consumedOf, ih]

def EvInv (s : St) : Prop := consumedOf s.hist = s.confirmed ∧ leftoverOf s.hist = s.handed

theorem step_evinv (s s' : St) (a : Act) (h : step s a = some s') (hi : EvInv s) : EvInv s' := by
  obtain ⟨h1, h2⟩ := hi
  cases a <;> simp only [step] at h <;> (repeat' split at h) <;>
    first
    | (cases h; done)
    | (cases h
       simp only [EvInv, consumedOf_append, leftoverOf_append, consumedOf, leftoverOf, leftoverOf_map, consumedOf_map,
         List.append_nil, h1, h2]
       try exact ⟨trivial, trivial⟩)
    | skip


theorem run_evinv (s s' : St) (acts : List Act) (h : run s acts = some s') (hi : EvInv s) : EvInv s' := by
  induction acts generalizing s with
  | nil => simp [run] at h; subst h; exact hi
  | cons a as ih =>
    simp only [run] at h
    cases hs : step s a with
    | none => simp [hs] at h
    | some s1 => simp [hs] at h; exact ih s1 h (step_evinv s s1 a hs hi)



/-! ### transmission order -/


theorem sentOn_append (k : Nat) (a b : List Ev) : sentOn k (a ++ b) = sentOn k a ++ sentOn k b := by
  induction a with
  | nil => rfl
  | cons e r ih => cases e <;> simp [sentOn, ih] <;> split <;> simp

theorem sentOn_map_leftover (k : Nat) (l : List Nat) : sentOn k (l.map Ev.leftover) = [] := by
  induction l with
  | nil => rfl
  | cons x xs ih => simp [sentOn, ih]

theorem pairwise_snoc (l : List Nat) (c : Nat) (h : l.Pairwise (· < ·)) (hc : ∀ t ∈ l, t < c) :
    (l ++ [c]).Pairwise (· < ·) := by
  rw [List.pairwise_append]
  exact ⟨h, by simp, fun a ha b hb => by simp at hb; subst hb; exact hc a ha⟩

theorem mem_taken_of_inflight (s : St) (hi : Inv s) (c : Nat) (h : c ∈ inflight s) : c ∈ s.taken := by
  have := hi.cons c
  have hpos : 0 < (inflight s).count c := List.count_pos_iff.mpr h
  have : 0 < s.taken.count c := by simp [List.count_append] at this; omega
  exact List.count_pos_iff.mp this

theorem pairwise_lt_of_sorted_nodup : ∀ (l : List Nat), l.Pairwise (· ≤ ·) → l.Nodup → l.Pairwise (· < ·)
  | [], _, _ => List.Pairwise.nil
  | x :: r, h1, h2 => by
    rw [List.pairwise_cons] at h1 ⊢
    rw [List.nodup_cons] at h2
    refine ⟨fun a ha => ?_, pairwise_lt_of_sorted_nodup r h1.2 h2.2⟩
    have hle := h1.1 a ha
    have hne : x ≠ a := fun e => h2.1 (e ▸ ha)
    omega

theorem newLeft_sorted (l : List Nat) (h : l.Nodup) : (newLeft l).Pairwise (· < ·) := by
  unfold newLeft
  have hp : (l.mergeSort (· ≤ ·)).Perm l := List.mergeSort_perm l _
  have hn : (l.mergeSort (· ≤ ·)).Nodup := hp.nodup_iff.mpr h
  rw [dedupSorted_nodup _ hn]
  apply pairwise_lt_of_sorted_nodup _ _ hn
  have := List.pairwise_mergeSort (le := fun a b => decide (a ≤ b))
    (by intro a b c; simp; omega) (by intro a b; simp; omega) l
  simpa using this

theorem newLeft_mem (l : List Nat) (h : l.Nodup) (c : Nat) : c ∈ newLeft l ↔ c ∈ l := by
  have := newLeft_count l h c
  constructor
  · intro hm
    have : 0 < l.count c := by rw [← this]; exact List.count_pos_iff.mpr hm
    exact List.count_pos_iff.mp this
  · intro hm
    have : 0 < (newLeft l).count c := by rw [this]; exact List.count_pos_iff.mpr hm
    exact List.count_pos_iff.mp this



structure SessO (s : St) (x : Sess) : Prop where
  tx : (sentOn x.conn s.hist).Pairwise (· < ·)
  below : ∀ t ∈ sentOn x.conn s.hist, (∀ l ∈ s.left, t < l) ∧ (∀ q ∈ s.queue, t < q)
  hand : x.sentOk = false → x.collecting = none → ∀ c, x.lastC = some c → ∀ t ∈ sentOn x.conn s.hist, t < c
  lastB : ∀ c, x.lastC = some c → (∀ l ∈ s.left, c < l) ∧ (∀ q ∈ s.queue, c < q)
  fresh : x.conn < s.nextConn

structure OInv (s : St) : Prop where
  q : s.queue.Pairwise (· < ·)
  tq : ∀ t ∈ s.taken, ∀ q ∈ s.queue, t < q
  l : s.left.Pairwise (· < ·)
  sess : ∀ x, s.sess = some x → SessO s x
  all : ∀ k, (sentOn k s.hist).Pairwise (· < ·)
  unused : ∀ k, s.nextConn ≤ k → sentOn k s.hist = []

theorem sessO_congr {s s' : St} {x x' : Sess} (h : SessO s x) (hl : s'.left = s.left) (hq : s'.queue = s.queue)
    (hn : s'.nextConn = s.nextConn) (hc : x'.conn = x.conn) (hh : sentOn x.conn s'.hist = sentOn x.conn s.hist)
    (h1 : x'.sentOk = x.sentOk) (h2 : x'.collecting = x.collecting) (h3 : x'.lastC = x.lastC) : SessO s' x' := by
  obtain ⟨a1, a2, a3, a4, a5⟩ := h
  refine ⟨?_, ?_, ?_, ?_, ?_⟩
  · rw [hc, hh]; exact a1
  · rw [hc, hh, hl, hq]; exact a2
  · rw [hc, hh, h1, h2, h3]; exact a3
  · rw [h3, hl, hq]; exact a4
  · rw [hc, hn]; exact a5

theorem step_oinv (s s' : St) (a : Act) (h : step s a = some s') (hi : Inv s) (ho : OInv s) : OInv s' := by
  obtain ⟨oq, otq, ol, os, oall, oun⟩ := ho
  cases a with
  | stopReq =>
    simp only [step] at h
    split at h
    · cases h
    · cases h
      exact ⟨oq, otq, ol, fun x hx => by
        obtain ⟨a1, a2, a3, a4, a5⟩ := os x hx
        exact ⟨a1, a2, a3, a4, a5⟩, oall, oun⟩
  | connectOk =>
    simp only [step] at h
    split at h
    · cases h
    · split at h
      · cases h
      · cases h
        refine ⟨oq, otq, ol, ?_, oall, fun k hk => oun k (by simp at hk; omega)⟩
        intro x hx; simp at hx; subst hx
        have he := oun s.nextConn (Nat.le_refl _)
        exact ⟨by simp [he], by simp [he], by simp [he], by simp, by simp⟩
  | connectFail =>
    simp only [step] at h
    split at h
    · cases h
    · cases h; exact ⟨oq, otq, ol, os, oall, oun⟩
  | takeLeft =>
    simp only [step] at h
    split at h
    · rename_i x c rest hsx hl
      split at h
      · cases h
      · rename_i hcond
        cases h
        simp at hcond
        obtain ⟨a1, a2, a3, a4, a5⟩ := os x hsx
        rw [hl] at ol a2
        have hlp := List.pairwise_cons.mp ol
        have hct : c ∈ s.taken := mem_taken_of_inflight s hi c (by simp [inflight, hl])
        refine ⟨oq, otq, hlp.2, ?_, oall, oun⟩
        intro y hy; simp at hy; subst hy
        refine ⟨a1, fun t ht => ⟨fun l hl' => (a2 t ht).1 l (by simp [hl']), (a2 t ht).2⟩, ?_, ?_, a5⟩
        · intro _ _ d hd t ht; simp at hd; subst hd; exact (a2 t ht).1 _ (by simp)
        · intro d hd; simp at hd; subst hd
          exact ⟨fun l hl' => hlp.1 l hl', fun q hq => otq _ hct q hq⟩
    · cases h
  | recoveryDone =>
    simp only [step] at h
    split at h
    · rename_i x hsx
      split at h
      · cases h
      · cases h
        obtain ⟨a1, a2, a3, a4, a5⟩ := os x hsx
        refine ⟨oq, otq, ol, ?_, oall, oun⟩
        intro y hy; simp at hy; subst hy
        exact ⟨a1, a2, a3, a4, a5⟩
    · cases h
  | takeInput =>
    simp only [step] at h
    split at h
    · rename_i x c rest hsx hq
      split at h
      · cases h
      · rename_i hcond
        cases h
        simp at hcond
        obtain ⟨a1, a2, a3, a4, a5⟩ := os x hsx
        rw [hq] at oq otq a2
        have hqp := List.pairwise_cons.mp oq
        have hleft : s.left = [] := ((hi.sess x hsx).2 (Or.inl hcond.1))
        refine ⟨hqp.2, ?_, ol, ?_, oall, oun⟩
        · intro t ht q hq'
          simp at ht
          rcases ht with ht | ht
          · exact otq t ht q (by simp [hq'])
          · subst ht; exact hqp.1 q hq'
        · intro y hy; simp at hy; subst hy
          refine ⟨a1, fun t ht => ⟨(a2 t ht).1, fun q hq' => (a2 t ht).2 q (by simp [hq'])⟩, ?_, ?_, a5⟩
          · intro _ _ d hd t ht; simp at hd; subst hd; exact (a2 t ht).2 _ (by simp)
          · intro d hd; simp at hd; subst hd
            exact ⟨by simp [hleft], fun q hq' => hqp.1 q hq'⟩
    · cases h
  | sendOk =>
    simp only [step] at h
    split at h
    · rename_i x hsx
      split at h
      · rename_i c hl
        split at h
        · cases h
        · rename_i hcond
          cases h
          simp at hcond
          obtain ⟨a1, a2, a3, a4, a5⟩ := os x hsx
          have hcol : x.collecting = none := by
            cases hx : x.collecting with
            | none => rfl
            | some v => simp [hx] at hcond
          have hlt := a3 hcond.1 hcol c hl
          have hsn : ∀ k, sentOn k (s.hist ++ [Ev.sendOk x.conn c]) =
              sentOn k s.hist ++ (if x.conn = k then [c] else []) := by
            intro k; rw [sentOn_append]; simp [sentOn]
          refine ⟨oq, otq, ol, ?_, ?_, ?_⟩
          · intro y hy; simp at hy; subst hy
            have hsx' := hsn x.conn; simp only [if_true] at hsx'
            refine ⟨by dsimp only; rw [hsx']; exact pairwise_snoc _ _ a1 hlt, ?_, by simp, a4, a5⟩
            intro t ht
            dsimp only at ht; rw [hsx'] at ht
            simp at ht
            rcases ht with ht | ht
            · exact a2 t ht
            · subst ht; exact a4 t hl
          · intro k
            rw [hsn]
            by_cases hk : x.conn = k
            · subst hk; simp only [if_true]; exact pairwise_snoc _ _ a1 hlt
            · simp [hk]; exact oall k
          · intro k hk
            rw [hsn]
            have hk' : s.nextConn ≤ k := hk
            have : x.conn ≠ k := by omega
            simp [this]; exact oun k hk
      · cases h
    · cases h
  | sendErr =>
    simp only [step] at h
    split at h
    · rename_i x hsx
      split at h
      · rename_i c hl
        split at h
        · cases h
        · rename_i hcond
          cases h
          simp at hcond
          obtain ⟨a1, a2, a3, a4, a5⟩ := os x hsx
          have hcol : x.collecting = none := by
            cases hx : x.collecting with
            | none => rfl
            | some v => simp [hx] at hcond
          have hlt := a3 hcond.1 hcol c hl
          have hsn : ∀ k, sentOn k (s.hist ++ [Ev.sendErr x.conn c]) =
              sentOn k s.hist ++ (if x.conn = k then [c] else []) := by
            intro k; rw [sentOn_append]; simp [sentOn]
          have hsub : ∀ l, l ∈ (if x.normal = true then s.left else []) → l ∈ s.left := by
            intro l hl'; split at hl'
            · exact hl'
            · simp at hl'
          refine ⟨oq, otq, ?_, ?_, ?_, ?_⟩
          · split
            · exact ol
            · exact List.Pairwise.nil
          · intro y hy; simp at hy; subst hy
            have hsx' := hsn x.conn; simp only [if_true] at hsx'
            refine ⟨by dsimp only; rw [hsx']; exact pairwise_snoc _ _ a1 hlt, ?_, by simp, ?_, a5⟩
            · intro t ht
              dsimp only at ht; rw [hsx'] at ht
              simp at ht
              rcases ht with ht | ht
              · exact ⟨fun l hl' => (a2 t ht).1 l (hsub l hl'), (a2 t ht).2⟩
              · subst ht; exact ⟨fun l hl' => (a4 t hl).1 l (hsub l hl'), (a4 t hl).2⟩
            · intro d hd
              exact ⟨fun l hl' => (a4 d hd).1 l (hsub l hl'), (a4 d hd).2⟩
          · intro k
            rw [hsn]
            by_cases hk : x.conn = k
            · subst hk; simp only [if_true]; exact pairwise_snoc _ _ a1 hlt
            · simp [hk]; exact oall k
          · intro k hk
            rw [hsn]
            have hk' : s.nextConn ≤ k := hk
            have : x.conn ≠ k := by omega
            simp [this]; exact oun k hk
      · cases h
    · cases h
  | pushAck =>
    simp only [step] at h
    split at h
    · rename_i x hsx
      split at h
      · split at h
        · cases h
        · cases h
          obtain ⟨a1, a2, a3, a4, a5⟩ := os x hsx
          refine ⟨oq, otq, ol, ?_, oall, oun⟩
          intro y hy; simp at hy; subst hy
          exact ⟨a1, a2, by simp, by simp, a5⟩
      · cases h
    · cases h
  | pushStop | pushAckEnded | beginCollect =>
    simp only [step] at h
    split at h
    · rename_i x hsx
      split at h
      · cases h
      · cases h
        obtain ⟨a1, a2, a3, a4, a5⟩ := os x hsx
        have hsub : ∀ l, l ∈ (if x.normal = true then s.left else []) → l ∈ s.left := by
          intro l hl'; split at hl'
          · exact hl'
          · simp at hl'
        refine ⟨oq, otq, ?_, ?_, oall, oun⟩
        · split
          · exact ol
          · exact List.Pairwise.nil
        · intro y hy; simp at hy; subst hy
          refine ⟨a1, fun t ht => ⟨fun l hl' => (a2 t ht).1 l (hsub l hl'), (a2 t ht).2⟩, by simp,
            fun d hd => ⟨fun l hl' => (a4 d hd).1 l (hsub l hl'), (a4 d hd).2⟩, a5⟩
    · cases h
  | escalate =>
    simp only [step] at h
    split at h
    · rename_i x hsx
      split at h
      · cases h
      · cases h
        obtain ⟨a1, a2, a3, a4, a5⟩ := os x hsx
        refine ⟨oq, otq, ol, ?_, oall, oun⟩
        intro y hy; simp at hy; subst hy
        exact ⟨a1, a2, a3, a4, a5⟩
    · cases h
  | ackRecv =>
    simp only [step] at h
    split at h
    · rename_i x hsx
      split at h
      · split at h
        · cases h
        · cases h
          obtain ⟨a1, a2, a3, a4, a5⟩ := os x hsx
          refine ⟨oq, otq, ol, ?_, oall, oun⟩
          intro y hy; simp at hy; subst hy
          exact ⟨a1, a2, a3, a4, a5⟩
      · cases h
    · cases h
  | ackChanClosed | ackAbort =>
    simp only [step] at h
    split at h
    · rename_i x hsx
      split at h
      · cases h
      · cases h
        obtain ⟨a1, a2, a3, a4, a5⟩ := os x hsx
        refine ⟨oq, otq, ol, ?_, oall, oun⟩
        intro y hy; simp at hy; subst hy
        exact ⟨a1, a2, a3, a4, a5⟩
    · cases h
  | ackOk id =>
    simp only [step] at h
    split at h
    · rename_i x hsx
      obtain ⟨a1, a2, a3, a4, a5⟩ := os x hsx
      split at h
      · split at h
        · cases h
        · split at h
          · cases h
            have hsn : ∀ k t, sentOn k (s.hist ++ [Ev.ack x.conn id, Ev.consumed t]) = sentOn k s.hist := by
              intro k t; rw [sentOn_append]; simp [sentOn]
            refine ⟨oq, otq, ol, ?_, fun k => by rw [hsn]; exact oall k, fun k hk => by rw [hsn]; exact oun k hk⟩
            intro y hy; simp at hy; subst hy
            exact sessO_congr (os x hsx) rfl rfl rfl rfl (hsn _ _) rfl rfl rfl
          · cases h
            have hsn : ∀ k, sentOn k (s.hist ++ [Ev.ack x.conn id]) = sentOn k s.hist := by
              intro k; rw [sentOn_append]; simp [sentOn]
            refine ⟨oq, otq, ol, ?_, fun k => by rw [hsn]; exact oall k, fun k hk => by rw [hsn]; exact oun k hk⟩
            intro y hy; simp at hy; subst hy
            exact sessO_congr (os x hsx) rfl rfl rfl rfl (hsn _) rfl rfl rfl
      · cases h
    · cases h
  | ackErr =>
    simp only [step] at h
    split at h
    · rename_i x hsx
      obtain ⟨a1, a2, a3, a4, a5⟩ := os x hsx
      split at h
      · cases h
        have hsn : ∀ k, sentOn k (s.hist ++ [Ev.ackErr x.conn]) = sentOn k s.hist := by
          intro k; rw [sentOn_append]; simp [sentOn]
        refine ⟨oq, otq, ol, ?_, fun k => by rw [hsn]; exact oall k, fun k hk => by rw [hsn]; exact oun k hk⟩
        intro y hy; simp at hy; subst hy
        exact sessO_congr (os x hsx) rfl rfl rfl rfl (hsn _) rfl rfl rfl
      · cases h
    · cases h
  | finishCollect =>
    simp only [step] at h
    split at h
    · rename_i x hsx
      split at h
      · rename_i prev hprev
        split at h
        · cases h
        · cases h
          have hleft : s.left = [] := (hi.sess x hsx).2 (Or.inr (by simp [hprev]))
          have hM : (prev ++ x.ackChan ++ x.pending ++ x.lastC.toList).Nodup := by
            apply nodup_of_count_le _ (s.taken ++ s.queue) hi.nodup
            intro c
            have := hi.cons c
            simp [inflight, hsx, hprev, hleft, List.count_append] at this ⊢
            omega
          exact ⟨oq, otq, newLeft_sorted _ hM, by intro y hy; simp at hy, oall, oun⟩
      · cases h
    · cases h
  | workerFinal =>
    simp only [step] at h
    split at h
    · cases h
    · rename_i hcond
      cases h
      simp at hcond
      have hsn : s.sess = none := by
        cases hx : s.sess with
        | none => rfl
        | some v => simp [hx] at hcond
      have hs2 : ∀ k, sentOn k (s.hist ++ List.map Ev.leftover s.left ++ [Ev.finished]) = sentOn k s.hist := by
        intro k; rw [sentOn_append, sentOn_append, sentOn_map_leftover]; simp [sentOn]
      exact ⟨oq, otq, List.Pairwise.nil, by intro y hy; simp [hsn] at hy,
        fun k => by rw [hs2]; exact oall k, fun k hk => by rw [hs2]; exact oun k hk⟩


theorem run_oinv (s s' : St) (acts : List Act) (h : run s acts = some s') (hi : Inv s) (ho : OInv s) : OInv s' := by
  induction acts generalizing s with
  | nil => simp [run] at h; subst h; exact ho
  | cons a as ih =>
    simp only [run] at h
    cases hs : step s a with
    | none => simp [hs] at h
    | some s1 => simp [hs] at h; exact ih s1 h (step_inv s s1 a hs hi) (step_oinv s s1 a hs hi ho)

theorem init_oinv (q : List Nat) (h : q.Pairwise (· < ·)) : OInv (init q) :=
  ⟨by simpa [init] using h, by simp [init], by simp [init], by intro x hx; simp [init] at hx,
   by intro k; simp [init, sentOn], by intro k _; simp [init, sentOn]⟩

/-! ### a finished client holds nothing -/

def FInv (s : St) : Prop := s.finished = true → s.sess = none ∧ s.left = []

theorem step_finv (s s' : St) (a : Act) (h : step s a = some s') (hi : FInv s) : FInv s' := by
  by_cases hf : s.finished = true
  · obtain ⟨h1, h2⟩ := hi hf
    cases a <;> simp [step, hf, h1] at h
  · cases a
    case workerFinal =>
      simp only [step] at h
      split at h
      · cases h
      · rename_i hcond
        cases h
        simp at hcond
        intro _
        refine ⟨?_, rfl⟩
        cases hx : s.sess with
        | none => rfl
        | some v => simp [hx] at hcond
    all_goals
      simp only [step] at h
      repeat' split at h
      all_goals first
        | (cases h; intro hf'; exact absurd hf' hf)
        | cases h

/-! ### delivery is always possible (C02 liveness, as possibility) -/


theorem run_append (s : St) (a b : List Act) :
    run s (a ++ b) = match run s a with | some s' => run s' b | none => none := by
  induction a generalizing s with
  | nil => simp [run]
  | cons x xs ih =>
    simp only [List.cons_append, run]
    cases step s x with
    | none => rfl
    | some s1 => exact ih s1

theorem dedupSorted_mem : ∀ (l : List Nat) (c : Nat), c ∈ dedupSorted l ↔ c ∈ l
  | [], _ => by simp [dedupSorted]
  | [_], _ => by simp [dedupSorted]
  | x :: y :: r, c => by
    have ih := dedupSorted_mem (y :: r) c
    simp only [dedupSorted]
    split
    · rename_i hxy; subst hxy
      rw [ih]; simp
    · simp only [List.mem_cons] at ih ⊢
      rw [ih]

theorem newLeft_mem' (l : List Nat) (c : Nat) : c ∈ newLeft l ↔ c ∈ l := by
  unfold newLeft
  rw [dedupSorted_mem]
  exact (List.mergeSort_perm l _).mem_iff

/-- what a well-behaved upstream lets the client do with one leftover: take it, transmit it, queue it for
acknowledgement, read its ACK -/
def deliverOne : List Act := [.takeLeft, .sendOk, .pushAck, .ackRecv, .ackOk none]

def fresh (conn : Nat) : Sess := { conn := conn }

theorem deliver_one (s : St) (conn c : Nat) (rest : List Nat) (hs : s.sess = some (fresh conn)) (hl : s.left = c :: rest) :
    run s deliverOne = some { s with left := rest, confirmed := s.confirmed ++ [c], hist := s.hist ++ [.sendOk conn c] ++ [.ack conn none, .consumed c] } := by
  obtain ⟨queue, left, sess, confirmed, handed, taken, stop, finished, nextConn, hist⟩ := s
  simp only at hs hl
  subst hs hl
  simp [deliverOne, run, step, fresh, ackCap]

theorem deliver_loop : ∀ (L : List Nat) (s : St) (conn : Nat), s.sess = some (fresh conn) → s.left = L →
    ∃ s', run s (L.flatMap (fun _ => deliverOne)) = some s' ∧ s'.sess = some (fresh conn) ∧ s'.left = [] ∧
      s'.confirmed = s.confirmed ++ L ∧ s'.finished = s.finished ∧ s'.queue = s.queue ∧ s'.taken = s.taken ∧
      s'.handed = s.handed
  | [], s, conn, hs, hl => ⟨s, by simp [run], hs, hl, by simp, rfl, rfl, rfl, rfl⟩
  | c :: rest, s, conn, hs, hl => by
    simp only [List.flatMap_cons, run_append, deliver_one s conn c rest hs hl]
    obtain ⟨s', a, b, c', d, e, f, g, h⟩ := deliver_loop rest { s with left := rest, confirmed := s.confirmed ++ [c], hist := s.hist ++ [.sendOk conn c] ++ [.ack conn none, .consumed c] } conn hs rfl
    exact ⟨s', a, b, c', by rw [d]; simp, e, f, g, h⟩


/-- the actions that end a session (the same plan as C18's shutdown): enter `collectLeftovers`, end the
acknowledger, merge what was not acknowledged -/
def closeSess (x : Sess) : List Act :=
  (if x.collecting.isNone then [Act.beginCollect] else []) ++
  (if x.ackEnded then [] else if x.ackCur.isSome then [Act.ackErr] else [Act.escalate, Act.ackAbort]) ++
  [Act.finishCollect]

theorem close_session (s : St) (x : Sess) (hs : s.sess = some x) (hok : SessOK s x) :
    ∃ s', run s (closeSess x) = some s' ∧ s'.sess = none ∧ (∀ c, c ∈ s'.left ↔ c ∈ inflight s) ∧
      s'.confirmed = s.confirmed ∧ s'.finished = s.finished ∧ s'.queue = s.queue ∧ s'.taken = s.taken ∧
      s'.handed = s.handed := by
  obtain ⟨queue, left, sess, confirmed, handed, taken, stop, finished, nextConn, hist⟩ := s
  simp only at hs
  subst hs
  obtain ⟨conn, normal, lastC, sentOk, ackChan, chanClosed, ackCur, pending, ackEnded, abort, connClosed, collecting⟩ := x
  obtain ⟨_, hleft⟩ := hok
  simp only at hleft
  cases collecting with
  | some P =>
    have hl : left = [] := hleft (Or.inr rfl)
    subst hl
    cases ackEnded <;> cases ackCur <;>
      simp [closeSess, run, step, inflight, newLeft_mem'] <;> (intro c; cases lastC <;> simp <;> grind)
  | none =>
    cases normal with
    | true =>
      have hl : left = [] := hleft (Or.inl rfl)
      subst hl
      cases ackEnded <;> cases ackCur <;>
        simp [closeSess, run, step, inflight, newLeft_mem'] <;> (intro c; cases lastC <;> simp <;> grind)
    | false =>
      cases ackEnded <;> cases ackCur <;>
        simp [closeSess, run, step, inflight, newLeft_mem'] <;> (intro c; cases lastC <;> simp <;> grind)


theorem after_connect (t : St) (hn : t.sess = none) (hf : t.finished = false) :
    ∃ s', run t ([Act.connectOk] ++ (t.left.flatMap (fun _ => deliverOne) ++ [Act.recoveryDone])) = some s' ∧
      s'.confirmed = t.confirmed ++ t.left ∧ inflight s' = [] ∧ s'.queue = t.queue ∧ s'.handed = t.handed ∧
      s'.taken = t.taken ∧ s'.finished = false ∧ ∃ x, s'.sess = some x ∧ x.normal = true := by
  have h1 : run t [Act.connectOk] = some { t with sess := some (fresh t.nextConn), nextConn := t.nextConn + 1 } := by
    simp [run, step, hn, hf, fresh]
  obtain ⟨s2, a, b, c, d, e, f, g, h⟩ := deliver_loop t.left { t with sess := some (fresh t.nextConn), nextConn := t.nextConn + 1 } t.nextConn rfl rfl
  have h3 : run s2 [Act.recoveryDone] = some { s2 with sess := some { fresh t.nextConn with normal := true } } := by
    simp [run, step, b, c, fresh]
  refine ⟨{ s2 with sess := some { fresh t.nextConn with normal := true } }, ?_, ?_, ?_, ?_, ?_, ?_, ?_, ?_⟩
  · rw [run_append, h1]; simp only; rw [run_append, a]; simp only; exact h3
  · exact d
  · simp [inflight, c, fresh]
  · exact f
  · exact h
  · exact g
  · simp only; rw [e]; exact hf
  · exact ⟨_, rfl, rfl⟩

end C02
