import SlogModel.Model.Disk

/-!
  Lemmas about the step-level disk model (helper lemmas for `Props/C04.lean`).
-/

open Disk
namespace C04

theorem fget_del_same (fs : FS) (n : Name) : fget (del fs n) n = none := by
  unfold fget del
  rw [List.find?_filter]
  have : (fs.find? (fun a => decide (a.1 ≠ n) && decide (a.1 = n))) = none := by
    apply List.find?_eq_none.mpr
    intro x _; simp
  simp [this]

theorem fget_del_other (fs : FS) (n m : Name) (h : m ≠ n) : fget (del fs n) m = fget fs m := by
  unfold fget del
  rw [List.find?_filter]
  have : (fun (a : Name × Node) => decide (decide (a.1 ≠ n) = true ∧ decide (a.1 = m) = true)) = (fun a => decide (a.1 = m)) := by
    funext a
    by_cases hx : a.1 = m
    · simp [hx, h]
    · simp [hx]
  rw [this]

theorem fget_append_single (fs : FS) (n m : Name) (x : Node) :
    fget (fs ++ [(n, x)]) m = match fget fs m with | some y => some y | none => if n = m then some x else none := by
  unfold fget
  rw [List.find?_append]
  cases h : fs.find? (fun p => p.1 = m) with
  | some y => simp
  | none =>
    by_cases hn : n = m
    · simp [hn]
    · simp [hn]

theorem fget_put_same (fs : FS) (n : Name) (x : Node) : fget (put fs n x) n = some x := by
  unfold put
  rw [fget_append_single, fget_del_same]
  simp

theorem fget_put_other (fs : FS) (n m : Name) (x : Node) (h : m ≠ n) : fget (put fs n x) m = fget fs m := by
  unfold put
  rw [fget_append_single, fget_del_other fs n m h]
  cases fget fs m with
  | some y => rfl
  | none =>
    have : ¬ n = m := fun e => h e.symm
    simp [this]

/-- a directory changed at most at the two names of chunk `id`, and the final name is absent/unchanged or complete -/
def Safe (fs fs' : FS) (id : Nat) (data : Bytes) : Prop :=
  (fget fs' (.final id) = fget fs (.final id) ∨ fget fs' (.final id) = some (.file data)) ∧
  ∀ n, n ≠ .final id → n ≠ .temp id → fget fs' n = fget fs n

theorem safe_refl (fs : FS) (id : Nat) (data : Bytes) : Safe fs fs id data := ⟨Or.inl rfl, fun _ _ _ => rfl⟩

theorem writeFile_spec (fs : FS) (id : Nat) (data : Bytes) (limit : Option Nat) :
    ((writeFile fs id data limit).2 = true → fget (writeFile fs id data limit).1 (.final id) = some (.file data)) ∧
    ((writeFile fs id data limit).2 = false → fget (writeFile fs id data limit).1 (.final id) = fget fs (.final id)) ∧
    fget (writeFile fs id data limit).1 (.temp id) = none ∧
    ∀ n, n ≠ .final id → n ≠ .temp id → fget (writeFile fs id data limit).1 n = fget fs n := by
  unfold writeFile
  simp only
  cases hf : fits limit data.length
  case true =>
    simp only [if_true]
    refine ⟨fun _ => fget_put_same _ _ _, fun h => by simp at h, ?_, ?_⟩
    · rw [fget_put_other _ _ _ _ (by simp), fget_del_same]
    · intro n h1 h2
      rw [fget_put_other _ _ _ _ h1, fget_del_other _ _ _ h2, fget_put_other _ _ _ _ h2]
  case false =>
    simp only [Bool.false_eq_true, if_false]
    refine ⟨fun h => by simp at h, fun _ => ?_, fget_del_same _ _, ?_⟩
    · rw [fget_del_other _ _ _ (by simp), fget_put_other _ _ _ _ (by simp)]
    · intro n h1 h2
      rw [fget_del_other _ _ _ h2, fget_put_other _ _ _ _ h2]

theorem writeFile_safe (fs : FS) (id : Nat) (data : Bytes) (limit : Option Nat) :
    Safe fs (writeFile fs id data limit).1 id data := by
  obtain ⟨h1, h2, _, h4⟩ := writeFile_spec fs id data limit
  refine ⟨?_, h4⟩
  cases hb : (writeFile fs id data limit).2 with
  | true => exact Or.inr (h1 hb)
  | false => exact Or.inl (h2 hb)

theorem crashFile_safe (fs : FS) (id : Nat) (data : Bytes) (k : Kill) : Safe fs (crashFile fs id data k) id data := by
  cases k with
  | «open» =>
    exact ⟨Or.inl (fget_put_other _ _ _ _ (by simp)), fun n _ h2 => fget_put_other _ _ _ _ h2⟩
  | write j =>
    exact ⟨Or.inl (fget_put_other _ _ _ _ (by simp)), fun n _ h2 => fget_put_other _ _ _ _ h2⟩
  | close =>
    exact ⟨Or.inl (fget_put_other _ _ _ _ (by simp)), fun n _ h2 => fget_put_other _ _ _ _ h2⟩
  | rename =>
    refine ⟨Or.inr (fget_put_same _ _ _), fun n h1 h2 => ?_⟩
    simp only [crashFile]
    rw [fget_put_other _ _ _ _ h1, fget_del_other _ _ _ h2]

/-- every final-name file is either one that was there before or a complete chunk of the list -/
def FinalsOK (fs0 fs : FS) (chunks : List (Nat × Bytes)) : Prop :=
  ∀ i x, fget fs (.final i) = some x → fget fs0 (.final i) = some x ∨ ∃ d, (i, d) ∈ chunks ∧ x = .file d

theorem finalsOK_step (fs0 fs fs' : FS) (id : Nat) (data : Bytes) (done : List (Nat × Bytes))
    (h : FinalsOK fs0 fs done) (hs : Safe fs fs' id data) : FinalsOK fs0 fs' (done ++ [(id, data)]) := by
  intro i x hx
  by_cases hi : i = id
  · subst hi
    rcases hs.1 with h1 | h1
    · rw [h1] at hx
      rcases h i x hx with h2 | ⟨d, h2, h3⟩
      · exact Or.inl h2
      · exact Or.inr ⟨d, by simp [h2], h3⟩
    · rw [h1] at hx
      cases hx
      exact Or.inr ⟨data, by simp, rfl⟩
  · have := hs.2 (.final i) (by simp [hi]) (by simp)
    rw [this] at hx
    rcases h i x hx with h2 | ⟨d, h2, h3⟩
    · exact Or.inl h2
    · exact Or.inr ⟨d, by simp [h2], h3⟩

theorem finalsOK_mono (fs0 fs : FS) (a b : List (Nat × Bytes)) (h : FinalsOK fs0 fs a) : FinalsOK fs0 fs (a ++ b) := by
  intro i x hx
  rcases h i x hx with h2 | ⟨d, h2, h3⟩
  · exact Or.inl h2
  · exact Or.inr ⟨d, by simp [h2], h3⟩

theorem victim_finals : ∀ (chunks done : List (Nat × Bytes)) (fs0 fs : FS) (pos : Nat) (f : Fault),
    FinalsOK fs0 fs done → FinalsOK fs0 (victim fs chunks pos f) (done ++ chunks)
  | [], done, fs0, fs, pos, f, h => by simpa [victim] using h
  | (id, d) :: rest, done, fs0, fs, pos, f, h => by
    have hw := fun lim => finalsOK_step fs0 fs _ id d done h (writeFile_safe fs id d lim)
    have hk := fun k => finalsOK_step fs0 fs _ id d done h (crashFile_safe fs id d k)
    have happ : done ++ (id, d) :: rest = (done ++ [(id, d)]) ++ rest := by simp
    rw [happ]
    cases pos with
    | zero =>
      cases f with
      | none => simp only [victim]; exact victim_finals rest _ fs0 _ 0 .none (hw _)
      | limit l => simp only [victim]; exact victim_finals rest _ fs0 _ 0 .none (hw _)
      | kill k => simp only [victim]; exact finalsOK_mono _ _ _ _ (hk k)
      | limitKill l => simp only [victim]; exact finalsOK_mono _ _ _ _ (hk _)
    | succ p => simp only [victim]; exact victim_finals rest _ fs0 _ p f (hw _)

/-! ### from `fget` to the directory scan -/

def Names (fs : FS) : List Name := fs.map (·.1)

theorem del_names_nodup (fs : FS) (n : Name) (h : (Names fs).Nodup) : (Names (del fs n)).Nodup := by
  unfold Names del at *
  exact (List.filter_sublist.map _).nodup h

theorem not_mem_del (fs : FS) (n : Name) : n ∉ Names (del fs n) := by
  unfold Names del
  intro h
  obtain ⟨p, hp, rfl⟩ := List.mem_map.mp h
  simp at hp

theorem put_names_nodup (fs : FS) (n : Name) (x : Node) (h : (Names fs).Nodup) : (Names (put fs n x)).Nodup := by
  unfold put
  have h1 := del_names_nodup fs n h
  have h2 := not_mem_del fs n
  unfold Names at *
  rw [List.map_append, List.nodup_append]
  refine ⟨h1, by simp, ?_⟩
  intro a ha b hb
  simp at hb; subst hb
  intro e; subst e
  exact h2 ha

theorem fget_of_mem (fs : FS) (n : Name) (x : Node) (hn : (Names fs).Nodup) (hm : (n, x) ∈ fs) : fget fs n = some x := by
  induction fs with
  | nil => simp at hm
  | cons p ps ih =>
    unfold Names at hn
    simp only [List.map_cons, List.nodup_cons] at hn
    rcases List.mem_cons.mp hm with h | h
    · subst h
      simp [fget]
    · have hne : p.1 ≠ n := by
        intro e
        apply hn.1
        rw [e]
        exact List.mem_map.mpr ⟨(n, x), h, rfl⟩
      have := ih hn.2 h
      unfold fget at this ⊢
      simp [List.find?_cons, hne, this]

theorem writeFile_nodup (fs : FS) (id : Nat) (d : Bytes) (lim : Option Nat) (h : (Names fs).Nodup) :
    (Names (writeFile fs id d lim).1).Nodup := by
  unfold writeFile
  simp only
  split
  · exact put_names_nodup _ _ _ (del_names_nodup _ _ (put_names_nodup _ _ _ h))
  · exact del_names_nodup _ _ (put_names_nodup _ _ _ h)

theorem crashFile_nodup (fs : FS) (id : Nat) (d : Bytes) (k : Kill) (h : (Names fs).Nodup) :
    (Names (crashFile fs id d k)).Nodup := by
  cases k <;> simp only [crashFile]
  · exact put_names_nodup _ _ _ h
  · exact put_names_nodup _ _ _ h
  · exact put_names_nodup _ _ _ h
  · exact put_names_nodup _ _ _ (del_names_nodup _ _ h)

theorem victim_nodup : ∀ (chunks : List (Nat × Bytes)) (fs : FS) (pos : Nat) (f : Fault),
    (Names fs).Nodup → (Names (victim fs chunks pos f)).Nodup
  | [], fs, pos, f, h => by simpa [victim] using h
  | (id, d) :: rest, fs, pos, f, h => by
    cases pos with
    | zero =>
      cases f with
      | none => simp only [victim]; exact victim_nodup rest _ 0 .none (writeFile_nodup _ _ _ _ h)
      | limit l => simp only [victim]; exact victim_nodup rest _ 0 .none (writeFile_nodup _ _ _ _ h)
      | kill k => simp only [victim]; exact crashFile_nodup _ _ _ _ h
      | limitKill l => simp only [victim]; exact crashFile_nodup _ _ _ _ h
    | succ p => simp only [victim]; exact victim_nodup rest _ p f (writeFile_nodup _ _ _ _ h)

theorem mem_scan (fs : FS) (i : Nat) (d : Bytes) (h : (i, some d) ∈ scan fs) : (Name.final i, Node.file d) ∈ fs := by
  unfold scan at h
  obtain ⟨p, hp, he⟩ := List.mem_filterMap.mp h
  obtain ⟨n, x⟩ := p
  cases n with
  | final j =>
    cases x with
    | file d' => simp at he; obtain ⟨rfl, rfl⟩ := he; exact hp
    | dir => simp at he
  | temp j => simp at he

end C04
