import SlogModel.Lemmas.BufferData

/-!
  Space invariant of the buffer model: the bytes of the files in the queue directory never exceed the
  `persistent_chunk_bytes` gauge, and the gauge never exceeds the configured limit (or what was
  already there at the start, when that is more) — helper lemmas for `Props/C03.lean`.
-/

open Buffer
namespace C03

def diskBytes (disk : List (Nat × Bytes)) : Nat := (disk.map (·.2.length)).sum

structure SpInv (B : Int) (s : St) : Prop where
  sb : (diskBytes s.disk : Int) ≤ s.c.gBytes
  qb : s.c.gBytes ≤ B
  mb : (s.cfg.maxBytes : Int) ≤ B

theorem diskBytes_append (a b : List (Nat × Bytes)) : diskBytes (a ++ b) = diskBytes a + diskBytes b := by
  simp [diskBytes]

theorem diskBytes_remove_le (disk : List (Nat × Bytes)) (id : Nat) : diskBytes (remove disk id) ≤ diskBytes disk := by
  induction disk with
  | nil => simp [remove, diskBytes]
  | cons p r ih =>
    simp only [remove, List.filter_cons] at ih ⊢
    split
    · simp only [diskBytes, List.map_cons, List.sum_cons] at ih ⊢; omega
    · simp only [diskBytes, List.map_cons, List.sum_cons] at ih ⊢; omega

theorem diskBytes_remove_mem (disk : List (Nat × Bytes)) (id : Nat) (d : Bytes) (h : (id, d) ∈ disk) :
    diskBytes (remove disk id) + d.length ≤ diskBytes disk := by
  induction disk with
  | nil => simp at h
  | cons p r ih =>
    simp only [remove, List.filter_cons] at ih ⊢
    rcases List.mem_cons.mp h with rfl | hm
    · have := diskBytes_remove_le r id
      simp only [remove] at this
      simp [diskBytes] at this ⊢; omega
    · have := ih hm
      split
      · simp only [diskBytes, List.map_cons, List.sum_cons] at this ⊢; omega
      · simp only [diskBytes, List.map_cons, List.sum_cons] at this ⊢; omega

theorem unload_sp (B : Int) (s : St) (e : Entry) (h : SpInv B s) :
    SpInv B (unload s e).1 ∧ ((unload s e).2.2 = false → (unload s e).2.1 = e ∧ e.saved = false) ∧
    ((unload s e).2.2 = true → e.saved = false → (unload s e).2.1.data = none) := by
  unfold unload
  split
  · rename_i hs; exact ⟨h, by simp, by simp [hs]⟩
  · rename_i hs
    split
    · exact ⟨h, by simp [hs], by simp⟩
    · split
      · exact ⟨h, by simp [hs], by simp⟩
      · split
        · exact ⟨h, by simp [hs], by simp⟩
        · rename_i d _ _ hq
          refine ⟨⟨?_, ?_, h.mb⟩, by simp, by simp⟩
          · simp only [diskBytes_append]
            have := diskBytes_remove_le s.disk e.id
            have := h.sb
            simp [diskBytes] at *; omega
          · have := h.mb; simp at hq ⊢; omega

theorem onDropped_sp (B : Int) (s : St) (e : Entry) (h : SpInv B s) (he : e.saved = true → e.data = none) :
    SpInv B (onDropped s e) := by
  unfold onDropped
  by_cases hs : e.saved = true
  · have : dataLen e = 0 := by simp [dataLen, he hs]
    simp only [hs, if_true, this]
    exact ⟨by simpa using h.sb, by simpa using h.qb, h.mb⟩
  · simp only [hs]
    exact ⟨h.sb, h.qb, h.mb⟩

theorem unloadOrDrop_sp (B : Int) (s : St) (e : Entry) (h : SpInv B s) :
    SpInv B (unloadOrDrop s e).1 ∧ (∀ e', (unloadOrDrop s e).2 = some e' → e.saved = false → e'.data = none) := by
  unfold unloadOrDrop
  obtain ⟨h1, h2, h3⟩ := unload_sp B s e h
  cases hu : unload s e with
  | mk s1 r =>
    cases r with
    | mk e1 ok =>
      rw [hu] at h1 h2 h3
      cases ok with
      | true =>
        simp only [if_true]
        exact ⟨h1, fun e' he' hs => by simp at he'; subst he'; exact h3 rfl hs⟩
      | false =>
        simp only [Bool.false_eq_true, if_false]
        obtain ⟨rfl, hs⟩ := h2 rfl
        exact ⟨onDropped_sp B _ _ h1 (fun h => by rw [hs] at h; cases h), fun e' he' => by cases he'⟩

theorem saveOne_sp (B : Int) (s : St) (e : Entry) (h : SpInv B s) : SpInv B (saveOne s e) := by
  unfold saveOne
  have h1 := (unloadOrDrop_sp B s e h).1
  cases hu : unloadOrDrop s e with
  | mk s1 r =>
    rw [hu] at h1
    cases r
    · exact h1
    · exact ⟨h1.sb, h1.qb, h1.mb⟩

theorem saveAll_sp (B : Int) : ∀ (es : List Entry) (s : St), SpInv B s → SpInv B (saveAll s es)
  | [], _, h => h
  | e :: es, s, h => by
    simp only [saveAll, List.foldl_cons]
    have := saveAll_sp B es (saveOne s e) (saveOne_sp B s e h)
    simpa [saveAll] using this

theorem removeChunk_sp (B : Int) (s : St) (e : Entry) (h : SpInv B s)
    (hd : ∀ d', lookup s.disk e.id = some d' → dataLen e ≤ d'.length) : SpInv B (removeChunk s e) := by
  unfold removeChunk
  split
  · exact h
  · split
    · exact h
    · split
      · exact ⟨h.sb, h.qb, h.mb⟩
      · rename_i d' hl
        have h1 := hd d' hl
        have h2 := diskBytes_remove_mem s.disk e.id d' (mem_of_lookup _ _ _ hl)
        have := h.sb; have := h.qb
        exact ⟨by simp; omega, by simp; omega, h.mb⟩

theorem feederStep_sp (B : Int) (s s' : St) (h : feederStep s = some s') (hd : SpInv B s) : SpInv B s' := by
  unfold feederStep at h
  split at h
  · split at h
    · cases h; exact ⟨hd.sb, hd.qb, hd.mb⟩
    · cases h
  · split at h
    · cases h
    · rename_i e rest hq
      simp only at h
      have h0 : SpInv B { s with inQ := rest, c := (if e.data.isSome = true then { s.c with qT := s.c.qT - 1 } else { s.c with qP := s.c.qP - 1 }) } := by
        refine ⟨?_, ?_, hd.mb⟩
        · split <;> exact hd.sb
        · split <;> exact hd.qb
      split at h
      · rename_i hload
        have hnone : e.data = none := by
          cases hdta : e.data with
          | none => rfl
          | some d => simp [hdta] at hload
        split at h
        · cases h; apply onDropped_sp
          · exact ⟨h0.sb, h0.qb, h0.mb⟩
          · intro _; exact hnone
        · cases h; apply onDropped_sp
          · exact h0
          · intro _; exact hnone
      · rename_i d _
        split at h
        · rename_i hz
          cases h
          have : SpInv B (removeChunk { s with inQ := rest, c := (if e.data.isSome = true then { s.c with qT := s.c.qT - 1 } else { s.c with qP := s.c.qP - 1 }) } { e with data := some d }) := by
            apply removeChunk_sp _ _ _ h0
            intro d' _; simp [dataLen, hz]
          generalize removeChunk { s with inQ := rest, c := (if e.data.isSome = true then { s.c with qT := s.c.qT - 1 } else { s.c with qP := s.c.qP - 1 }) } { e with data := some d } = X at this ⊢
          exact ⟨this.sb, this.qb, this.mb⟩
        · cases h; exact ⟨h0.sb, h0.qb, h0.mb⟩

theorem settle_sp (B : Int) : ∀ (n : Nat) (s : St), SpInv B s → SpInv B (settle n s)
  | 0, _, h => h
  | n + 1, s, h => by
    unfold settle
    cases hf : feederStep s with
    | none => exact h
    | some s' => exact settle_sp B n s' (feederStep_sp B s s' hf h)

theorem accept_sp (B : Int) (s : St) (id : Nat) (data : Bytes) (h : SpInv B s) : SpInv B (accept s id data) := by
  unfold accept
  simp only
  split
  · have h0 : SpInv B { s with accepted := s.accepted ++ [(id, data)], c := { s.c with pending := s.c.pending + 1, inP := s.c.inP + 1 } } :=
      ⟨h.sb, h.qb, h.mb⟩
    obtain ⟨h1, h2⟩ := unloadOrDrop_sp B _ { id := id, data := some data, saved := false } h0
    cases hu : unloadOrDrop
      { s with accepted := s.accepted ++ [(id, data)], c := { s.c with pending := s.c.pending + 1, inP := s.c.inP + 1 } }
      { id := id, data := some data, saved := false } with
    | mk s1 r =>
      rw [hu] at h1 h2
      cases r with
      | none => exact h1
      | some e' =>
        simp only
        split
        · refine ⟨?_, ?_, h1.mb⟩
          · split <;> exact h1.sb
          · split <;> exact h1.qb
        · exact onDropped_sp B _ _ h1 (fun _ => h2 e' rfl rfl)
  · split
    · exact ⟨h.sb, h.qb, h.mb⟩
    · apply onDropped_sp
      · exact ⟨h.sb, h.qb, h.mb⟩
      · simp

theorem diskBytes_zero_le (disk : List (Nat × Bytes)) (id : Nat) :
    diskBytes (disk.map (fun p => if p.1 = id then (id, []) else p)) ≤ diskBytes disk := by
  induction disk with
  | nil => simp
  | cons p r ih =>
    unfold diskBytes at ih ⊢
    rw [List.map_cons, List.map_cons, List.sum_cons, List.map_cons, List.sum_cons]
    split
    · simp only [List.length_nil]; omega
    · omega

/-- one operation; `confirm` needs the loaded bytes to be what the file holds -/
theorem step_sp (B : Int) (s s' : St) (o : Op) (h : step s o = some s') (hd : SpInv B s)
    (hc : ∀ id e d', o = .confirm id → s.held.find? (fun e => e.id = id) = some e →
      lookup s.disk e.id = some d' → dataLen e ≤ d'.length) : SpInv B s' := by
  cases o with
  | accept id data =>
    simp only [step] at h
    split at h
    · cases h
    · cases h; exact settle_sp B _ _ (accept_sp B s id data hd)
  | take =>
    simp only [step] at h
    split at h
    · cases h
    · split at h
      · cases h
      · cases h; exact settle_sp B _ _ ⟨hd.sb, hd.qb, hd.mb⟩
  | confirm id =>
    simp only [step] at h
    split at h
    · cases h
    · rename_i e he
      cases h
      have := removeChunk_sp B s e hd (fun d' hl => hc id e d' rfl he hl)
      generalize removeChunk s e = X at this ⊢
      exact ⟨this.sb, this.qb, this.mb⟩
  | handBack id =>
    simp only [step] at h
    split at h
    · cases h
    · rename_i e _
      have h0 : SpInv B { s with held := s.held.filter (fun e => e.id ≠ id) } := ⟨hd.sb, hd.qb, hd.mb⟩
      obtain ⟨h1, h2, _⟩ := unload_sp B _ e h0
      cases hu : unload { s with held := s.held.filter (fun e => e.id ≠ id) } e with
      | mk s1 r =>
        cases r with
        | mk e1 ok =>
          rw [hu] at h h1 h2
          cases ok with
          | true => simp only at h; cases h; exact ⟨h1.sb, h1.qb, h1.mb⟩
          | false =>
            simp only at h; cases h
            obtain ⟨rfl, hs⟩ := h2 rfl
            exact onDropped_sp B _ _ h1 (fun h => by rw [hs] at h; cases h)
  | destroy =>
    simp only [step] at h
    split at h
    · cases h
    · cases h; exact saveAll_sp B _ _ ⟨hd.sb, hd.qb, hd.mb⟩
  | finish =>
    simp only [step] at h
    split at h
    · cases h; exact hd
    · cases h
  | extZero id =>
    simp only [step] at h
    split at h
    · cases h
      have := diskBytes_zero_le s.disk id
      exact ⟨by have := hd.sb; simp only; omega, hd.qb, hd.mb⟩
    · cases h
  | extRemove id =>
    simp only [step] at h
    split at h
    · cases h
      have := diskBytes_remove_le s.disk id
      exact ⟨by have := hd.sb; simp only; omega, hd.qb, hd.mb⟩
    · cases h


/-- what a consumer confirms is what the file holds (no tampering): the gauge is reduced by the file's size -/
theorem confirm_size (s : St) (hi : CInv s) (hd : DInv s) (id : Nat) (e : Entry) (d' : Bytes)
    (he : s.held.find? (fun e => e.id = id) = some e) (hl : lookup s.disk e.id = some d') :
    dataLen e ≤ d'.length := by
  cases hdta : e.data with
  | none => simp [dataLen, hdta]
  | some d =>
    have hm := List.mem_of_find?_eq_some he
    have h1 := hd.h e hm d hdta
    have h2 := mem_of_lookup _ _ _ hl
    have hacc : e.id ∈ accIds s := List.mem_map.mpr ⟨(e.id, d), h1, rfl⟩
    have h3 := hd.disk (e.id, d') h2 hacc
    have := eq_of_nodup_keys s.accepted hi.nodup (e.id, d) (e.id, d') h1 h3 rfl
    simp at this
    simp [dataLen, hdta, this]

theorem run_sp (B : Int) : ∀ (ops : List Op) (s s' : St), run s ops = some s' → CInv s → Legal s ops → DInv s →
    SpInv B s → SpInv B s'
  | [], s, s', h, _, _, _, hs => by simp [run] at h; subst h; exact hs
  | o :: os, s, s', h, hi, hl, hd, hsp => by
    simp only [run] at h
    cases hs : step s o with
    | none => simp [hs] at h
    | some s1 =>
      simp [hs] at h
      exact run_sp B os s1 s' h (step_cinv s s1 o hs hi hl.1) (hl.2 s1 hs) (step_dinv s s1 o hs hi.cons hl.1 hd)
        (step_sp B s s1 o hs hsp (fun id e d' _ he hl' => confirm_size s hi hd id e d' he hl'))

theorem recFold_sp (cfg : Cfg) : ∀ (files : List (Nat × Bytes)) (s : St),
    (files.foldl (recStep cfg) s).disk = s.disk ∧ (files.foldl (recStep cfg) s).cfg = s.cfg ∧
    (files.foldl (recStep cfg) s).c.gBytes = s.c.gBytes + diskBytes files
  | [], s => by simp [diskBytes]
  | f :: fs, s => by
    simp only [List.foldl_cons]
    obtain ⟨a, b, c⟩ := recFold_sp cfg fs (recStep cfg s f)
    rw [a, b, c]
    unfold recStep
    split <;> (simp [diskBytes]; omega)

theorem scanned_bytes (cfg : Cfg) (disk : List (Nat × Bytes)) (h : cfg.hasDir = true) :
    diskBytes (scanned cfg disk) = diskBytes disk := by
  unfold scanned diskBytes
  simp only [h, if_true]
  exact ((List.mergeSort_perm disk _).map _).sum_nat

/-- after recovery the gauge is exactly the bytes found in the directory -/
theorem recover_sp (cfg : Cfg) (disk : List (Nat × Bytes)) (h : cfg.hasDir = true) :
    SpInv (max (cfg.maxBytes : Int) (diskBytes disk)) (recover cfg disk) := by
  unfold recover quiesce
  apply settle_sp
  obtain ⟨a, b, c⟩ := recFold_sp cfg (scanned cfg disk) (start cfg disk)
  refine ⟨?_, ?_, ?_⟩
  · rw [a, c, scanned_bytes cfg disk h]; simp [start]
  · rw [c, scanned_bytes cfg disk h]; simp [start]; omega
  · rw [b]; simp [start]; omega

end C03
