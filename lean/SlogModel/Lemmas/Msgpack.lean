import SlogModel.Model.Msgpack

/-! Helper lemmas about the MessagePack decoder spec: unfolding per format code, big-endian round trips. -/

namespace MP


theorem rd16_be16 (n : Nat) (h : n < 65536) (r : Bytes) : rd16 (be16 n ++ r) = some (n, r) := by
  simp [rd16, be16]; omega

theorem rd32_be32 (n : Nat) (h : n < 4294967296) (r : Bytes) : rd32 (be32 n ++ r) = some (n, r) := by
  simp [rd32, be32]; omega

theorem takeN_append (v r : Bytes) : takeN v.length (v ++ r) = some (v, r) := by
  simp [takeN]

theorem decode_fixstr (d c : Nat) (r : Bytes) (h1 : 160 ≤ c) (h2 : c < 192) :
    decode d (c :: r) = (takeN (c - 160) r).map (fun (s, r') => (.str s, r')) := by
  rw [decode.eq_def]
  have a1 : ¬ (c < 128) := by omega
  have a2 : ¬ (c < 144) := by omega
  have a3 : ¬ (c < 160) := by omega
  simp [a1, a2, a3, h2]

theorem decode_str16 (d : Nat) (r : Bytes) :
    decode d (218 :: r) = (rd16 r).bind (fun (n, r1) => (takeN n r1).map (fun (s, r') => (.str s, r'))) := by
  rw [decode.eq_def]; simp

theorem decode_str32 (d : Nat) (r : Bytes) :
    decode d (219 :: r) = (rd32 r).bind (fun (n, r1) => (takeN n r1).map (fun (s, r') => (.str s, r'))) := by
  rw [decode.eq_def]; simp

theorem decode_fixmap (d c : Nat) (r : Bytes) (h1 : 128 ≤ c) (h2 : c < 144) :
    decode (d + 1) (c :: r) = (decodePairs d (c - 128) r).map (fun (kv, r') => (.map kv, r')) := by
  rw [decode.eq_def]
  have a1 : ¬ (c < 128) := by omega
  simp [a1, h2]

theorem decode_map16 (d : Nat) (r : Bytes) :
    decode (d + 1) (222 :: r) =
      (rd16 r).bind (fun (n, r1) => (decodePairs d n r1).map (fun (kv, r') => (.map kv, r'))) := by
  rw [decode.eq_def]; simp

theorem decode_fixarray (d c : Nat) (r : Bytes) (h1 : 144 ≤ c) (h2 : c < 160) :
    decode (d + 1) (c :: r) = (decodeSeq d (c - 144) r).map (fun (l, r') => (.arr l, r')) := by
  rw [decode.eq_def]
  have a1 : ¬ (c < 128) := by omega
  have a2 : ¬ (c < 144) := by omega
  simp [a1, a2, h2]

theorem decode_fixext8 (d : Nat) (r : Bytes) :
    decode d (215 :: r) = (rd8 r).bind (fun (ty, r1) => (takeN 8 r1).map (fun (s, r') => (.ext ty s, r'))) := by
  rw [decode.eq_def]; simp

theorem decode_encStr (d : Nat) (v rest : Bytes) (h : v.length < 4294967296) :
    decode d (encStr v ++ rest) = some (.str v, rest) := by
  unfold encStr
  by_cases h1 : v.length < 16
  · simp only [h1, if_true, List.cons_append]
    rw [decode_fixstr _ _ _ (by omega) (by omega)]
    simp [takeN_append]
  · by_cases h2 : v.length < 65536
    · simp only [h1, h2, if_true, if_false, List.cons_append, List.append_assoc]
      rw [decode_str16]
      simp [rd16_be16 _ h2, takeN_append]
    · simp only [h1, h2, if_false, List.cons_append, List.append_assoc]
      rw [decode_str32]
      simp [rd32_be32 _ h, takeN_append]


theorem rd64_be64 (n : Nat) (h : n < 18446744073709551616) (r : Bytes) : rd64 (be64 n ++ r) = some (n, r) := by
  simp [rd64, be64, be32]; omega

theorem decode_bin8 (d : Nat) (r : Bytes) :
    decode d (196 :: r) = (rd8 r).bind (fun (n, r1) => (takeN n r1).map (fun (s, r') => (.bin s, r'))) := by
  rw [decode.eq_def]; simp
theorem decode_bin16 (d : Nat) (r : Bytes) :
    decode d (197 :: r) = (rd16 r).bind (fun (n, r1) => (takeN n r1).map (fun (s, r') => (.bin s, r'))) := by
  rw [decode.eq_def]; simp
theorem decode_bin32 (d : Nat) (r : Bytes) :
    decode d (198 :: r) = (rd32 r).bind (fun (n, r1) => (takeN n r1).map (fun (s, r') => (.bin s, r'))) := by
  rw [decode.eq_def]; simp
theorem decode_str8 (d : Nat) (r : Bytes) :
    decode d (217 :: r) = (rd8 r).bind (fun (n, r1) => (takeN n r1).map (fun (s, r') => (.str s, r'))) := by
  rw [decode.eq_def]; simp
theorem decode_int64 (d : Nat) (r : Bytes) :
    decode d (211 :: r) =
      (rd64 r).bind (fun (n, r') => if n < 9223372036854775808 then some (.uint n, r') else none) := by
  rw [decode.eq_def]; simp
theorem decode_array16 (d : Nat) (r : Bytes) :
    decode (d + 1) (220 :: r) =
      (rd16 r).bind (fun (n, r1) => (decodeSeq d n r1).map (fun (l, r') => (.arr l, r'))) := by
  rw [decode.eq_def]; simp
theorem decode_array32 (d : Nat) (r : Bytes) :
    decode (d + 1) (221 :: r) =
      (rd32 r).bind (fun (n, r1) => (decodeSeq d n r1).map (fun (l, r') => (.arr l, r'))) := by
  rw [decode.eq_def]; simp

end MP
