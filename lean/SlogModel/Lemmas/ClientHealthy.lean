import SlogModel.Lemmas.Client

/-!
  The fault-free future of the client (helper lemmas for `C02_healthy_future_confirms_everything`).

  `healthy` are the actions a run consists of once the upstream behaves: connect succeeds, every send succeeds, every ACK
  read returns the ACK of the chunk the acknowledger waits for.  From a *good* state — between sessions, or inside a session
  in which no fault has happened yet — every such action keeps the state good and lowers the measure `mu`, and when none of
  them is enabled nothing is left to do: leftovers, queue and session hold no chunk.
-/

open Client
namespace C02

def healthy : List Act := [.connectOk, .takeLeft, .recoveryDone, .takeInput, .sendOk, .pushAck, .ackRecv, .ackOk none]

/-- a session in which nothing has gone wrong: the sender is not collecting leftovers, the acknowledger runs and tracks exactly
the chunk it is reading the ACK of, the connection is open -/
structure GoodSess (s : St) (x : Sess) : Prop where
  col : x.collecting = none
  ack : x.ackEnded = false
  conn : x.connClosed = false
  sent : x.sentOk = true → x.lastC.isSome = true
  tidy : x.pending = x.ackCur.toList
  reco : x.normal = true → s.left = []

structure Good (s : St) : Prop where
  fin : s.finished = false
  sess : ∀ x, s.sess = some x → GoodSess s x

def sessMu (x : Sess) : Nat :=
  (if x.normal then 0 else 1) + (match x.lastC with | none => 0 | some _ => if x.sentOk then 4 else 5) +
    3 * x.ackChan.length + 2 * x.pending.length

/-- work left: 6 per chunk waiting, 5 / 4 for the chunk in hand before / after its transmission, 3 per chunk queued for
the acknowledger, 2 for the chunk whose ACK is being read; 2 for a missing session, 1 for an unfinished recovery stage -/
def mu (s : St) : Nat :=
  6 * (s.left.length + s.queue.length) + (match s.sess with | none => 2 | some x => sessMu x)

theorem healthy_step (s s' : St) (a : Act) (ha : a ∈ healthy) (h : step s a = some s') (hg : Good s) :
    Good s' ∧ mu s' < mu s := by
  simp only [healthy, List.mem_cons, List.mem_nil_iff, or_false] at ha
  rcases ha with rfl | rfl | rfl | rfl | rfl | rfl | rfl | rfl
  · -- connectOk
    simp only [step] at h
    split at h
    · cases h
    · rename_i hs
      split at h
      · cases h
      · cases h
        refine ⟨⟨hg.fin, ?_⟩, ?_⟩
        · intro x hx
          simp only [Option.some.injEq] at hx
          subst hx
          exact ⟨rfl, rfl, rfl, by simp, rfl, by simp⟩
        · simp [mu, hs, sessMu]
  · -- takeLeft
    simp only [step] at h
    split at h
    · rename_i x c rest hs hl
      split at h
      · cases h
      · rename_i hcond
        cases h
        simp only [not_or, Bool.not_eq_true] at hcond
        have g := hg.sess x hs
        have hlast : x.lastC = none := by
          cases hc : x.lastC with
          | none => rfl
          | some v => simp [hc] at hcond
        refine ⟨⟨hg.fin, ?_⟩, ?_⟩
        · intro y hy
          simp only [Option.some.injEq] at hy
          subst hy
          exact ⟨g.col, g.ack, g.conn, by simp, g.tidy, by intro hn; simp [hcond.1] at hn⟩
        · simp only [mu, hs, hl, sessMu, hlast, List.length_cons]
          have hso : x.sentOk = false := by
            cases hb : x.sentOk with
            | false => rfl
            | true => have := g.sent hb; simp [hlast] at this
          simp [hso]; omega
    · cases h
  · -- recoveryDone
    simp only [step] at h
    split at h
    · rename_i x hs
      split at h
      · cases h
      · rename_i hcond
        cases h
        simp only [not_or, Bool.not_eq_true, ne_eq, Classical.not_not] at hcond
        have g := hg.sess x hs
        refine ⟨⟨hg.fin, ?_⟩, ?_⟩
        · intro y hy
          simp only [Option.some.injEq] at hy
          subst hy
          exact ⟨g.col, g.ack, g.conn, g.sent, g.tidy, fun _ => hcond.2.2.2⟩
        · simp [mu, hs, sessMu, hcond.1]
    · cases h
  · -- takeInput
    simp only [step] at h
    split at h
    · rename_i x c rest hs hq
      split at h
      · cases h
      · rename_i hcond
        cases h
        simp only [not_or, Bool.not_eq_true, Bool.not_eq_false'] at hcond
        have g := hg.sess x hs
        have hlast : x.lastC = none := by
          cases hc : x.lastC with
          | none => rfl
          | some v => simp [hc] at hcond
        refine ⟨⟨hg.fin, ?_⟩, ?_⟩
        · intro y hy
          simp only [Option.some.injEq] at hy
          subst hy
          exact ⟨g.col, g.ack, g.conn, by simp, g.tidy, g.reco⟩
        · simp only [mu, hs, hq, sessMu, hlast, List.length_cons]
          have hso : x.sentOk = false := by
            cases hb : x.sentOk with
            | false => rfl
            | true => have := g.sent hb; simp [hlast] at this
          simp [hso]; omega
    · cases h
  · -- sendOk
    simp only [step] at h
    split at h
    · rename_i x hs
      split at h
      · rename_i c hc
        split at h
        · cases h
        · rename_i hcond
          cases h
          simp only [not_or, Bool.not_eq_true] at hcond
          have g := hg.sess x hs
          refine ⟨⟨hg.fin, ?_⟩, ?_⟩
          · intro y hy
            simp only [Option.some.injEq] at hy
            subst hy
            exact ⟨g.col, g.ack, g.conn, by simp [hc], g.tidy, g.reco⟩
          · simp [mu, hs, sessMu, hc, hcond.1]
      · cases h
    · cases h
  · -- pushAck
    simp only [step] at h
    split at h
    · rename_i x hs
      split at h
      · rename_i c hc
        split at h
        · cases h
        · rename_i hcond
          cases h
          simp only [not_or, Bool.not_eq_true, Bool.not_eq_false', Nat.not_le] at hcond
          have g := hg.sess x hs
          refine ⟨⟨hg.fin, ?_⟩, ?_⟩
          · intro y hy
            simp only [Option.some.injEq] at hy
            subst hy
            exact ⟨g.col, g.ack, g.conn, by simp, g.tidy, g.reco⟩
          · simp [mu, hs, sessMu, hc, hcond.1]; omega
      · cases h
    · cases h
  · -- ackRecv
    simp only [step] at h
    split at h
    · rename_i x hs
      split at h
      · rename_i c rest hc
        split at h
        · cases h
        · rename_i hcond
          cases h
          simp only [not_or, Bool.not_eq_true] at hcond
          have g := hg.sess x hs
          have hcur : x.ackCur = none := by
            cases hb : x.ackCur with
            | none => rfl
            | some v => simp [hb] at hcond
          have hp : x.pending = [] := by rw [g.tidy, hcur]; rfl
          refine ⟨⟨hg.fin, ?_⟩, ?_⟩
          · intro y hy
            simp only [Option.some.injEq] at hy
            subst hy
            exact ⟨g.col, g.ack, g.conn, g.sent, by simp [hp], g.reco⟩
          · simp only [mu, hs, sessMu, hc, hp, List.length_cons, List.length_append, List.length_nil]
            omega
      · cases h
    · cases h
  · -- ackOk none
    simp only [step] at h
    split at h
    · rename_i x hs
      split at h
      · rename_i cur hcur
        split at h
        · cases h
        · cases h
          have g := hg.sess x hs
          have hp : x.pending = [cur] := by rw [g.tidy, hcur]; rfl
          refine ⟨⟨hg.fin, ?_⟩, ?_⟩
          · intro y hy
            simp only [Option.some.injEq] at hy
            subst hy
            exact ⟨g.col, g.ack, g.conn, g.sent, by simp [hp], g.reco⟩
          · simp [mu, hs, sessMu, hp]
      · cases h
    · cases h

/-- when no healthy action is enabled in a good state, nothing is left to do -/
theorem healthy_stuck (s : St) (hg : Good s) (hstuck : ∀ a ∈ healthy, step s a = none) :
    s.left = [] ∧ s.queue = [] ∧ inflight s = [] := by
  have h1 := hstuck .connectOk (by simp [healthy])
  have h2 := hstuck .takeLeft (by simp [healthy])
  have h3 := hstuck .recoveryDone (by simp [healthy])
  have h4 := hstuck .takeInput (by simp [healthy])
  have h5 := hstuck .sendOk (by simp [healthy])
  have h6 := hstuck .pushAck (by simp [healthy])
  have h7 := hstuck .ackRecv (by simp [healthy])
  have h8 := hstuck (.ackOk none) (by simp [healthy])
  cases hs : s.sess with
  | none => simp [step, hs, hg.fin] at h1
  | some x =>
    have g := hg.sess x hs
    -- the acknowledger is idle
    have hcur : x.ackCur = none := by
      cases hb : x.ackCur with
      | none => rfl
      | some cur => simp [step, hs, hb, g.conn] at h8
    have hp : x.pending = [] := by rw [g.tidy, hcur]; rfl
    have hch : x.ackChan = [] := by
      cases hb : x.ackChan with
      | nil => rfl
      | cons c rest => simp [step, hs, hb, g.ack, hcur] at h7
    have hl : x.lastC = none := by
      cases hb : x.lastC with
      | none => rfl
      | some c =>
        cases hso : x.sentOk with
        | true => simp [step, hs, hb, hso, hch, g.col, ackCap] at h6
        | false => simp [step, hs, hb, hso, g.conn, g.col] at h5
    cases hn : x.normal with
    | false =>
      cases hle : s.left with
      | nil => simp [step, hs, hn, hl, g.col, hle] at h3
      | cons c rest => simp [step, hs, hle, hn, hl, g.col] at h2
    | true =>
      have hle := g.reco hn
      cases hq : s.queue with
      | nil => exact ⟨hle, rfl, by simp [inflight, hs, hle, hl, hch, hp, g.col]⟩
      | cons c rest => simp [step, hs, hq, hn, hl, g.col] at h4

theorem healthy_run : ∀ (acts : List Act) (s s' : St), (∀ a ∈ acts, a ∈ healthy) → run s acts = some s' → Good s →
    Good s' ∧ acts.length + mu s' ≤ mu s
  | [], s, s', _, h, hg => by simp [run] at h; subst h; exact ⟨hg, by simp⟩
  | a :: as, s, s', hall, h, hg => by
    simp only [run] at h
    cases hs : step s a with
    | none => simp [hs] at h
    | some s1 =>
      simp only [hs] at h
      obtain ⟨g1, m1⟩ := healthy_step s s1 a (hall a (by simp)) hs hg
      obtain ⟨g2, m2⟩ := healthy_run as s1 s' (fun b hb => hall b (by simp [hb])) h g1
      exact ⟨g2, by simp only [List.length_cons]; omega⟩

end C02
