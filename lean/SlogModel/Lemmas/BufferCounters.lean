import SlogModel.Lemmas.Buffer

/-!
  Counter invariants of the buffer model (helper lemmas for `Props/C19.lean`).
-/

open Buffer
namespace C19

/-- `pending_chunks` = inputs − consumed − leftover − dropped -/
def bal (c : Counters) : Int := c.pending - c.inT - c.inP + c.consumed + c.leftover + c.dropped

theorem bal_dec (c : Counters) : bal { c with pending := c.pending - 1, dropped := c.dropped + 1 } = bal c := by
  simp [bal]; omega

theorem unload_bal (s : St) (e : Entry) : bal (unload s e).1.c = bal s.c := by
  unfold unload
  split
  · rfl
  · split
    · rfl
    · split
      · rfl
      · split
        · rfl
        · simp [bal]

theorem onDropped_bal (s : St) (e : Entry) : bal (onDropped s e).c = bal s.c := by
  unfold onDropped
  split <;> simp [bal] <;> omega

theorem removeChunk_bal (s : St) (e : Entry) : bal (removeChunk s e).c = bal s.c := by
  unfold removeChunk
  split
  · rfl
  · split
    · rfl
    · split <;> simp [bal]

theorem unloadOrDrop_bal (s : St) (e : Entry) : bal (unloadOrDrop s e).1.c = bal s.c := by
  unfold unloadOrDrop
  have h1 := unload_bal s e
  cases hu : unload s e with
  | mk s1 r =>
    cases r with
    | mk e1 ok =>
      rw [hu] at h1
      cases ok with
      | true => simpa using h1
      | false =>
        simp only [Bool.false_eq_true, if_false]
        rw [onDropped_bal]; simpa using h1

theorem saveOne_bal (s : St) (e : Entry) : bal (saveOne s e).c = bal s.c := by
  unfold saveOne
  have h1 := unloadOrDrop_bal s e
  cases hu : unloadOrDrop s e with
  | mk s1 r =>
    rw [hu] at h1
    cases r <;> simpa using h1

theorem saveAll_bal : ∀ (es : List Entry) (s : St), bal (saveAll s es).c = bal s.c
  | [], s => rfl
  | e :: es, s => by
    simp only [saveAll, List.foldl_cons]
    have := saveAll_bal es (saveOne s e)
    simp only [saveAll] at this
    rw [this, saveOne_bal]

theorem feederStep_bal (s s' : St) (h : feederStep s = some s') : bal s'.c = bal s.c := by
  unfold feederStep at h
  split at h
  · split at h
    · cases h; rfl
    · cases h
  · split at h
    · cases h
    · rename_i e rest hq
      simp only at h
      split at h
      · split at h
        · cases h; rw [onDropped_bal]; split <;> simp [bal]
        · cases h; rw [onDropped_bal]; split <;> simp [bal]
      · rename_i d _
        split at h
        · cases h
          have := removeChunk_bal { s with inQ := rest, c := (if e.data.isSome = true then { s.c with qT := s.c.qT - 1 } else { s.c with qP := s.c.qP - 1 }) } { e with data := some d }
          generalize removeChunk { s with inQ := rest, c := (if e.data.isSome = true then { s.c with qT := s.c.qT - 1 } else { s.c with qP := s.c.qP - 1 }) } { e with data := some d } = X at this ⊢
          dsimp only
          rw [bal_dec, this]
          split <;> simp [bal]
        · cases h; split <;> simp [bal]

theorem settle_bal : ∀ (n : Nat) (s : St), bal (settle n s).c = bal s.c
  | 0, _ => rfl
  | n + 1, s => by
    unfold settle
    cases hf : feederStep s with
    | none => rfl
    | some s' => simp only []; rw [settle_bal n s', feederStep_bal s s' hf]

theorem accept_bal (s : St) (id : Nat) (data : Bytes) : bal (accept s id data).c = bal s.c := by
  unfold accept
  simp only
  split
  · have h1 := unloadOrDrop_bal
      { s with accepted := s.accepted ++ [(id, data)], c := { s.c with pending := s.c.pending + 1, inP := s.c.inP + 1 } }
      { id := id, data := some data, saved := false }
    cases hu : unloadOrDrop
      { s with accepted := s.accepted ++ [(id, data)], c := { s.c with pending := s.c.pending + 1, inP := s.c.inP + 1 } }
      { id := id, data := some data, saved := false } with
    | mk s1 r =>
      rw [hu] at h1
      have hb : bal s1.c = bal s.c := by
        rw [show bal s1.c = bal (s1, r).1.c from rfl, h1]; simp [bal]; omega
      cases r with
      | none => exact hb
      | some e' =>
        simp only
        split
        · rw [← hb]; split <;> simp [bal]
        · rw [onDropped_bal]; exact hb
  · split
    · simp [bal]; omega
    · rw [onDropped_bal]; simp [bal]; omega

theorem step_bal (s s' : St) (o : Op) (h : step s o = some s') : bal s'.c = bal s.c := by
  cases o with
  | accept id data =>
    simp only [step] at h
    split at h
    · cases h
    · cases h; unfold quiesce; rw [settle_bal, accept_bal]
  | take =>
    simp only [step] at h
    split at h
    · cases h
    · split at h
      · cases h
      · cases h; unfold quiesce; rw [settle_bal]
  | confirm id =>
    simp only [step] at h
    split at h
    · cases h
    · rename_i e _
      cases h
      have := removeChunk_bal s e
      generalize removeChunk s e = X at this ⊢
      dsimp only
      rw [← this]; simp [bal]; omega
  | handBack id =>
    simp only [step] at h
    split at h
    · cases h
    · rename_i e _
      have h1 := unload_bal { s with held := s.held.filter (fun e => e.id ≠ id) } e
      cases hu : unload { s with held := s.held.filter (fun e => e.id ≠ id) } e with
      | mk s1 r =>
        cases r with
        | mk e1 ok =>
          rw [hu] at h h1
          have hb : bal s1.c = bal s.c := h1
          cases ok with
          | true => simp only at h; cases h; dsimp only; rw [← hb]; simp [bal]; omega
          | false => simp only at h; cases h; rw [onDropped_bal]; exact hb
  | destroy =>
    simp only [step] at h
    split at h
    · cases h
    · cases h; rw [saveAll_bal]
  | finish =>
    simp only [step] at h
    split at h
    · cases h; rfl
    · cases h
  | extZero id =>
    simp only [step] at h
    split at h
    · cases h; rfl
    · cases h
  | extRemove id =>
    simp only [step] at h
    split at h
    · cases h; rfl
    · cases h

theorem recFold_bal (cfg : Cfg) : ∀ (files : List (Nat × Bytes)) (s : St), bal (files.foldl (recStep cfg) s).c = bal s.c
  | [], _ => rfl
  | f :: fs, s => by
    simp only [List.foldl_cons]
    rw [recFold_bal cfg fs]
    unfold recStep
    split <;> simp [bal] <;> omega

theorem recover_bal (cfg : Cfg) (disk : List (Nat × Bytes)) : bal (recover cfg disk).c = 0 := by
  unfold recover quiesce
  rw [settle_bal, recFold_bal]
  simp [start, bal]

theorem run_bal : ∀ (ops : List Op) (s s' : St), run s ops = some s' → bal s'.c = bal s.c
  | [], s, s', h => by simp [run] at h; subst h; rfl
  | o :: os, s, s', h => by
    simp only [run] at h
    cases hs : step s o with
    | none => simp [hs] at h
    | some s1 => simp [hs] at h; rw [run_bal os s1 s' h, step_bal s s1 o hs]

/-! ### the dropped / consumed counters count exactly the ghost lists -/

def dd (s : St) : Prop := (s.c.dropped : Int) = s.droppedG.length ∧ (s.c.consumed : Int) = s.confirmedG.length

theorem unload_dd (s : St) (e : Entry) (h : dd s) : dd (unload s e).1 := by
  obtain ⟨disk, c, h1, _⟩ := C03.unload_frame s e
  unfold unload at *
  split
  · exact h
  · split
    · exact h
    · split
      · exact h
      · split
        · exact h
        · exact h

theorem onDropped_dd (s : St) (e : Entry) (h : dd s) : dd (onDropped s e) := by
  unfold onDropped dd at *
  split <;> simp <;> omega

theorem removeChunk_dd (s : St) (e : Entry) (h : dd s) : dd (removeChunk s e) := by
  unfold removeChunk
  split
  · exact h
  · split
    · exact h
    · split <;> exact h

theorem unloadOrDrop_dd (s : St) (e : Entry) (h : dd s) : dd (unloadOrDrop s e).1 := by
  unfold unloadOrDrop
  have h1 := unload_dd s e h
  cases hu : unload s e with
  | mk s1 r =>
    cases r with
    | mk e1 ok =>
      rw [hu] at h1
      cases ok with
      | true => simpa using h1
      | false =>
        simp only [Bool.false_eq_true, if_false]
        exact onDropped_dd _ _ h1

theorem saveOne_dd (s : St) (e : Entry) (h : dd s) : dd (saveOne s e) := by
  unfold saveOne
  have h1 := unloadOrDrop_dd s e h
  cases hu : unloadOrDrop s e with
  | mk s1 r =>
    rw [hu] at h1
    cases r
    · exact h1
    · exact h1

theorem saveAll_dd : ∀ (es : List Entry) (s : St), dd s → dd (saveAll s es)
  | [], _, h => h
  | e :: es, s, h => by
    simp only [saveAll, List.foldl_cons]
    have := saveAll_dd es (saveOne s e) (saveOne_dd s e h)
    simpa [saveAll] using this

theorem feederStep_dd (s s' : St) (h : feederStep s = some s') (hd : dd s) : dd s' := by
  unfold feederStep at h
  split at h
  · split at h
    · cases h; exact hd
    · cases h
  · split at h
    · cases h
    · rename_i e rest hq
      simp only at h
      split at h
      · split at h
        · cases h; apply onDropped_dd; unfold dd at *; split <;> exact hd
        · cases h; apply onDropped_dd; unfold dd at *; split <;> exact hd
      · rename_i d _
        split at h
        · cases h
          have : dd (removeChunk { s with inQ := rest, c := (if e.data.isSome = true then { s.c with qT := s.c.qT - 1 } else { s.c with qP := s.c.qP - 1 }) } { e with data := some d }) := by
            apply removeChunk_dd; unfold dd at *; split <;> exact hd
          generalize removeChunk { s with inQ := rest, c := (if e.data.isSome = true then { s.c with qT := s.c.qT - 1 } else { s.c with qP := s.c.qP - 1 }) } { e with data := some d } = X at this ⊢
          unfold dd at *
          simp; omega
        · cases h; unfold dd at *; split <;> exact hd

theorem settle_dd : ∀ (n : Nat) (s : St), dd s → dd (settle n s)
  | 0, _, h => h
  | n + 1, s, h => by
    unfold settle
    cases hf : feederStep s with
    | none => exact h
    | some s' => exact settle_dd n s' (feederStep_dd s s' hf h)

theorem accept_dd (s : St) (id : Nat) (data : Bytes) (h : dd s) : dd (accept s id data) := by
  unfold accept
  simp only
  split
  · have h1 := unloadOrDrop_dd
      { s with accepted := s.accepted ++ [(id, data)], c := { s.c with pending := s.c.pending + 1, inP := s.c.inP + 1 } }
      { id := id, data := some data, saved := false } h
    cases hu : unloadOrDrop
      { s with accepted := s.accepted ++ [(id, data)], c := { s.c with pending := s.c.pending + 1, inP := s.c.inP + 1 } }
      { id := id, data := some data, saved := false } with
    | mk s1 r =>
      rw [hu] at h1
      cases r with
      | none => exact h1
      | some e' =>
        simp only
        split
        · unfold dd at *; split <;> exact h1
        · exact onDropped_dd _ _ h1
  · split
    · unfold dd at *; exact h
    · apply onDropped_dd; exact h

theorem step_dd (s s' : St) (o : Op) (h : step s o = some s') (hd : dd s) : dd s' := by
  cases o with
  | accept id data =>
    simp only [step] at h
    split at h
    · cases h
    · cases h; exact settle_dd _ _ (accept_dd s id data hd)
  | take =>
    simp only [step] at h
    split at h
    · cases h
    · split at h
      · cases h
      · cases h; exact settle_dd _ _ hd
  | confirm id =>
    simp only [step] at h
    split at h
    · cases h
    · rename_i e _
      cases h
      have := removeChunk_dd s e hd
      generalize removeChunk s e = X at this ⊢
      unfold dd at *
      simp; omega
  | handBack id =>
    simp only [step] at h
    split at h
    · cases h
    · rename_i e _
      have h1 := unload_dd { s with held := s.held.filter (fun e => e.id ≠ id) } e hd
      cases hu : unload { s with held := s.held.filter (fun e => e.id ≠ id) } e with
      | mk s1 r =>
        cases r with
        | mk e1 ok =>
          rw [hu] at h h1
          cases ok with
          | true => simp only at h; cases h; exact h1
          | false => simp only at h; cases h; exact onDropped_dd _ _ h1
  | destroy =>
    simp only [step] at h
    split at h
    · cases h
    · cases h; exact saveAll_dd _ _ hd
  | finish =>
    simp only [step] at h
    split at h
    · cases h; exact hd
    · cases h
  | extZero id =>
    simp only [step] at h
    split at h
    · cases h; exact hd
    · cases h
  | extRemove id =>
    simp only [step] at h
    split at h
    · cases h; exact hd
    · cases h

theorem recFold_dd (cfg : Cfg) : ∀ (files : List (Nat × Bytes)) (s : St), dd s → dd (files.foldl (recStep cfg) s)
  | [], _, h => h
  | f :: fs, s, h => by
    simp only [List.foldl_cons]
    apply recFold_dd cfg fs
    unfold recStep dd at *
    split <;> exact h

theorem run_dd : ∀ (ops : List Op) (s s' : St), run s ops = some s' → dd s → dd s'
  | [], s, s', h, hd => by simp [run] at h; subst h; exact hd
  | o :: os, s, s', h, hd => by
    simp only [run] at h
    cases hs : step s o with
    | none => simp [hs] at h
    | some s1 => simp [hs] at h; exact run_dd os s1 s' h (step_dd s s1 o hs hd)

theorem recover_dd (cfg : Cfg) (disk : List (Nat × Bytes)) : dd (recover cfg disk) := by
  unfold recover quiesce
  apply settle_dd
  apply recFold_dd
  simp [dd, start]

end C19
