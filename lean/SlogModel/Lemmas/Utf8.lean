import SlogModel.Model.Utf8

/-!
  Theory of `M_utf8`: a valid string is a sequence of complete rune encodings (`Runes`); `toValid`
  keeps whole runes and removes the bytes of a cut rune; `clean` of a cut valid string is its
  longest whole-rune prefix (`clean_take_valid`).
-/

namespace Utf8

/-- a complete rune encoding: non-empty, and recognised with its own length whatever follows -/
def IsRune (r : Bytes) : Prop := r ≠ [] ∧ ∀ x, runeWidth (r ++ x) = r.length

theorem rw1 (b0 : Nat) (rest : Bytes) (h : b0 < 128) : runeWidth (b0 :: rest) = 1 := by
  simp [runeWidth, h]

theorem rw0 (b0 : Nat) (rest : Bytes) (h : 128 ≤ b0) (h' : b0 < 194 ∨ 244 < b0) : runeWidth (b0 :: rest) = 0 := by
  have : ¬ b0 < 128 := by omega
  have h3 : ¬ (194 ≤ b0 ∧ b0 ≤ 223) := by omega
  have h4 : ¬ (224 ≤ b0 ∧ b0 ≤ 239) := by omega
  have h5 : ¬ (240 ≤ b0 ∧ b0 ≤ 244) := by omega
  simp [runeWidth, this, h3, h4, h5]

def ok2 (b1 : Nat) : Bool := isCont b1
def ok3 (b0 b1 b2 : Nat) : Bool :=
  (if b0 = 224 then 160 else 128) ≤ b1 && b1 ≤ (if b0 = 237 then 159 else 191) && isCont b2
def ok4 (b0 b1 b2 b3 : Nat) : Bool :=
  (if b0 = 240 then 144 else 128) ≤ b1 && b1 ≤ (if b0 = 244 then 143 else 191) && isCont b2 && isCont b3

theorem rw2 (b0 b1 : Nat) (r : Bytes) (h1 : 194 ≤ b0) (h2 : b0 ≤ 223) :
    runeWidth (b0 :: b1 :: r) = if ok2 b1 then 2 else 0 := by
  have : ¬ b0 < 128 := by omega
  simp [runeWidth, this, h1, h2, ok2]
  split <;> simp_all
theorem rw2s (b0 : Nat) (h1 : 194 ≤ b0) (h2 : b0 ≤ 223) : runeWidth [b0] = 0 := by
  have : ¬ b0 < 128 := by omega
  simp [runeWidth, this, h1, h2]

theorem rw3 (b0 b1 b2 : Nat) (r : Bytes) (h1 : 224 ≤ b0) (h2 : b0 ≤ 239) :
    runeWidth (b0 :: b1 :: b2 :: r) = if ok3 b0 b1 b2 then 3 else 0 := by
  have : ¬ b0 < 128 := by omega
  have h3 : ¬ (194 ≤ b0 ∧ b0 ≤ 223) := by omega
  simp [runeWidth, this, h1, h2, h3, ok3]
theorem rw3s (b0 : Nat) (r : Bytes) (h1 : 224 ≤ b0) (h2 : b0 ≤ 239) (hr : r.length < 2) : runeWidth (b0 :: r) = 0 := by
  have : ¬ b0 < 128 := by omega
  have h3 : ¬ (194 ≤ b0 ∧ b0 ≤ 223) := by omega
  rcases r with _ | ⟨b1, _ | ⟨b2, r⟩⟩
  · simp [runeWidth, this, h1, h2, h3]
  · simp [runeWidth, this, h1, h2, h3]
  · simp at hr; omega

theorem rw4 (b0 b1 b2 b3 : Nat) (r : Bytes) (h1 : 240 ≤ b0) (h2 : b0 ≤ 244) :
    runeWidth (b0 :: b1 :: b2 :: b3 :: r) = if ok4 b0 b1 b2 b3 then 4 else 0 := by
  have : ¬ b0 < 128 := by omega
  have h3 : ¬ (194 ≤ b0 ∧ b0 ≤ 223) := by omega
  have h4 : ¬ (224 ≤ b0 ∧ b0 ≤ 239) := by omega
  simp [runeWidth, this, h1, h2, h3, h4, ok4]
theorem rw4s (b0 : Nat) (r : Bytes) (h1 : 240 ≤ b0) (h2 : b0 ≤ 244) (hr : r.length < 3) : runeWidth (b0 :: r) = 0 := by
  have : ¬ b0 < 128 := by omega
  have h3 : ¬ (194 ≤ b0 ∧ b0 ≤ 223) := by omega
  have h4 : ¬ (224 ≤ b0 ∧ b0 ≤ 239) := by omega
  rcases r with _ | ⟨b1, _ | ⟨b2, _ | ⟨b3, r⟩⟩⟩
  · simp [runeWidth, this, h1, h2, h3, h4]
  · simp [runeWidth, this, h1, h2, h3, h4]
  · simp [runeWidth, this, h1, h2, h3, h4]
  · simp at hr; omega

/-- shapes of a recognised rune -/
inductive Shape : Bytes → Prop
  | one (b0) : b0 < 128 → Shape [b0]
  | two (b0 b1) : 194 ≤ b0 → b0 ≤ 223 → ok2 b1 = true → Shape [b0, b1]
  | three (b0 b1 b2) : 224 ≤ b0 → b0 ≤ 239 → ok3 b0 b1 b2 = true → Shape [b0, b1, b2]
  | four (b0 b1 b2 b3) : 240 ≤ b0 → b0 ≤ 244 → ok4 b0 b1 b2 b3 = true → Shape [b0, b1, b2, b3]

theorem shape_of_width (s : Bytes) (hw : runeWidth s ≠ 0) :
    ∃ r t, s = r ++ t ∧ Shape r ∧ runeWidth s = r.length := by
  rcases s with _ | ⟨b0, rest⟩
  · simp [runeWidth] at hw
  by_cases c1 : b0 < 128
  · exact ⟨[b0], rest, rfl, .one b0 c1, by simp [rw1 _ _ c1]⟩
  by_cases c0 : b0 < 194 ∨ 244 < b0
  · exact absurd (rw0 b0 rest (by omega) c0) hw
  by_cases c2 : b0 ≤ 223
  · rcases rest with _ | ⟨b1, r⟩
    · exact absurd (rw2s b0 (by omega) c2) hw
    · rw [rw2 b0 b1 r (by omega) c2] at hw ⊢
      by_cases hk : ok2 b1 = true
      · exact ⟨[b0, b1], r, rfl, .two b0 b1 (by omega) c2 hk, by simp [hk]⟩
      · simp [hk] at hw
  by_cases c3 : b0 ≤ 239
  · rcases rest with _ | ⟨b1, _ | ⟨b2, r⟩⟩
    · exact absurd (rw3s b0 [] (by omega) c3 (by simp)) hw
    · exact absurd (rw3s b0 [b1] (by omega) c3 (by simp)) hw
    · rw [rw3 b0 b1 b2 r (by omega) c3] at hw ⊢
      by_cases hk : ok3 b0 b1 b2 = true
      · exact ⟨[b0, b1, b2], r, rfl, .three b0 b1 b2 (by omega) c3 hk, by simp [hk]⟩
      · simp [hk] at hw
  · rcases rest with _ | ⟨b1, _ | ⟨b2, _ | ⟨b3, r⟩⟩⟩
    · exact absurd (rw4s b0 [] (by omega) (by omega) (by simp)) hw
    · exact absurd (rw4s b0 [b1] (by omega) (by omega) (by simp)) hw
    · exact absurd (rw4s b0 [b1, b2] (by omega) (by omega) (by simp)) hw
    · rw [rw4 b0 b1 b2 b3 r (by omega) (by omega)] at hw ⊢
      by_cases hk : ok4 b0 b1 b2 b3 = true
      · exact ⟨[b0, b1, b2, b3], r, rfl, .four b0 b1 b2 b3 (by omega) (by omega) hk, by simp [hk]⟩
      · simp [hk] at hw

theorem shape_width (r : Bytes) (h : Shape r) (x : Bytes) : runeWidth (r ++ x) = r.length := by
  cases h with
  | one b0 h => simp [rw1 _ _ h]
  | two b0 b1 h1 h2 hk => simp [rw2 b0 b1 x h1 h2, hk]
  | three b0 b1 b2 h1 h2 hk => simp [rw3 b0 b1 b2 x h1 h2, hk]
  | four b0 b1 b2 b3 h1 h2 hk => simp [rw4 b0 b1 b2 b3 x h1 h2, hk]

theorem shape_ne (r : Bytes) (h : Shape r) : r ≠ [] := by cases h <;> simp
theorem shape_len (r : Bytes) (h : Shape r) : 1 ≤ r.length ∧ r.length ≤ 4 := by cases h <;> simp

/-- an ASCII byte inside a rune is the whole rune -/
theorem shape_ascii (r : Bytes) (h : Shape r) (b : Nat) (hb : b ∈ r) (ha : b < 128) : r = [b] := by
  cases h with
  | one b0 h => simp at hb; subst hb; rfl
  | two b0 b1 h1 h2 hk =>
    simp [ok2, isCont] at hk hb; omega
  | three b0 b1 b2 h1 h2 hk =>
    simp [ok3, isCont] at hk hb
    rcases hb with rfl | rfl | rfl
    · omega
    · have := hk.1.1; split at this <;> omega
    · omega
  | four b0 b1 b2 b3 h1 h2 hk =>
    simp [ok4, isCont] at hk hb
    rcases hb with rfl | rfl | rfl | rfl
    · omega
    · have := hk.1.1.1; split at this <;> omega
    · omega
    · omega

/-- a sequence of complete runes -/
inductive Runes : Bytes → Prop
  | nil : Runes []
  | cons (r rest : Bytes) : Shape r → Runes rest → Runes (r ++ rest)

theorem validAux_runes (fuel : Nat) (s : Bytes) (h : validAux fuel s = true) : Runes s := by
  induction fuel generalizing s with
  | zero => simp [validAux] at h; subst h; exact .nil
  | succ n ih =>
    cases s with
    | nil => exact .nil
    | cons b rest =>
      simp only [validAux] at h
      split at h
      · cases h
      · rename_i hw
        obtain ⟨r, t, hs, hr, hl⟩ := shape_of_width _ hw
        rw [hl, hs] at h
        simp only [List.drop_left'] at h
        rw [hs]
        exact .cons r t hr (ih _ h)

theorem valid_runes (s : Bytes) (h : valid s = true) : Runes s := validAux_runes _ _ h

theorem runes_validAux (s : Bytes) (h : Runes s) : ∀ fuel, s.length ≤ fuel → validAux fuel s = true := by
  induction h with
  | nil => intro fuel _; cases fuel <;> simp [validAux]
  | cons r rest hr _ ih =>
    intro fuel hf
    have hl := shape_len r hr
    cases fuel with
    | zero => simp only [List.length_append] at hf; omega
    | succ n =>
      obtain ⟨b, r', rfl⟩ : ∃ b r', r = b :: r' := by
        cases r with
        | nil => simp at hl
        | cons b r' => exact ⟨b, r', rfl⟩
      have hw := shape_width _ hr rest
      simp only [List.cons_append] at hw ⊢
      simp only [validAux, hw]
      have : ¬ (b :: r').length = 0 := by simp
      simp only [this, if_false]
      have hd : List.drop (b :: r').length (b :: (r' ++ rest)) = rest := by
        rw [← List.cons_append]; exact List.drop_left' rfl
      rw [hd]
      apply ih
      simp at hf ⊢; omega

theorem runes_valid (s : Bytes) (h : Runes s) : valid s = true := runes_validAux s h _ (Nat.le_refl _)

theorem runes_append (a b : Bytes) (ha : Runes a) (hb : Runes b) : Runes (a ++ b) := by
  induction ha with
  | nil => simpa
  | cons r rest hr _ ih => rw [List.append_assoc]; exact .cons r _ hr ih

/-! ### `toValid` -/

theorem toValidAux_fuel (f1 : Nat) : ∀ (f2 : Nat) (s : Bytes), s.length ≤ f1 → s.length ≤ f2 →
    toValidAux f1 s = toValidAux f2 s := by
  induction f1 with
  | zero =>
    intro f2 s h1 _
    have : s = [] := by cases s with | nil => rfl | cons _ _ => simp at h1
    subst this; cases f2 <;> rfl
  | succ n ih =>
    intro f2 s h1 h2
    cases s with
    | nil => cases f2 <;> rfl
    | cons b rest =>
      cases f2 with
      | zero => simp at h2
      | succ m =>
        simp only [List.length_cons] at h1 h2
        simp only [toValidAux]
        split
        · exact ih m rest (by omega) (by omega)
        · congr 1
          apply ih m
          · simp only [List.length_drop, List.length_cons]; omega
          · simp only [List.length_drop, List.length_cons]; omega

theorem toValid_nil : toValid [] = [] := rfl

theorem toValid_cons (b : Nat) (rest : Bytes) :
    toValid (b :: rest) = if runeWidth (b :: rest) = 0 then toValid rest
      else (b :: rest).take (runeWidth (b :: rest)) ++ toValid ((b :: rest).drop (runeWidth (b :: rest))) := by
  simp only [toValid, List.length_cons, toValidAux]
  split
  · rfl
  · congr 1
    apply toValidAux_fuel
    · simp only [List.length_drop, List.length_cons]; omega
    · exact Nat.le_refl _

theorem toValid_runes (a : Bytes) (ha : Runes a) (x : Bytes) : toValid (a ++ x) = a ++ toValid x := by
  induction ha with
  | nil => simp
  | cons r rest hr _ ih =>
    have hl := shape_len r hr
    obtain ⟨b, r', rfl⟩ : ∃ b r', r = b :: r' := by
      cases r with
      | nil => simp at hl
      | cons b r' => exact ⟨b, r', rfl⟩
    have hw := shape_width _ hr (rest ++ x)
    simp only [List.cons_append, List.append_assoc] at hw ⊢
    rw [toValid_cons, hw]
    have : ¬ (b :: r').length = 0 := by simp
    simp only [this, if_false]
    have hd : List.drop (b :: r').length (b :: (r' ++ (rest ++ x))) = rest ++ x := by
      rw [← List.cons_append]; exact List.drop_left' rfl
    have ht : List.take (b :: r').length (b :: (r' ++ (rest ++ x))) = b :: r' := by
      rw [← List.cons_append]; exact List.take_left' rfl
    rw [hd, ht, ih]
    simp

/-- bytes that are not the start of any rune and not ASCII are all dropped -/
theorem toValidAux_drop (fuel : Nat) (p : Bytes) (hp : ∀ q t, p = q ++ t → t ≠ [] → runeWidth t = 0) :
    toValidAux fuel p = [] := by
  induction fuel generalizing p with
  | zero => rfl
  | succ n ih =>
    cases p with
    | nil => rfl
    | cons b rest =>
      have h0 := hp [] (b :: rest) rfl (by simp)
      simp only [toValidAux, h0, if_true]
      exact ih rest (fun q t hq ht => hp (b :: q) t (by simp [hq]) ht)

/-- a proper prefix of a rune: everything is dropped -/
theorem partial_drop (r : Bytes) (hr : Shape r) (j : Nat) (hj : j < r.length) :
    ∀ q t, r.take j = q ++ t → t ≠ [] → runeWidth t = 0 := by
  intro q t hq ht
  cases hr with
  | one b0 h => simp at hj; subst hj; simp at hq; exact absurd hq.2 ht
  | two b0 b1 h1 h2 hk =>
    have : j = 0 ∨ j = 1 := by simp at hj; omega
    rcases this with rfl | rfl
    · simp at hq; exact absurd hq.2 ht
    · simp at hq
      rcases q with _ | ⟨q0, q'⟩
      · simp at hq; subst hq; exact rw2s b0 h1 h2
      · simp at hq; exact absurd hq.2.2 ht
  | three b0 b1 b2 h1 h2 hk =>
    simp [ok3, isCont] at hk
    have hb1 : 128 ≤ b1 ∧ b1 ≤ 191 := by
      obtain ⟨⟨k1, k2⟩, _⟩ := hk
      constructor
      · split at k1 <;> omega
      · split at k2 <;> omega
    have : j = 0 ∨ j = 1 ∨ j = 2 := by simp at hj; omega
    rcases this with rfl | rfl | rfl
    · simp at hq; exact absurd hq.2 ht
    · simp at hq
      rcases q with _ | ⟨q0, q'⟩
      · simp at hq; subst hq; exact rw3s b0 [] h1 h2 (by simp)
      · simp at hq; exact absurd hq.2.2 ht
    · simp at hq
      rcases q with _ | ⟨q0, _ | ⟨q1, q'⟩⟩
      · simp at hq; subst hq; exact rw3s b0 [b1] h1 h2 (by simp)
      · simp at hq; obtain ⟨_, rfl⟩ := hq; exact rw0 b1 [] hb1.1 (Or.inl (by omega))
      · simp at hq; exact absurd hq.2.2.2 ht
  | four b0 b1 b2 b3 h1 h2 hk =>
    simp [ok4, isCont] at hk
    have hb1 : 128 ≤ b1 ∧ b1 ≤ 191 := by
      obtain ⟨⟨⟨k1, k2⟩, _⟩, _⟩ := hk
      constructor
      · split at k1 <;> omega
      · split at k2 <;> omega
    have hb2 : 128 ≤ b2 ∧ b2 ≤ 191 := hk.1.2
    have : j = 0 ∨ j = 1 ∨ j = 2 ∨ j = 3 := by simp at hj; omega
    rcases this with rfl | rfl | rfl | rfl
    · simp at hq; exact absurd hq.2 ht
    · simp at hq
      rcases q with _ | ⟨q0, q'⟩
      · simp at hq; subst hq; exact rw4s b0 [] h1 h2 (by simp)
      · simp at hq; exact absurd hq.2.2 ht
    · simp at hq
      rcases q with _ | ⟨q0, _ | ⟨q1, q'⟩⟩
      · simp at hq; subst hq; exact rw4s b0 [b1] h1 h2 (by simp)
      · simp at hq; obtain ⟨_, rfl⟩ := hq; exact rw0 b1 [] hb1.1 (Or.inl (by omega))
      · simp at hq; exact absurd hq.2.2.2 ht
    · simp at hq
      rcases q with _ | ⟨q0, _ | ⟨q1, _ | ⟨q2, q'⟩⟩⟩
      · simp at hq; subst hq; exact rw4s b0 [b1, b2] h1 h2 (by simp)
      · simp at hq; obtain ⟨_, rfl⟩ := hq; exact rw0 b1 [b2] hb1.1 (Or.inl (by omega))
      · simp at hq; obtain ⟨_, _, rfl⟩ := hq; exact rw0 b2 [] hb2.1 (Or.inl (by omega))
      · simp at hq; exact absurd hq.2.2.2.2 ht

/-- bytes that `toValid` removes entirely: no suffix starts a rune; none of them is ASCII -/
def Junk (p : Bytes) : Prop := (∀ q t, p = q ++ t → t ≠ [] → runeWidth t = 0) ∧ (∀ b ∈ p, 128 ≤ b)

theorem junk_nil : Junk [] := by
  constructor
  · intro q t h ht
    have : t = [] := by
      have := congrArg List.length h; simp at this
      cases t with | nil => rfl | cons _ _ => simp at this
    exact absurd this ht
  · simp

theorem junk_toValid (p : Bytes) (h : Junk p) : toValid p = [] := toValidAux_drop _ p h.1

theorem partial_junk (r : Bytes) (hr : Shape r) (j : Nat) (hj : j < r.length) : Junk (r.take j) := by
  refine ⟨partial_drop r hr j hj, fun b hb => ?_⟩
  have hbr := List.mem_of_mem_take hb
  by_cases ha : b < 128
  · have := shape_ascii r hr b hbr ha
    subst this
    simp at hj; subst hj; simp at hb
  · omega

/-- cutting a valid string anywhere leaves whole runes followed by at most three bytes of a cut rune -/
theorem runes_take (msg : Bytes) (h : Runes msg) (n : Nat) :
    ∃ a p, msg.take n = a ++ p ∧ Runes a ∧ Junk p ∧ p.length ≤ 3 ∧ a = msg.take a.length ∧
      a.length ≤ msg.length := by
  induction h generalizing n with
  | nil => exact ⟨[], [], by simp, .nil, junk_nil, by simp, by simp, by simp⟩
  | cons r rest hr _ ih =>
    have hl := shape_len r hr
    by_cases hn : n < r.length
    · refine ⟨[], r.take n, ?_, .nil, partial_junk r hr n hn, ?_, by simp, by simp⟩
      · rw [List.take_append_of_le_length (by omega)]; simp
      · simp only [List.length_take]; omega
    · obtain ⟨a, p, h1, h2, h3, h4, h5, h6⟩ := ih (n - r.length)
      refine ⟨r ++ a, p, ?_, .cons r a hr h2, h3, h4, ?_, ?_⟩
      · rw [List.take_append, h1]
        rw [List.take_of_length_le (by omega)]
        simp
      · simp only [List.length_append]
        rw [List.take_append]
        rw [List.take_of_length_le (by omega)]
        rw [show r.length + a.length - r.length = a.length by omega, ← h5]
      · simp only [List.length_append]; omega

/-! ### `lastAsciiEnd` and `clean` -/

theorem lastAsciiEnd_go_spec (s : Bytes) (i best : Nat) :
    lastAsciiEnd.go s i best = best ∨
      ∃ k b, s[k]? = some b ∧ b ≤ 127 ∧ lastAsciiEnd.go s i best = i + k + 1 := by
  induction s generalizing i best with
  | nil => left; rfl
  | cons c r ih =>
    simp only [lastAsciiEnd.go]
    rcases ih (i + 1) (if c ≤ 127 then i + 1 else best) with h | ⟨k, b, h1, h2, h3⟩
    · rw [h]
      split
      · rename_i hc
        right; exact ⟨0, c, by simp, hc, by omega⟩
      · left; rfl
    · right
      exact ⟨k + 1, b, by simpa using h1, h2, by rw [h3]; omega⟩

theorem lastAsciiEnd_spec (s : Bytes) :
    lastAsciiEnd s = 0 ∨ ∃ b, s[lastAsciiEnd s - 1]? = some b ∧ b ≤ 127 ∧ 1 ≤ lastAsciiEnd s := by
  unfold lastAsciiEnd
  rcases lastAsciiEnd_go_spec s 0 0 with h | ⟨k, b, h1, h2, h3⟩
  · left; exact h
  · right; rw [h3]; exact ⟨b, by simpa using h1, h2, by omega⟩

/-- an ASCII byte of `a ++ p` (whole runes, then junk) ends a rune of `a` -/
theorem runes_split_at_ascii (a : Bytes) (ha : Runes a) (p : Bytes) (hp : ∀ b ∈ p, 128 ≤ b)
    (e : Nat) (b : Nat) (he : 1 ≤ e) (hb : (a ++ p)[e - 1]? = some b) (hb' : b ≤ 127) :
    ∃ a1 a2, a = a1 ++ a2 ∧ a1.length = e ∧ Runes a1 ∧ Runes a2 := by
  induction ha generalizing e with
  | nil =>
    simp only [List.nil_append] at hb
    have := hp b (List.mem_of_getElem? hb)
    omega
  | cons r rest hr hrest ih =>
    have hl := shape_len r hr
    by_cases hlt : e - 1 < r.length
    · -- the byte lies inside r, so r is that single byte
      rw [List.append_assoc, List.getElem?_append_left hlt] at hb
      have hm := List.mem_of_getElem? hb
      have := shape_ascii r hr b hm (by omega)
      subst this
      simp only [List.length_cons, List.length_nil] at hlt
      exact ⟨[b], rest, rfl, by simp; omega, by simpa using Runes.cons [b] [] hr .nil, hrest⟩
    · rw [List.append_assoc, List.getElem?_append_right (by omega)] at hb
      obtain ⟨a1, a2, h1, h2, h3, h4⟩ := ih (e - r.length) (by omega)
        (by rw [show e - r.length - 1 = e - 1 - r.length by omega]; exact hb)
      exact ⟨r ++ a1, a2, by rw [h1, List.append_assoc], by simp only [List.length_append]; omega,
        .cons r a1 hr h3, h4⟩

/-- **the clean-up of a cut valid string is its longest whole-rune prefix** -/
theorem clean_runes_junk (a p : Bytes) (ha : Runes a) (hp : Junk p) : clean (a ++ p) = a := by
  unfold clean
  simp only [toValidTR_eq]
  rcases lastAsciiEnd_spec (a ++ p) with h0 | ⟨b, h1, h2, h3⟩
  · rw [h0]; simp only [List.take_zero, List.drop_zero, List.nil_append]
    rw [toValid_runes a ha, junk_toValid p hp]; simp
  · obtain ⟨a1, a2, e1, e2, r1, r2⟩ := runes_split_at_ascii a ha p hp.2 _ b h3 h1 h2
    rw [← e2, e1, List.append_assoc, List.take_left' rfl, List.drop_left' rfl]
    rw [toValid_runes a2 r2, junk_toValid p hp]; simp


/-- **cutting valid UTF-8 and cleaning it up yields a valid prefix, at most three bytes shorter** -/
theorem clean_take_valid (msg : Bytes) (hv : valid msg = true) (n : Nat) :
    ∃ k, clean (msg.take n) = msg.take k ∧ valid (msg.take k) = true ∧ k ≤ n ∧ (n ≤ msg.length → n ≤ k + 3) := by
  obtain ⟨a, p, h1, h2, h3, h4, h5, h6⟩ := runes_take msg (valid_runes msg hv) n
  refine ⟨a.length, ?_, ?_, ?_, ?_⟩
  · rw [h1, clean_runes_junk a p h2 h3]; exact h5
  · rw [← h5]; exact runes_valid a h2
  · have := congrArg List.length h1
    simp only [List.length_take, List.length_append] at this; omega
  · intro hn
    have := congrArg List.length h1
    simp only [List.length_take, List.length_append] at this; omega

/-- already valid text is left alone -/
theorem clean_valid (s : Bytes) (hv : valid s = true) : clean s = s := by
  have := clean_runes_junk s [] (valid_runes s hv) junk_nil
  simpa using this

example : valid [104, 195, 169, 226, 130, 172] = true := by decide
example : clean ([104, 195, 169, 226, 130, 172].take 5) = [104, 195, 169] := by decide

end Utf8
