import SlogModel.Model.E2E

/-!
  Invariants of the end-to-end chunk-level system `E2E.step` (helper lemmas for `Props/C01.lean` and `Props/C05.lean`).
-/

open E2E
namespace C01

def places (s : St) : List Nat := s.queue ++ s.inflight ++ s.acked ++ s.dropped ++ s.disk

structure PInv (s : St) : Prop where
  chunks : ∀ c, (places s).count c = if c < s.nextChunk then 1 else 0
  ids : s.content.map (·.1) = List.range s.nextChunk
  recs : s.content.flatMap (·.2) ++ s.cur = List.range s.nextRec
  nonempty : ∀ p ∈ s.content, p.2 ≠ []
  rd : s.running = true → s.disk = []
  nr : s.running = false → s.queue = [] ∧ s.inflight = [] ∧ s.cur = []

theorem count_ins (c x : Nat) : ∀ l : List Nat, (ins x l).count c = l.count c + (if c = x then 1 else 0)
  | [] => by
    by_cases h : c = x
    · subst h; simp [ins]
    · have : ¬ x = c := fun e => h e.symm
      simp [ins, h, this, List.count_cons]
  | y :: r => by
    unfold ins
    split
    · by_cases h : c = x
      · subst h; simp [List.count_cons]
      · have : ¬ x = c := fun e => h e.symm
        simp [List.count_cons, h, this]
    · have := count_ins c x r
      simp [List.count_cons, this]; omega

theorem count_sortIds (c : Nat) : ∀ l : List Nat, (sortIds l).count c = l.count c
  | [] => rfl
  | x :: r => by
    simp only [sortIds, count_ins, count_sortIds c r, List.count_cons]
    by_cases h : c = x
    · subst h; simp
    · have : ¬ x = c := fun e => h e.symm
      simp [h, this]

theorem closeChunk_some (s : St) (s' : St) (c : Nat) (h : closeChunk s = (s', some c)) :
    c = s.nextChunk ∧ s.cur ≠ [] ∧ s' = { s with cur := [], nextChunk := s.nextChunk + 1, content := s.content ++ [(s.nextChunk, s.cur)] } := by
  unfold closeChunk at h
  split at h
  · cases h
  · rename_i hne
    cases h
    exact ⟨rfl, hne, rfl⟩

theorem closeChunk_none (s s' : St) (h : closeChunk s = (s', none)) : s' = s ∧ s.cur = [] := by
  unfold closeChunk at h
  split at h
  · rename_i he; cases h; exact ⟨rfl, he⟩
  · cases h

theorem count_places (s : St) (c : Nat) : (places s).count c =
    s.queue.count c + s.inflight.count c + s.acked.count c + s.dropped.count c + s.disk.count c := by
  simp [places, List.count_append]; omega

/-- closing the chunk being filled and putting it somewhere keeps the partition -/
theorem pinv_close (s : St) (hi : PInv s) (hne : s.cur ≠ []) (s2 : St)
    (hq : ∀ c, (places s2).count c = (places s).count c + (if c = s.nextChunk then 1 else 0))
    (h1 : s2.nextChunk = s.nextChunk + 1) (h2 : s2.content = s.content ++ [(s.nextChunk, s.cur)]) (h3 : s2.cur = [])
    (h4 : s2.nextRec = s.nextRec) (h5 : s2.running = true → s2.disk = [])
    (h6 : s2.running = false → s2.queue = [] ∧ s2.inflight = [] ∧ s2.cur = []) : PInv s2 := by
  refine ⟨?_, ?_, ?_, ?_, h5, h6⟩
  · intro c
    rw [hq c, hi.chunks c, h1]
    by_cases h : c = s.nextChunk
    · subst h; simp
    · by_cases hl : c < s.nextChunk
      · have : c < s.nextChunk + 1 := by omega
        simp [h, hl, this]
      · have : ¬ c < s.nextChunk + 1 := by omega
        simp [h, hl, this]
  · rw [h2, h1, List.map_append, hi.ids, List.range_succ]; rfl
  · rw [h2, h3, h4, ← hi.recs]; simp
  · intro p hp
    rw [h2] at hp
    rcases List.mem_append.mp hp with h | h
    · exact hi.nonempty p h
    · simp at h; subst h; exact hne

theorem step_pinv (s s' : St) (a : Act) (h : step s a = some s') (hi : PInv s) : PInv s' := by
  cases a with
  | read =>
    simp only [step] at h
    split at h
    · cases h
    · rename_i hrun
      cases h
      refine ⟨hi.chunks, hi.ids, ?_, hi.nonempty, hi.rd, (fun hf => absurd (show s.running = false from hf) (by simpa using hrun))⟩
      simp only []
      rw [← List.append_assoc, hi.recs, List.range_succ]
  | flushAccept =>
    simp only [step] at h
    split at h
    · cases h
    · rename_i hrun
      split at h
      · rename_i s1 c hc
        obtain ⟨rfl, hne, rfl⟩ := closeChunk_some s s1 c hc
        cases h
        refine pinv_close s hi hne _ ?_ rfl rfl rfl rfl hi.rd (fun hf => absurd (show s.running = false from hf) (by simpa using hrun))
        intro c
        rw [count_places, count_places]
        simp [List.count_append, List.count_cons]
        by_cases hcc : c = s.nextChunk
        · subst hcc; simp; omega
        · have : ¬ s.nextChunk = c := fun e => hcc e.symm
          simp [hcc, this]
      · cases h
  | flushDrop =>
    simp only [step] at h
    split at h
    · cases h
    · rename_i hrun
      split at h
      · rename_i s1 c hc
        obtain ⟨rfl, hne, rfl⟩ := closeChunk_some s s1 c hc
        cases h
        refine pinv_close s hi hne _ ?_ rfl rfl rfl rfl hi.rd (fun hf => absurd (show s.running = false from hf) (by simpa using hrun))
        intro c
        rw [count_places, count_places]
        simp [List.count_append, List.count_cons]
        by_cases hcc : c = s.nextChunk
        · subst hcc; simp; omega
        · have : ¬ s.nextChunk = c := fun e => hcc e.symm
          simp [hcc, this]
      · cases h
  | take =>
    simp only [step] at h
    split at h
    · cases h
    · rename_i hrun
      split at h
      · rename_i c rest hq
        cases h
        refine ⟨?_, hi.ids, hi.recs, hi.nonempty, hi.rd, (fun hf => absurd (show s.running = false from hf) (by simpa using hrun))⟩
        intro d
        have := hi.chunks d
        rw [count_places] at this ⊢
        simp [hq, List.count_append, List.count_cons] at this ⊢
        omega
      · cases h
  | ack c =>
    simp only [step] at h
    split at h
    · cases h
    · rename_i hcond
      cases h
      simp at hcond
      refine ⟨?_, hi.ids, hi.recs, hi.nonempty, hi.rd, (fun hf => by rw [show s.running = false from hf] at hcond; simp at hcond)⟩
      intro d
      have := hi.chunks d
      rw [count_places] at this ⊢
      have hone : s.inflight.count c = 1 := by
        have h1 := hi.chunks c
        rw [count_places] at h1
        have h2 : 1 ≤ s.inflight.count c := List.count_pos_iff.mpr hcond.2
        split at h1 <;> omega
      have hf : (s.inflight.filter (· ≠ c)).count d + (if d = c then 1 else 0) = s.inflight.count d := by
        by_cases hd : d = c
        · subst hd
          have : (s.inflight.filter (fun x => !decide (x = d))).count d = 0 := by
            apply List.count_eq_zero.mpr
            intro hm; simp at hm
          simp [this, hone]
        · have : (s.inflight.filter (fun x => !decide (x = c))).count d = s.inflight.count d := by
            rw [List.count_filter]; simp [hd]
          simp [hd, this]
      simp [List.count_append, List.count_cons] at this ⊢
      by_cases hd : d = c
      · subst hd; simp at hf ⊢; omega
      · have : ¬ c = d := fun e => hd e.symm
        simp [hd, this] at hf ⊢; omega
  | drop c =>
    simp only [step] at h
    split at h
    · cases h
    · rename_i hcond
      cases h
      simp at hcond
      refine ⟨?_, hi.ids, hi.recs, hi.nonempty, hi.rd, (fun hf => by rw [show s.running = false from hf] at hcond; simp at hcond)⟩
      intro d
      have := hi.chunks d
      rw [count_places] at this ⊢
      have hone : s.queue.count c + s.inflight.count c = 1 ∧ s.acked.count c = 0 ∧ s.dropped.count c = 0 ∧ s.disk.count c = 0 := by
        have h1 := hi.chunks c
        rw [count_places] at h1
        have h2 : 1 ≤ s.queue.count c + s.inflight.count c := by
          by_cases hq : c ∈ s.queue
          · have := List.count_pos_iff.mpr hq; omega
          · have := List.count_pos_iff.mpr (hcond.2 hq); omega
        split at h1 <;> omega
      have hf : ∀ l : List Nat, (l.filter (· ≠ c)).count d = if d = c then 0 else l.count d := by
        intro l
        by_cases hd : d = c
        · subst hd
          have : (l.filter (fun x => !decide (x = d))).count d = 0 := by
            apply List.count_eq_zero.mpr
            intro hm; simp at hm
          simp [this]
        · have : (l.filter (fun x => !decide (x = c))).count d = l.count d := by
            rw [List.count_filter]; simp [hd]
          simp [hd, this]
      obtain ⟨h1, h2, h3, h4⟩ := hone
      simp only [hf, List.count_append, List.count_cons, List.count_nil]
      by_cases hd : d = c
      · subst hd
        have hlt : d < s.nextChunk := by
          by_cases hl : d < s.nextChunk
          · exact hl
          · simp [hl] at this; omega
        simp [hlt, h2, h3, h4]
      · have hcd : ¬ c = d := fun e => hd e.symm
        simp only [hd, if_false, beq_iff_eq, hcd] at this ⊢
        omega
  | connFail =>
    simp only [step] at h
    split at h
    · cases h
    · rename_i hrun
      cases h
      refine ⟨?_, hi.ids, hi.recs, hi.nonempty, hi.rd, (fun hf => absurd (show s.running = false from hf) (by simpa using hrun))⟩
      intro d
      have := hi.chunks d
      rw [count_places] at this ⊢
      simp [count_sortIds, List.count_append] at this ⊢
      omega
  | stop =>
    simp only [step] at h
    split at h
    · cases h
    · rename_i hrun
      have hdisk : s.disk = [] := hi.rd (by simpa using hrun)
      cases h
      cases hc : closeChunk s with
      | mk s1 oc =>
        cases oc with
        | none =>
          obtain ⟨rfl, hcur⟩ := closeChunk_none s s1 hc
          simp only []
          refine ⟨?_, hi.ids, hi.recs, hi.nonempty, by intro h; simp at h, fun _ => ⟨rfl, rfl, hcur⟩⟩
          intro d
          have := hi.chunks d
          rw [count_places] at this ⊢
          simp [count_sortIds, List.count_append, hdisk] at this ⊢
          omega
        | some c =>
          obtain ⟨rfl, hne, rfl⟩ := closeChunk_some s s1 c hc
          simp only []
          refine pinv_close s hi hne _ ?_ rfl rfl rfl rfl (by intro h; simp at h) (fun _ => ⟨rfl, rfl, rfl⟩)
          intro d
          rw [count_places, count_places]
          simp [count_sortIds, List.count_append, List.count_cons, hdisk]
          by_cases hcc : d = s.nextChunk
          · subst hcc; simp; omega
          · have : ¬ s.nextChunk = d := fun e => hcc e.symm
            simp [hcc, this]; omega
  | restart =>
    simp only [step] at h
    split at h
    · cases h
    · rename_i hrun
      have hq := hi.nr (by simpa using hrun)
      cases h
      refine ⟨?_, hi.ids, hi.recs, hi.nonempty, fun _ => rfl, fun hf => by simp at hf⟩
      intro d
      have := hi.chunks d
      rw [count_places] at this ⊢
      simp [hq.1, hq.2.1] at this ⊢
      omega

theorem run_pinv : ∀ (acts : List Act) (s s' : St), run s acts = some s' → PInv s → PInv s'
  | [], s, s', h, hi => by simp [run] at h; subst h; exact hi
  | a :: as, s, s', h, hi => by
    simp only [run] at h
    cases hs : step s a with
    | none => simp [hs] at h
    | some s1 => simp [hs] at h; exact run_pinv as s1 s' h (step_pinv s s1 a hs hi)

theorem init_pinv : PInv ({} : St) where
  chunks := by intro c; simp [places]
  ids := rfl
  recs := rfl
  nonempty := by intro p hp; simp at hp
  rd := fun _ => rfl
  nr := by intro h; simp at h

end C01

namespace C05
open C01

def ids (l : List (Nat × Nat)) : List Nat := l.map (·.2)

/-- at its first transmission a chunk is newer than everything transmitted before -/
def firstOK : List Nat → List (Nat × Nat) → Prop
  | _, [] => True
  | seen, (_, c) :: r => (c ∈ seen ∨ ∀ c' ∈ seen, c' < c) ∧ firstOK (c :: seen) r

theorem firstOK_snoc : ∀ (l : List (Nat × Nat)) (seen : List Nat) (k c : Nat),
    firstOK seen (l ++ [(k, c)]) ↔ firstOK seen l ∧ (c ∈ seen ∨ c ∈ ids l ∨ ∀ c' ∈ seen ++ ids l, c' < c)
  | [], seen, k, c => by simp [firstOK, ids]
  | (k0, c0) :: r, seen, k, c => by
    simp only [List.cons_append, firstOK, firstOK_snoc r (c0 :: seen) k c, ids, List.map_cons]
    constructor
    · rintro ⟨h1, h2, h3⟩
      refine ⟨⟨h1, h2⟩, ?_⟩
      rcases h3 with h | h | h
      · rcases List.mem_cons.mp h with h | h
        · right; left; simp [h]
        · left; exact h
      · right; left; simp [ids] at h ⊢; right; exact h
      · right; right
        intro c' hc'
        apply h
        simp at hc' ⊢
        rcases hc' with hc' | hc' | hc'
        · right; left; exact hc'
        · left; exact hc'
        · right; right; exact hc'
    · rintro ⟨⟨h1, h2⟩, h3⟩
      refine ⟨h1, h2, ?_⟩
      rcases h3 with h | h | h
      · left; simp [h]
      · simp at h
        rcases h with h | h
        · left; simp [h]
        · right; left; simp [ids]; exact h
      · right; right
        intro c' hc'
        apply h
        simp at hc' ⊢
        rcases hc' with hc' | hc' | hc'
        · right; left; exact hc'
        · left; exact hc'
        · right; right; exact hc'

theorem ins_of_lt (x : Nat) : ∀ (l : List Nat), (∀ y ∈ l, x < y) → ins x l = x :: l
  | [], _ => rfl
  | y :: r, h => by
    have : x ≤ y := Nat.le_of_lt (h y (by simp))
    simp [ins, this]

theorem sortIds_sorted : ∀ (l : List Nat), l.Pairwise (· < ·) → sortIds l = l
  | [], _ => rfl
  | x :: r, h => by
    have hp := List.pairwise_cons.mp h
    simp only [sortIds, sortIds_sorted r hp.2]
    exact ins_of_lt x r hp.1

theorem onConn_snoc (k k' c : Nat) (l : List (Nat × Nat)) :
    onConn k (l ++ [(k', c)]) = onConn k l ++ (if k' = k then [c] else []) := by
  unfold onConn
  rw [List.filter_append, List.map_append]
  by_cases h : k' = k <;> simp [h]

structure OInv (s : St) : Prop where
  sorted : (s.inflight ++ s.queue).Pairwise (· < ·)
  dsorted : s.disk.Pairwise (· < ·)
  bound : ∀ p ∈ s.sentLog, p.2 < s.nextChunk ∧ p.1 ≤ s.conn
  ahead : ∀ c' ∈ onConn s.conn s.sentLog, ∀ q ∈ s.queue, c' < q
  perConn : ∀ k, (onConn k s.sentLog).Pairwise (· < ·)
  first : firstOK [] s.sentLog
  fresh : ∀ q ∈ s.queue ++ s.disk, q ∉ ids s.sentLog → ∀ p ∈ s.sentLog, p.2 < q
  flown : ∀ c ∈ s.inflight, c ∈ ids s.sentLog

theorem lt_next_of_mem (s : St) (hp : PInv s) (c : Nat) (h : c ∈ places s) : c < s.nextChunk := by
  have h1 := hp.chunks c
  have h2 : 1 ≤ (places s).count c := List.count_pos_iff.mpr h
  split at h1
  · assumption
  · omega

theorem pairwise_snoc' (l : List Nat) (c : Nat) (h : l.Pairwise (· < ·)) (hc : ∀ t ∈ l, t < c) :
    (l ++ [c]).Pairwise (· < ·) := by
  rw [List.pairwise_append]
  exact ⟨h, by simp, fun a ha b hb => by simp at hb; subst hb; exact hc a ha⟩

/-- appending a newly created chunk to the queue -/
theorem oinv_enqueue (s : St) (hp : PInv s) (ho : OInv s) (s2 : St)
    (hq : s2.queue = s.queue ++ [s.nextChunk]) (hi : s2.inflight = s.inflight) (hd : s2.disk = s.disk)
    (hl : s2.sentLog = s.sentLog) (hc : s2.conn = s.conn) (hn : s2.nextChunk = s.nextChunk + 1) : OInv s2 := by
  have hlt : ∀ c ∈ s.inflight ++ s.queue, c < s.nextChunk := by
    intro c hc'
    apply lt_next_of_mem s hp
    simp [places] at hc' ⊢
    rcases hc' with h | h
    · right; left; exact h
    · left; exact h
  refine ⟨?_, ?_, ?_, ?_, ?_, ?_, ?_, ?_⟩
  · rw [hq, hi, ← List.append_assoc]
    exact pairwise_snoc' _ _ ho.sorted hlt
  · rw [hd]; exact ho.dsorted
  · intro p hp'
    rw [hl] at hp'
    rw [hn, hc]
    exact ⟨Nat.lt_succ_of_lt (ho.bound p hp').1, (ho.bound p hp').2⟩
  · intro c' hc' q hq'
    rw [hc, hl] at hc'
    rw [hq] at hq'
    rcases List.mem_append.mp hq' with h | h
    · exact ho.ahead c' hc' q h
    · simp at h; subst h
      unfold onConn at hc'
      obtain ⟨p, hp1, hp2⟩ := List.mem_map.mp hc'
      rw [← hp2]
      exact (ho.bound p (List.mem_filter.mp hp1).1).1
  · intro k; rw [hl]; exact ho.perConn k
  · rw [hl]; exact ho.first
  · intro q hq' hns p hp'
    rw [hl] at hns hp'
    rw [hq, hd] at hq'
    rcases List.mem_append.mp hq' with h | h
    · rcases List.mem_append.mp h with h | h
      · exact ho.fresh q (List.mem_append_left _ h) hns p hp'
      · have : q = s.nextChunk := by simpa using h
        subst this; exact (ho.bound p hp').1
    · exact ho.fresh q (List.mem_append_right _ h) hns p hp'
  · intro c hc'
    rw [hi] at hc'; rw [hl]; exact ho.flown c hc'

theorem step_oinv (s s' : St) (a : Act) (h : step s a = some s') (hp : PInv s) (ho : OInv s) : OInv s' := by
  cases a with
  | read =>
    simp only [step] at h
    split at h
    · cases h
    · cases h
      exact ⟨ho.sorted, ho.dsorted, ho.bound, ho.ahead, ho.perConn, ho.first, ho.fresh, ho.flown⟩
  | flushAccept =>
    simp only [step] at h
    split at h
    · cases h
    · split at h
      · rename_i s1 c hc
        obtain ⟨rfl, hne, rfl⟩ := closeChunk_some s s1 c hc
        cases h
        exact oinv_enqueue s hp ho _ rfl rfl rfl rfl rfl rfl
      · cases h
  | flushDrop =>
    simp only [step] at h
    split at h
    · cases h
    · split at h
      · rename_i s1 c hc
        obtain ⟨rfl, hne, rfl⟩ := closeChunk_some s s1 c hc
        cases h
        refine ⟨ho.sorted, ho.dsorted, ?_, ho.ahead, ho.perConn, ho.first, ho.fresh, ho.flown⟩
        intro p hp'
        exact ⟨Nat.lt_succ_of_lt (ho.bound p hp').1, (ho.bound p hp').2⟩
      · cases h
  | take =>
    simp only [step] at h
    split at h
    · cases h
    · rename_i hrun
      split at h
      · rename_i c rest hq
        cases h
        have hdisk : s.disk = [] := hp.rd (by simpa using hrun)
        have hsorted := ho.sorted
        rw [hq] at hsorted
        have hcrest : ∀ q ∈ rest, c < q := by
          have := (List.pairwise_append.mp hsorted).2.1
          exact (List.pairwise_cons.mp this).1
        have hcq : c ∈ s.queue := by simp [hq]
        have hold : ∀ c' ∈ onConn s.conn s.sentLog, c' < c := fun c' hc' => ho.ahead c' hc' c hcq
        refine ⟨?_, ho.dsorted, ?_, ?_, ?_, ?_, ?_, ?_⟩
        · simpa [List.append_assoc] using hsorted
        · intro p hp'
          rcases List.mem_append.mp hp' with h1 | h1
          · exact ho.bound p h1
          · simp at h1; subst h1
            refine ⟨?_, Nat.le_refl _⟩
            apply lt_next_of_mem s hp
            simp [places, hq]
        · intro c' hc' q hq'
          simp only [onConn_snoc, if_true] at hc'
          rcases List.mem_append.mp hc' with h1 | h1
          · exact ho.ahead c' h1 q (by simp [hq, hq'])
          · simp at h1; subst h1; exact hcrest q hq'
        · intro k
          simp only [onConn_snoc]
          by_cases hk : s.conn = k
          · subst hk
            simp only [if_true]
            exact pairwise_snoc' _ _ (ho.perConn _) hold
          · simp [hk]; exact ho.perConn k
        · simp only []
          rw [firstOK_snoc]
          refine ⟨ho.first, ?_⟩
          by_cases hin : c ∈ ids s.sentLog
          · right; left; exact hin
          · right; right
            intro c' hc'
            simp at hc'
            obtain ⟨p, hp1, hp2⟩ := List.mem_map.mp (show c' ∈ ids s.sentLog from hc')
            rw [← hp2]
            exact ho.fresh c (List.mem_append_left _ hcq) hin p hp1
        · intro q hq' hns p hp'
          simp only [hdisk, List.append_nil] at hq'
          have hns' : q ∉ ids s.sentLog := by
            intro hm; apply hns; simp [ids] at hm ⊢; left; exact hm
          rcases List.mem_append.mp hp' with h1 | h1
          · exact ho.fresh q (by simp [hq, hq']) hns' p h1
          · simp at h1; subst h1; exact hcrest q hq'
        · intro d hd
          simp [ids] at hd ⊢
          rcases hd with h1 | h1
          · left
            have := ho.flown d h1
            simpa [ids] using this
          · right; exact h1
      · cases h
  | ack c =>
    simp only [step] at h
    split at h
    · cases h
    · cases h
      refine ⟨?_, ho.dsorted, ho.bound, ho.ahead, ho.perConn, ho.first, ho.fresh, ?_⟩
      · exact List.Pairwise.sublist (List.Sublist.append (List.filter_sublist) (List.Sublist.refl _)) ho.sorted
      · intro d hd
        exact ho.flown d (List.mem_filter.mp hd).1
  | drop c =>
    simp only [step] at h
    split at h
    · cases h
    · cases h
      refine ⟨?_, ho.dsorted, ho.bound, ?_, ho.perConn, ho.first, ?_, ?_⟩
      · exact List.Pairwise.sublist (List.Sublist.append (List.filter_sublist) (List.filter_sublist)) ho.sorted
      · intro c' hc' q hq
        exact ho.ahead c' hc' q (List.mem_filter.mp hq).1
      · intro q hq hns p hp'
        refine ho.fresh q ?_ hns p hp'
        rcases List.mem_append.mp hq with h1 | h1
        · exact List.mem_append_left _ (List.mem_filter.mp h1).1
        · exact List.mem_append_right _ h1
      · intro d hd
        exact ho.flown d (List.mem_filter.mp hd).1
  | connFail =>
    simp only [step] at h
    split at h
    · cases h
    · cases h
      have hnone : onConn (s.conn + 1) s.sentLog = [] := by
        unfold onConn
        rw [List.map_eq_nil_iff, List.filter_eq_nil_iff]
        intro p hp'
        have := (ho.bound p hp').2
        simp; omega
      refine ⟨?_, ho.dsorted, ?_, ?_, ho.perConn, ho.first, ?_, ?_⟩
      · simp only [sortIds_sorted _ ho.sorted, List.nil_append]; exact ho.sorted
      · intro p hp'
        exact ⟨(ho.bound p hp').1, Nat.le_succ_of_le (ho.bound p hp').2⟩
      · intro c' hc'
        simp only [hnone] at hc'
        cases hc'
      · intro q hq' hns p hp'
        simp only [sortIds_sorted _ ho.sorted] at hq'
        rcases List.mem_append.mp hq' with h1 | h1
        · rcases List.mem_append.mp h1 with h2 | h2
          · exact absurd (ho.flown q h2) hns
          · exact ho.fresh q (List.mem_append_left _ h2) hns p hp'
        · exact ho.fresh q (List.mem_append_right _ h1) hns p hp'
      · intro d hd; cases hd
  | stop =>
    simp only [step] at h
    split at h
    · cases h
    · rename_i hrun
      have hdisk : s.disk = [] := hp.rd (by simpa using hrun)
      cases h
      cases hc : closeChunk s with
      | mk s1 oc =>
        cases oc with
        | none =>
          obtain ⟨rfl, hcur⟩ := closeChunk_none s s1 hc
          simp only []
          refine ⟨?_, ?_, ho.bound, ?_, ho.perConn, ho.first, ?_, ?_⟩
          · simp
          · rw [sortIds_sorted _ ho.sorted]; exact ho.sorted
          · intro c' _ q hq; cases hq
          rotate_left
          · intro d hd; cases hd
          · intro q hq' hns p hp'
            simp only [List.nil_append, sortIds_sorted _ ho.sorted] at hq'
            rcases List.mem_append.mp hq' with h2 | h2
            · exact absurd (ho.flown q h2) hns
            · exact ho.fresh q (List.mem_append_left _ h2) hns p hp'
        | some c =>
          obtain ⟨rfl, hne, rfl⟩ := closeChunk_some s s1 c hc
          simp only []
          have ho2 := oinv_enqueue s hp ho
            { s with cur := [], nextChunk := s.nextChunk + 1, content := s.content ++ [(s.nextChunk, s.cur)], queue := s.queue ++ [s.nextChunk] }
            rfl rfl rfl rfl rfl rfl
          refine ⟨?_, ?_, ho2.bound, ?_, ho2.perConn, ho2.first, ?_, ?_⟩
          · simp
          · rw [sortIds_sorted _ ho2.sorted]; exact ho2.sorted
          · intro c' _ q hq; cases hq
          rotate_left
          · intro d hd; cases hd
          · intro q hq' hns p hp'
            simp only [List.nil_append, sortIds_sorted _ ho2.sorted] at hq'
            rcases List.mem_append.mp hq' with h2 | h2
            · exact absurd (ho2.flown q h2) hns
            · exact ho2.fresh q (List.mem_append_left _ h2) hns p hp'
  | restart =>
    simp only [step] at h
    split at h
    · cases h
    · rename_i hrun
      have hq := hp.nr (by simpa using hrun)
      cases h
      have hnone : onConn (s.conn + 1) s.sentLog = [] := by
        unfold onConn
        rw [List.map_eq_nil_iff, List.filter_eq_nil_iff]
        intro p hp'
        have := (ho.bound p hp').2
        simp; omega
      refine ⟨?_, by simp, ?_, ?_, ho.perConn, ho.first, ?_, ?_⟩
      · simp only [hq.2.1, List.nil_append]; exact ho.dsorted
      · intro p hp'
        exact ⟨(ho.bound p hp').1, Nat.le_succ_of_le (ho.bound p hp').2⟩
      · intro c' hc'
        simp only [hnone] at hc'
        cases hc'
      · intro q hq' hns p hp'
        simp only [List.append_nil] at hq'
        exact ho.fresh q (List.mem_append_right _ hq') hns p hp'
      · intro d hd
        simp only [hq.2.1] at hd
        cases hd

theorem run_oinv : ∀ (acts : List Act) (s s' : St), run s acts = some s' → PInv s → OInv s → OInv s'
  | [], s, s', h, _, ho => by simp [run] at h; subst h; exact ho
  | a :: as, s, s', h, hp, ho => by
    simp only [run] at h
    cases hs : step s a with
    | none => simp [hs] at h
    | some s1 =>
      simp [hs] at h
      exact run_oinv as s1 s' h (step_pinv s s1 a hs hp) (step_oinv s s1 a hs hp ho)

theorem init_oinv : OInv ({} : St) where
  sorted := by simp
  dsorted := by simp
  bound := by intro p hp; simp at hp
  ahead := by intro c' hc'; simp [onConn] at hc'
  perConn := by intro k; simp [onConn]
  first := trivial
  fresh := by intro q hq; simp at hq
  flown := by intro c hc; simp at hc

end C05
