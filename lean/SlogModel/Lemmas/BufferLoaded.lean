import SlogModel.Lemmas.BufferSched

/-!
  How many chunks are in memory, for every schedule of the feeder goroutine (helper lemmas for `C03_loaded_bound_every_schedule`):
  the input channel never holds more than `queueCap` entries, the window never more than `memCap`, the feeder at most one.
-/

open Buffer
namespace C03

/-- the input channel's capacity is respected -/
def QB (s : St) : Prop := s.inQ.length ≤ s.cfg.queueCap

theorem accept_qb (s : St) (id : Nat) (data : Bytes) (h : QB s) : QB (accept s id data) := by
  unfold accept
  simp only
  split
  · obtain ⟨disk, c, hu⟩ := unloadOrDrop_frame
      { s with accepted := s.accepted ++ [(id, data)], c := { s.c with pending := s.c.pending + 1, inP := s.c.inP + 1 } }
      { id := id, data := some data, saved := false }
    rcases hu with ⟨e', hu, hid⟩ | hu
    · rw [hu]
      simp only
      split
      · rename_i hlt
        unfold QB at *
        simp only [List.length_append, List.length_cons, List.length_nil] at hlt ⊢
        omega
      · obtain ⟨c', hd⟩ := onDropped_frame { s with accepted := s.accepted ++ [(id, data)], disk := disk, c := c } e'
        rw [hd]; exact h
    · rw [hu]; exact h
  · split
    · rename_i hlt
      unfold QB at *
      simp only [List.length_append, List.length_cons, List.length_nil] at hlt ⊢
      omega
    · obtain ⟨c', hd⟩ := onDropped_frame { s with accepted := s.accepted ++ [(id, data)], c := { s.c with pending := s.c.pending + 1, inT := s.c.inT + 1 } } { id := id, data := some data, saved := false }
      rw [hd]; exact h

theorem feederStep_qb (s s' : St) (h : feederStep s = some s') (hq : QB s) : QB s' := by
  unfold feederStep at h
  split at h
  · split at h
    · cases h; exact hq
    · cases h
  · split at h
    · cases h
    · rename_i e rest hqe
      have hq' : rest.length ≤ s.cfg.queueCap := by unfold QB at hq; rw [hqe] at hq; simp at hq; omega
      simp only at h
      split at h
      · split at h
        · obtain ⟨c', hd⟩ := onDropped_frame { s with inQ := rest, c := { (if e.data.isSome = true then { s.c with qT := s.c.qT - 1 } else { s.c with qP := s.c.qP - 1 }) with ioErr := (if e.data.isSome = true then { s.c with qT := s.c.qT - 1 } else { s.c with qP := s.c.qP - 1 }).ioErr + 1 } } e
          rw [hd] at h; cases h; exact hq'
        · obtain ⟨c', hd⟩ := onDropped_frame { s with inQ := rest, c := (if e.data.isSome = true then { s.c with qT := s.c.qT - 1 } else { s.c with qP := s.c.qP - 1 }) } e
          rw [hd] at h; cases h; exact hq'
      · rename_i d _
        split at h
        · obtain ⟨disk', c', hr⟩ := removeChunk_frame { s with inQ := rest, c := (if e.data.isSome = true then { s.c with qT := s.c.qT - 1 } else { s.c with qP := s.c.qP - 1 }) } { e with data := some d }
          rw [hr] at h; cases h; exact hq'
        · cases h; exact hq'

theorem stepRaw_qb (s s' : St) (o : Op) (h : stepRaw s o = some s') (hq : QB s) : QB s' := by
  cases o with
  | accept id data =>
    simp only [stepRaw] at h
    split at h
    · cases h
    · cases h; exact accept_qb s id data hq
  | take =>
    simp only [stepRaw] at h
    split at h
    · cases h
    · split at h
      · cases h
      · cases h; exact hq
  | confirm id =>
    obtain ⟨e, disk, c, _, _, rfl | rfl | rfl⟩ := resolve_cases s s' id (Or.inl h) <;> exact hq
  | handBack id =>
    obtain ⟨e, disk, c, _, _, rfl | rfl | rfl⟩ := resolve_cases s s' id (Or.inr h) <;> exact hq
  | destroy =>
    simp only [stepRaw, step] at h
    split at h
    · cases h
    · cases h
      obtain ⟨a1, a2, a3, a4, a5, a6, a7, a8, a9⟩ := saveAll_counts (s.inQ ++ handEntry s.hand ++ s.outW)
        { s with inQ := [], hand := none, outW := [], destroyed := true }
      unfold QB
      rw [a1]; simp
  | finish =>
    simp only [stepRaw, step] at h
    split at h
    · cases h; exact hq
    · cases h
  | extZero id =>
    simp only [stepRaw, step] at h
    split at h
    · cases h; exact hq
    · cases h
  | extRemove id =>
    simp only [stepRaw, step] at h
    split at h
    · cases h; exact hq
    · cases h


theorem recFold_qb (cfg : Cfg) : ∀ (files : List (Nat × Bytes)) (s : St), s.cfg = cfg → QB s →
    QB (files.foldl (recStep cfg) s) ∧ (files.foldl (recStep cfg) s).cfg = cfg
  | [], s, hc, hq => ⟨hq, hc⟩
  | f :: fs, s, hc, hq => by
    simp only [List.foldl_cons]
    apply recFold_qb cfg fs
    · unfold recStep; split <;> exact hc
    · unfold recStep
      split
      · rename_i hlt
        unfold QB at *
        simp only [List.length_append, List.length_cons, List.length_nil]
        rw [hc]; omega
      · exact hq

theorem recoverRaw_qb (cfg : Cfg) (disk : List (Nat × Bytes)) : QB (recoverRaw cfg disk) :=
  (recFold_qb cfg (scanned cfg disk) (start cfg disk) rfl (by unfold QB start; simp)).1

theorem runI_qb : ∀ (as : List IAct) (s s' : St), runI s as = some s' → QB s → QB s'
  | [], s, s', h, hq => by simp [runI] at h; subst h; exact hq
  | a :: as, s, s', h, hq => by
    simp only [runI] at h
    cases hs : stepI s a with
    | none => simp [hs] at h
    | some s1 =>
      simp [hs] at h
      cases a with
      | op o => exact runI_qb as s1 s' h (stepRaw_qb s s1 o hs hq)
      | feed => exact runI_qb as s1 s' h (feederStep_qb s s1 hs hq)

end C03
