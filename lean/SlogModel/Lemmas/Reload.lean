import SlogModel.Model.Reload

/-!
  Invariants of the reload transition system `Reload.step` (helper lemmas for `Props/C17.lean`).
-/

open Reload
namespace C17

variable {β : Type}

theorem aget_adel_same (l : List (Nat × β)) (k : Nat) : aget (adel l k) k = none := by
  unfold aget adel
  rw [List.find?_filter]
  have : (l.find? (fun a => decide (decide (a.1 ≠ k) = true ∧ decide (a.1 = k) = true))) = none := by
    apply List.find?_eq_none.mpr
    intro x _; simp
  simp [this]

theorem aget_adel_other (l : List (Nat × β)) (k m : Nat) (h : m ≠ k) : aget (adel l k) m = aget l m := by
  unfold aget adel
  rw [List.find?_filter]
  have : (fun (a : Nat × β) => decide (decide (a.1 ≠ k) = true ∧ decide (a.1 = m) = true)) = (fun a => decide (a.1 = m)) := by
    funext a
    by_cases hx : a.1 = m
    · simp [hx, h]
    · simp [hx]
  rw [this]

theorem aget_append_single (l : List (Nat × β)) (k m : Nat) (v : β) :
    aget (l ++ [(k, v)]) m = match aget l m with | some y => some y | none => if k = m then some v else none := by
  unfold aget
  rw [List.find?_append]
  cases h : l.find? (fun p => p.1 = m) with
  | some y => simp
  | none =>
    by_cases hn : k = m
    · simp [hn]
    · simp [hn]

theorem aget_aput_same (l : List (Nat × β)) (k : Nat) (v : β) : aget (aput l k v) k = some v := by
  unfold aput
  rw [aget_append_single, aget_adel_same]
  simp

theorem aget_aput_other (l : List (Nat × β)) (k m : Nat) (v : β) (h : m ≠ k) : aget (aput l k v) m = aget l m := by
  unfold aput
  rw [aget_append_single, aget_adel_other l k m h]
  cases aget l m with
  | some y => rfl
  | none =>
    have : ¬ k = m := fun e => h e.symm
    simp [this]

theorem aget_renew (g : Nat) : ∀ (l : List (Nat × Sink)) (sid n : Nat),
    (aget l n = none → aget (renew g sid l) n = none) ∧
    (∀ k, aget l n = some k → ∃ sid', aget (renew g sid l) n = some { sid := sid', gen := g })
  | [], sid, n => by simp [renew, aget]
  | (m, k0) :: r, sid, n => by
    obtain ⟨ih1, ih2⟩ := aget_renew g r (sid + 1) n
    by_cases hm : m = n
    · subst hm
      simp [renew, aget]
    · constructor
      · intro h
        have : aget r n = none := by simpa [aget, List.find?_cons, hm] using h
        simpa [renew, aget, List.find?_cons, hm] using ih1 this
      · intro k h
        have : aget r n = some k := by simpa [aget, List.find?_cons, hm] using h
        obtain ⟨sid', hs⟩ := ih2 k this
        exact ⟨sid', by simpa [renew, aget, List.find?_cons, hm] using hs⟩

theorem mem_of_aget (l : List (Nat × β)) (n : Nat) (v : β) (h : aget l n = some v) : (n, v) ∈ l := by
  unfold aget at h
  cases hf : l.find? (fun p => p.1 = n) with
  | none => simp [hf] at h
  | some p =>
    simp [hf] at h
    have h1 := List.find?_some hf
    have hm := List.mem_of_find?_eq_some hf
    obtain ⟨a, b⟩ := p
    simp at h1 h
    subst h1; subst h
    exact hm

theorem mem_adel (l : List (Nat × β)) (k : Nat) (p : Nat × β) (h : p ∈ adel l k) : p ∈ l := by
  unfold adel at h
  exact (List.mem_filter.mp h).1

theorem mem_aput (l : List (Nat × β)) (k : Nat) (v : β) (p : Nat × β) (h : p ∈ aput l k v) : p ∈ l ∨ p = (k, v) := by
  unfold aput at h
  rcases List.mem_append.mp h with h1 | h1
  · exact Or.inl (mem_adel l k p h1)
  · simp at h1; exact Or.inr h1

theorem mem_renew (g : Nat) : ∀ (l : List (Nat × Sink)) (sid : Nat) (p : Nat × Sink), p ∈ renew g sid l → p.2.gen = g
  | [], _, p, h => by simp [renew] at h
  | (m, k0) :: r, sid, p, h => by
    simp only [renew, List.mem_cons] at h
    rcases h with h | h
    · subst h; rfl
    · exact mem_renew g r (sid + 1) p h

theorem mem_insertSlot (p q : Nat × Sink) : ∀ (l : List (Nat × Sink)), q ∈ insertSlot p l ↔ q = p ∨ q ∈ l
  | [] => by simp [insertSlot]
  | x :: r => by
    unfold insertSlot
    split
    · simp
    · simp only [List.mem_cons, mem_insertSlot p q r]
      constructor
      · rintro (h | h | h)
        · exact Or.inr (Or.inl h)
        · exact Or.inl h
        · exact Or.inr (Or.inr h)
      · rintro (h | h | h)
        · exact Or.inr (Or.inl h)
        · exact Or.inl h
        · exact Or.inr (Or.inr h)

theorem mem_sortSlots (q : Nat × Sink) : ∀ (l : List (Nat × Sink)), q ∈ sortSlots l ↔ q ∈ l
  | [] => by simp [sortSlots]
  | p :: r => by
    simp only [sortSlots, mem_insertSlot, mem_sortSlots q r, List.mem_cons]

theorem aget_isSome_iff (l : List (Nat × β)) (n : Nat) : (aget l n).isSome ↔ ∃ v, (n, v) ∈ l := by
  constructor
  · intro h
    cases hk : aget l n with
    | none => simp [hk] at h
    | some v => exact ⟨v, mem_of_aget l n v hk⟩
  · rintro ⟨v, hv⟩
    unfold aget
    cases hf : l.find? (fun p => p.1 = n) with
    | none =>
      have := List.find?_eq_none.mp hf (n, v) hv
      simp at this
    | some p => simp

theorem aget_sortSlots_isSome (l : List (Nat × Sink)) (n : Nat) : (aget (sortSlots l) n).isSome = (aget l n).isSome := by
  apply Bool.eq_iff_iff.mpr
  rw [aget_isSome_iff, aget_isSome_iff]
  constructor
  · rintro ⟨v, hv⟩; exact ⟨v, (mem_sortSlots _ _).mp hv⟩
  · rintro ⟨v, hv⟩; exact ⟨v, (mem_sortSlots _ _).mpr hv⟩

theorem aget_renew_isSome (g : Nat) (l : List (Nat × Sink)) (sid n : Nat) :
    (aget (renew g sid l) n).isSome = (aget l n).isSome := by
  cases hs : aget l n with
  | none => rw [(aget_renew g l sid n).1 hs]
  | some k0 =>
    obtain ⟨sid', h'⟩ := (aget_renew g l sid n).2 k0 hs
    rw [h']; rfl

structure RInv (s : St) : Prop where
  gens : ∀ p ∈ s.slots, p.2.gen = s.gen                         -- every stored sink belongs to the current downstream
  cur : ∀ g ∈ s.shut, g < s.gen                                   -- which was never shut down
  reg : ∀ n, aget s.phases n = some .registered ↔ (aget s.slots n).isSome   -- slot occupied ⇔ its connection is registered
  fd : ∀ n p, aget s.phases n = some p → n ∈ s.fds               -- a live connection's socket is open
  nolegacy : s.zombies = [] ∧ ∀ n a b, aget s.phases n ≠ some (.creating a b)
  ok : s.bad = []

theorem useSink_ok (s : St) (k : Sink) (w : String) (h : k.gen ∉ s.shut) : useSink s k w = s := by
  unfold useSink; simp [h]

theorem step_rinv (s s' : St) (a : Act) (h : step s a = some s') (hi : RInv s) : RInv s' := by
  obtain ⟨hg, hc, hr, hf, hl, hok⟩ := hi
  cases a with
  | connect n =>
    simp only [step] at h
    split at h
    · cases h
    · rename_i hn
      cases h
      have hnone : aget s.phases n = none := by
        cases hp : aget s.phases n with
        | none => rfl
        | some p => exact absurd (hf n p hp) hn
      refine ⟨hg, hc, ?_, ?_, ⟨hl.1, ?_⟩, hok⟩
      · intro m
        by_cases hm : m = n
        · subst hm
          rw [aget_aput_same]
          constructor
          · intro e; cases e
          · intro e
            have := (hr m).mpr e
            rw [hnone] at this; cases this
        · simp only []; rw [aget_aput_other _ _ _ _ hm]; exact hr m
      · intro m p hp
        by_cases hm : m = n
        · subst hm; simp
        · rw [aget_aput_other _ _ _ _ hm] at hp
          exact List.mem_append_left _ (hf m p hp)
      · intro m a b
        by_cases hm : m = n
        · subst hm; rw [aget_aput_same]; intro e; cases e
        · rw [aget_aput_other _ _ _ _ hm]; exact hl.2 m a b
  | register n =>
    simp only [step] at h
    split at h
    · rename_i hp
      have hfree : aget s.slots n = none := by
        cases hs : aget s.slots n with
        | none => rfl
        | some k =>
          have := (hr n).mpr (by simp [hs])
          rw [hp] at this; cases this
      have hob : occupiedBad s n = s := by unfold occupiedBad; simp [hfree]
      rw [hob] at h
      simp only [newSinkOn] at h
      cases h
      refine ⟨?_, hc, ?_, ?_, ⟨hl.1, ?_⟩, hok⟩
      · intro p hp'
        rcases mem_aput _ _ _ _ hp' with h1 | h1
        · exact hg p h1
        · subst h1; rfl
      · intro m
        by_cases hm : m = n
        · subst hm
          simp only []
          rw [aget_aput_same, aget_aput_same]; simp
        · simp only []
          rw [aget_aput_other _ _ _ _ hm, aget_aput_other _ _ _ _ hm]; exact hr m
      · intro m p hp'
        by_cases hm : m = n
        · subst hm; exact hf m _ hp
        · simp only [] at hp'
          rw [aget_aput_other _ _ _ _ hm] at hp'; exact hf m p hp'
      · intro m a b
        by_cases hm : m = n
        · subst hm; simp only []; rw [aget_aput_same]; intro e; cases e
        · simp only []; rw [aget_aput_other _ _ _ _ hm]; exact hl.2 m a b
    · cases h
  | accept n r =>
    simp only [step] at h
    split at h
    · unfold callVia at h
      split at h
      · cases h
      · rename_i k hk
        have : k.gen ∉ s.shut := by
          rw [hg (n, k) (mem_of_aget _ _ _ hk)]
          intro hm; exact Nat.lt_irrefl _ (hc _ hm)
        rw [useSink_ok s k _ this] at h
        cases h
        exact ⟨hg, hc, hr, hf, hl, hok⟩
    · cases h
  | tick n =>
    simp only [step] at h
    split at h
    · unfold callVia at h
      split at h
      · cases h
      · rename_i k hk
        have : k.gen ∉ s.shut := by
          rw [hg (n, k) (mem_of_aget _ _ _ hk)]
          intro hm; exact Nat.lt_irrefl _ (hc _ hm)
        rw [useSink_ok s k _ this] at h
        cases h
        exact ⟨hg, hc, hr, hf, hl, hok⟩
    · cases h
  | closeSink n =>
    simp only [step] at h
    split at h
    · rename_i hp
      unfold closeVia at h
      split at h
      · cases h
      · rename_i k hk
        have : k.gen ∉ s.shut := by
          rw [hg (n, k) (mem_of_aget _ _ _ hk)]
          intro hm; exact Nat.lt_irrefl _ (hc _ hm)
        rw [useSink_ok s k _ this] at h
        simp only [Option.map_some] at h
        cases h
        refine ⟨?_, hc, ?_, ?_, ⟨hl.1, ?_⟩, hok⟩
        · intro p hp'
          exact hg p (mem_adel _ _ _ hp')
        · intro m
          by_cases hm : m = n
          · subst hm; simp only []; rw [aget_aput_same, aget_adel_same]; simp
          · simp only []; rw [aget_aput_other _ _ _ _ hm, aget_adel_other _ _ _ hm]; exact hr m
        · intro m p hp'
          by_cases hm : m = n
          · subst hm; exact hf m _ hp
          · simp only [] at hp'; rw [aget_aput_other _ _ _ _ hm] at hp'; exact hf m p hp'
        · intro m a b
          by_cases hm : m = n
          · subst hm; simp only []; rw [aget_aput_same]; intro e; cases e
          · simp only []; rw [aget_aput_other _ _ _ _ hm]; exact hl.2 m a b
    · cases h
  | closeSocket n =>
    simp only [step] at h
    split at h
    · rename_i hp
      cases h
      refine ⟨hg, hc, ?_, ?_, ⟨hl.1, ?_⟩, hok⟩
      · intro m
        by_cases hm : m = n
        · subst hm
          simp only []
          rw [aget_adel_same]
          constructor
          · intro e; cases e
          · intro e
            have := (hr m).mpr e
            rw [hp] at this; cases this
        · simp only []; rw [aget_adel_other _ _ _ hm]; exact hr m
      · intro m p hp'
        by_cases hm : m = n
        · subst hm; simp only [] at hp'; rw [aget_adel_same] at hp'; cases hp'
        · simp only [] at hp'; rw [aget_adel_other _ _ _ hm] at hp'
          simp only [List.mem_filter]
          exact ⟨hf m p hp', by simp [hm]⟩
      · intro m a b
        by_cases hm : m = n
        · subst hm; simp only []; rw [aget_adel_same]; intro e; cases e
        · simp only []; rw [aget_adel_other _ _ _ hm]; exact hl.2 m a b
    · cases h
  | reload =>
    simp only [step] at h
    cases h
    unfold reloadStep
    simp only
    have hstale : (s.slots.filter (fun p => decide (p.2.gen ∈ s.shut))) = [] := by
      apply List.filter_eq_nil_iff.mpr
      intro p hp
      simp only [decide_eq_true_eq]
      rw [hg p hp]
      intro hm; exact Nat.lt_irrefl _ (hc _ hm)
    refine ⟨?_, ?_, ?_, hf, hl, ?_⟩
    · intro p hp
      exact mem_renew _ _ _ p hp
    · intro g hm
      rcases List.mem_append.mp hm with h1 | h1
      · exact Nat.lt_succ_of_lt (hc g h1)
      · simp at h1; subst h1; exact Nat.lt_succ_self _
    · intro m
      rw [hr m, aget_renew_isSome, aget_sortSlots_isSome]
    · rw [hok, hstale]; simp
  | reloadFail =>
    simp only [step] at h
    cases h
    exact ⟨hg, hc, hr, hf, hl, hok⟩
  | createSink _ => simp [step] at h
  | storeSink _ => simp [step] at h
  | closeSocketFirst _ => simp [step] at h
  | zombieAccept _ _ => simp [step] at h
  | closeSinkLate _ => simp [step] at h

theorem run_rinv : ∀ (acts : List Act) (s s' : St), run s acts = some s' → RInv s → RInv s'
  | [], s, s', h, hi => by simp [run] at h; subst h; exact hi
  | a :: as, s, s', h, hi => by
    simp only [run] at h
    cases hs : step s a with
    | none => simp [hs] at h
    | some s1 => simp [hs] at h; exact run_rinv as s1 s' h (step_rinv s s1 a hs hi)

theorem init_rinv : RInv ({} : St) where
  gens := by intro p hp; simp at hp
  cur := by intro g hg; simp at hg
  reg := by intro n; simp [aget]
  fd := by intro n p hp; simp [aget] at hp
  nolegacy := ⟨rfl, by intro n a b; simp [aget]⟩
  ok := rfl

end C17
