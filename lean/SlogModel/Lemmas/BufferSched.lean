import SlogModel.Lemmas.Buffer

/-!
  Every schedule of the feeder goroutine.  `Buffer.step` runs the feeder to quiescence after `accept` and
  `take` (the points at which the correspondence compares the real buffer with the model).  Here the
  feeder's steps are actions of their own, interleaved arbitrarily with the operations — including a
  start at which chunks are accepted before the feeder has moved a single recovered chunk — and the
  invariants that do not depend on quiescence are proved for all of these interleavings.
-/

open Buffer
namespace C03

/-- the operations without the feeder: `accept` and `take` as they are before any feeder step -/
def stepRaw (s : St) : Op → Option St
  | .accept id data => if s.destroyed then none else some (accept s id data)
  | .take =>
    if s.destroyed then none else
    match s.outW with
    | [] => none
    | e :: rest => some { s with outW := rest, held := s.held ++ [e], taken := s.taken ++ [(e.id, e.data.getD [])] }
  | .confirm id => step s (.confirm id)
  | .handBack id => step s (.handBack id)
  | .destroy => step s .destroy
  | .finish => step s .finish
  | .extZero id => step s (.extZero id)
  | .extRemove id => step s (.extRemove id)

/-- the quiescing step is the raw step followed by feeder steps -/
theorem step_eq_raw (s : St) (o : Op) :
    step s o = (stepRaw s o).map (fun s' => match o with | .accept _ _ => quiesce s' | .take => quiesce s' | _ => s') := by
  cases o with
  | accept id data => simp only [step, stepRaw]; split <;> rfl
  | take =>
    simp only [step, stepRaw]
    split
    · rfl
    · cases s.outW <;> rfl
  | confirm id => simp [stepRaw]
  | handBack id => simp [stepRaw]
  | destroy => simp [stepRaw]
  | finish => simp [stepRaw]
  | extZero id => simp [stepRaw]
  | extRemove id => simp [stepRaw]

inductive IAct where
  | op (o : Op)
  | feed            -- one step of the feeder goroutine
  deriving Repr

def stepI (s : St) : IAct → Option St
  | .op o => stepRaw s o
  | .feed => feederStep s

def runI (s : St) : List IAct → Option St
  | [] => some s
  | a :: as => match stepI s a with | some s' => runI s' as | none => none

def okI (s : St) : IAct → Prop
  | .op o => okOp s o
  | .feed => True

def LegalI : St → List IAct → Prop
  | _, [] => True
  | s, a :: as => okI s a ∧ ∀ s', stepI s a = some s' → LegalI s' as

/-- the state a generation starts in, before the feeder has run -/
def recoverRaw (cfg : Cfg) (disk : List (Nat × Bytes)) : St := (scanned cfg disk).foldl (recStep cfg) (start cfg disk)

theorem recover_eq (cfg : Cfg) (disk : List (Nat × Bytes)) : recover cfg disk = quiesce (recoverRaw cfg disk) := rfl

theorem stepRaw_conserved (s s' : St) (o : Op) (h : stepRaw s o = some s') (hc : Conserved s) (hn : (accIds s).Nodup) :
    Conserved s' ∧ s'.cfg = s.cfg ∧
      (match o with | .accept id d => s'.accepted = s.accepted ++ [(id, d)] | _ => s'.accepted = s.accepted) := by
  cases o with
  | accept id data =>
    simp only [stepRaw] at h
    split at h
    · cases h
    · cases h
      obtain ⟨a1, a2, a3, _⟩ := accept_conserved s id data hc
      exact ⟨a1, a3, a2⟩
  | take =>
    simp only [stepRaw] at h
    split at h
    · cases h
    · split at h
      · cases h
      · rename_i e rest ho
        cases h
        refine ⟨?_, rfl, rfl⟩
        intro i
        have := hc i
        rw [count_live] at this ⊢
        simp [ho, accIds, List.count_append, List.count_cons] at this ⊢
        omega
  | confirm id => exact step_conserved s s' (.confirm id) h hc hn
  | handBack id => exact step_conserved s s' (.handBack id) h hc hn
  | destroy => exact step_conserved s s' .destroy h hc hn
  | finish => exact step_conserved s s' .finish h hc hn
  | extZero id => exact step_conserved s s' (.extZero id) h hc hn
  | extRemove id => exact step_conserved s s' (.extRemove id) h hc hn

theorem stepI_cinv (s s' : St) (a : IAct) (h : stepI s a = some s') (hi : CInv s) (hok : okI s a) : CInv s' := by
  cases a with
  | feed =>
    obtain ⟨a1, a2, _, _⟩ := feederStep_conserved s s' h hi.cons
    exact ⟨a1, by simp only [accIds]; rw [a2]; exact hi.nodup⟩
  | op o =>
    obtain ⟨a1, a2, a3⟩ := stepRaw_conserved s s' o h hi.cons hi.nodup
    refine ⟨a1, ?_⟩
    cases o with
    | accept id d =>
      simp only at a3
      simp only [okI, okOp, accIds] at hok ⊢
      rw [a3]
      simp only [List.map_append, List.map_cons, List.map_nil]
      rw [List.nodup_append]
      refine ⟨hi.nodup, by simp, ?_⟩
      intro a ha b hb
      simp at hb; subst hb
      intro e; subst e
      exact hok.1 ha
    | take => simp only at a3; simp only [accIds]; rw [a3]; exact hi.nodup
    | confirm _ => simp only at a3; simp only [accIds]; rw [a3]; exact hi.nodup
    | handBack _ => simp only at a3; simp only [accIds]; rw [a3]; exact hi.nodup
    | destroy => simp only at a3; simp only [accIds]; rw [a3]; exact hi.nodup
    | finish => simp only at a3; simp only [accIds]; rw [a3]; exact hi.nodup
    | extZero _ => simp only at a3; simp only [accIds]; rw [a3]; exact hi.nodup
    | extRemove _ => simp only at a3; simp only [accIds]; rw [a3]; exact hi.nodup

theorem runI_cinv : ∀ (as : List IAct) (s s' : St), runI s as = some s' → CInv s → LegalI s as → CInv s'
  | [], s, s', h, hi, _ => by simp [runI] at h; subst h; exact hi
  | a :: as, s, s', h, hi, hl => by
    simp only [runI] at h
    cases hs : stepI s a with
    | none => simp [hs] at h
    | some s1 =>
      simp [hs] at h
      exact runI_cinv as s1 s' h (stepI_cinv s s1 a hs hi hl.1) (hl.2 s1 hs)

theorem recoverRaw_cinv (cfg : Cfg) (disk : List (Nat × Bytes)) (hd : (disk.map (·.1)).Nodup) : CInv (recoverRaw cfg disk) := by
  obtain ⟨a1, a2, a3, a4, a5, a6, a7, a8, a9, extra, a10, a11⟩ :=
    recFold_inv cfg (scanned cfg disk) (start cfg disk) rfl rfl rfl rfl rfl rfl (by simp [accIds, start])
  refine ⟨?_, ?_⟩
  · intro i
    unfold recoverRaw
    rw [count_live, a1, a2, a3, a4, a5, a6, a7]
    simp [handIds]
  · unfold recoverRaw
    rw [a10]
    have hs : accIds (start cfg disk) = [] := rfl
    rw [hs, List.nil_append]
    exact a11.nodup (scanned_nodup cfg disk hd)

/-! FIFO and the window bound for every schedule -/

theorem stepRaw_fifo (s s' : St) (o : Op) (h : stepRaw s o = some s') (hf : Fifo s) : Fifo s' := by
  cases o with
  | accept id data =>
    simp only [stepRaw] at h
    split at h
    · cases h
    · cases h
      unfold Fifo at *
      obtain ⟨disk, c, ⟨e, hid, he⟩ | he⟩ := accept_cases s id data
      · rw [he]
        simp only [pipeline, accIds, List.map_append, List.map_cons, List.map_nil, hid]
        rw [← List.append_assoc]
        exact List.Sublist.append hf (List.Sublist.refl _)
      · rw [he]
        simp only [pipeline, accIds, List.map_append, List.map_cons, List.map_nil]
        exact List.Sublist.trans hf (List.sublist_append_left _ _)
  | take =>
    simp only [stepRaw] at h
    split at h
    · cases h
    · split at h
      · cases h
      · rename_i e rest ho
        cases h
        unfold Fifo at *
        simpa [pipeline, accIds, ho] using hf
  | confirm id => exact step_fifo s s' (.confirm id) h hf
  | handBack id => exact step_fifo s s' (.handBack id) h hf
  | destroy => exact step_fifo s s' .destroy h hf
  | finish => exact step_fifo s s' .finish h hf
  | extZero id => exact step_fifo s s' (.extZero id) h hf
  | extRemove id => exact step_fifo s s' (.extRemove id) h hf

theorem stepRaw_win (s s' : St) (o : Op) (h : stepRaw s o = some s') (hw : Win s) : Win s' := by
  cases o with
  | accept id data =>
    simp only [stepRaw] at h
    split at h
    · cases h
    · cases h
      obtain ⟨disk, c, ⟨e, hid, he⟩ | he⟩ := accept_cases s id data <;> rw [he] <;> exact hw
  | take =>
    simp only [stepRaw] at h
    split at h
    · cases h
    · split at h
      · cases h
      · rename_i e rest ho
        cases h
        unfold Win at *
        simp [ho] at hw ⊢
        omega
  | confirm id => exact step_win s s' (.confirm id) h hw
  | handBack id => exact step_win s s' (.handBack id) h hw
  | destroy => exact step_win s s' .destroy h hw
  | finish => exact step_win s s' .finish h hw
  | extZero id => exact step_win s s' (.extZero id) h hw
  | extRemove id => exact step_win s s' (.extRemove id) h hw

theorem runI_fifo_win : ∀ (as : List IAct) (s s' : St), runI s as = some s' → Fifo s → Win s → Fifo s' ∧ Win s'
  | [], s, s', h, hf, hw => by simp [runI] at h; subst h; exact ⟨hf, hw⟩
  | a :: as, s, s', h, hf, hw => by
    simp only [runI] at h
    cases hs : stepI s a with
    | none => simp [hs] at h
    | some s1 =>
      simp [hs] at h
      cases a with
      | op o => exact runI_fifo_win as s1 s' h (stepRaw_fifo s s1 o hs hf) (stepRaw_win s s1 o hs hw)
      | feed => exact runI_fifo_win as s1 s' h (feederStep_fifo s s1 hs hf) (feederStep_window s s1 hs hw)

theorem recoverRaw_fifo_win (cfg : Cfg) (disk : List (Nat × Bytes)) : Fifo (recoverRaw cfg disk) ∧ Win (recoverRaw cfg disk) := by
  obtain ⟨a1, a2, a3, a4, a5, a6, a7, a8, a9, extra, a10, a11⟩ :=
    recFold_inv cfg (scanned cfg disk) (start cfg disk) rfl rfl rfl rfl rfl rfl (by simp [accIds, start])
  have ht : ∀ (files : List (Nat × Bytes)) (s : St), s.taken = [] → (files.foldl (recStep cfg) s).taken = [] := by
    intro files
    induction files with
    | nil => intro s h; exact h
    | cons f fs ih =>
      intro s h
      simp only [List.foldl_cons]
      apply ih
      unfold recStep; split <;> exact h
  constructor
  · unfold Fifo pipeline recoverRaw
    rw [ht _ _ rfl, a1, a2, a7]
    simp [handIds]
  · unfold Win recoverRaw
    rw [a2]; simp

end C03

namespace C03
open Buffer

theorem runI_append (s : St) (a b : List IAct) :
    runI s (a ++ b) = match runI s a with | some s' => runI s' b | none => none := by
  induction a generalizing s with
  | nil => simp [runI]
  | cons x xs ih =>
    simp only [List.cons_append, runI]
    cases stepI s x with
    | none => rfl
    | some s1 => exact ih s1

/-- running the feeder to quiescence is a sequence of feeder steps -/
theorem settle_feeds : ∀ (n : Nat) (s : St), ∃ k, runI s (List.replicate k IAct.feed) = some (settle n s)
  | 0, s => ⟨0, rfl⟩
  | n + 1, s => by
    unfold settle
    cases hf : feederStep s with
    | none => exact ⟨0, rfl⟩
    | some s' =>
      obtain ⟨k, hk⟩ := settle_feeds n s'
      exact ⟨k + 1, by simp [List.replicate_succ, runI, stepI, hf, hk]⟩

/-- every run of the quiescing model is one of the schedules -/
theorem run_is_schedule : ∀ (ops : List Op) (s s' : St), run s ops = some s' → ∃ as, runI s as = some s'
  | [], s, s', h => ⟨[], by simpa [run, runI] using h⟩
  | o :: os, s, s', h => by
    simp only [run] at h
    cases hs : step s o with
    | none => simp [hs] at h
    | some s1 =>
      simp [hs] at h
      obtain ⟨as, has⟩ := run_is_schedule os s1 s' h
      rw [step_eq_raw] at hs
      cases hr : stepRaw s o with
      | none => simp [hr] at hs
      | some s0 =>
        simp [hr] at hs
        have hfeeds : ∃ k, runI s0 (List.replicate k IAct.feed) = some s1 := by
          cases o with
          | accept id d => simp only at hs; rw [← hs]; exact settle_feeds _ s0
          | take => simp only at hs; rw [← hs]; exact settle_feeds _ s0
          | confirm _ => simp only at hs; exact ⟨0, by simp [runI, hs]⟩
          | handBack _ => simp only at hs; exact ⟨0, by simp [runI, hs]⟩
          | destroy => simp only at hs; exact ⟨0, by simp [runI, hs]⟩
          | finish => simp only at hs; exact ⟨0, by simp [runI, hs]⟩
          | extZero _ => simp only at hs; exact ⟨0, by simp [runI, hs]⟩
          | extRemove _ => simp only at hs; exact ⟨0, by simp [runI, hs]⟩
        obtain ⟨k, hk⟩ := hfeeds
        refine ⟨IAct.op o :: (List.replicate k IAct.feed ++ as), ?_⟩
        simp only [runI, stepI, hr]
        rw [runI_append, hk]
        exact has

end C03
