import SlogModel.Model.Buffer

/-!
  Invariants of the hybrid-buffer model `Buffer.step` (helper lemmas for `Props/C03.lean`).
-/

open Buffer
namespace C03


theorem unload_frame (s : St) (e : Entry) :
    ∃ disk c, (unload s e).1 = { s with disk := disk, c := c } ∧ (unload s e).2.1.id = e.id := by
  unfold unload
  split
  · exact ⟨s.disk, s.c, rfl, rfl⟩
  · split
    · exact ⟨s.disk, s.c, rfl, rfl⟩
    · split
      · exact ⟨s.disk, s.c, rfl, rfl⟩
      · split
        · exact ⟨s.disk, s.c, rfl, rfl⟩
        · exact ⟨_, _, rfl, rfl⟩

theorem removeChunk_frame (s : St) (e : Entry) : ∃ disk c, removeChunk s e = { s with disk := disk, c := c } := by
  unfold removeChunk
  split
  · exact ⟨s.disk, s.c, rfl⟩
  · split
    · exact ⟨s.disk, s.c, rfl⟩
    · split
      · exact ⟨_, _, rfl⟩
      · exact ⟨_, _, rfl⟩

theorem onDropped_frame (s : St) (e : Entry) : ∃ c, onDropped s e = { s with c := c, droppedG := s.droppedG ++ [e.id] } := by
  unfold onDropped
  exact ⟨_, rfl⟩

theorem unloadOrDrop_frame (s : St) (e : Entry) :
    ∃ disk c, (∃ e', (unloadOrDrop s e) = ({ s with disk := disk, c := c }, some e') ∧ e'.id = e.id) ∨
      (unloadOrDrop s e) = ({ s with disk := disk, c := c, droppedG := s.droppedG ++ [e.id] }, none) := by
  obtain ⟨disk, c, h1, h2⟩ := unload_frame s e
  unfold unloadOrDrop
  cases hu : unload s e with
  | mk s1 r =>
    cases r with
    | mk e1 ok =>
      rw [hu] at h1 h2
      simp only at h1 h2 ⊢
      cases ok with
      | true => exact ⟨disk, c, Or.inl ⟨e1, by simp [h1], h2⟩⟩
      | false =>
        obtain ⟨c', hd⟩ := onDropped_frame s1 e1
        refine ⟨disk, c', Or.inr ?_⟩
        subst h1
        rw [hd]
        simp [h2]

/-- the three things a feeder step can do -/
theorem feederStep_cases (s s' : St) (h : feederStep s = some s') :
    (∃ q d, s.hand = some (q, d) ∧ s.outW.length < s.cfg.memCap ∧
        s' = { s with hand := none, outW := s.outW ++ [{ q with data := some d }] }) ∨
    (∃ e rest disk c, s.hand = none ∧ s.inQ = e :: rest ∧
        s' = { s with inQ := rest, disk := disk, c := c, droppedG := s.droppedG ++ [e.id] }) ∨
    (∃ e rest d c, s.hand = none ∧ s.inQ = e :: rest ∧ s' = { s with inQ := rest, c := c, hand := some (e, d) }) := by
  unfold feederStep at h
  split at h
  · rename_i q d hh
    split at h
    · rename_i hlt
      cases h
      exact Or.inl ⟨q, d, hh, hlt, rfl⟩
    · cases h
  · rename_i hh
    split at h
    · cases h
    · rename_i e rest hq
      simp only at h
      split at h
      · split at h
        · obtain ⟨c', hd⟩ := onDropped_frame { s with inQ := rest, c := { (if e.data.isSome = true then { s.c with qT := s.c.qT - 1 } else { s.c with qP := s.c.qP - 1 }) with ioErr := (if e.data.isSome = true then { s.c with qT := s.c.qT - 1 } else { s.c with qP := s.c.qP - 1 }).ioErr + 1 } } e
          rw [hd] at h; cases h
          exact Or.inr (Or.inl ⟨e, rest, s.disk, c', hh, hq, rfl⟩)
        · obtain ⟨c', hd⟩ := onDropped_frame { s with inQ := rest, c := (if e.data.isSome = true then { s.c with qT := s.c.qT - 1 } else { s.c with qP := s.c.qP - 1 }) } e
          rw [hd] at h; cases h
          exact Or.inr (Or.inl ⟨e, rest, s.disk, c', hh, hq, rfl⟩)
      · rename_i d _
        split at h
        · obtain ⟨disk', c', hr⟩ := removeChunk_frame { s with inQ := rest, c := (if e.data.isSome = true then { s.c with qT := s.c.qT - 1 } else { s.c with qP := s.c.qP - 1 }) } { e with data := some d }
          rw [hr] at h; cases h
          exact Or.inr (Or.inl ⟨e, rest, disk', _, hh, hq, rfl⟩)
        · cases h
          exact Or.inr (Or.inr ⟨e, rest, d, _, hh, hq, rfl⟩)

/-- `accept` before the feeder runs: the chunk is queued (as given or unloaded) or dropped -/
theorem accept_cases (s : St) (id : Nat) (data : Bytes) :
    ∃ disk c, (∃ e, e.id = id ∧ accept s id data =
        { s with accepted := s.accepted ++ [(id, data)], disk := disk, c := c, inQ := s.inQ ++ [e] }) ∨
      accept s id data = { s with accepted := s.accepted ++ [(id, data)], disk := disk, c := c, droppedG := s.droppedG ++ [id] } := by
  unfold accept
  simp only
  split
  · obtain ⟨disk, c, hu⟩ := unloadOrDrop_frame
      { s with accepted := s.accepted ++ [(id, data)], c := { s.c with pending := s.c.pending + 1, inP := s.c.inP + 1 } }
      { id := id, data := some data, saved := false }
    rcases hu with ⟨e', hu, hid⟩ | hu
    · rw [hu]
      simp only
      split
      · exact ⟨disk, _, Or.inl ⟨e', hid, rfl⟩⟩
      · obtain ⟨c', hd⟩ := onDropped_frame { s with accepted := s.accepted ++ [(id, data)], disk := disk, c := c } e'
        rw [hd]
        exact ⟨disk, c', Or.inr (by simp [hid])⟩
    · rw [hu]
      exact ⟨disk, c, Or.inr rfl⟩
  · split
    · exact ⟨s.disk, _, Or.inl ⟨_, rfl, rfl⟩⟩
    · obtain ⟨c', hd⟩ := onDropped_frame { s with accepted := s.accepted ++ [(id, data)], c := { s.c with pending := s.c.pending + 1, inT := s.c.inT + 1 } } { id := id, data := some data, saved := false }
      rw [hd]
      exact ⟨s.disk, c', Or.inr rfl⟩

theorem saveOne_frame (s : St) (e : Entry) :
    ∃ disk c, saveOne s e = { s with disk := disk, c := c, keptG := s.keptG ++ [e.id] } ∨
              saveOne s e = { s with disk := disk, c := c, droppedG := s.droppedG ++ [e.id] } := by
  obtain ⟨disk, c, hu⟩ := unloadOrDrop_frame s e
  refine ⟨disk, c, ?_⟩
  unfold saveOne
  rcases hu with ⟨e', hu, _⟩ | hu
  · left; rw [hu]
  · right; rw [hu]

/-- `confirm` / `handBack`: the entry leaves `held`, its id goes to one ghost list -/
theorem resolve_cases (s s' : St) (id : Nat) (h : step s (.confirm id) = some s' ∨ step s (.handBack id) = some s') :
    ∃ e disk c, s.held.find? (fun e => e.id = id) = some e ∧ e.id = id ∧
      (s' = { s with held := s.held.filter (fun e => e.id ≠ id), disk := disk, c := c, confirmedG := s.confirmedG ++ [id] } ∨
       s' = { s with held := s.held.filter (fun e => e.id ≠ id), disk := disk, c := c, keptG := s.keptG ++ [id] } ∨
       s' = { s with held := s.held.filter (fun e => e.id ≠ id), disk := disk, c := c, droppedG := s.droppedG ++ [id] }) := by
  rcases h with h | h
  · simp only [step] at h
    split at h
    · cases h
    · rename_i e hf
      have hid : e.id = id := by simpa using List.find?_some hf
      obtain ⟨disk, c, hr⟩ := removeChunk_frame s e
      rw [hr] at h
      cases h
      exact ⟨e, disk, _, hf, hid, Or.inl rfl⟩
  · simp only [step] at h
    split at h
    · cases h
    · rename_i e hf
      have hid : e.id = id := by simpa using List.find?_some hf
      obtain ⟨disk, c, hu, hid'⟩ := unload_frame { s with held := s.held.filter (fun e => e.id ≠ id) } e
      cases hr : unload { s with held := s.held.filter (fun e => e.id ≠ id) } e with
      | mk s1 r =>
        cases r with
        | mk e1 ok =>
          rw [hr] at h hu hid'
          simp only at hu hid'
          subst hu
          cases ok with
          | true =>
            simp only at h
            cases h
            exact ⟨e, disk, _, hf, hid, Or.inr (Or.inl rfl)⟩
          | false =>
            simp only at h
            obtain ⟨c', hd⟩ := onDropped_frame { s with held := s.held.filter (fun e => e.id ≠ id), disk := disk, c := c } e1
            rw [hd] at h
            cases h
            exact ⟨e, disk, c', hf, hid, Or.inr (Or.inr (by simp [hid', hid]))⟩



def handIds : Option (Entry × Bytes) → List Nat
  | some (q, _) => [q.id]
  | none => []

def liveIds (s : St) : List Nat := s.inQ.map (·.id) ++ handIds s.hand ++ s.outW.map (·.id) ++ s.held.map (·.id)
def resolved (s : St) : List Nat := s.confirmedG ++ s.droppedG ++ s.keptG
def accIds (s : St) : List Nat := s.accepted.map (·.1)
def Conserved (s : St) : Prop := ∀ i, (accIds s).count i = (liveIds s ++ resolved s).count i

theorem count_live (s : St) (i : Nat) :
    (liveIds s ++ resolved s).count i =
      (s.inQ.map (·.id)).count i + (handIds s.hand).count i + (s.outW.map (·.id)).count i + (s.held.map (·.id)).count i +
      s.confirmedG.count i + s.droppedG.count i + s.keptG.count i := by
  simp [liveIds, resolved, List.count_append]; omega

theorem feederStep_conserved (s s' : St) (h : feederStep s = some s') (hc : Conserved s) :
    Conserved s' ∧ s'.accepted = s.accepted ∧ s'.cfg = s.cfg ∧ s'.destroyed = s.destroyed := by
  unfold feederStep at h
  split at h
  · rename_i q d hh
    split at h
    · cases h
      refine ⟨?_, rfl, rfl, rfl⟩
      intro i
      have := hc i
      rw [count_live] at this ⊢
      simp [hh, handIds, accIds, List.count_append, List.count_cons] at this ⊢
      omega
    · cases h
  · rename_i hh
    split at h
    · cases h
    · rename_i e rest hq
      simp only at h
      split at h
      · -- load failed: dropped
        split at h
        · obtain ⟨c', hd⟩ := onDropped_frame { s with inQ := rest, c := { (if e.data.isSome = true then { s.c with qT := s.c.qT - 1 } else { s.c with qP := s.c.qP - 1 }) with ioErr := (if e.data.isSome = true then { s.c with qT := s.c.qT - 1 } else { s.c with qP := s.c.qP - 1 }).ioErr + 1 } } e
          rw [hd] at h
          cases h
          refine ⟨?_, rfl, rfl, rfl⟩
          intro i
          have := hc i
          rw [count_live] at this ⊢
          simp [hh, hq, handIds, accIds, List.count_append, List.count_cons] at this ⊢
          omega
        · obtain ⟨c', hd⟩ := onDropped_frame { s with inQ := rest, c := (if e.data.isSome = true then { s.c with qT := s.c.qT - 1 } else { s.c with qP := s.c.qP - 1 }) } e
          rw [hd] at h
          cases h
          refine ⟨?_, rfl, rfl, rfl⟩
          intro i
          have := hc i
          rw [count_live] at this ⊢
          simp [hh, hq, handIds, accIds, List.count_append, List.count_cons] at this ⊢
          omega
      · rename_i d hl
        split at h
        · obtain ⟨disk', c', hr⟩ := removeChunk_frame { s with inQ := rest, c := (if e.data.isSome = true then { s.c with qT := s.c.qT - 1 } else { s.c with qP := s.c.qP - 1 }) } { e with data := some d }
          rw [hr] at h
          cases h
          refine ⟨?_, rfl, rfl, rfl⟩
          intro i
          have := hc i
          rw [count_live] at this ⊢
          simp [hh, hq, handIds, accIds, List.count_append, List.count_cons] at this ⊢
          omega
        · cases h
          refine ⟨?_, rfl, rfl, rfl⟩
          intro i
          have := hc i
          rw [count_live] at this ⊢
          simp [hh, hq, handIds, accIds, List.count_append, List.count_cons] at this ⊢
          omega

theorem settle_conserved : ∀ (n : Nat) (s : St), Conserved s →
    Conserved (settle n s) ∧ (settle n s).accepted = s.accepted ∧ (settle n s).cfg = s.cfg ∧ (settle n s).destroyed = s.destroyed
  | 0, s, hc => ⟨hc, rfl, rfl, rfl⟩
  | n + 1, s, hc => by
    unfold settle
    cases hf : feederStep s with
    | none => exact ⟨hc, rfl, rfl, rfl⟩
    | some s' =>
      obtain ⟨h1, h2, h3, h4⟩ := feederStep_conserved s s' hf hc
      obtain ⟨k1, k2, k3, k4⟩ := settle_conserved n s' h1
      exact ⟨k1, by rw [k2, h2], by rw [k3, h3], by rw [k4, h4]⟩

theorem quiesce_conserved (s : St) (hc : Conserved s) :
    Conserved (quiesce s) ∧ (quiesce s).accepted = s.accepted ∧ (quiesce s).cfg = s.cfg ∧ (quiesce s).destroyed = s.destroyed :=
  settle_conserved _ s hc

theorem accept_conserved (s : St) (id : Nat) (data : Bytes) (hc : Conserved s) :
    Conserved (accept s id data) ∧ (accept s id data).accepted = s.accepted ++ [(id, data)] ∧
      (accept s id data).cfg = s.cfg ∧ (accept s id data).destroyed = s.destroyed := by
  unfold accept
  simp only
  split
  · -- spill
    obtain ⟨disk, c, hu⟩ := unloadOrDrop_frame
      { s with accepted := s.accepted ++ [(id, data)], c := { s.c with pending := s.c.pending + 1, inP := s.c.inP + 1 } }
      { id := id, data := some data, saved := false }
    rcases hu with ⟨e', hu, hid⟩ | hu
    · rw [hu]
      simp only
      split
      · refine ⟨?_, rfl, rfl, rfl⟩
        intro i
        have := hc i
        rw [count_live] at this ⊢
        simp [handIds, accIds, List.count_append, List.count_cons, hid] at this ⊢
        omega
      · obtain ⟨c', hd⟩ := onDropped_frame { s with accepted := s.accepted ++ [(id, data)], disk := disk, c := c } e'
        rw [hd]
        refine ⟨?_, rfl, rfl, rfl⟩
        intro i
        have := hc i
        rw [count_live] at this ⊢
        simp [handIds, accIds, List.count_append, List.count_cons, hid] at this ⊢
        omega
    · rw [hu]
      refine ⟨?_, rfl, rfl, rfl⟩
      intro i
      have := hc i
      rw [count_live] at this ⊢
      simp [handIds, accIds, List.count_append, List.count_cons] at this ⊢
      omega
  · split
    · refine ⟨?_, rfl, rfl, rfl⟩
      intro i
      have := hc i
      rw [count_live] at this ⊢
      simp [handIds, accIds, List.count_append, List.count_cons] at this ⊢
      omega
    · obtain ⟨c', hd⟩ := onDropped_frame { s with accepted := s.accepted ++ [(id, data)], c := { s.c with pending := s.c.pending + 1, inT := s.c.inT + 1 } } { id := id, data := some data, saved := false }
      rw [hd]
      refine ⟨?_, rfl, rfl, rfl⟩
      intro i
      have := hc i
      rw [count_live] at this ⊢
      simp [handIds, accIds, List.count_append, List.count_cons] at this ⊢
      omega

theorem saveAll_counts : ∀ (es : List Entry) (s : St),
    (saveAll s es).inQ = s.inQ ∧ (saveAll s es).hand = s.hand ∧ (saveAll s es).outW = s.outW ∧ (saveAll s es).held = s.held ∧
    (saveAll s es).accepted = s.accepted ∧ (saveAll s es).confirmedG = s.confirmedG ∧ (saveAll s es).cfg = s.cfg ∧
    (saveAll s es).destroyed = s.destroyed ∧
    ∀ i, (saveAll s es).droppedG.count i + (saveAll s es).keptG.count i =
      s.droppedG.count i + s.keptG.count i + (es.map (·.id)).count i
  | [], s => by simp [saveAll]
  | e :: es, s => by
    have ih := saveAll_counts es (saveOne s e)
    simp only [saveAll, List.foldl_cons] at ih ⊢
    obtain ⟨disk, c, h | h⟩ := saveOne_frame s e
    · rw [h] at ih ⊢
      obtain ⟨a1, a2, a3, a4, a5, a6, a7, a8, a9⟩ := ih
      refine ⟨a1, a2, a3, a4, a5, a6, a7, a8, ?_⟩
      intro i
      have := a9 i
      simp [List.count_append, List.count_cons] at this ⊢
      omega
    · rw [h] at ih ⊢
      obtain ⟨a1, a2, a3, a4, a5, a6, a7, a8, a9⟩ := ih
      refine ⟨a1, a2, a3, a4, a5, a6, a7, a8, ?_⟩
      intro i
      have := a9 i
      simp [List.count_append, List.count_cons] at this ⊢
      omega

theorem count_find_filter (l : List Entry) (id : Nat) (e : Entry) (h : l.find? (fun e => e.id = id) = some e)
    (hn : (l.map (·.id)).Nodup) (i : Nat) :
    ((l.filter (fun e => e.id ≠ id)).map (·.id)).count i + (if i = id then 1 else 0) = (l.map (·.id)).count i := by
  induction l with
  | nil => simp at h
  | cons x xs ih =>
    simp only [List.map_cons, List.nodup_cons] at hn
    by_cases hx : x.id = id
    · have hnot : ∀ y ∈ xs, y.id ≠ id := by
        intro y hy e'
        exact hn.1 (by rw [hx, ← e']; exact List.mem_map_of_mem hy)
      have hf : xs.filter (fun e => !decide (e.id = id)) = xs := by
        apply List.filter_eq_self.mpr
        intro y hy; simp [hnot y hy]
      simp [List.filter_cons, hx, hf, List.count_cons]
      by_cases hi : i = id
      · subst hi; simp
      · have : ¬ id = i := fun e' => hi e'.symm
        simp [hi, this]
    · have hfx : xs.find? (fun e => e.id = id) = some e := by
        simpa [List.find?_cons, hx] using h
      have := ih hfx hn.2
      simp [List.filter_cons, hx, List.count_cons] at this ⊢
      omega

/-- ids of live entries never repeat when the accepted ids do not -/
theorem held_nodup (s : St) (hc : Conserved s) (hn : (accIds s).Nodup) : (s.held.map (·.id)).Nodup := by
  rw [List.nodup_iff_count]
  intro i
  have h1 := hc i
  have h2 := List.nodup_iff_count.mp hn i
  rw [count_live] at h1
  omega

theorem step_conserved (s s' : St) (o : Op) (h : step s o = some s') (hc : Conserved s) (hn : (accIds s).Nodup) :
    Conserved s' ∧ s'.cfg = s.cfg ∧
      (match o with | .accept id d => s'.accepted = s.accepted ++ [(id, d)] | _ => s'.accepted = s.accepted) := by
  cases o with
  | accept id data =>
    simp only [step] at h
    split at h
    · cases h
    · cases h
      obtain ⟨a1, a2, a3, _⟩ := accept_conserved s id data hc
      obtain ⟨b1, b2, b3, _⟩ := quiesce_conserved _ a1
      exact ⟨b1, by rw [b3, a3], by rw [b2, a2]⟩
  | take =>
    simp only [step] at h
    split at h
    · cases h
    · split at h
      · cases h
      · rename_i e rest ho
        cases h
        have a1 : Conserved { s with outW := rest, held := s.held ++ [e], taken := s.taken ++ [(e.id, e.data.getD [])] } := by
          intro i
          have := hc i
          rw [count_live] at this ⊢
          simp [ho, accIds, List.count_append, List.count_cons] at this ⊢
          omega
        obtain ⟨b1, b2, b3, _⟩ := quiesce_conserved _ a1
        exact ⟨b1, b3, b2⟩
  | confirm id =>
    simp only [step] at h
    split at h
    · cases h
    · rename_i e hf
      obtain ⟨disk, c, hr⟩ := removeChunk_frame s e
      rw [hr] at h
      cases h
      refine ⟨?_, rfl, rfl⟩
      intro i
      have := hc i
      have hcnt := count_find_filter s.held id e hf (held_nodup s hc hn) i
      rw [count_live] at this ⊢
      simp [accIds, List.count_append, List.count_cons] at this hcnt ⊢
      by_cases hi : i = id
      · subst hi; simp at hcnt ⊢; omega
      · have : ¬ id = i := fun e' => hi e'.symm
        simp [hi, this] at hcnt ⊢; omega
  | handBack id =>
    simp only [step] at h
    split at h
    · cases h
    · rename_i e hf
      have hid : e.id = id := by
        have := List.find?_some hf
        simpa using this
      obtain ⟨disk, c, hu, hid'⟩ := unload_frame { s with held := s.held.filter (fun e => e.id ≠ id) } e
      have hcnt := fun i => count_find_filter s.held id e hf (held_nodup s hc hn) i
      cases hr : unload { s with held := s.held.filter (fun e => e.id ≠ id) } e with
      | mk s1 r =>
        cases r with
        | mk e1 ok =>
          rw [hr] at h hu hid'
          simp only at hu hid'
          subst hu
          cases ok with
          | true =>
            simp only at h
            cases h
            refine ⟨?_, rfl, rfl⟩
            intro i
            have := hc i
            have hcnt := hcnt i
            rw [count_live] at this ⊢
            simp [accIds, List.count_append, List.count_cons] at this hcnt ⊢
            by_cases hi : i = id
            · subst hi; simp at hcnt ⊢; omega
            · have : ¬ id = i := fun e' => hi e'.symm
              simp [hi, this] at hcnt ⊢; omega
          | false =>
            simp only at h
            obtain ⟨c', hd⟩ := onDropped_frame { s with held := s.held.filter (fun e => e.id ≠ id), disk := disk, c := c } e1
            rw [hd] at h
            cases h
            refine ⟨?_, rfl, rfl⟩
            intro i
            have := hc i
            have hcnt := hcnt i
            rw [count_live] at this ⊢
            simp [accIds, List.count_append, List.count_cons, hid', hid] at this hcnt ⊢
            by_cases hi : i = id
            · subst hi; simp at hcnt ⊢; omega
            · have : ¬ id = i := fun e' => hi e'.symm
              simp [hi, this] at hcnt ⊢; omega
  | destroy =>
    simp only [step] at h
    split at h
    · cases h
    · cases h
      obtain ⟨a1, a2, a3, a4, a5, a6, a7, a8, a9⟩ := saveAll_counts
        (s.inQ ++ handEntry s.hand ++ s.outW)
        { s with inQ := [], hand := none, outW := [], destroyed := true }
      refine ⟨?_, a7, a5⟩
      intro i
      have := hc i
      have h9 := a9 i
      rw [count_live] at this ⊢
      rw [a1, a2, a3, a4, a6]
      simp only [accIds] at this ⊢
      rw [a5]
      cases hh : s.hand with
      | none =>
        simp [hh, handIds, handEntry, List.count_append] at this h9 ⊢
        omega
      | some p =>
        obtain ⟨q, d⟩ := p
        simp [hh, handIds, handEntry, List.count_append, List.count_cons] at this h9 ⊢
        omega
  | finish =>
    simp only [step] at h
    split at h
    · cases h; exact ⟨hc, rfl, rfl⟩
    · cases h
  | extZero id =>
    simp only [step] at h
    split at h
    · cases h
      exact ⟨by intro i; have := hc i; rw [count_live] at this ⊢; exact this, rfl, rfl⟩
    · cases h
  | extRemove id =>
    simp only [step] at h
    split at h
    · cases h
      exact ⟨by intro i; have := hc i; rw [count_live] at this ⊢; exact this, rfl, rfl⟩
    · cases h

/-! ### start of a generation -/

theorem recStep_props (cfg : Cfg) (s : St) (f : Nat × Bytes) :
    (recStep cfg s f).hand = s.hand ∧ (recStep cfg s f).outW = s.outW ∧ (recStep cfg s f).held = s.held ∧
    (recStep cfg s f).confirmedG = s.confirmedG ∧ (recStep cfg s f).droppedG = s.droppedG ∧
    (recStep cfg s f).keptG = s.keptG ∧ (recStep cfg s f).cfg = s.cfg ∧ (recStep cfg s f).destroyed = s.destroyed ∧
    (((recStep cfg s f).inQ.map (·.id) = s.inQ.map (·.id) ++ [f.1] ∧ accIds (recStep cfg s f) = accIds s ++ [f.1]) ∨
     ((recStep cfg s f).inQ = s.inQ ∧ (recStep cfg s f).accepted = s.accepted)) := by
  unfold recStep
  split <;> simp [accIds]

/-- the recovery fold: queue ids = accepted ids, a sublist of the scanned files; nothing else is live -/
theorem recFold_inv (cfg : Cfg) : ∀ (files : List (Nat × Bytes)) (s : St),
    s.hand = none → s.outW = [] → s.held = [] → s.confirmedG = [] → s.droppedG = [] → s.keptG = [] →
    s.inQ.map (·.id) = accIds s →
    (files.foldl (recStep cfg) s).hand = none ∧ (files.foldl (recStep cfg) s).outW = [] ∧
    (files.foldl (recStep cfg) s).held = [] ∧ (files.foldl (recStep cfg) s).confirmedG = [] ∧
    (files.foldl (recStep cfg) s).droppedG = [] ∧ (files.foldl (recStep cfg) s).keptG = [] ∧
    (files.foldl (recStep cfg) s).inQ.map (·.id) = accIds (files.foldl (recStep cfg) s) ∧
    (files.foldl (recStep cfg) s).cfg = s.cfg ∧ (files.foldl (recStep cfg) s).destroyed = s.destroyed ∧
    ∃ extra, accIds (files.foldl (recStep cfg) s) = accIds s ++ extra ∧ extra.Sublist (files.map (·.1))
  | [], s, h1, h2, h3, h4, h5, h6, h7 => by
    simp only [List.foldl_nil]
    exact ⟨h1, h2, h3, h4, h5, h6, h7, by simp, by simp, [], by simp, by simp⟩
  | f :: fs, s, h1, h2, h3, h4, h5, h6, h7 => by
    simp only [List.foldl_cons]
    obtain ⟨p1, p2, p3, p4, p5, p6, p7, p8, p9⟩ := recStep_props cfg s f
    rcases p9 with ⟨q1, q2⟩ | ⟨q1, q2⟩
    · have ih := recFold_inv cfg fs (recStep cfg s f) (by rw [p1, h1]) (by rw [p2, h2]) (by rw [p3, h3])
        (by rw [p4, h4]) (by rw [p5, h5]) (by rw [p6, h6]) (by rw [q1, q2, h7])
      obtain ⟨a1, a2, a3, a4, a5, a6, a7, a8, a9, extra, a10, a11⟩ := ih
      refine ⟨a1, a2, a3, a4, a5, a6, a7, by rw [a8, p7], by rw [a9, p8], f.1 :: extra, ?_, ?_⟩
      · rw [a10, q2]; simp
      · simpa using a11.cons_cons f.1
    · have ih := recFold_inv cfg fs (recStep cfg s f) (by rw [p1, h1]) (by rw [p2, h2]) (by rw [p3, h3])
        (by rw [p4, h4]) (by rw [p5, h5]) (by rw [p6, h6]) (by rw [q1, h7]; simp [accIds, q2])
      obtain ⟨a1, a2, a3, a4, a5, a6, a7, a8, a9, extra, a10, a11⟩ := ih
      refine ⟨a1, a2, a3, a4, a5, a6, a7, by rw [a8, p7], by rw [a9, p8], extra, ?_, ?_⟩
      · rw [a10]; simp [accIds, q2]
      · simpa using a11.cons f.1

theorem scanned_nodup (cfg : Cfg) (disk : List (Nat × Bytes)) (hd : (disk.map (·.1)).Nodup) :
    ((scanned cfg disk).map (·.1)).Nodup := by
  unfold scanned
  split
  · exact ((List.mergeSort_perm disk _).map (·.1)).nodup_iff.mpr hd
  · simp

theorem recover_conserved (cfg : Cfg) (disk : List (Nat × Bytes)) (hd : (disk.map (·.1)).Nodup) :
    Conserved (recover cfg disk) ∧ (accIds (recover cfg disk)).Nodup ∧ (recover cfg disk).cfg = cfg ∧
      (recover cfg disk).destroyed = false := by
  unfold recover
  obtain ⟨a1, a2, a3, a4, a5, a6, a7, a8, a9, extra, a10, a11⟩ :=
    recFold_inv cfg (scanned cfg disk) (start cfg disk) rfl rfl rfl rfl rfl rfl (by simp [accIds, start])
  have hc : Conserved ((scanned cfg disk).foldl (recStep cfg) (start cfg disk)) := by
    intro i
    rw [count_live, a1, a2, a3, a4, a5, a6, a7]
    simp [handIds]
  obtain ⟨b1, b2, b3, b4⟩ := quiesce_conserved _ hc
  refine ⟨b1, ?_, by rw [b3, a8]; rfl, by rw [b4, a9]; rfl⟩
  have : accIds (quiesce ((scanned cfg disk).foldl (recStep cfg) (start cfg disk))) = extra := by
    simp only [accIds] at a10 ⊢
    rw [b2, a10]; simp [start]
  rw [this]
  exact a11.nodup (scanned_nodup cfg disk hd)

/-! ### legal operation sequences, reachability -/

/-- what the environment promises: chunk ids are new, and nobody tampers with the queue directory -/
def okOp (s : St) : Op → Prop
  | .accept id _ => id ∉ accIds s ∧ id ∉ s.disk.map (·.1)
  | .extZero _ => False
  | .extRemove _ => False
  | _ => True

def Legal : St → List Op → Prop
  | _, [] => True
  | s, o :: os => okOp s o ∧ ∀ s', step s o = some s' → Legal s' os

structure CInv (s : St) : Prop where
  cons : Conserved s
  nodup : (accIds s).Nodup

theorem step_cinv (s s' : St) (o : Op) (h : step s o = some s') (hi : CInv s) (hok : okOp s o) : CInv s' := by
  obtain ⟨a1, a2, a3⟩ := step_conserved s s' o h hi.cons hi.nodup
  refine ⟨a1, ?_⟩
  cases o with
  | accept id d =>
    simp only at a3
    simp only [accIds] at hok ⊢
    rw [a3]
    simp only [List.map_append, List.map_cons, List.map_nil]
    rw [List.nodup_append]
    refine ⟨hi.nodup, by simp, ?_⟩
    intro a ha b hb
    simp at hb; subst hb
    intro e; subst e
    exact hok.1 ha
  | take => simp only at a3; simp only [accIds]; rw [a3]; exact hi.nodup
  | confirm _ => simp only at a3; simp only [accIds]; rw [a3]; exact hi.nodup
  | handBack _ => simp only at a3; simp only [accIds]; rw [a3]; exact hi.nodup
  | destroy => simp only at a3; simp only [accIds]; rw [a3]; exact hi.nodup
  | finish => simp only at a3; simp only [accIds]; rw [a3]; exact hi.nodup
  | extZero _ => simp only at a3; simp only [accIds]; rw [a3]; exact hi.nodup
  | extRemove _ => simp only at a3; simp only [accIds]; rw [a3]; exact hi.nodup

theorem run_cinv : ∀ (ops : List Op) (s s' : St), run s ops = some s' → CInv s → Legal s ops → CInv s'
  | [], s, s', h, hi, _ => by simp [run] at h; subst h; exact hi
  | o :: os, s, s', h, hi, hl => by
    simp only [run] at h
    cases hs : step s o with
    | none => simp [hs] at h
    | some s1 =>
      simp [hs] at h
      exact run_cinv os s1 s' h (step_cinv s s1 o hs hi hl.1) (hl.2 s1 hs)

/-! ### after `destroy` nothing is queued -/

def Drained (s : St) : Prop := s.destroyed = true → s.inQ = [] ∧ s.hand = none ∧ s.outW = []

theorem step_drained (s s' : St) (o : Op) (h : step s o = some s') (hc : Conserved s) (hd : Drained s) : Drained s' := by
  cases o with
  | accept id data =>
    simp only [step] at h
    split at h
    · cases h
    · rename_i hnd
      cases h
      intro hd'
      obtain ⟨a1, _, _, a4⟩ := accept_conserved s id data hc
      obtain ⟨_, _, _, b4⟩ := quiesce_conserved _ a1
      rw [b4, a4] at hd'
      exact absurd hd' hnd
  | take =>
    simp only [step] at h
    split at h
    · cases h
    · rename_i hnd
      split at h
      · cases h
      · rename_i e rest ho
        cases h
        intro hd'
        have a1 : Conserved { s with outW := rest, held := s.held ++ [e], taken := s.taken ++ [(e.id, e.data.getD [])] } := by
          intro i
          have := hc i
          rw [count_live] at this ⊢
          simp [ho, accIds, List.count_append, List.count_cons] at this ⊢
          omega
        obtain ⟨_, _, _, b4⟩ := quiesce_conserved _ a1
        rw [b4] at hd'
        exact absurd hd' hnd
  | confirm id =>
    simp only [step] at h
    split at h
    · cases h
    · rename_i e hf
      obtain ⟨disk, c, hr⟩ := removeChunk_frame s e
      rw [hr] at h
      cases h
      exact hd
  | handBack id =>
    simp only [step] at h
    split at h
    · cases h
    · rename_i e hf
      obtain ⟨disk, c, hu, _⟩ := unload_frame { s with held := s.held.filter (fun e => e.id ≠ id) } e
      cases hr : unload { s with held := s.held.filter (fun e => e.id ≠ id) } e with
      | mk s1 r =>
        cases r with
        | mk e1 ok =>
          rw [hr] at h hu
          simp only at hu
          subst hu
          cases ok with
          | true => simp only at h; cases h; exact hd
          | false =>
            simp only at h
            obtain ⟨c', hdd⟩ := onDropped_frame { s with held := s.held.filter (fun e => e.id ≠ id), disk := disk, c := c } e1
            rw [hdd] at h
            cases h
            exact hd
  | destroy =>
    simp only [step] at h
    split at h
    · cases h
    · cases h
      obtain ⟨a1, a2, a3, _⟩ := saveAll_counts (s.inQ ++ handEntry s.hand ++ s.outW)
        { s with inQ := [], hand := none, outW := [], destroyed := true }
      intro _
      exact ⟨a1, a2, a3⟩
  | finish =>
    simp only [step] at h
    split at h
    · cases h; exact hd
    · cases h
  | extZero id =>
    simp only [step] at h
    split at h
    · cases h; exact hd
    · cases h
  | extRemove id =>
    simp only [step] at h
    split at h
    · cases h; exact hd
    · cases h

theorem run_drained : ∀ (ops : List Op) (s s' : St), run s ops = some s' → CInv s → Legal s ops → Drained s → Drained s'
  | [], s, s', h, _, _, hd => by simp [run] at h; subst h; exact hd
  | o :: os, s, s', h, hi, hl, hd => by
    simp only [run] at h
    cases hs : step s o with
    | none => simp [hs] at h
    | some s1 =>
      simp [hs] at h
      exact run_drained os s1 s' h (step_cinv s s1 o hs hi hl.1) (hl.2 s1 hs) (step_drained s s1 o hs hi.cons hd)

/-! ### the output window never exceeds its capacity -/

theorem feederStep_window (s s' : St) (h : feederStep s = some s') (hw : s.outW.length ≤ s.cfg.memCap) :
    s'.outW.length ≤ s'.cfg.memCap := by
  unfold feederStep at h
  split at h
  · split at h
    · cases h; simp; omega
    · cases h
  · split at h
    · cases h
    · rename_i e rest hq
      simp only at h
      split at h
      · split at h
        · obtain ⟨c', hd⟩ := onDropped_frame { s with inQ := rest, c := { (if e.data.isSome = true then { s.c with qT := s.c.qT - 1 } else { s.c with qP := s.c.qP - 1 }) with ioErr := (if e.data.isSome = true then { s.c with qT := s.c.qT - 1 } else { s.c with qP := s.c.qP - 1 }).ioErr + 1 } } e
          rw [hd] at h; cases h; exact hw
        · obtain ⟨c', hd⟩ := onDropped_frame { s with inQ := rest, c := (if e.data.isSome = true then { s.c with qT := s.c.qT - 1 } else { s.c with qP := s.c.qP - 1 }) } e
          rw [hd] at h; cases h; exact hw
      · rename_i d _
        split at h
        · obtain ⟨disk', c', hr⟩ := removeChunk_frame { s with inQ := rest, c := (if e.data.isSome = true then { s.c with qT := s.c.qT - 1 } else { s.c with qP := s.c.qP - 1 }) } { e with data := some d }
          rw [hr] at h; cases h; exact hw
        · cases h; exact hw

theorem settle_window : ∀ (n : Nat) (s : St), s.outW.length ≤ s.cfg.memCap → (settle n s).outW.length ≤ (settle n s).cfg.memCap
  | 0, _, hw => hw
  | n + 1, s, hw => by
    unfold settle
    cases hf : feederStep s with
    | none => exact hw
    | some s' => exact settle_window n s' (feederStep_window s s' hf hw)



theorem settle_ind (P : St → Prop) (hstep : ∀ s s', feederStep s = some s' → P s → P s') :
    ∀ (n : Nat) (s : St), P s → P (settle n s)
  | 0, _, h => h
  | n + 1, s, h => by
    unfold settle
    cases hf : feederStep s with
    | none => exact h
    | some s' => exact settle_ind P hstep n s' (hstep s s' hf h)

theorem saveAll_taken : ∀ (es : List Entry) (s : St), (saveAll s es).taken = s.taken
  | [], s => by simp [saveAll]
  | e :: es, s => by
    have ih := saveAll_taken es (saveOne s e)
    simp only [saveAll, List.foldl_cons] at ih ⊢
    obtain ⟨disk, c, h | h⟩ := saveOne_frame s e <;> rw [h] at ih ⊢ <;> exact ih

/-! ### FIFO: what the consumer received, then the window, the hand and the queue, is a subsequence of the acceptance order -/

def pipeline (s : St) : List Nat :=
  s.taken.map (·.1) ++ s.outW.map (·.id) ++ handIds s.hand ++ s.inQ.map (·.id)

def Fifo (s : St) : Prop := (pipeline s).Sublist (accIds s)

theorem feederStep_fifo (s s' : St) (h : feederStep s = some s') (hf : Fifo s) : Fifo s' := by
  unfold Fifo at *
  rcases feederStep_cases s s' h with ⟨q, d, hh, _, rfl⟩ | ⟨e, rest, disk, c, hh, hq, rfl⟩ | ⟨e, rest, d, c, hh, hq, rfl⟩
  · simpa [pipeline, accIds, hh, handIds] using hf
  · refine List.Sublist.trans ?_ hf
    simp only [pipeline, hh, hq, handIds, List.map_cons, List.append_nil]
    exact List.Sublist.append (List.Sublist.refl _) (List.sublist_cons_self _ _)
  · simpa [pipeline, accIds, hh, hq, handIds] using hf

theorem step_fifo (s s' : St) (o : Op) (h : step s o = some s') (hf : Fifo s) : Fifo s' := by
  cases o with
  | accept id data =>
    simp only [step] at h
    split at h
    · cases h
    · cases h
      apply settle_ind Fifo feederStep_fifo
      unfold Fifo at *
      obtain ⟨disk, c, ⟨e, hid, he⟩ | he⟩ := accept_cases s id data
      · rw [he]
        simp only [pipeline, accIds, List.map_append, List.map_cons, List.map_nil, hid]
        rw [← List.append_assoc]
        exact List.Sublist.append hf (List.Sublist.refl _)
      · rw [he]
        simp only [pipeline, accIds, List.map_append, List.map_cons, List.map_nil]
        exact List.Sublist.trans hf (List.sublist_append_left _ _)
  | take =>
    simp only [step] at h
    split at h
    · cases h
    · split at h
      · cases h
      · rename_i e rest ho
        cases h
        apply settle_ind Fifo feederStep_fifo
        unfold Fifo at *
        simpa [pipeline, accIds, ho] using hf
  | confirm id =>
    obtain ⟨e, disk, c, _, _, rfl | rfl | rfl⟩ := resolve_cases s s' id (Or.inl h) <;> exact hf
  | handBack id =>
    obtain ⟨e, disk, c, _, _, rfl | rfl | rfl⟩ := resolve_cases s s' id (Or.inr h) <;> exact hf
  | destroy =>
    simp only [step] at h
    split at h
    · cases h
    · cases h
      obtain ⟨a1, a2, a3, a4, a5, a6, a7, a8, a9⟩ := saveAll_counts (s.inQ ++ handEntry s.hand ++ s.outW)
        { s with inQ := [], hand := none, outW := [], destroyed := true }
      have a10 := saveAll_taken (s.inQ ++ handEntry s.hand ++ s.outW)
        { s with inQ := [], hand := none, outW := [], destroyed := true }
      unfold Fifo at *
      simp only [pipeline, accIds] at hf ⊢
      rw [a1, a2, a3, a5, a10]
      simp only [List.map_nil, handIds, List.append_nil]
      refine List.Sublist.trans ?_ hf
      rw [List.append_assoc, List.append_assoc]
      exact List.sublist_append_left _ _
  | finish =>
    simp only [step] at h
    split at h
    · cases h; exact hf
    · cases h
  | extZero id =>
    simp only [step] at h
    split at h
    · cases h; exact hf
    · cases h
  | extRemove id =>
    simp only [step] at h
    split at h
    · cases h; exact hf
    · cases h


theorem recover_fifo (cfg : Cfg) (disk : List (Nat × Bytes)) : Fifo (recover cfg disk) := by
  unfold recover
  apply settle_ind Fifo feederStep_fifo
  obtain ⟨a1, a2, a3, a4, a5, a6, a7, a8, a9, extra, a10, a11⟩ :=
    recFold_inv cfg (scanned cfg disk) (start cfg disk) rfl rfl rfl rfl rfl rfl (by simp [accIds, start])
  unfold Fifo pipeline
  have ht : ∀ (files : List (Nat × Bytes)) (s : St), s.taken = [] → (files.foldl (recStep cfg) s).taken = [] := by
    intro files
    induction files with
    | nil => intro s h; exact h
    | cons f fs ih =>
      intro s h
      simp only [List.foldl_cons]
      apply ih
      unfold recStep; split <;> exact h
  rw [ht _ _ rfl, a1, a2, a7]
  simp [handIds]

theorem run_fifo : ∀ (ops : List Op) (s s' : St), run s ops = some s' → Fifo s → Fifo s'
  | [], s, s', h, hf => by simp [run] at h; subst h; exact hf
  | o :: os, s, s', h, hf => by
    simp only [run] at h
    cases hs : step s o with
    | none => simp [hs] at h
    | some s1 => simp [hs] at h; exact run_fifo os s1 s' h (step_fifo s s1 o hs hf)

/-! ### the window bound through every operation -/

def Win (s : St) : Prop := s.outW.length ≤ s.cfg.memCap

theorem step_win (s s' : St) (o : Op) (h : step s o = some s') (hw : Win s) : Win s' := by
  have hfs : ∀ s s', feederStep s = some s' → Win s → Win s' := fun s s' h hw => feederStep_window s s' h hw
  cases o with
  | accept id data =>
    simp only [step] at h
    split at h
    · cases h
    · cases h
      apply settle_ind Win hfs
      obtain ⟨disk, c, ⟨e, hid, he⟩ | he⟩ := accept_cases s id data <;> rw [he] <;> exact hw
  | take =>
    simp only [step] at h
    split at h
    · cases h
    · split at h
      · cases h
      · rename_i e rest ho
        cases h
        apply settle_ind Win hfs
        unfold Win at *
        simp [ho] at hw ⊢
        omega
  | confirm id =>
    obtain ⟨e, disk, c, _, _, rfl | rfl | rfl⟩ := resolve_cases s s' id (Or.inl h) <;> exact hw
  | handBack id =>
    obtain ⟨e, disk, c, _, _, rfl | rfl | rfl⟩ := resolve_cases s s' id (Or.inr h) <;> exact hw
  | destroy =>
    simp only [step] at h
    split at h
    · cases h
    · cases h
      obtain ⟨a1, a2, a3, a4, a5, a6, a7, a8, a9⟩ := saveAll_counts (s.inQ ++ handEntry s.hand ++ s.outW)
        { s with inQ := [], hand := none, outW := [], destroyed := true }
      unfold Win
      rw [a3]; simp
  | finish =>
    simp only [step] at h
    split at h
    · cases h; exact hw
    · cases h
  | extZero id =>
    simp only [step] at h
    split at h
    · cases h; exact hw
    · cases h
  | extRemove id =>
    simp only [step] at h
    split at h
    · cases h; exact hw
    · cases h

theorem recover_win (cfg : Cfg) (disk : List (Nat × Bytes)) : Win (recover cfg disk) := by
  unfold recover
  apply settle_ind Win (fun s s' h hw => feederStep_window s s' h hw)
  obtain ⟨a1, a2, a3, a4, a5, a6, a7, a8, a9, extra, a10, a11⟩ :=
    recFold_inv cfg (scanned cfg disk) (start cfg disk) rfl rfl rfl rfl rfl rfl (by simp [accIds, start])
  unfold Win
  rw [a2]; simp

theorem run_win : ∀ (ops : List Op) (s s' : St), run s ops = some s' → Win s → Win s'
  | [], s, s', h, hf => by simp [run] at h; subst h; exact hf
  | o :: os, s, s', h, hf => by
    simp only [run] at h
    cases hs : step s o with
    | none => simp [hs] at h
    | some s1 => simp [hs] at h; exact run_win os s1 s' h (step_win s s1 o hs hf)

end C03
