import SlogModel.Props.C15

/-!
  Totality of the transform interpreter on well-formed programs (used by C07, C12 and C16):
  a program whose template variables are fields of the record and whose extractors satisfy what
  `newStringExtractor` guarantees never panics, and keeps the number of field slots.
-/

open Xform C15

namespace XT

def partOK (n : Nat) : Route.Part → Prop
  | .lit _ => True
  | .var i => i < n
  | .slice i _ _ => i < n

mutual
def stepWF (n : Nat) : Step → Prop
  | .addFields pairs => ∀ p ∈ pairs, ∀ part ∈ p.2, partOK n part
  | .delFields _ => True
  | .mapValue _ _ _ => True
  | .iff _ thn => stepsWF n thn
  | .switch cases => casesWF n cases
  | .block steps => stepsWF n steps
  | .drop _ _ _ => True
  | .extract e _ _ => e.WF
  | .truncate _ _ _ => True
  | .unescape _ => True
  | .redactEmail _ => True
  | .parseTime _ => True
  | .opaque _ _ => True
def stepsWF (n : Nat) : List Step → Prop
  | [] => True
  | s :: r => stepWF n s ∧ stepsWF n r
def casesWF (n : Nat) : List (Xform.Match × List Step) → Prop
  | [] => True
  | (_, thn) :: r => stepsWF n thn ∧ casesWF n r
end

theorem partValue_ok (n : Nat) (src : List Bytes) (hl : src.length = n) (p : Route.Part) (hp : partOK n p) :
    ∃ v, Route.partValue src p = .ok v := by
  cases p with
  | lit s => exact ⟨s, rfl⟩
  | var i =>
    have : i < src.length := by simpa [partOK, hl] using hp
    exact ⟨src[i], by simp [Route.partValue, this]⟩
  | slice i a b =>
    have : i < src.length := by simpa [partOK, hl] using hp
    exact ⟨Route.sliceStr src[i] a b, by simp [Route.partValue, this]⟩

theorem expand_ok (n : Nat) (src : List Bytes) (hl : src.length = n) (parts : List Route.Part)
    (hp : ∀ p ∈ parts, partOK n p) : ∃ v, Route.expand parts src = .ok v := by
  unfold Route.expand
  generalize ([] : Bytes) = acc
  induction parts generalizing acc with
  | nil => exact ⟨acc, rfl⟩
  | cons p ps ih =>
    obtain ⟨v, hv⟩ := partValue_ok n src hl p (hp p (by simp))
    simp only [List.foldlM, bind, Except.bind, hv, pure, Except.pure]
    exact ih (fun q hq => hp q (by simp [hq])) _

theorem set_len (r : Rec) (i : Nat) (v : Bytes) : (r.set i v).fields.length = r.fields.length := by
  simp [Rec.set]

theorem addPairs_ok (n : Nat) (pairs : List (Nat × List Route.Part)) (r : Rec) (hl : r.fields.length = n)
    (hp : ∀ p ∈ pairs, ∀ part ∈ p.2, partOK n part) :
    ∃ r', addPairs r pairs = .ok r' ∧ r'.fields.length = n := by
  induction pairs generalizing r with
  | nil => exact ⟨r, rfl, hl⟩
  | cons p ps ih =>
    obtain ⟨dst, parts⟩ := p
    obtain ⟨v, hv⟩ := expand_ok n r.fields hl parts (hp (dst, parts) (by simp))
    simp only [addPairs, bind, Except.bind, hv]
    apply ih
    · split
      · rw [set_len]; exact hl
      · exact hl
    · exact fun q hq => hp q (by simp [hq])

/-- result of a successful step keeps the number of field slots -/
def Good (n : Nat) (x : GoM (Res × Rec × XState)) : Prop := ∃ res r st, x = .ok (res, r, st) ∧ r.fields.length = n

mutual
theorem runStep_total (n : Nat) (st : XState) (r : Rec) (hl : r.fields.length = n) :
    (s : Step) → stepWF n s → Good n (runStep st r s)
  | .addFields pairs, h => by
    obtain ⟨r', h1, h2⟩ := addPairs_ok n pairs r hl h
    exact ⟨.pass, r', st, by simp [runStep, bind, Except.bind, h1, pure, Except.pure], h2⟩
  | .delFields keys, _ => by
    refine ⟨.pass, _, st, rfl, ?_⟩
    have : ∀ (ks : List Nat) (r : Rec), r.fields.length = n →
        (ks.foldl (fun r k => r.set k []) r).fields.length = n := by
      intro ks
      induction ks with
      | nil => intro r h; simpa using h
      | cons k ks ih => intro r h; simp only [List.foldl_cons]; exact ih _ (by rw [set_len]; exact h)
    exact this keys r hl
  | .mapValue key mapping dflt, _ => by
    simp only [runStep]
    split
    · exact ⟨_, _, _, rfl, hl⟩
    · exact ⟨_, _, _, rfl, by rw [set_len]; exact hl⟩
  | .iff m thn, h => by
    simp only [runStep]
    split
    · exact runSteps_total n st r hl thn h
    · exact ⟨_, _, _, rfl, hl⟩
  | .switch cases, h => by simp only [runStep]; exact runCases_total n st r hl cases h
  | .block steps, h => by simp only [runStep]; exact runSteps_total n st r hl steps h
  | .drop m rate id, _ => by
    simp only [runStep]
    split
    · exact ⟨_, _, _, rfl, hl⟩
    · split
      · exact ⟨_, _, _, rfl, hl⟩
      · exact ⟨_, _, _, rfl, hl⟩
  | .extract e key dest, h => by
    simp only [runStep, bind, Except.bind, pure, Except.pure]
    split
    · exact ⟨_, _, _, rfl, hl⟩
    · have hx : ∃ o, (if e.fromEnd then extractEnd e (r.get key) else extractStart e (r.get key)) = .ok o := by
        cases hf : e.fromEnd
        · simpa using C15_extract_head_total e _ h hf
        · simpa using C15_extract_tail_total e _ h hf
      obtain ⟨o, ho⟩ := hx
      simp only [ho]
      cases o with
      | none => exact ⟨_, _, _, rfl, hl⟩
      | some p =>
        simp only []
        split
        · exact ⟨_, _, _, rfl, by rw [set_len, set_len]; exact hl⟩
        · exact ⟨_, _, _, rfl, hl⟩
  | .truncate key maxLen suffix, _ => ⟨_, _, _, rfl, by rw [set_len]; exact hl⟩
  | .unescape key, _ => by
    simp only [runStep]
    split
    · exact ⟨_, _, _, rfl, hl⟩
    · refine ⟨_, _, _, rfl, ?_⟩
      split
      · exact hl
      · rw [set_len]; exact hl
  | .redactEmail key, _ => by
    simp only [runStep]
    split
    · exact ⟨_, _, _, rfl, hl⟩
    · exact ⟨_, _, _, rfl, by rw [set_len]; exact hl⟩
  | .parseTime key, _ => by
    simp only [runStep]
    split
    · exact ⟨_, _, _, rfl, hl⟩
    · exact ⟨_, _, _, rfl, hl⟩
  | .opaque _ _, _ => ⟨_, _, _, rfl, hl⟩

theorem runSteps_total (n : Nat) (st : XState) (r : Rec) (hl : r.fields.length = n) :
    (l : List Step) → stepsWF n l → Good n (runSteps st r l)
  | [], _ => ⟨_, _, _, rfl, hl⟩
  | s :: rest, h => by
    obtain ⟨res, r1, st1, h1, h2⟩ := runStep_total n st r hl s h.1
    simp only [runSteps, bind, Except.bind, h1]
    cases res with
    | drop => exact ⟨_, _, _, rfl, h2⟩
    | pass => exact runSteps_total n st1 r1 h2 rest h.2

theorem runCases_total (n : Nat) (st : XState) (r : Rec) (hl : r.fields.length = n) :
    (l : List (Xform.Match × List Step)) → casesWF n l → Good n (runCases st r l)
  | [], _ => ⟨_, _, _, rfl, hl⟩
  | (m, thn) :: rest, h => by
    simp only [runCases]
    split
    · exact runSteps_total n st r hl thn h.1
    · exact runCases_total n st r hl rest h.2
end

end XT
