import SlogModel.Lemmas.Client
import SlogModel.Lemmas.E2E

/-!
  Refinement: the client transition system `Client.step` implements the client-side actions of the
  chunk-level end-to-end system `E2E.step` (take, ack, connFail, stop).

  `Rel base c e` relates a client state `c` to a chunk-level state `e`: the chunks waiting (leftovers
  ahead of the buffer's queue) are `e.queue`, the chunks held by the current session are `e.inflight`,
  the client's confirmations are what `e.acked` gained, and after `OnFinished` everything handed back
  plus what the client never took is `e.disk`.  `sim_step` shows that every client action is either
  invisible at chunk level or exactly one `E2E` action (`mapAct`), for every reachable client state;
  `sim_run` lifts it to runs.  With it the contracts `E2E.step` assumes of the client — unacknowledged
  chunks go back oldest first ahead of everything newer, a confirmation removes exactly the acknowledged
  chunk, a stop leaves everything unacknowledged for the disk — are theorems about `Client.step`, not
  readings of it.
-/

namespace ClientRefine
open Client C02

def sessHeld (x : Sess) : List Nat := x.pending ++ x.ackChan ++ x.lastC.toList

/-- chunks held by the current session, oldest first -/
def held (s : St) : List Nat := match s.sess with | some x => sessHeld x | none => []

def sessPrev (x : Sess) : List Nat := x.collecting.getD []

/-- chunks waiting to be (re)transmitted: leftovers, then the buffer's queue -/
def waiting (s : St) : List Nat := (match s.sess with | some x => sessPrev x | none => []) ++ s.left ++ s.queue

structure Rel (base : List Nat) (c : St) (e : E2E.St) : Prop where
  cur : e.cur = []
  acked : e.acked = base ++ c.confirmed
  run : c.finished = false → e.running = true ∧ e.queue = waiting c ∧ e.inflight = held c
  fin : c.finished = true → e.running = false ∧ e.queue = [] ∧ e.inflight = [] ∧ e.disk = c.handed ++ c.queue

/-- the chunk-level action a client action stands for (`none`: invisible at chunk level) -/
def mapAct (s : St) : Act → Option E2E.Act
  | .takeLeft | .takeInput => some .take
  | .ackOk id =>
    match s.sess with
    | some x =>
      match x.ackCur with
      | some cur =>
        match id with
        | none => some (.ack cur)
        | some i => if i ∈ x.pending then some (.ack i) else none
      | none => none
    | none => none
  | .finishCollect => some .connFail
  | .workerFinal => some .stop
  | _ => none

def applyOpt (e : E2E.St) : Option E2E.Act → Option E2E.St
  | none => some e
  | some a => E2E.step e a

/-- nothing is handed back before the end -/
def HInv0 (s : St) : Prop := s.finished = false → s.handed = []

theorem step_hinv0 (s s' : St) (a : Act) (h : step s a = some s') (hi : HInv0 s) (hf : FInv s) : HInv0 s' := by
  by_cases hfin : s.finished = true
  · obtain ⟨h1, h2⟩ := hf hfin
    cases a <;> simp [step, hfin, h1] at h
  · have hh := hi (by simpa using hfin)
    cases a
    case workerFinal =>
      simp only [step] at h
      split at h
      · cases h
      · cases h; intro hc; simp at hc
    all_goals
      simp only [step] at h
      repeat' split at h
      all_goals first
        | (cases h; intro _; exact hh)
        | cases h

structure All (s : St) : Prop where
  inv : Inv s
  o : OInv s
  f : FInv s
  h : HInv0 s

theorem step_all (s s' : St) (a : Act) (h : step s a = some s') (hi : All s) : All s' :=
  ⟨step_inv s s' a h hi.inv, step_oinv s s' a h hi.inv hi.o, step_finv s s' a h hi.f, step_hinv0 s s' a h hi.h hi.f⟩

theorem init_all (q : List Nat) (hq : q.Pairwise (· < ·)) : All (init q) := by
  have hn : q.Nodup := by
    refine List.Pairwise.imp ?_ hq
    intro a b hab; exact Nat.ne_of_lt hab
  exact ⟨init_inv q hn, init_oinv q hq, by intro hf; simp [init] at hf, by intro _; simp [init]⟩

/-! ### lists -/

theorem sorted_ext : ∀ (a b : List Nat), a.Pairwise (· < ·) → b.Pairwise (· < ·) → (∀ c, c ∈ a ↔ c ∈ b) → a = b
  | [], [], _, _, _ => rfl
  | [], y :: _, _, _, h => by have := (h y).mpr (by simp); simp at this
  | x :: _, [], _, _, h => by have := (h x).mp (by simp); simp at this
  | x :: a, y :: b, ha, hb, h => by
    have ha' := List.pairwise_cons.mp ha
    have hb' := List.pairwise_cons.mp hb
    have hxy : x = y := by
      have h1 := (h x).mp (by simp)
      have h2 := (h y).mpr (by simp)
      simp at h1 h2
      rcases h1 with e | m
      · exact e
      · rcases h2 with e | m2
        · exact e.symm
        · have := hb'.1 x m; have := ha'.1 y m2; omega
    subst hxy
    have : a = b := by
      refine sorted_ext a b ha'.2 hb'.2 ?_
      intro c
      constructor
      · intro hc
        have := (h c).mp (by simp [hc])
        simp at this
        rcases this with e | m
        · subst e; have := ha'.1 c hc; omega
        · exact m
      · intro hc
        have := (h c).mpr (by simp [hc])
        simp at this
        rcases this with e | m
        · subst e; have := hb'.1 c hc; omega
        · exact m
    rw [this]

theorem ins_sorted (x : Nat) : ∀ (l : List Nat), l.Pairwise (· ≤ ·) → (E2E.ins x l).Pairwise (· ≤ ·)
  | [], _ => by simp [E2E.ins]
  | y :: r, h => by
    unfold E2E.ins
    have h' := List.pairwise_cons.mp h
    split
    · rename_i hle
      refine List.pairwise_cons.mpr ⟨?_, h⟩
      intro z hz
      simp at hz
      rcases hz with e | m
      · subst e; exact hle
      · have := h'.1 z m; omega
    · rename_i hle
      refine List.pairwise_cons.mpr ⟨?_, ins_sorted x r h'.2⟩
      intro z hz
      have : 0 < (E2E.ins x r).count z := List.count_pos_iff.mpr hz
      rw [C01.count_ins] at this
      by_cases e : z = x
      · subst e; omega
      · simp [e] at this
        exact h'.1 z this

theorem sortIds_le : ∀ (l : List Nat), (E2E.sortIds l).Pairwise (· ≤ ·)
  | [] => by simp [E2E.sortIds]
  | x :: r => by simp only [E2E.sortIds]; exact ins_sorted x _ (sortIds_le r)

theorem mem_sortIds (l : List Nat) (c : Nat) : c ∈ E2E.sortIds l ↔ c ∈ l := by
  rw [← List.count_pos_iff, ← List.count_pos_iff, C01.count_sortIds]

theorem sortIds_lt (l : List Nat) (h : l.Nodup) : (E2E.sortIds l).Pairwise (· < ·) := by
  apply pairwise_lt_of_sorted_nodup _ (sortIds_le l)
  apply List.nodup_iff_count.mpr
  intro c
  rw [C01.count_sortIds]
  exact List.nodup_iff_count.mp h c

/-- a client's resend list ahead of the queue is the chunk-level "everything unacknowledged goes back, oldest first" -/
theorem sortIds_eq_newLeft (m l q : List Nat) (hp : ∀ c, c ∈ l ↔ c ∈ m) (hn : (m ++ q).Nodup) (hl : (l ++ q).Nodup)
    (hq : q.Pairwise (· < ·)) (hlt : ∀ a ∈ m, ∀ b ∈ q, a < b) :
    E2E.sortIds (l ++ q) = newLeft m ++ q := by
  have hmn : m.Nodup := (List.nodup_append.mp hn).1
  apply sorted_ext
  · exact sortIds_lt _ hl
  · refine List.pairwise_append.mpr ⟨newLeft_sorted m hmn, hq, ?_⟩
    intro a ha b hb
    exact hlt a ((newLeft_mem m hmn a).mp ha) b hb
  · intro c
    rw [mem_sortIds, List.mem_append, List.mem_append, newLeft_mem m hmn, hp]

/-! ### what the invariants say about `held` and `waiting` -/

theorem count_held_waiting (s : St) (c : Nat) :
    (held s ++ waiting s).count c = (inflight s ++ s.queue).count c := by
  unfold held waiting inflight sessHeld sessPrev
  cases s.sess with
  | none => simp [List.count_append]
  | some x => simp only [List.count_append]; omega

theorem held_waiting_nodup (s : St) (hi : Inv s) : (held s ++ waiting s).Nodup := by
  apply List.nodup_iff_count.mpr
  intro c
  rw [count_held_waiting]
  have h1 := hi.cons c
  have h2 := List.nodup_iff_count.mp hi.nodup c
  simp only [List.count_append] at h1 h2 ⊢
  omega

theorem mem_held_taken (s : St) (hi : Inv s) (c : Nat) (h : c ∈ held s) : c ∈ s.taken := by
  apply mem_taken_of_inflight s hi
  unfold held sessHeld at h
  unfold inflight
  cases hs : s.sess with
  | none => simp [hs] at h
  | some x =>
    simp [hs] at h ⊢
    rcases h with h | h | h
    · exact Or.inr (Or.inr (Or.inr (Or.inl h)))
    · exact Or.inr (Or.inr (Or.inl h))
    · exact Or.inr (Or.inl h)


theorem not_finished_of_sess (s : St) (hf : FInv s) (x : Sess) (hs : s.sess = some x) : s.finished = false := by
  cases h : s.finished with
  | false => rfl
  | true => have := (hf h).1; rw [hs] at this; cases this

/-- invisible client actions: the chunk-level view does not change -/
theorem rel_of_same (base : List Nat) (c c' : St) (e : E2E.St) (hr : Rel base c e)
    (h1 : c'.finished = c.finished) (h2 : c'.confirmed = c.confirmed) (h3 : waiting c' = waiting c) (h4 : held c' = held c)
    (h5 : c'.handed = c.handed) (h6 : c'.queue = c.queue) : Rel base c' e := by
  refine ⟨hr.cur, by rw [h2]; exact hr.acked, ?_, ?_⟩
  · intro hf; rw [h1] at hf; rw [h3, h4]; exact hr.run hf
  · intro hf; rw [h1] at hf; rw [h5, h6]; exact hr.fin hf

set_option hygiene false in
macro "stutter" : tactic => `(tactic| (
  simp only [step] at h
  repeat' split at h
  all_goals first
    | (cases h; done)
    | (cases h
       refine ⟨e, rfl, rel_of_same base _ _ e hr rfl rfl ?_ ?_ rfl rfl⟩ <;>
         simp_all [waiting, held, sessHeld, sessPrev])))

theorem sim_step (base : List Nat) (c c' : St) (a : Act) (e : E2E.St) (h : step c a = some c') (hi : All c)
    (hr : Rel base c e) : ∃ e', applyOpt e (mapAct c a) = some e' ∧ Rel base c' e' := by
  cases a with
  | stopReq =>
    simp only [step] at h
    split at h
    · cases h
    · cases h
      exact ⟨e, rfl, rel_of_same base _ _ e hr rfl rfl rfl rfl rfl rfl⟩
  | connectOk =>
    simp only [step] at h
    split at h
    · cases h
    · rename_i hs
      split at h
      · cases h
      · cases h
        refine ⟨e, rfl, rel_of_same base _ _ e hr rfl rfl ?_ ?_ rfl rfl⟩
        · simp [waiting, hs, sessPrev]
        · simp [held, hs, sessHeld]
  | connectFail =>
    simp only [step] at h
    split at h
    · cases h
    · cases h; exact ⟨e, rfl, hr⟩
  | recoveryDone => stutter
  | sendOk => stutter
  | sendErr => stutter
  | pushAck => stutter
  | pushStop => stutter
  | pushAckEnded => stutter
  | beginCollect => stutter
  | escalate => stutter
  | ackRecv => stutter
  | ackChanClosed => stutter
  | ackAbort => stutter
  | ackErr => stutter
  | takeLeft =>
    simp only [step] at h
    split at h
    · rename_i x ch rest hs hl
      split at h
      · cases h
      · rename_i hcond
        cases h
        have hnf := not_finished_of_sess c hi.f x hs
        obtain ⟨hrun, hq, hin⟩ := hr.run hnf
        simp at hcond
        have hcol : x.collecting = none := by
          cases hc : x.collecting with
          | none => rfl
          | some v => simp [hc] at hcond
        have hlast : x.lastC = none := by
          cases hc : x.lastC with
          | none => rfl
          | some v => simp [hc] at hcond
        have hq' : e.queue = ch :: (rest ++ c.queue) := by rw [hq]; simp [waiting, hs, sessPrev, hcol, hl]
        refine ⟨{ e with queue := rest ++ c.queue, inflight := e.inflight ++ [ch], sentLog := e.sentLog ++ [(e.conn, ch)] }, ?_, ?_⟩
        · simp [applyOpt, mapAct, E2E.step, hrun, hq']
        · refine ⟨hr.cur, hr.acked, ?_, ?_⟩
          · intro _
            refine ⟨hrun, ?_, ?_⟩
            · simp [waiting, sessPrev, hcol]
            · simp [held, sessHeld, hin, hs, hlast]
          · intro hf; simp [hnf] at hf
    · cases h
  | takeInput =>
    simp only [step] at h
    split at h
    · rename_i x ch rest hs hl
      split at h
      · cases h
      · rename_i hcond
        cases h
        have hnf := not_finished_of_sess c hi.f x hs
        obtain ⟨hrun, hq, hin⟩ := hr.run hnf
        simp at hcond
        have hcol : x.collecting = none := by
          cases hc : x.collecting with
          | none => rfl
          | some v => simp [hc] at hcond
        have hlast : x.lastC = none := by
          cases hc : x.lastC with
          | none => rfl
          | some v => simp [hc] at hcond
        have hleft : c.left = [] := (hi.inv.sess x hs).2 (Or.inl hcond.1)
        have hq' : e.queue = ch :: rest := by rw [hq]; simp [waiting, hs, sessPrev, hcol, hl, hleft]
        refine ⟨{ e with queue := rest, inflight := e.inflight ++ [ch], sentLog := e.sentLog ++ [(e.conn, ch)] }, ?_, ?_⟩
        · simp [applyOpt, mapAct, E2E.step, hrun, hq']
        · refine ⟨hr.cur, hr.acked, ?_, ?_⟩
          · intro _
            refine ⟨hrun, ?_, ?_⟩
            · simp [waiting, sessPrev, hcol, hleft]
            · simp [held, sessHeld, hin, hs, hlast]
          · intro hf; simp [hnf] at hf
    · cases h
  | ackOk id =>
    simp only [step] at h
    split at h
    · rename_i x hs
      split at h
      · rename_i cur hcur
        split at h
        · cases h
        · have hnf := not_finished_of_sess c hi.f x hs
          obtain ⟨hrun, hq, hin⟩ := hr.run hnf
          have hnd : (held c).Nodup := (List.nodup_append.mp (held_waiting_nodup c hi.inv)).1
          have hcp : cur ∈ x.pending := (hi.inv.sess x hs).1 cur hcur
          -- the acknowledged chunk `t` is pending; removing it from the session is the chunk-level `ack t`
          have key : ∀ t, t ∈ x.pending → ∀ hh : List Ev,
              ∃ e', E2E.step e (.ack t) = some e' ∧
                Rel base { c with sess := some { x with ackCur := none, pending := x.pending.erase t },
                                  confirmed := c.confirmed ++ [t], hist := hh } e' := by
            intro t ht hh
            have hmem : t ∈ e.inflight := by rw [hin]; simp [held, hs, sessHeld, ht]
            refine ⟨{ e with inflight := e.inflight.filter (· ≠ t), acked := e.acked ++ [t] }, ?_, ?_⟩
            · simp [E2E.step, hrun, hmem]
            · refine ⟨hr.cur, by simp [hr.acked], ?_, ?_⟩
              · intro _
                refine ⟨hrun, ?_, ?_⟩
                · simp [waiting, sessPrev, hq, hs]
                · rw [hin]
                  have h1 := hnd
                  simp only [held, hs, sessHeld] at h1 ⊢
                  have := List.Nodup.erase_eq_filter h1 t
                  rw [List.append_assoc, List.erase_append_left _ ht] at this
                  rw [List.append_assoc, List.append_assoc, this]
                  congr 1
                  funext z; by_cases hz : z = t <;> simp [bne, hz]
              · intro hf; simp [hnf] at hf
          cases id with
          | none =>
            simp only [] at h
            cases h
            obtain ⟨e', h1, h2⟩ := key cur hcp _
            exact ⟨e', by simpa [applyOpt, mapAct, hs, hcur] using h1, h2⟩
          | some i =>
            by_cases hmem : i ∈ x.pending
            · simp only [hmem, if_true] at h
              cases h
              obtain ⟨e', h1, h2⟩ := key i hmem _
              exact ⟨e', by simpa [applyOpt, mapAct, hs, hcur, hmem] using h1, h2⟩
            · simp only [hmem, if_false] at h
              cases h
              refine ⟨e, by simp [applyOpt, mapAct, hs, hcur, hmem], rel_of_same base _ _ e hr rfl rfl ?_ ?_ rfl rfl⟩
              · simp [waiting, sessPrev, hs]
              · simp [held, sessHeld, hs]
      · cases h
    · cases h
  | finishCollect =>
    simp only [step] at h
    split at h
    · rename_i x hs
      split at h
      · rename_i prev hcol
        split at h
        · cases h
        · cases h
          have hnf := not_finished_of_sess c hi.f x hs
          obtain ⟨hrun, hq, hin⟩ := hr.run hnf
          have hleft : c.left = [] := (hi.inv.sess x hs).2 (Or.inr (by simp [hcol]))
          have hnd := held_waiting_nodup c hi.inv
          have hcnt : ∀ z, ((prev ++ x.ackChan ++ x.pending ++ x.lastC.toList) ++ c.queue).count z = (held c ++ waiting c).count z := by
            intro z; simp [held, waiting, hs, sessHeld, sessPrev, hcol, hleft, List.count_append]; omega
          have hcnt2 : ∀ z, ((held c ++ prev) ++ c.queue).count z = (held c ++ waiting c).count z := by
            intro z; simp [waiting, hs, sessPrev, hcol, hleft, List.count_append]
          have hn1 : ((prev ++ x.ackChan ++ x.pending ++ x.lastC.toList) ++ c.queue).Nodup :=
            List.nodup_iff_count.mpr (fun z => by rw [hcnt]; exact List.nodup_iff_count.mp hnd z)
          have hn2 : ((held c ++ prev) ++ c.queue).Nodup :=
            List.nodup_iff_count.mpr (fun z => by rw [hcnt2]; exact List.nodup_iff_count.mp hnd z)
          have hlt : ∀ a ∈ prev ++ x.ackChan ++ x.pending ++ x.lastC.toList, ∀ b ∈ c.queue, a < b := by
            intro a ha b hb
            refine hi.o.tq a (mem_taken_of_inflight c hi.inv a ?_) b hb
            simp [inflight, hs, hcol] at ha ⊢
            rcases ha with h | h | h | h
            · exact Or.inr (Or.inr (Or.inr (Or.inr h)))
            · exact Or.inr (Or.inr (Or.inl h))
            · exact Or.inr (Or.inr (Or.inr (Or.inl h)))
            · exact Or.inr (Or.inl h)
          have hmem : ∀ z, z ∈ held c ++ prev ↔ z ∈ prev ++ x.ackChan ++ x.pending ++ x.lastC.toList := by
            intro z
            simp [held, hs, sessHeld]
            constructor
            · rintro (h | h | h | h)
              · exact Or.inr (Or.inr (Or.inl h))
              · exact Or.inr (Or.inl h)
              · exact Or.inr (Or.inr (Or.inr h))
              · exact Or.inl h
            · rintro (h | h | h | h)
              · exact Or.inr (Or.inr (Or.inr h))
              · exact Or.inr (Or.inl h)
              · exact Or.inl h
              · exact Or.inr (Or.inr (Or.inl h))
          have hsort := sortIds_eq_newLeft (prev ++ x.ackChan ++ x.pending ++ x.lastC.toList) (held c ++ prev) c.queue
            hmem hn1 hn2 hi.o.q hlt
          have hqe : e.inflight ++ e.queue = (held c ++ prev) ++ c.queue := by
            rw [hin, hq]; simp [waiting, hs, sessPrev, hcol, hleft]
          refine ⟨{ e with queue := E2E.sortIds (e.inflight ++ e.queue), inflight := [], conn := e.conn + 1 }, ?_, ?_⟩
          · simp [applyOpt, mapAct, E2E.step, hrun]
          · refine ⟨hr.cur, hr.acked, ?_, ?_⟩
            · intro _
              refine ⟨hrun, ?_, ?_⟩
              · simp only [hqe, hsort]; simp [waiting]
              · simp [held]
            · intro hf; simp [hnf] at hf
      · cases h
    · cases h
  | workerFinal =>
    simp only [step] at h
    split at h
    · cases h
    · rename_i hcond
      cases h
      simp at hcond
      obtain ⟨hsn, hstop, hnf⟩ := hcond
      have hs : c.sess = none := by
        cases hx : c.sess with
        | none => rfl
        | some v => simp [hx] at hsn
      obtain ⟨hrun, hq, hin⟩ := hr.run hnf
      have hhand : c.handed = [] := hi.h hnf
      have hsorted : (c.left ++ c.queue).Pairwise (· < ·) := by
        refine List.pairwise_append.mpr ⟨hi.o.l, hi.o.q, ?_⟩
        intro a ha b hb
        refine hi.o.tq a (mem_taken_of_inflight c hi.inv a ?_) b hb
        simp [inflight, ha]
      have hq' : e.inflight ++ e.queue = c.left ++ c.queue := by rw [hin, hq]; simp [held, waiting, hs]
      refine ⟨{ e with disk := E2E.sortIds (e.inflight ++ e.queue), queue := [], inflight := [], running := false }, ?_, ?_⟩
      · simp [applyOpt, mapAct, E2E.step, hrun, E2E.closeChunk, hr.cur]
      · refine ⟨hr.cur, hr.acked, ?_, ?_⟩
        · intro hf; simp at hf
        · intro _
          refine ⟨rfl, rfl, rfl, ?_⟩
          simp only [hq', C05.sortIds_sorted _ hsorted, hhand]; simp


theorem applyOpt_run (e e' : E2E.St) (o : Option E2E.Act) (h : applyOpt e o = some e') : E2E.run e o.toList = some e' := by
  cases o with
  | none => simp [applyOpt] at h; subst h; rfl
  | some a => simp [applyOpt] at h; simp [E2E.run, h]

theorem e2e_run_append (s : E2E.St) (a b : List E2E.Act) :
    E2E.run s (a ++ b) = match E2E.run s a with | some s' => E2E.run s' b | none => none := by
  induction a generalizing s with
  | nil => simp [E2E.run]
  | cons x xs ih =>
    simp only [List.cons_append, E2E.run]
    cases E2E.step s x with
    | none => rfl
    | some s' => exact ih s'

/-- the chunk-level actions a client run stands for -/
def mapRun : St → List Act → List E2E.Act
  | _, [] => []
  | s, a :: as => match step s a with
    | some s' => (mapAct s a).toList ++ mapRun s' as
    | none => []

theorem sim_run (base : List Nat) : ∀ (acts : List Act) (c c' : St) (e : E2E.St), run c acts = some c' → All c → Rel base c e →
    ∃ e', E2E.run e (mapRun c acts) = some e' ∧ Rel base c' e'
  | [], c, c', e, h, _, hr => by
    simp [run] at h; subst h; exact ⟨e, rfl, hr⟩
  | a :: as, c, c', e, h, hi, hr => by
    simp only [run] at h
    cases hs : step c a with
    | none => simp [hs] at h
    | some c1 =>
      simp only [hs] at h
      obtain ⟨e1, h1, hr1⟩ := sim_step base c c1 a e hs hi hr
      obtain ⟨e', h2, hr2⟩ := sim_run base as c1 c' e1 h (step_all c c1 a hs hi) hr1
      refine ⟨e', ?_, hr2⟩
      simp only [mapRun, hs]
      rw [e2e_run_append, applyOpt_run e e1 _ h1]
      exact h2

theorem mapRun_length : ∀ (acts : List Act) (c : St), (mapRun c acts).length ≤ acts.length
  | [], _ => by simp [mapRun]
  | a :: as, c => by
    simp only [mapRun]
    cases hs : step c a with
    | none => simp
    | some c1 =>
      simp only [List.length_append, List.length_cons]
      have := mapRun_length as c1
      have : (mapAct c a).toList.length ≤ 1 := by cases mapAct c a <;> simp
      omega

theorem rel_init (q : List Nat) (e0 : E2E.St) (hr : e0.running = true) (hc : e0.cur = []) (hi : e0.inflight = [])
    (hq : e0.queue = q) : Rel e0.acked (init q) e0 :=
  ⟨hc, by simp [init], by intro _; exact ⟨hr, by simp [waiting, init, hq], by simp [held, init, hi]⟩, by intro h; simp [init] at h⟩


/-! ### the mapped actions touch nothing but queue / in flight / acknowledged / disk -/

def clientSide : E2E.Act → Bool
  | .take | .ack _ | .connFail | .stop => true
  | _ => false

theorem mapAct_clientSide (s : St) (a : Act) : ∀ b ∈ (mapAct s a).toList, clientSide b = true := by
  intro b hb
  cases a <;> simp [mapAct] at hb
  case takeLeft => subst hb; rfl
  case takeInput => subst hb; rfl
  case finishCollect => subst hb; rfl
  case workerFinal => subst hb; rfl
  case ackOk id =>
    repeat' split at hb
    all_goals simp at hb
    all_goals (try subst hb); (try rfl)
    all_goals (obtain ⟨_, rfl⟩ := hb; rfl)

theorem mapRun_clientSide : ∀ (acts : List Act) (c : St), ∀ b ∈ mapRun c acts, clientSide b = true
  | [], _, b, hb => by simp [mapRun] at hb
  | a :: as, c, b, hb => by
    simp only [mapRun] at hb
    cases hs : step c a with
    | none => simp [hs] at hb
    | some c1 =>
      simp only [hs, List.mem_append] at hb
      rcases hb with h | h
      · exact mapAct_clientSide c a b h
      · exact mapRun_clientSide as c1 b h

structure Frame (e e' : E2E.St) : Prop where
  content : e'.content = e.content
  nextRec : e'.nextRec = e.nextRec
  dropped : e'.dropped = e.dropped
  nextChunk : e'.nextChunk = e.nextChunk
  cur : e'.cur = []

theorem step_frame (e e' : E2E.St) (a : E2E.Act) (h : E2E.step e a = some e') (hc : clientSide a = true) (hcur : e.cur = []) :
    Frame e e' := by
  cases a <;> simp [clientSide] at hc
  case take =>
    simp only [E2E.step] at h
    repeat' split at h
    all_goals first
      | (cases h; done)
      | (cases h; exact ⟨rfl, rfl, rfl, rfl, hcur⟩)
  case ack c =>
    simp only [E2E.step] at h
    repeat' split at h
    all_goals first
      | (cases h; done)
      | (cases h; exact ⟨rfl, rfl, rfl, rfl, hcur⟩)
  case connFail =>
    simp only [E2E.step] at h
    repeat' split at h
    all_goals first
      | (cases h; done)
      | (cases h; exact ⟨rfl, rfl, rfl, rfl, hcur⟩)
  case stop =>
    simp only [E2E.step, E2E.closeChunk, hcur] at h
    split at h
    · cases h
    · cases h; exact ⟨rfl, rfl, rfl, rfl, hcur⟩

theorem run_frame : ∀ (acts : List E2E.Act) (e e' : E2E.St), E2E.run e acts = some e' → (∀ b ∈ acts, clientSide b = true) →
    e.cur = [] → Frame e e'
  | [], e, e', h, _, hcur => by simp [E2E.run] at h; subst h; exact ⟨rfl, rfl, rfl, rfl, hcur⟩
  | a :: as, e, e', h, hall, hcur => by
    simp only [E2E.run] at h
    cases hs : E2E.step e a with
    | none => simp [hs] at h
    | some e1 =>
      simp only [hs] at h
      have f1 := step_frame e e1 a hs (hall a (by simp)) hcur
      have f2 := run_frame as e1 e' h (fun b hb => hall b (by simp [hb])) f1.cur
      exact ⟨f2.content.trans f1.content, f2.nextRec.trans f1.nextRec, f2.dropped.trans f1.dropped,
        f2.nextChunk.trans f1.nextChunk, f2.cur⟩

end ClientRefine
