/-
  Basic definitions shared by all models: byte strings, Go panics as values.

  Bytes are modelled as `List Nat`; every model function is total on all of `List Nat`, which is a
  superset of real byte strings (elements < 256).  Where a function's behaviour depends on the
  8-bit width (e.g. `c - '0'` on a Go `byte`), the wrap-around is written out with `% 256` and the
  theorem states the range hypothesis `IsBytes`.
-/

abbrev Byte := Nat
abbrev Bytes := List Nat

/-- Every element is a real byte. -/
def IsBytes (s : Bytes) : Prop := ∀ b ∈ s, b < 256

instance (s : Bytes) : Decidable (IsBytes s) := by unfold IsBytes; infer_instance

/-- Kinds of Go run-time panics the models track. -/
inductive Panic where
  | index      -- index out of range
  | slice      -- slice bounds out of range
  | nilDeref   -- nil pointer dereference / nil map write
  | explicit   -- panic(...) / logger.Panic / Must...
  deriving DecidableEq, Repr

def Panic.name : Panic → String
  | .index => "index"
  | .slice => "slice"
  | .nilDeref => "nil"
  | .explicit => "explicit"

/-- The monad of Go code that may panic. -/
abbrev GoM := Except Panic

deriving instance DecidableEq for Except

/-- String to bytes (run time only; in proofs use the `b!"…"` literal, which elaborates to a list
of numerals the kernel can compute with). -/
def str (s : String) : Bytes := s.toUTF8.toList.map (·.toNat)

open Lean in
/-- `b!"abc"` elaborates to `[97, 98, 99]` (UTF-8 bytes of the literal). -/
macro "b!" s:str : term => do
  let bytes := s.getString.toUTF8.toList.map (fun b => Syntax.mkNumLit (toString b.toNat))
  `(([$(bytes.toArray),*] : List Nat))

/-- Go's `s[i]` on a byte string. -/
def idx (s : Bytes) (i : Nat) : GoM Nat :=
  match s[i]? with
  | some b => .ok b
  | none => .error .index

/-- Go's `s[i:j]`. -/
def slice (s : Bytes) (i j : Nat) : GoM Bytes :=
  if i ≤ j ∧ j ≤ s.length then .ok ((s.drop i).take (j - i)) else .error .slice

def isDigit (b : Nat) : Bool := 48 ≤ b && b ≤ 57

/-- index of the first occurrence of `b` (Go `bytes.IndexByte`), `none` for -1 -/
def indexByte (s : Bytes) (b : Nat) : Option Nat :=
  let rec go : Bytes → Nat → Option Nat
    | [], _ => none
    | x :: xs, i => if x = b then some i else go xs (i + 1)
  go s 0

/-- Go's integer division on non-negative operands is `Nat` division -/
theorem Int.tdiv_natCast (a b : Nat) : Int.tdiv (a : Int) (b : Int) = ((a / b : Nat) : Int) := by
  rw [Int.tdiv_eq_ediv_of_nonneg (by omega)]
  exact (Int.natCast_ediv a b).symm
