"""Per-property configuration of bin/check: proof modules, harness components (name, quick n, thorough n)."""

PROPS = {
    "C13": {
        "modules": ["SlogModel.Props.C13"],
        "components": [("time", 20000, 1500000)],
        "rule": "one case = one time-field value through the real parseTime transform; distinct by bytes; "
                "non-trivial = every case (each reaches the parser; classes in input_distribution)",
        "level_text": "Theorems C13_exact (every valid RFC 3339 timestamp, 0-9 fraction digits, Z / +hh:mm / +hhmm, parses to the denoted instant), C13_total (no index or slice can fail, for every byte string), C13_malformed_* (short / wrong separator => error) and C13_transform_error_counted, proved in Lean 4 for all inputs on a model of rfc3339.go/atoi.go/tparsetime.go; the model is tied to the code by differential runs through the real transform (exhaustive fractions, mutated and random strings) and by three regenerated source facts.",
        "level_note": "Trusted: Lean kernel, the three standard axioms, the model-code tie (sampled differential + go/ast facts), Go's time.Date/time.Parse as assumed in the model (differential-checked against the real library on every run).",
        "assumptions": [
            "time.Date is the proleptic-Gregorian days-from-civil formula with month normalisation (differential-checked)",
            "time.Local has offset 0 (harness runs with TZ=UTC); a timestamp without zone is interpreted in local time",
            "Go time.Parse zone layouts Z07:00 / Z0700 behave as Time.parseTZ (differential-checked)",
        ],
    },
}

NOT_APPLICABLE = {k: "check not built yet in this round (planned in DESIGN.md section 6); no claim is made" for k in
                  ["C%02d" % i for i in range(1, 20)]}

HOOK_COMMITS = []
