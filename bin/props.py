"""Per-property configuration of bin/check: proof modules, harness components (name, quick n, thorough n)."""

PROPS = {
    "C13": {
        "modules": ["SlogModel.Props.C13"],
        "components": [("time", 20000, 1500000)],
        "rule": "one case = one time-field value (or a sequence of 2-7) through one real parseTime transform instance, every value "
                "built in one reused backing buffer as the fields of pooled records are; zone-alias cases run a two-zone sequence "
                "through 12000 fresh transform instances (where a cached value lands differs per instance); distinct by bytes; "
                "non-trivial = every case (each reaches the parser; classes in input_distribution)",
        "level_text": "Theorems C13_exact (every valid RFC 3339 timestamp, 0-9 fraction digits, Z / +hh:mm / +hhmm, parses to the denoted instant), C13_total (no index or slice can fail, for every byte string), C13_malformed_* (short / wrong separator => error) and C13_transform_error_counted, proved in Lean 4 for all inputs on a model of rfc3339.go/atoi.go/tparsetime.go; the model is tied to the code by differential runs through the real transform (exhaustive fractions, mutated and random strings, sequences of values through one reused buffer) and by four regenerated source facts.",
        "level_note": "Trusted: Lean kernel, the three standard axioms, the model-code tie (sampled differential + go/ast facts), Go's time.Date/time.Parse as assumed in the model (differential-checked against the real library on every run).",
        "assumptions": [
            "time.Date is the proleptic-Gregorian days-from-civil formula with month normalisation (differential-checked)",
            "time.Local has offset 0 (harness runs with TZ=UTC); a timestamp without zone is interpreted in local time",
            "Go time.Parse zone layouts Z07:00 / Z0700 behave as Time.parseTZ (differential-checked)",
        ],
    },
}

PROPS["C09"] = {
    "modules": ["SlogModel.Props.C09"],
    "components": [("parse", 20000, 400000)],
    "rule": "one case = one parser instance (limits + level mapping) fed 8 lines (all-PRI cases: 200 lines); distinct by the "
            "byte content of the whole sequence; every case reaches Parse (non-trivial); classes = which of pass / "
            "pass-overflow / drop occurred",
    "level_text": "Theorems C09_total (Parse never panics, all inputs), C09_parse_render (every well-formed line of at least "
                  "the minimal length yields exactly facility pri/8, level mapping[pri%8], the six tokens and the message cut "
                  "to the limit), C09_pri_out_of_range, C09_counted_once, C09_overflow_counted, C09_cut_at_utf8_boundary (for every valid UTF-8 message, "
                  "every limit and every cut by the framer: the stored message is a prefix of the original, valid UTF-8, at most three "
                  "bytes - one cut character - short of the limit; built on Utf8.clean_take_valid), C09_uncut_unchanged, proved in Lean 4 on a "
                  "statement-level model of syslogparser.go; model tied to the code by differential runs through the real "
                  "parser (fields, flags and all six counters compared after every call) and six regenerated source facts.",
    "level_note": "Trusted: Lean kernel + 3 standard axioms; the sampled model-code correspondence; strconv.Atoi and "
                  "strings.ToValidUTF8 as modelled (differential-checked).",
    "assumptions": ["strconv.Atoi = Parse.atoi (sign, digits, int64 range)",
                    "strings.ToValidUTF8(s, \"\") = Utf8.toValid (Go's utf8 acceptance table)"],
}

PROPS["C08"] = {
    "modules": ["SlogModel.Props.C08", "SlogModel.Props.C08Flush", "SlogModel.Props.C08Idx"],
    "components": [("frame", 20000, 300000), ("flush", 14, 160)],
    "rule": "one case = one reader instance driven by a sequence of read / flush / flushall calls (offsets and emitted "
            "records compared after every call); includes all 1-cut and (windowed) 2-cut splits of five short streams, random "
            "cuts of random multi-line streams, tiny buffers that overflow, and TestRecordStart alone; distinct by the "
            "op sequence; non-trivial = at least one record emitted or a TestRecordStart case. flush: one case = one real "
            "util.NetConnWrapper on a loopback connection driven through a schedule of sleeps and peer writes (flush interval 60-100 ms), "
            "every Read observed from outside (call time, return time, deadline before / after) and judged by the model, or one real "
            "tcplistener connection under continuous line-by-line traffic of two-line records for 1-2 s with the sink's Flush calls "
            "counted; non-trivial = at least one renewal or timeout / an undisturbed listener run",
    "level_text": "Theorems C08_fragmentation (any two non-overflowing fragmentations of a stream emit the same records and reach "
                  "the same state as the byte-fed reference framer), C08_no_overflow_of_prefixes (the side condition depends on the "
                  "stream only), C08_flush_single_line (single-line valid records, any cuts, flush ticks anywhere: exactly the "
                  "lines, once each, in order), C08_continuation and C08_next_start_emits (continuation lines stay attached); C08_process_buffer_is_feed / "
                  "C08_fragmentation_index_level (Model/FrameIdx.lean transcribes processBuffer statement by statement - flat buffer, recordStart / searchStart, "
                  "bytes.IndexByte, the slices, the relocation - and for every reader state and fragment this index loop emits exactly the records and leaves "
                  "exactly the buffer and offsets of the byte-fed model; C08_flush_index_level / C08_flushAll_index_level / C08_checkOverflow_index_level / C08_read_index_level do the same for "
                  "Flush, FlushAll, checkOverflow and a whole Read call, so the framing theorems are theorems about the index-level reader; five whole-body "
                  "facts pin the five functions), "
                  "proved in Lean 4 for all streams / cuts / flush placements on a model of multilinereader.go whose derived "
                  "offsets are compared with the real offsetSearch / offsetAppend after every call. When the listener flushes "
                  "(Model/FlushPolicy.lean: NetConnWrapper.Read's lazy deadline renewal and the read loop of runConnection): "
                  "C08_timeout_means_idle / C08_idle_ticks_after_pause (a flush after a read timeout follows an idle period of at least "
                  "the flush interval), C08_renewal_flushes_bounded (flushes 'for deadline update', the only ones that can cut a "
                  "multi-line record although the sender did not pause, number at most lifetime / interval + 1), consistent_of_renew "
                  "(the observer's check of a real Read accepts every behaviour of the model); tied by four regenerated source facts "
                  "(renewal condition, 2x interval, the listener's interval, the read loop's flush branches) and the flush component.",
    "level_note": "Trusted: Lean kernel + 3 standard axioms; processBuffer's index loop is proved equal to the byte-fed model "
                  "(C08_process_buffer_is_feed), and so are Flush, FlushAll and checkOverflow; the transcriptions are pinned by whole-body facts and by "
                  "the differential run (all outputs and both offsets, every call); in the framing "
                  "theorems flush ticks are placed arbitrarily, and the flush-policy theorems bound where the real listener places "
                  "them; kernel timers fire no earlier than their deadline (observed one-sidedly).",
    "partial": "the theorems assume no overflow handling is triggered (records shorter than the soft limit); the overflow branch "
               "is covered by totality/differential only",
    "assumptions": ["TCP delivers the byte stream in arbitrary fragments; each Read returns at most the free buffer space"],
}

PROPS["C06"] = {
    "modules": ["SlogModel.Props.C06"],
    "components": [("route", 4000, 80000)],
    "rule": "one case = one real obykeyset orchestrator (recording PipelineStarter) fed records by key tuple, the metric key-set "
            "selector, and a queue root with one directory per pipeline id followed by ListBufferIDs and start-up recovery; "
            "includes ALL tuples of arity 1-2 over {'', a, b, ab, ',', 'a,', '/', NUL} and arity 3 over a 5-symbol alphabet; "
            "distinct by op sequence; every case routes records (non-trivial)",
    "level_text": "Theorems C06_merge_injective (lookup key determines the tuple: any byte strings, arities, empty values), "
                  "C06_routes_own (every arrival order: each record reaches a pipeline created from exactly its own tuple, hence "
                  "its own id / tag / directory / metric labels), C06_id_roundtrip (splitId (joinId ks) = ks: recovery re-attaches "
                  "queues), C06_id_injective, C06_id_nonempty, C06_dir_injective (under the stated MD5-tail hypothesis), C06_queue_dir_recognised_for_every_mode (an entry of the queue root is taken for a queue directory by its file type, for all 4096 settings of the permission / set-id / sticky bits, and a regular file never is; legacy_F29: the test before the repair looked at the others-read bit), proved in "
                  "Lean 4; legacy_* theorems keep the pre-repair collisions as witnesses. Tied to the code by differential runs "
                  "through the real orchestrator / hybridbuffer / counter set and four regenerated source facts.",
    "level_note": "Trusted: Lean kernel + 3 standard axioms; MD5 tail collision-freeness is a hypothesis; tag distinctness is "
                  "NOT claimed (a template such as t.$a.$b maps ('x.y','z') and ('x','y.z') to one tag by the user's choice); "
                  "what is proved is that the tag is the template expanded with the record's own keys.",
    "assumptions": ["distinct pipeline ids with equal sanitised names have distinct 8-hex MD5 tails (probabilistic)",
                    "binary.AppendUvarint = Route.uvarint (differential-checked via pipeline identity)"],
}

PROPS["C14"] = {
    "modules": ["SlogModel.Props.C14"],
    "components": [("redact", 20000, 400000)],
    "rule": "one case = one field value through the real redactEmail transform (value and counter compared); all strings of "
            "length <= 5 (thorough 7) over {a,1,@,.,/,space}, texts built from filler with 0-6 generated addresses (back to "
            "back, truncated, numeric, digit-edged domains); distinct by bytes; non-trivial = contains '@'",
    "level_text": "Theorems C14_no_at_unchanged, C14_spans_ordered (spans non-empty, ordered, disjoint, inside the text: the output "
                  "is the text with exactly these spans replaced, everything else preserved), C14_length, C14_every_at_examined (the scan "
                  "never skips an '@': each one with a word character on both sides is inside a redacted span or was rejected by "
                  "findStart / findEnd), C14_complete_dotted_partial (every address loc@label.d... of the supported shape whose domain is "
                  "not number-like has its '@' inside a redacted span, wherever it sits, back-to-back addresses included), proved in "
                  "Lean 4 on an index-faithful model of redactemail.go. PARTIAL: domains cut by the end of the text, the exact extent "
                  "of the span and soundness (only such addresses are redacted) are decided by the "
                  "correspondence run, whose oracle compares the implementation with a reference redactor written from the "
                  "property's wording. The two deviations from the letter of 'domain not purely numeric' that were known findings (F-22) are repaired; legacy_F22 keeps the old test as a witness, C14_numeric_test_is_the_letter states what the test is now.",
    "level_note": "Trusted: Lean kernel + 3 standard axioms; sampled model-code correspondence; the formalisation of the supported "
                  "address shape (harness oracle / DESIGN.md C14).",
    "partial": "completeness proved for dotted and for truncated domains that are not purely numeric; soundness by the reference-redactor oracle",
    "assumptions": [],
}

PROPS["C10"] = {
    "modules": ["SlogModel.Props.C10"],
    "components": [("ser", 20000, 150000)],
    "rule": "one case = one real eventSerializer (generated schema of 2-20 fields, environment / hidden / rewritten field "
            "choice, chains inline* + copy|unescape) serializing 4 records (each twice: two outputs), bytes compared exactly with "
            "the model and decoded with the vmihailenco decoder; field lengths from {0,1,15,16,17,255,256,65535,65536,70000}, "
            "arbitrary bytes, every escape; plus the unescaper on all strings of length <= 4 over {\\,n,x,t}; distinct by ops; "
            "all non-trivial",
    "level_text": "Theorems C10_decode_encode (for every configuration and record with lengths below 2^32 the emitted bytes decode, "
                  "by a MessagePack decoder written from the format specification, to [EventTime, {visible fields (rewritten where "
                  "configured), environment: {…}}] with nothing left over), C10_time_roundtrip, C10_rewrite_fits, "
                  "C10_unescape_length, C10_bound_sufficient (the repaired buffer sizing always suffices), proved in Lean 4 on a "
                  "byte-exact model of eventserializer.go, the rewriters and the unescaper; tied to the code by byte-exact "
                  "differential runs, the library decoder as oracle, and seven regenerated source facts.",
    "level_note": "Trusted: Lean kernel + 3 standard axioms; the decoder spec MP.decode (written from the msgpack format); the "
                  "sampled model-code correspondence; EventTime carries seconds mod 2^32 (theorem states the range).",
    "assumptions": ["field / name lengths < 2^32 and fewer than 65535 fields (wire-format limits, hypotheses of the theorem)"],
}

PROPS["C11"] = {
    "modules": ["SlogModel.Props.C11"],
    "components": [("pack", 20000, 200000)],
    "rule": "one case = one real chunk maker (Forward / PackedForward / CompressedPackedForward via Config.NewChunkMaker with "
            "lowered limits, Datadog via the verif constructor) driven by 1-14 writes with sizes around the byte limit, record "
            "limits 0/1/3/1000, flushes after any write; every emitted chunk is decoded with the library (payload after gunzip, "
            "count, exact envelope bytes, id sequence re-derived from the clock readings read back from the real ids); distinct "
            "by ops; non-trivial = at least one chunk",
    "level_text": "Theorems C11_concat / C11_concat_flushed (every interleaving of writes and flushes: chunks in emission order "
                  "reproduce the written sequence exactly), C11_count, C11_limits (record limit always, byte limit unless a "
                  "single record), C11_indices, C11_ids_increasing (non-decreasing clock => strictly increasing, unique ids), "
                  "C11_id_format (fixed width, injective), C11_envelope_packed / C11_envelope_forward (request decodes to "
                  "[tag, entries|bin, {size, chunk, compressed?}] by the MessagePack decoder spec), C11_datadog_framing, proved in "
                  "Lean 4 on a model of messagepacker.go / chunk.go / chunkencoder.go / chunkidgen.go; tied to the code by "
                  "differential runs with byte-exact envelopes and six regenerated source facts.",
    "level_note": "Trusted: Lean kernel + 3 standard axioms; gzip (payload compared after gunzip, gunzip . gzip = id assumed), the "
                  "vmihailenco encoder for the envelope (modelled as libStr/libBin/libArrHdr/libUint, differential-checked byte for "
                  "byte), a non-decreasing wall clock (hypothesis of C11_ids_increasing).",
    "assumptions": ["wall clock non-decreasing across chunk creations", "gunzip(gzip(x)) = x"],
}

PROPS["C15"] = {
    "modules": ["SlogModel.Props.C15"],
    "components": [("xform", 12000, 120000)],
    "model_is_oracle": True,
    "rule": "one case = one generated transform program (nesting <= 3; add/del/map/if/switch/block/drop/extractHead/extractTail/"
            "truncate/unescape/redactEmail/parseTime; matchers incl. regex/glob forms equivalent to a prefix test) loaded from "
            "YAML by the real code and run on 8 boundary-biased records, compared field by field with the Lean reference "
            "interpreter; grids: every extract pattern x prepared values x 3 ranges, truncate at every length around multi-byte "
            "characters (through an aliasing addFields), 10 sampling rates x 250 (thorough 2000) records; distinct by ops; all "
            "non-trivial",
    "level_text": "The Lean interpreter Xform.runSteps is the independent reference interpreter the property names; theorems pin its "
                  "documented semantics: C15_sampler_tracks (within one record of the rate at every prefix), C15_first_drop_wins, "
                  "C15_block_inline, C15_if_*, C15_switch_*, C15_match_order_irrelevant, C15_slice_spec (Python slice for all "
                  "bounds), C15_truncate_spec / _ascii, C15_mapvalue_spec, C15_delfields, C15_unescape_once, "
                  "C15_extract_head_decompose (text = left ++ tag ++ right ++ rest, label trimmed, boundary within range), "
                  "C15_extract_head_first (the first boundary), C15_extract_tail_decompose (text = rest ++ left ++ tag ++ right, the "
                  "last boundary within range), C15_truncate_utf8 (a valid UTF-8 value is cut to a valid prefix, at most one character "
                  "short), C15_extract_head_total / _tail_total. The real transforms are compared with the interpreter on generated programs; a "
                  "disagreement is reported with the program and record as replay.",
    "level_note": "Trusted: Lean kernel + 3 standard axioms; sampled correspondence. PARTIAL: replace / extract (Go regexp) and "
                  "general !!regex / !!glob matchers are opaque (only their plumbing is exercised).",
    "partial": "regexp/glob opaque",
    "assumptions": ["pairs of one addFields step do not interfere (Go map iteration order is unspecified)"],
}

PROPS["C16"] = {
    "modules": ["SlogModel.Props.C16"],
    "components": [("cfg", 4000, 100000)],
    "rule": "input level: generated syslog input sections (address, level mapping of 0-10 entries, 0-2 extraction steps, possibly damaged) on a "
            "schema that has the parser's nine fields or lacks one -> real sysloginput.Config.VerifyConfig + NewParser vs CfgFile.inputOK; file-head level: the sample configuration with its schema size, orchestration keys, tag template and metric keys replaced by generated "
            "ones (a key twice, a key in both lists, unknown / no keys, a tag variable that is no key, an empty or uncompilable tag, maxFields too small) -> real "
            "run.NewLoaderFromConfigFile + instantiation vs CfgFile.verify; output-section level: generated serialization / upstream sections (1-3 environment fields, 0-3 hidden fields, 0-3 rewriter "
            "chains inline* + copy|unescape on any field incl. hidden and environment ones, each part damaged with a few percent probability: unknown / empty "
            "field, inline last, a step after the last, an entry without a value, bad mode, missing address / duration) -> real "
            "fluentdforward.Config.VerifyConfig vs CfgSer.verify, accepted ones instantiated by NewEventSerializer and used; file level also on a "
            "variant of the sample with rewriter chains on a hidden and an environment field; transform level: generated valid transform lists (nesting <= 3) and, for EVERY reference / expression / list site of "
            "each, one invalid substitution (unknown / empty / wrong-case field, uncompilable template, out-of-range slice bound, "
            "bad pattern, bad percentage / size, empty list) -> real VerifyTransformConfigs vs Cfg.verifySteps, accepted ones "
            "instantiated and run on records under recover; file level: the sample configuration with every scalar at a "
            "reference / expression / number site substituted and every mapping entry removed / nulled / retyped, loaded by "
            "run.NewLoaderFromConfigFile under recover, accepted files instantiated (parser, transforms, serializers, chunk "
            "makers) and fed records; distinct by op; all non-trivial",
    "level_text": "Theorem C16_verify_sound: every (nested) list of transform configurations accepted by verification constructs "
                  "without reaching any Must.../panic site and the constructed program processes every record without panic "
                  "(mutual structural induction over the configuration AST, reusing the interpreter totality theorem); "
                  "C16_extractor_wf; C16_fact_must_sites (regenerated inventory of 33 Must/panic/Fatal sites in constructors equals "
                  "the reviewed list, each annotated with the check that excludes it); C16_serializer_verify_sound (Model/CfgSer.lean: a Fluentd "
                  "Forward output section that VerifyConfig accepts - environment / hidden fields, a rewriter chain on any field, masked or not, "
                  "message mode, upstream - is instantiated by NewEventSerializer / NewRewritersFromConfig / the rewriters' NewRewriter without "
                  "reaching a panic site or an error value); C16_file_head_verify_sound (Model/CfgFile.lean: schema, by-key-set orchestration "
                  "keys and tag, metric keys as ParseConfigFile checks them never reach NewOrchestrator's Panicf sites, MustCreateFieldLocators or the "
                  "Prometheus client's panic on a repeated label name); C16_input_verify_sound (a syslog input section that VerifyConfig accepts gives "
                  "every connection its parser and extraction transforms without reaching MustNewParser's panic or a Must site of a step). The YAML / "
                  "section-presence glue is decided "
                  "by the correspondence run, where the property itself (error value, never a crash) is the oracle.",
    "level_note": "Trusted: Lean kernel + 3 standard axioms; sampled correspondence of Cfg.verifySteps with the real VerifyConfig "
                  "methods; the text-level template parser and YAML decoding are exercised, not modelled. The "
                  "buffer section, the singleton orchestrator and the Datadog output are covered by the file-level mutation run and the must-site inventory, not by a "
                  "Lean model.",
    "partial": "verification logic of the buffer section, the singleton orchestrator and the Datadog output not modelled in Lean",
    "assumptions": [],
}

PROPS["C02"] = {
    "modules": ["SlogModel.Props.C02"],
    "components": [("client", 400, 6000)],
    "rule": "one case = one script run against the real baseoutput.NewClientWorker with a scripted ClosableClientConnection: "
            "outcome (ok / error / block until close or deadline / unknown-id / out-of-order / positional ACK) of every successive "
            "connect, send, ping and ACK read, 1-12 chunks fed on a schedule, stop and SIGUSR1 at random event counts, max session "
            "age 0/1/2/5/15 ms, GOMAXPROCS 1/2/8 and a yield/sleep pattern inside the connection calls and callbacks; all client "
            "timeouts scaled to 1-20 ms; every connection call and callback is logged under one mutex; distinct by script; "
            "non-trivial = at least one connection or callback event",
    "level_text": "Theorems over every finite action sequence of the transition system Client.step (one action per channel / map / "
                  "connection operation of sender, acknowledger and worker loop, every outcome of connect / send / ACK read, "
                  "every stop and reconnect moment, every interleaving): C02_confirmed_after_ack (a confirmed chunk has sendOk k c "
                  "and later ack k (c | positional) immediately before its report), C02_resolved_exactly_once (taken = confirmed + "
                  "handed back + held, with multiplicity; nothing twice), C02_finished_all_resolved (after OnFinished nothing is "
                  "held), C02_resend_order (ids strictly increase on every connection), C02_dedup_never_removes, "
                  "C02_trace_resolved_once, C02_monitored_trace (a log accepted by the monitor inherits the theorems), "
                  "C02_can_always_deliver / C02_retransmitted_until_acked (no reachable state is a trap: whatever faults and "
                  "interleavings came before, the continuation a well-behaved upstream allows confirms every chunk the client holds, "
                  "oldest first); C02_healthy_future_confirms_everything / C02_healthy_future_exists (from every good state - between two "
                  "sessions, or inside a session in which nothing has failed yet - and with an upstream that from then on behaves, EVERY run "
                  "under every interleaving of sender and acknowledger is at most mu(s) steps long (6 per waiting chunk), stays good, and can "
                  "only stop with leftovers, queue and session empty and every taken chunk confirmed; such a run exists). Tie: the "
                  "log of every run of the real client must be accepted by Client.monitor (it is a run of the transition system, "
                  "with the same confirmations, leftovers and taken chunks) and by Client.checkTrace; eight regenerated source "
                  "facts (acknowledger statement order, leftover sources, sort, lastChunk discipline, channel capacity, final "
                  "hand-over, callback call sites).",
    "level_note": "Trusted: Lean kernel + 3 standard axioms; the monitor correspondence samples schedules of the real goroutines "
                  "(the proof covers all interleavings of the model; the harness samples those of the code); the scripted "
                  "connection honours the contract 'Close makes pending operations return'. PARTIAL: the liveness sentence is proved "
                  "as possibility from every reachable state (C02_can_always_deliver) and, from good states, as bounded termination of every "
                  "fault-free run in the all-confirmed state (C02_healthy_future_confirms_everything); that the real goroutines do take their "
                  "steps (fairness of the Go scheduler) is assumed, and a session with a chunk stranded by an unknown-id ACK is covered by "
                  "the possibility theorem only; the harness reports a client that fails to finish within 25 s of a stop request.",
    "partial": "liveness: possibility from every state, bounded schedule-independent delivery from good states; scheduler fairness assumed; real scheduling sampled",
    "assumptions": ["ClosableClientConnection.Close unblocks pending SendChunk / ReadChunkAck",
                    "chunk ids in the queue are distinct and increasing (C11_ids_increasing)"],
}

PROPS["C03"] = {
    "modules": ["SlogModel.Props.C03"],
    "components": [("buffer", 250, 4000)],
    "rule": "one case = 1-3 generations of the real hybridbuffer (Config.NewBufferer / Accept / RegisterNewConsumer / Destroy) on one "
            "directory: memory window 2/4/8, queue capacity 3/10/50, size limit 0.2-3x the data (or a few bytes), usable or "
            "unusable directory, up to 30 accepts of 0-12 bytes interleaved with consumer takes, confirms (before or after "
            "destroy), hand-backs, files zeroed or removed behind the buffer's back; after every operation the harness waits "
            "until the feeder goroutine is blocked (its state is read from runtime.Stack) and compares all counters and gauges, "
            "window length, the feeder's hand and the directory contents with Buffer.step; concurrent-shutdown cases (Destroy racing "
            "hand-backs from their own goroutines out of a window of 32 / 64 never-spilled chunks) are judged by the oracle alone: "
            "conservation and byte identity of every file; distinct by ops; all non-trivial",
    "level_text": "Theorems over every generation start (any capacities, limits, directory state, files found) and every legal "
                  "operation sequence of Buffer.step: C03_conserved (each accepted / recovered chunk is exactly one of queued, in "
                  "hand, in the window, held by the consumer, confirmed, counted dropped, kept as a file), C03_shutdown_accounted "
                  "(after destroy nothing is queued: held / confirmed / dropped / kept, each once), C03_fifo and "
                  "C03_taken_in_order (consumer order is a subsequence of recovered-in-name-order ++ acceptance order), C03_delivered_unchanged "
                  "and C03_files_hold_accepted_bytes (what the consumer receives, and every file of an accepted id, is byte for byte what was "
                  "accepted or recovered), "
                  "C03_window_bound, C03_recovered_first, C03_space_bound / C03_space_within_limit (the files of the directory never hold more "
                  "than persistent_chunk_bytes, and that gauge never exceeds the configured limit or what was found at the start), "
                  "C03_memory_bound (at every quiescent point every queued entry is unloaded: the loaded chunks are the window and at "
                  "most one in the feeder's hand); C03_loaded_bound_every_schedule (at every point of every interleaving of feeder steps with the operations at most queueCap + 1 + memCap chunks are loaded: input channel, the feeder's hand, window), C03_conserved_every_schedule, C03_fifo_every_schedule, C03_unchanged_every_schedule "
                  "(conservation, FIFO, byte identity and the window bound for every interleaving of single feeder steps with the "
                  "operations, from a start at which nothing has been loaded yet; the quiescing runs are among these schedules: "
                  "C03_quiescent_runs_are_schedules). Tie: state-by-state correspondence of the real buffer with the model at "
                  "every quiescent point (counters, gauges, window, hand, file contents) and seven regenerated source facts "
                  "(non-blocking select in Accept, spill rule, recovery before feeder start, channel capacities, quota test before "
                  "the write, checked hand-back, save order at shutdown).",
    "level_note": "Trusted: Lean kernel + 3 standard axioms; sampled correspondence at quiescent points (between them the real "
                  "goroutines interleave; the harness does not explore those schedules). PARTIAL: the model writes a file atomically with its quota check, so the slack 'plus the chunks being saved "
                  "concurrently at shutdown' and the loaded chunks sitting in the input channel between quiescent points are outside "
                  "the theorems (harness oracle only); in the model a hand-back and the feeder's saving are separate atomic actions (the "
                  "concurrent-shutdown cases run them truly concurrently against the oracle).",
    "partial": "space bound proved at quiescent points, memory bound for every schedule (queueCap + 1 + memCap) and exactly at quiescent points; file writes atomic in the model (C04 models their steps)",
    "assumptions": ["chunk ids are never reused (C11_ids_increasing) and nobody else writes to the queue directory",
                    "file operations are atomic at this level (step-level disk model: C04)"],
}

PROPS["C04"] = {
    "modules": ["SlogModel.Props.C04"],
    "components": [("disk", 400, 4000), ("buffer", 40, 600)],
    "rule": "one case = one victim process (the harness binary re-executed) running the real hybridbuffer and spilling 1-6 chunks, "
            "one write of which suffers a fault: RLIMIT_FSIZE at byte offset k (short write then EFBIG), SIGKILL at a kill point "
            "of util.WriteFileAt (after open / first write / close / rename), or both (killed inside the write at offset k); "
            "grid = sizes {1,2,7,4095,4096,4097 (+1 MiB thorough)} x positions first/middle/last x offsets {1, page boundaries, "
            "n-1, n, n+5} x every kill point, plus random sizes; the directory left behind is compared byte for byte with "
            "Disk.victim, bad files are planted (zero-length, directory under a chunk name, stale temporary), the real buffer is "
            "restarted on the directory with a strict consumer and what it forwards / drops / leaves is compared with the model; "
            "distinct by ops; all non-trivial. buffer: the C03 component, for its shutdown cases with two concurrent writers in one directory (Destroy racing hand-backs), judged by byte identity of every file",
    "level_text": "Theorems on the step-level disk model: C04_write_all_or_nothing (any limit: complete under the final name and "
                  "success, or failure and the final name untouched; temporary name gone; nothing else touched), "
                  "C04_crash_no_torn_final (kill at any step or inside the write at any offset), C04_no_torn_chunk_forwarded (every "
                  "chunk list, position, fault: whatever the next start forwards from the directory is byte-identical to a "
                  "produced chunk, never empty), C04_saved_implies_complete, C04_bad_file_isolated, C04_temp_never_matches, and "
                  "legacy_* witnesses that the code before the repair violated them. Tie: directory contents after real faults in "
                  "a victim process and the forwarded set after a real restart, compared with the model; six regenerated facts "
                  "(system-call sequence of WriteFileAt, write loop, temporary suffix, matchers, saved-after-write order, "
                  "zero-length check).",
    "level_note": "Trusted: Lean kernel + 3 standard axioms; the kernel's file semantics as modelled (openat O_TRUNC, write "
                  "transfers a prefix, rename is atomic, a killed process keeps completed calls); ReadFileAt's single read returns "
                  "the whole file (modelled, not verified). PARTIAL: power loss / unsynced page cache is out of scope (the "
                  "property speaks of process kill and I/O errors).",
    "partial": "power-loss semantics out of scope; ReadFileAt short reads assumed away",
    "assumptions": ["renameat within one directory is atomic", "a single read(2) on a regular chunk file returns the whole file"],
}

PROPS["C17"] = {
    "modules": ["SlogModel.Props.C17"],
    "components": [("reload", 600, 8000)],
    "rule": "one case = one script on the real run.ReloadableOrchestrator (reloads triggered by SIGHUP to the harness process, "
            "succeeding or failing) with recording downstream orchestrators: opens, records, ticks and closes of up to four "
            "client numbers, with pairs of operations overlapped (the first is held inside its first downstream call while the "
            "second starts concurrently: every overlap of a reload with NewSink / Accept / Tick / Close of another connection, "
            "and reuse of a client number after a close); the recorded downstream trace must equal the trace of Reload.run and "
            "satisfy Reload.checkTrace; distinct by script; all non-trivial",
    "level_text": "Theorems over every action sequence of Reload.step (any number of connections, client number = socket "
                  "descriptor handed out only while no open socket has it, registration, records, ticks, closes, successful and "
                  "failed reloads, every interleaving of the lock-protected sections): C17_no_dead_delivery (no downstream call "
                  "reaches a sink of a downstream that was shut down; a new sink never replaces one in place), "
                  "C17_registered_never_crashes (no nil dereference), C17_slots_current, C17_failed_reload_no_effect, "
                  "C17_reload_takes_over, and legacy_F15 / legacy_F16 (the interleavings of the code before the repairs reach a "
                  "violation). Tie: trace equality with the real orchestrator under forced overlaps, the trace predicate evaluated "
                  "in Lean, and six regenerated facts (lock before sink creation in NewSink, every sink method locked, order "
                  "inside reload, sink closed before the socket in the listener, the list of compatibility checks, load-and-check "
                  "before the swap).",
    "level_note": "Trusted: Lean kernel + 3 standard axioms; xsync.RBMutex as a reader/writer lock; the overlaps are forced at "
                  "the first downstream call of an operation (other preemption points inside the real methods are covered by the "
                  "facts, not by schedules). PARTIAL: 'no record lost end to end across a reload' (old pipelines save, new ones "
                  "recover) is the composition with C03 / C01 and is exercised end to end only by the agent harness; the "
                  "listener-level slot reuse is tied by the close-order fact, not by a socket-level schedule.",
    "partial": "end-to-end loss-freedom across reload by composition (C03/C01); listener close order tied by a source fact",
    "assumptions": ["the operating system never hands out a descriptor that is still open",
                    "one goroutine per connection (operations of one connection are sequential)"],
}

PROPS["C01"] = {
    "modules": ["SlogModel.Props.C01", "SlogModel.Lemmas.ClientRefine"],
    "components": [("agent-c01", 100, 800), ("client", 300, 5000), ("buffer", 120, 2000)],
    "rule": 'one case = one end-to-end run of the real agent in process (run.NewLoaderFromConfigFile -> StartOrchestrator -> LaunchInputs: TCP syslog input, extractions, transforms incl. a 100% drop filter, byKeySet orchestration, hybrid buffer, Fluentd Forward output in one of the three message modes) against a scripted fake upstream (per connection attempt: close at once / reset after k chunks / never ACK / late ACK / unknown-id ACK / healthy), 1-3 generations of graceful stop + restart on one queue directory, 1-3 client connections x 10-90 stamped records over 1-3 key sets with malformed and filtered records mixed in, stop after 0-100 ms, upstream session age 0/20/50/150 ms; all timeouts scaled to 10 ms - 2 s; the last generation ends with a healthy upstream; distinct by script; all non-trivial',
    "level_text": 'Theorems over every action sequence of E2E.step (chunk-level system of one pipeline and output across generations; each action is the contract proved for a component: C11 packing, C03 buffer, C02 client, C04 persistence): C01_every_record_accounted (each record read is in the open chunk or in exactly one chunk, which is in exactly one of queued / in flight / acknowledged / counted dropped / on disk), C01_at_rest (while stopped: acknowledged, on disk or counted dropped - nothing only in memory), C01_drained (after a healthy drain: acknowledged or counted dropped), C01_chunk_in_one_place. Refinement (Lemmas/ClientRefine.lean): C01_client_refines_e2e - for every run of the client transition system Client.step (every interleaving of sender, acknowledger and worker loop, every outcome of connect / send / ACK read, every stop moment) the chunk-level view of the client state (waiting = queue, held by the session = in flight, confirmations = acknowledged, handed back + never taken = disk) moves exactly as E2E.step does, each client action being invisible or exactly one of take / ack / connFail / stop (sim_step, sim_run), so the client-side contracts of E2E.step are theorems about Client.step; C01_at_rest_through_client (after any earlier history and any client run up to OnFinished every record read is in a chunk acknowledged, handed back or never taken, or counted dropped). C01_delivered_once_upstream_behaves (at least once, without assuming the drained state: after any history and any faulty client run that ends in a good state, every fault-free client run that cannot be continued - each is at most mu steps long under every interleaving - leaves every record read so far in a chunk the upstream acknowledged or in one counted as dropped; composed from the refinement, the bounded fault-free future of C02 and C01_drained). C01_at_rest_after_every_stop_run (after a stop request every run of the stop path that cannot be continued - at most six steps, C18 - ends finished, and every record read so far is then acknowledged, handed back or never taken, or counted dropped). Interface buffer -> client: C01_buffer_hands_chunks_in_id_order (after any operation sequence of the buffer model the ids the consumer receives increase strictly, given increasing ids of what was recovered and accepted: C03_recovered_first, C11_ids_increasing), which is the precondition of the refinement (C01_buffer_client_refine_e2e). Tie: the end-to-end harness evaluates the conclusion of C01_drained / C01_at_rest and byte identity of every delivered message on real runs; the component models are tied by C02 / C03 / C04 / C11.',
    "level_note": "Trusted: Lean kernel + 3 standard axioms; the abstraction of the packer and the buffer to their proved contracts (the client side of E2E.step is a mechanised refinement of Client.step; the buffer side - accept / drop / save at stop / recover at start - is composed by reading C03's theorems, not by a refinement proof between Buffer.step and E2E.step; in the refinement the client is given the chunks queued for it up front, as Client.init does); sampled end-to-end runs. PARTIAL: 'eventually acknowledged' is a theorem for the client side once the upstream behaves (C01_delivered_once_upstream_behaves), under the assumption that the goroutines take their steps and with the chunks given to the client up front; that the buffer eventually hands every queued chunk to the client is the FIFO / conservation of C03 plus the same fairness assumption; multi-output configurations are independent copies (C12 harness).",
    "partial": 'client side refined mechanically, buffer / packer side composed by contracts; eventual delivery proved for the client side once the upstream behaves, scheduler fairness assumed',
    "assumptions": ["the composition of component contracts in E2E.step matches how the components are wired (read from orchestrate/, buffer/, output/)"],
}

PROPS["C05"] = {
    "modules": ["SlogModel.Props.C05", "SlogModel.Props.C05Path"],
    "components": [("agent-c05", 100, 800), ("client", 300, 5000), ("buffer", 120, 2000)],
    "rule": 'one case = one end-to-end run of the real agent in process (run.NewLoaderFromConfigFile -> StartOrchestrator -> LaunchInputs: TCP syslog input, extractions, transforms incl. a 100% drop filter, byKeySet orchestration, hybrid buffer, Fluentd Forward output in one of the three message modes) against a scripted fake upstream (per connection attempt: close at once / reset after k chunks / never ACK / late ACK / unknown-id ACK / healthy), 1-3 generations of graceful stop + restart on one queue directory, 1-3 client connections x 10-90 stamped records over 1-3 key sets with malformed and filtered records mixed in, stop after 0-100 ms, upstream session age 0/20/50/150 ms; all timeouts scaled to 10 ms - 2 s; the last generation ends with a healthy upstream; distinct by script; all non-trivial',
    "level_text": 'Theorems on the same system: C05_chunks_hold_arrival_order (records of the chunks concatenated in id order = records in arrival order), C05_chunk_order_per_connection (strictly increasing ids on every upstream connection), C05_first_delivery_in_order / _spelled_out (at its first transmission a chunk is newer than everything transmitted before), C05_never_skips_older. From the connection handler to the pipeline channel (Model/Dist.lean: the buffer of the parsing sink, the per-connection buffer of each key set, the shared channel; parsing, hand-over and flushing are separate actions, so every threshold / tick / close pattern on any number of connections is one of the interleavings): C05_path_keeps_order (what the channel of a key set received from a connection is, in order, a subsequence of what was parsed on it for that key set and a prefix of what was not discarded - the flush that times out on a full channel and drops its batch is an action of the model), C05_path_prefix_without_discards and C05_path_complete_when_flushed (when no flush timed out); five regenerated source facts (append, whole-buffer hand-over, per-record loop, copy-and-send). Tie: the harness checks chunk-id order per upstream connection and tag and first-delivery order per (client connection, key set) from per-record stamps on real runs with spills, restarts and retransmissions.',
    "level_note": "Trusted: as C01; order within one client connection is C08 (framing), then Dist.step up to the pipeline channel, then the pipeline worker (one goroutine per key set, batches and records in order: C12 / C11). The timeout branch of channelInputBuffer.Flush (a batch discarded when the pipeline channel stays full; logged as a bug by the code) is the action cdiscard of the path model: it loses records (C01's concern, counted nowhere) but not their order.",
    "partial": 'composition of the stage models by reading',
    "assumptions": ["the composition of component contracts in E2E.step matches how the components are wired (read from orchestrate/, buffer/, output/)"],
}

PROPS["C18"] = {
    "modules": ["SlogModel.Props.C18"],
    "components": [("agent-c18", 100, 800), ("client", 300, 5000), ("buffer", 40, 600)],
    "rule": 'one case = one end-to-end run of the real agent in process (run.NewLoaderFromConfigFile -> StartOrchestrator -> LaunchInputs: TCP syslog input, extractions, transforms incl. a 100% drop filter, byKeySet orchestration, hybrid buffer, Fluentd Forward output in one of the three message modes) against a scripted fake upstream (per connection attempt: close at once / reset after k chunks / never ACK / late ACK / unknown-id ACK / healthy), 1-3 generations of graceful stop + restart on one queue directory, 1-3 client connections x 10-90 stamped records over 1-3 key sets with malformed and filtered records mixed in, stop after 0-100 ms, upstream session age 0/20/50/150 ms; all timeouts scaled to 10 ms - 2 s; the last generation ends with a healthy upstream; every second case has one more client that keeps writing right through every stop, every sixth a further datadog output whose upstream accepts the request and never answers (a forwarder that cannot be interrupted, with a request in flight at the stop: the stop must still return within the bound); distinct by script; all non-trivial',
    "level_text": 'C18_client_can_always_finish (from every state of the client transition system with a stop request, a plan of at most five enabled actions - enter collectLeftovers, end the acknowledger, merge, hand back, OnFinished - reaches finished: the client can never wedge), C18_every_stop_run_ends_finished (once the stop is requested EVERY run of the actions of the stop path - enter collectLeftovers, the pending ACK read fails, the acknowledger is aborted (once per session) or sees its channel closed, merge, hand back - has at most six steps, and in every state on the way one of them is enabled: it cannot end before OnFinished), C18_buffer_destroy_enabled (destroy is always enabled and leaves nothing in memory; with C03_shutdown_accounted every chunk is saved or counted), four facts (every select of the client has a stop case, the stop signal aborts the connection, every wait on the stop path has a timeout, every I/O call sets a deadline). Tie: wall time of every graceful stop of the real agent against the sum of the scaled timeouts, for refusing / resetting / silent / late upstreams and loads from idle to pending ACKs.',
    "level_note": "Trusted: Lean kernel + 3 standard axioms. PARTIAL: time is not in the models - the bound itself is measured by the harness, the theorems decide absence of wedging and the number of bounded waits; 'blocked mid-write' upstreams are emulated by never reading ACK-less connections, not by a full TCP window.",
    "partial": 'time bound measured, not proved; wedge-freedom and a six-step bound on every stop-path run proved on the models',
    "assumptions": ["the composition of component contracts in E2E.step matches how the components are wired (read from orchestrate/, buffer/, output/)"],
}

PROPS["C19"] = {
    "modules": ["SlogModel.Props.C19"],
    "components": [("agent-c19", 100, 800), ("buffer", 150, 2500), ("route", 1500, 30000), ("client", 300, 5000)],
    "rule": 'one case = one end-to-end run of the real agent in process (run.NewLoaderFromConfigFile -> StartOrchestrator -> LaunchInputs: TCP syslog input, extractions, transforms incl. a 100% drop filter, byKeySet orchestration, hybrid buffer, Fluentd Forward output in one of the three message modes) against a scripted fake upstream (per connection attempt: close at once / reset after k chunks / never ACK / late ACK / unknown-id ACK / healthy), 1-3 generations of graceful stop + restart on one queue directory, 1-3 client connections x 10-90 stamped records over 1-3 key sets with malformed and filtered records mixed in, stop after 0-100 ms, upstream session age 0/20/50/150 ms; all timeouts scaled to 10 ms - 2 s; the last generation ends with a healthy upstream; distinct by script; all non-trivial',
    "level_text": "C19_buffer_balance (pending = inputs - consumed - leftover - dropped in every reachable state of the buffer model), C19_dropped_counts_drops / C19_consumed_counts_confirms (the counters are exactly the drops / confirmations the conservation theorem speaks of), C19_shutdown_balance (accepted + recovered = consumed + dropped + kept), C19_input_counted_once (from C09); over every run of the client transition system: C19_client_acknowledged_counts_confirmations (acknowledged_chunks_total = number of chunks reported delivered, all distinct), C19_client_acknowledged_le_forwarded (every acknowledged chunk was counted as forwarded before; acknowledged <= forwarded, forwarded = complete transmissions incl. retransmissions), C19_client_balance (taken = acknowledged + handed back + still held); C19_labelled_counter_counts_its_records (for every record sequence the increments that went to the counter set labelled t are the records whose metric key values are t: from the length-prefixed merge being injective, C06); two facts (client metric call sites, pending gauge in every On* callback). Tie: C03's state comparison covers every buffer counter after every operation; the client component compares the real client's forwarded / acknowledged counters with Client.forwardedN / acknowledgedN of the accepted run (client tracem) and with what the scripted upstream received; the end-to-end harness compares the summed counters of real runs with its own event counts (lines sent = input passed + dropped, malformed = input dropped, input passed = pipeline passed + dropped, filtered = pipeline dropped, consumed = distinct chunks acknowledged by the upstream = output acknowledged).",
    "level_note": 'Trusted: Lean kernel + 3 standard axioms. PARTIAL: byte counters of the client and label attribution are tied by facts, the byte-exact client oracle and the end-to-end comparison, not modelled.',
    "partial": 'client byte counters not modelled (chunk counters and label attribution are)',
    "assumptions": ["the composition of component contracts in E2E.step matches how the components are wired (read from orchestrate/, buffer/, output/)"],
}

PROPS["C07"] = {
    "modules": ["SlogModel.Props.C07"],
    "components": [("pipe-c07", 1500, 30000), ("agent-c07", 30, 300), ("parse", 6000, 100000), ("ser", 1500, 20000), ("xform", 4000, 40000), ("route", 1500, 30000), ("flush", 1, 24)],
    "rule": "pipe: one case = one real record path (syslog parser with limits 60/200/2000 and two level mappings, a generated "
            "transform program over a 15-field schema fed by the parsed fields, the Fluentd event serializer with environment / "
            "hidden fields and unescape rewriters) processing 8 lines - the parser's hostile corpus, binary garbage behind a valid "
            "PRI, NIL / short / empty timestamps, long repeated values, ordinary records - then a well-formed sentinel; each "
            "outcome (rejected / filtered / serialized bytes) is compared with Pipe.process. agent: one case = one end-to-end run "
            "with three extra client connections sending malformed headers, NIL and short timestamps, 70 kB host fields, 300 kB "
            "messages, invalid UTF-8, binary garbage, a reset and a disconnect inside a record, next to ordinary clients whose "
            "records must all be delivered unaltered; flush: its corpus, for the listener-level cases (a moment without a free file descriptor, pauses inside a line); distinct by ops; all non-trivial",
    "level_text": "C07_pipeline_total (for every byte string, receive time and sampler state the parse -> transform -> serialize "
                  "path of Pipe.process returns - rejected, filtered or serialized - never a panic; composed from C09_total, "
                  "XT.runSteps_total for every program the configuration check accepts, and the serializer model) and "
                  "C07_stream_total (every sequence of lines is processed to its end, one outcome per line). C07_listener_keeps_accepting (the accept loop as a small transition system: after every sequence of connections and temporary accept failures - no free file descriptor, no buffer space, an aborted connection - the listener still accepts and has accepted every connection; legacy_F30: before the repair one such failure ended it; fact on the error branches). Framing and timestamp "
                  "totality are C08 / C13. Tie: outcome-by-outcome comparison of the real record path with the composed model on "
                  "generated programs and hostile lines; end-to-end hostile TCP streams with sentinel delivery.",
    "level_note": "Trusted: Lean kernel + 3 standard axioms; regexp-based transforms are opaque in the model (their Go code is "
                  "exercised by the agent runs only); the chunk maker and the output side are C11 / C02. PARTIAL: 'keeps accepting "
                  "connections' is modelled for the accept loop's error handling only and otherwise observed (later generations connect, the probe after the reset storm, the listener-level exhaustion case).",
    "partial": "listener liveness modelled for the accept loop only, otherwise observed; regexp transforms opaque",
    "assumptions": ["the transform program is one the configuration check accepts (C16_verify_sound)"],
}

PROPS["C12"] = {
    "modules": ["SlogModel.Props.C12", "SlogModel.Props.C12Pool"],
    "components": [("pipe-c12", 1500, 30000), ("agent-c12", 40, 400), ("route", 1500, 30000), ("pool", 3000, 60000)],
    "rule": "one case = one long-lived real record path (pooled records and backing buffers, released after every record) "
            "processing 9 lines of mixed size and shape; every line is processed again on a freshly built path; both outcomes must "
            "be identical (unless the program samples by percentage) and equal to Pipe.process; pool: one case = one real LogAllocator (1-6 "
            "fields wide, fewer of them named, 1-3 outputs) driven by 4-40 NewRecord (short and pooled-buffer inputs) / field and header writes / Release calls incl. dropped records, every observation incl. which pooled record and which backing buffer was handed out "
            "compared with Pool.step; distinct by ops; all non-trivial",
    "level_text": "runSteps_stateless (a transform program without percentage sampling returns the state it was given and its "
                  "result does not depend on it; mutual induction over steps and switch cases), process_stateless and "
                  "C12_isolated (the outcome of a line after any sequence of other lines equals its outcome on a fresh pipeline). The pooling "
                  "mechanism itself (Model/Pool.lean = base/logallocator.go; Props/C12Pool.lean): C12_pool_holds_clean_records (after every sequence of "
                  "NewRecord / field writes / Release - any number of outputs, any choice sync.Pool makes, records released fewer times than they have "
                  "outputs - every pooled record has all fields empty, raw length 0, zero timestamp, count 0, no backing buffer), "
                  "C12_new_record_is_clean (the record NewRecord hands out carries nothing of an earlier one and has one reference per output), "
                  "C12_live_counts_positive (Release cannot reach the negative-count panic on a record that is handed out); C12_one_release_per_output_recycles (after NewRecord the `outputs` releases of a record that passes are all enabled and the last one recycles it; a dropped record is released once; the inventory of Release call sites is a fact), C12_backing_buffers_disjoint (whichever pooled record and pooled buffer the pools hand out, no backing buffer is referenced by two handed-out records and none sits in the buffer pool while a handed-out record references it: the bytes a record's field values point into are never another live record's); the one flag Release leaves "
                  "behind, Unescaped, is assigned by the parser for every record (fact); three whole-body facts. "
                  "Tie: the pool component drives the real LogAllocator (which pooled record sync.Pool returned is observed by pointer identity and told "
                  "to the model) and compares every observation;  long-lived versus fresh real pipelines and the composed model, record by record; pooled-record layouts, "
                  "second serialization and live-chunk aliasing are covered by the C10 / C11 harnesses.",
    "level_note": "Trusted: Lean kernel + 3 standard axioms. The record pool and the hand-out / return of backing buffers are modelled "
                  "(buffers identified by the address of their first byte in the harness); what a component keeps of a record's bytes after the "
                  "record is released (cache keys, labels, templates) and every other reused buffer are not in the models - "
                  "that is what the correspondence (pooled layouts, long-lived vs fresh pipelines) decides; multi-output runs serialize each record "
                  "twice in the C10 harness.",
    "assumptions": ["percentage sampling is the only documented cross-record state"],
}

NOT_APPLICABLE = {k: "check not built yet in this round (planned in DESIGN.md section 6); no claim is made" for k in
                  ["C%02d" % i for i in range(1, 20)]}

HOOK_COMMITS = ["b1a24e0", "ad52c8e", "4fe92da"]
