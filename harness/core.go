package main

import (
	"bufio"
	"encoding/hex"
	"encoding/json"
	"fmt"
	"io"
	"math/rand"
	"os"
	"os/exec"
	"sort"
	"strconv"
	"strings"
	"time"
)

// ---------- inputs ----------

// Op is one request of the line protocol: a name, byte-string arguments (hex on the wire) and integer arguments.
type Op struct {
	Name  string   `json:"op"`
	Bytes [][]byte `json:"-"`
	Hex   []string `json:"bytes"`
	Ints  []int64  `json:"ints"`
	Strs  []string `json:"strs,omitempty"` // plain tokens (no spaces)
	Meta  string   `json:"meta,omitempty"` // generator knowledge for the oracle; not sent to the driver
}

// Case is a sequence of operations run on a fresh instance of the component.
type Case struct {
	Ops []Op
	Tag string // generator stream that produced it
}

func hx(b []byte) string {
	if len(b) == 0 {
		return "-"
	}
	return hex.EncodeToString(b)
}

func unhx(s string) []byte {
	if s == "-" {
		return nil
	}
	b, err := hex.DecodeString(s)
	if err != nil {
		panic(err)
	}
	return b
}

// Line renders the request line: "<name> <strs...> <ints...> <hex...>"
func (o Op) Line() string {
	var sb strings.Builder
	sb.WriteString(o.Name)
	for _, s := range o.Strs {
		sb.WriteByte(' ')
		sb.WriteString(s)
	}
	for _, i := range o.Ints {
		sb.WriteByte(' ')
		sb.WriteString(strconv.FormatInt(i, 10))
	}
	for _, b := range o.Bytes {
		sb.WriteByte(' ')
		sb.WriteString(hx(b))
	}
	return sb.String()
}

func (c Case) Lines() []string {
	out := make([]string, len(c.Ops))
	for i, o := range c.Ops {
		out[i] = o.Line()
	}
	return out
}

func (c Case) Key() string { return strings.Join(c.Lines(), "\n") }

func (c Case) jsonable() []Op {
	ops := make([]Op, len(c.Ops))
	for i, o := range c.Ops {
		o.Hex = make([]string, len(o.Bytes))
		for j, b := range o.Bytes {
			o.Hex[j] = hx(b)
		}
		ops[i] = o
	}
	return ops
}

func caseFromJSON(ops []Op) Case {
	for i := range ops {
		ops[i].Bytes = make([][]byte, len(ops[i].Hex))
		for j, h := range ops[i].Hex {
			ops[i].Bytes[j] = unhx(h)
		}
	}
	return Case{Ops: ops, Tag: "replay"}
}

// ---------- component interface ----------

// Component ties one part of the implementation to its Lean model.
type Component interface {
	Name() string
	// Generate emits cases: boundary corpus first, then n*scale random ones.
	Generate(rng *rand.Rand, n int, emit func(Case))
	// Impl runs the real code on a fresh instance, one response line per op (canonical form shared with the driver).
	Impl(c Case) []string
	// Oracle evaluates the property itself on the implementation's behaviour, independently of the model.
	// Returns "" when it holds (or says nothing) and a description otherwise.
	Oracle(c Case, implOut []string) string
	// Class names the branch the case exercised (for the distribution); "trivial:..." marks trivial cases.
	Class(c Case, implOut []string) string
}

// Deriver is implemented by components whose model requests depend on what the implementation did (clock readings,
// generated ids, …): after Impl, extra requests for the driver are derived together with the implementation's answers.
type Deriver interface {
	Derive(c Case, implOut []string) (ops []Op, impl []string)
}

// expand runs the implementation and returns all request lines and the implementation's answers (base + derived).
func expand(comp Component, c Case) (lines []string, impl []string, base []string) {
	base = safeImpl(comp, c)
	lines = c.Lines()
	impl = append([]string{}, base...)
	if d, ok := comp.(Deriver); ok {
		func() {
			defer func() {
				if r := recover(); r != nil {
					lines = append(lines, "derive-panicked")
					impl = append(impl, fmt.Sprint("derive panic: ", r))
				}
			}()
			ops, extra := d.Derive(c, base)
			for _, o := range ops {
				lines = append(lines, o.Line())
			}
			impl = append(impl, extra...)
		}()
	}
	return lines, impl, base
}

// safeImpl runs Impl and turns a panic that escaped the component's own recover into a response.
func safeImpl(comp Component, c Case) (out []string) {
	defer func() {
		if r := recover(); r != nil {
			out = []string{"panic escaped: " + fmt.Sprint(r)}
		}
	}()
	return comp.Impl(c)
}

func safeClass(comp Component, c Case, impl []string) (cls string) {
	defer func() {
		if r := recover(); r != nil {
			cls = "unclassified"
		}
	}()
	return comp.Class(c, impl)
}

// ---------- driver ----------

type Driver struct {
	cmd *exec.Cmd
	in  *bufio.Writer
	out *bufio.Reader
	w   io.WriteCloser
}

func StartDriver(path string) (*Driver, error) {
	// deep (non-tail) recursion of some model functions on MiB-sized inputs needs a large stack
	cmd := exec.Command("/bin/sh", "-c", "ulimit -s unlimited 2>/dev/null || ulimit -s 4000000 2>/dev/null; exec \"$0\"", path)
	w, err := cmd.StdinPipe()
	if err != nil {
		return nil, err
	}
	r, err := cmd.StdoutPipe()
	if err != nil {
		return nil, err
	}
	cmd.Stderr = os.Stderr
	if err := cmd.Start(); err != nil {
		return nil, err
	}
	return &Driver{cmd: cmd, in: bufio.NewWriterSize(w, 1<<20), out: bufio.NewReaderSize(r, 1<<20), w: w}, nil
}

// Run sends the lines of all cases followed by one sync and returns the responses per case.
func (d *Driver) Run(cases [][]string) ([][]string, error) {
	errc := make(chan error, 1)
	go func() {
		for _, c := range cases {
			for _, l := range c {
				d.in.WriteString(l)
				d.in.WriteByte('\n')
			}
		}
		d.in.WriteString("sync\n")
		errc <- d.in.Flush()
	}()
	res := make([][]string, len(cases))
	for i, c := range cases {
		res[i] = make([]string, len(c))
		for j := range c {
			l, err := d.out.ReadString('\n')
			if err != nil {
				return nil, fmt.Errorf("driver ended early: %w", err)
			}
			res[i][j] = strings.TrimRight(l, "\n")
		}
	}
	l, err := d.out.ReadString('\n')
	if err != nil || strings.TrimRight(l, "\n") != "sync" {
		return nil, fmt.Errorf("driver out of sync: %q %v", l, err)
	}
	if err := <-errc; err != nil {
		return nil, err
	}
	return res, nil
}

func (d *Driver) Close() {
	d.w.Close()
	d.cmd.Wait()
}

// ---------- results ----------

type Mismatch struct {
	Kind      string   `json:"kind"` // "oracle" (property fails on the implementation) or "correspondence"
	Component string   `json:"component"`
	Tag       string   `json:"tag"`
	Ops       []Op     `json:"ops"`
	Impl      []string `json:"impl"`
	Model     []string `json:"model,omitempty"`
	Why       string   `json:"why"`
	Requests  []string `json:"requests,omitempty"`
}

type Summary struct {
	Component       string         `json:"component"`
	Seed            int64          `json:"seed"`
	Evaluations     int            `json:"evaluations"`
	Distinct        int            `json:"distinct"`
	NonTrivial      int            `json:"distinct_nontrivial"`
	Dist            map[string]int `json:"distribution"`
	Samples         []any          `json:"samples"`
	Mismatches      []Mismatch     `json:"mismatches"`
	DriverUsed      bool           `json:"driver_used"`
	BudgetExhausted bool           `json:"budget_exhausted,omitempty"`
	Skipped         int            `json:"skipped,omitempty"`
	Notes           []string       `json:"notes,omitempty"`
}

func truncLines(l []string) []string {
	out := make([]string, 0, len(l))
	for i, s := range l {
		if i >= 12 {
			out = append(out, fmt.Sprintf("… %d more lines", len(l)-i))
			break
		}
		if len(s) > 400 {
			s = s[:400] + fmt.Sprintf("…(%d bytes)", len(s))
		}
		out = append(out, s)
	}
	return out
}

func equalLines(a, b []string) bool {
	if len(a) != len(b) {
		return false
	}
	for i := range a {
		if a[i] != b[i] && b[i] != "any" { // "any": the model makes no statement about this request
			return false
		}
	}
	return true
}

// ---------- the differential run ----------

type runner struct {
	comp          Component
	drv           *Driver
	sum           *Summary
	seen          map[string]bool
	maxMis        int
	wantKey       string
	keyed         map[string]bool
	unkeyed       int
	unkeyedOracle int
	started       time.Time
	exhausted     bool
}

func (r *runner) modelOutLines(lines []string) []string {
	if r.drv == nil {
		return nil
	}
	res, err := r.drv.Run([][]string{lines})
	if err != nil {
		fmt.Fprintln(os.Stderr, "driver error:", err)
		os.Exit(3)
	}
	return res[0]
}

func (r *runner) modelOut(c Case) []string {
	if r.drv == nil {
		return nil
	}
	lines, _, _ := expand(r.comp, c)
	res, err := r.drv.Run([][]string{lines})
	if err != nil {
		fmt.Fprintln(os.Stderr, "driver error:", err)
		os.Exit(3)
	}
	return res[0]
}

// findingKey extracts the "[key=…]" prefix an oracle puts on failures of a recorded class.
func findingKey(why string) string {
	if strings.HasPrefix(why, "[key=") {
		if i := strings.IndexByte(why, ']'); i > 0 {
			return why[5:i]
		}
	}
	return ""
}

// fails reports whether the case still shows a failure of the given kind (and, for oracle failures, of the same class).
func (r *runner) fails(c Case, kind string) bool {
	lines, impl, base := expand(r.comp, c)
	if kind == "oracle" {
		w := r.comp.Oracle(c, base)
		return w != "" && findingKey(w) == r.wantKey
	}
	return !equalLines(impl, r.modelOutLines(lines))
}

func (r *runner) shrink(c Case, kind string) Case {
	budget := 400
	size := 0
	for _, o := range c.Ops {
		for _, b := range o.Bytes {
			size += len(b)
		}
	}
	if size > 1<<20 { // every attempt re-runs the whole case: keep it short for MiB-sized cases
		budget = 40
	}
	deadline := time.Now().Add(30 * time.Second) // slow cases (seconds each) must not turn one mismatch into minutes of shrinking
	try := func(cand Case) bool {
		if budget <= 0 || time.Now().After(deadline) {
			return false
		}
		budget--
		return r.fails(cand, kind)
	}
	// 1. drop operations (keep the first op: it usually configures the instance)
	for changed := true; changed && len(c.Ops) > 1 && budget > 0; {
		changed = false
		for i := len(c.Ops) - 1; i >= 1 && budget > 0; i-- {
			cand := Case{Tag: c.Tag, Ops: append(append([]Op{}, c.Ops[:i]...), c.Ops[i+1:]...)}
			if try(cand) {
				c = cand
				changed = true
			}
		}
	}
	// 2. shrink byte arguments: remove chunks of halving size
	for oi := range c.Ops {
		for bi := range c.Ops[oi].Bytes {
			b := c.Ops[oi].Bytes[bi]
			for chunk := len(b) / 2; chunk >= 1 && budget > 0; chunk /= 2 {
				for start := 0; start+chunk <= len(b) && budget > 0; {
					nb := append(append([]byte{}, b[:start]...), b[start+chunk:]...)
					cand := cloneCase(c)
					cand.Ops[oi].Bytes[bi] = nb
					if try(cand) {
						b = nb
						c = cand
					} else {
						start += chunk
					}
				}
			}
		}
	}
	return c
}

func cloneCase(c Case) Case {
	n := Case{Tag: c.Tag, Ops: make([]Op, len(c.Ops))}
	for i, o := range c.Ops {
		no := Op{Name: o.Name, Ints: append([]int64{}, o.Ints...), Strs: append([]string{}, o.Strs...), Meta: o.Meta}
		no.Bytes = make([][]byte, len(o.Bytes))
		for j, b := range o.Bytes {
			no.Bytes[j] = append([]byte{}, b...)
		}
		n.Ops[i] = no
	}
	return n
}

func (r *runner) record(c Case, kind, why string) {
	r.wantKey = ""
	if kind == "oracle" {
		r.wantKey = findingKey(why)
		if r.wantKey != "" { // one witness per recorded class is enough
			if r.keyed[r.wantKey] {
				return
			}
			r.keyed[r.wantKey] = true
		}
	}
	// separate budgets: correspondence mismatches must not crowd out failing inputs found by the property oracle
	if r.wantKey == "" {
		if kind == "oracle" {
			if r.unkeyedOracle >= r.maxMis {
				return
			}
			r.unkeyedOracle++
		} else {
			if r.unkeyed >= r.maxMis {
				return
			}
			r.unkeyed++
		}
	}
	small := r.shrink(c, kind)
	if !r.fails(small, kind) {
		small = c // the failure does not reproduce on the shrunk case: keep the original
	}
	lines, impl, base := expand(r.comp, small)
	if kind == "oracle" {
		if w := r.comp.Oracle(small, base); w != "" {
			why = w
		}
	}
	r.sum.Mismatches = append(r.sum.Mismatches, Mismatch{
		Kind: kind, Component: r.comp.Name(), Tag: c.Tag, Ops: small.jsonable(),
		Impl: impl, Model: r.modelOutLines(lines), Why: why, Requests: lines,
	})
}

func (r *runner) flush(batch []Case) {
	if len(batch) == 0 {
		return
	}
	impls := make([][]string, len(batch))
	bases := make([][]string, len(batch))
	lines := make([][]string, len(batch))
	for i, c := range batch {
		lines[i], impls[i], bases[i] = expand(r.comp, c)
		if budget > 0 && time.Since(r.started) > budget && i+1 < len(batch) {
			// out of time inside a batch: evaluate what has been run, leave the rest
			r.sum.Skipped += len(batch) - (i + 1)
			batch, lines, impls, bases = batch[:i+1], lines[:i+1], impls[:i+1], bases[:i+1]
			r.exhausted = true
			break
		}
	}
	var models [][]string
	if r.drv != nil {
		var err error
		models, err = r.drv.Run(lines)
		if err != nil {
			fmt.Fprintln(os.Stderr, "driver error:", err)
			os.Exit(3)
		}
	}
	for i, c := range batch {
		r.sum.Evaluations++
		cls := safeClass(r.comp, c, bases[i])
		r.sum.Dist[c.Tag+"/"+cls]++
		key := c.Key()
		if !r.seen[key] {
			r.seen[key] = true
			r.sum.Distinct++
			if !strings.HasPrefix(cls, "trivial") {
				r.sum.NonTrivial++
			}
			if len(r.sum.Samples) < 6 && r.sum.Distinct%97 == 1 {
				r.sum.Samples = append(r.sum.Samples, map[string]any{"ops": truncLines(lines[i]), "impl": truncLines(impls[i]), "class": cls})
			}
		}
		if why := r.comp.Oracle(c, bases[i]); why != "" {
			r.record(c, "oracle", why)
			continue
		}
		if models != nil && !equalLines(impls[i], models[i]) {
			r.record(c, "correspondence", "implementation and model outputs differ")
		}
	}
}

// budget: wall-clock limit for generating and evaluating cases (0 = none).  When it runs out the run stops after the batch in
// progress and the summary says so: a check that could not finish must not look like one that found nothing.
var budget time.Duration

func runComponent(comp Component, driverPath string, seed int64, n int, replay *Case) *Summary {
	sum := &Summary{Component: comp.Name(), Seed: seed, Dist: map[string]int{}}
	started := time.Now()
	exhausted := false
	r := &runner{comp: comp, sum: sum, seen: map[string]bool{}, maxMis: 5, keyed: map[string]bool{}, started: started}
	if driverPath != "" {
		d, err := StartDriver(driverPath)
		if err != nil {
			fmt.Fprintln(os.Stderr, "cannot start driver:", err)
			os.Exit(3)
		}
		defer d.Close()
		r.drv = d
		sum.DriverUsed = true
	}
	if replay != nil {
		r.flush([]Case{*replay})
		return sum
	}
	rng := rand.New(rand.NewSource(seed))
	batch := make([]Case, 0, 512)
	size := 0
	comp.Generate(rng, n, func(c Case) {
		if exhausted || r.exhausted {
			exhausted = true
			sum.Skipped++
			return
		}
		batch = append(batch, c)
		for _, o := range c.Ops {
			for _, b := range o.Bytes {
				size += len(b)
			}
		}
		if len(batch) >= 512 || size > 4<<20 || (budget > 0 && len(batch) >= 16 && time.Since(started) > budget/2) {
			r.flush(batch)
			batch = batch[:0]
			size = 0
			if budget > 0 && time.Since(started) > budget {
				exhausted = true
			}
		}
	})
	if !exhausted {
		r.flush(batch)
	} else {
		sum.Skipped += len(batch)
	}
	if exhausted || r.exhausted {
		sum.BudgetExhausted = true
		sum.Notes = append(sum.Notes, fmt.Sprintf("time budget of %s exhausted after %d cases; %d generated cases were not run", budget, sum.Evaluations, sum.Skipped))
	}
	return sum
}

func writeJSON(path string, v any) {
	b, _ := json.MarshalIndent(v, "", " ")
	if path == "" || path == "-" {
		os.Stdout.Write(b)
		os.Stdout.WriteString("\n")
		return
	}
	if err := os.WriteFile(path, b, 0o644); err != nil {
		panic(err)
	}
}

func sortedKeys(m map[string]int) []string {
	ks := make([]string, 0, len(m))
	for k := range m {
		ks = append(ks, k)
	}
	sort.Strings(ks)
	return ks
}
