package main

// C17 — the real run.ReloadableOrchestrator with recording downstream orchestrators.
//
// One case = one script over the orchestrator API for several client numbers: open (NewSink), accept, tick, close, reload
// (SIGHUP to this process, succeeding or failing), optionally overlapped: "ov A | B" starts A, holds it inside its first
// downstream call (the recording downstream pauses there), starts B concurrently, then lets A continue.  Because every
// sink method and NewSink run under the read side and reload under the write side of one lock, the recorded downstream
// trace must equal the model's trace of A;B.  The Go oracle checks the property on the trace itself.

import (
	"fmt"
	"math/rand"
	"net"
	"os"
	"strconv"
	"strings"
	"sync"
	"syscall"
	"time"

	"github.com/prometheus/client_golang/prometheus"
	"github.com/relex/gotils/channels"
	"github.com/relex/gotils/logger"
	"github.com/relex/gotils/promexporter/promext"
	"github.com/relex/slog-agent/base"
	"github.com/relex/slog-agent/input/tcplistener"
	"github.com/relex/slog-agent/run"
)

var reloadFull = map[string][]string{}

type reloadComp struct{}

func init() { register("reload", func() Component { return &reloadComp{} }) }

func (r *reloadComp) Name() string { return "reload" }

// ---- recording downstream ----

type recWorld struct {
	mu       sync.Mutex
	log      []string
	full     []string // log plus the return of every held call
	nextSid  int
	pauseArm bool          // the next downstream call pauses after logging
	paused   chan struct{} // signalled when a call is paused
	release  chan struct{} // closed to let it continue
	shut     map[int]bool
}

func (w *recWorld) event(s string) {
	w.mu.Lock()
	w.log = append(w.log, s)
	w.full = append(w.full, s)
	var rel chan struct{}
	if w.pauseArm {
		w.pauseArm = false
		rel = w.release
		close(w.paused)
	}
	w.mu.Unlock()
	if rel != nil {
		<-rel
		// the held call returns only now: recorded for the oracle (not part of the trace compared with the model)
		w.mu.Lock()
		w.full = append(w.full, "end-"+s)
		w.mu.Unlock()
	}
}

type recOrch struct {
	w   *recWorld
	gen int
}

type recSink struct {
	w   *recWorld
	sid int
}

func (o *recOrch) NewSink(addr string, num base.ClientNumber) base.BufferReceiverSink {
	o.w.mu.Lock()
	sid := o.w.nextSid
	o.w.nextSid++
	o.w.mu.Unlock()
	o.w.event(fmt.Sprintf("ns:%d:%d:%d", sid, o.gen, num))
	return &recSink{o.w, sid}
}

func (o *recOrch) Shutdown() { o.w.event(fmt.Sprintf("sd:%d", o.gen)) }

func (s *recSink) Accept(buffer []*base.LogRecord) {
	rec := -1
	if len(buffer) > 0 {
		rec = buffer[0].RawLength
	}
	s.w.event(fmt.Sprintf("ac:%d:%d", s.sid, rec))
}
func (s *recSink) Tick()  { s.w.event(fmt.Sprintf("tk:%d", s.sid)) }
func (s *recSink) Close() { s.w.event(fmt.Sprintf("cl:%d", s.sid)) }

// ---- one script ----

var reloadMu sync.Mutex // SIGHUP is process-wide: one reloadable orchestrator at a time

type reloadRun struct {
	w        *recWorld
	orc      *run.ReloadableOrchestrator
	sinks    map[int]base.BufferReceiverSink
	gen      int
	failNext bool
	silent   bool
	mu       sync.Mutex
}

func (rr *reloadRun) doOp(tok string) (err string) {
	defer func() {
		if rec := recover(); rec != nil {
			err = "panic " + panicKind(rec)
		}
	}()
	f := strings.Split(tok, ":")
	switch f[0] {
	case "o":
		n, _ := strconv.Atoi(f[1])
		s := rr.orc.NewSink(fmt.Sprintf("client-%d", n), base.ClientNumber(n))
		rr.mu.Lock()
		rr.sinks[n] = s
		rr.mu.Unlock()
	case "a":
		n, _ := strconv.Atoi(f[1])
		r, _ := strconv.Atoi(f[2])
		rr.mu.Lock()
		s := rr.sinks[n]
		rr.mu.Unlock()
		if s == nil {
			return "not-enabled"
		}
		s.Accept([]*base.LogRecord{{RawLength: r}})
	case "t":
		n, _ := strconv.Atoi(f[1])
		rr.mu.Lock()
		s := rr.sinks[n]
		rr.mu.Unlock()
		if s == nil {
			return "not-enabled"
		}
		s.Tick()
	case "x":
		n, _ := strconv.Atoi(f[1])
		rr.mu.Lock()
		s := rr.sinks[n]
		delete(rr.sinks, n)
		rr.mu.Unlock()
		if s == nil {
			return "not-enabled"
		}
		s.Close()
	case "R", "F":
		rr.mu.Lock()
		rr.failNext = f[0] == "F"
		rr.mu.Unlock()
		before := reloadCount()
		syscall.Kill(os.Getpid(), syscall.SIGHUP)
		deadline := time.Now().Add(5 * time.Second)
		for reloadCount() == before {
			if time.Now().After(deadline) {
				return "reload-timeout"
			}
			time.Sleep(100 * time.Microsecond)
		}
	}
	return ""
}

func reloadCount() int64 {
	m := dumpDefaultCounters("slogagent_reloads_total")
	var t int64
	for _, v := range m {
		t += v
	}
	return t
}

func (r *reloadComp) Impl(c Case) []string {
	reloadMu.Lock()
	defer reloadMu.Unlock()
	out := make([]string, 0, len(c.Ops))
	for _, o := range c.Ops {
		switch o.Name {
		case "reload run":
			out = append(out, runReloadScript(o.Strs))
		case "reload tcp":
			out = append(out, runTCPReuse(o.Strs[0]))
		default:
			out = append(out, "bad-op")
		}
	}
	return out
}

// ---- listener level: a client number (socket descriptor) must not be handed out while its sink is still open ----

type trackRecv struct {
	mu         sync.Mutex
	open       map[base.ClientNumber]*trackSink
	violations []string
	created    chan *trackSink
}

type trackSink struct {
	r       *trackRecv
	num     base.ClientNumber
	addr    string
	got     chan struct{}
	hold    chan struct{} // when set, Close waits for it
	entered chan struct{}
	once    sync.Once
}

func (r *trackRecv) NewSink(addr string, num base.ClientNumber) base.MessageReceiverSink {
	s := &trackSink{r: r, num: num, addr: addr, got: make(chan struct{}, 100), entered: make(chan struct{})}
	r.mu.Lock()
	if prev, ok := r.open[num]; ok {
		r.violations = append(r.violations, fmt.Sprintf("client number %d handed to %s while the sink of %s with the same number is still open", num, addr, prev.addr))
	}
	r.open[num] = s
	r.mu.Unlock()
	r.created <- s
	return s
}

func (s *trackSink) Accept(message []byte) { s.got <- struct{}{} }
func (s *trackSink) Flush() {
	s.r.mu.Lock()
	h := s.hold
	s.r.mu.Unlock()
	if h != nil {
		time.Sleep(15 * time.Millisecond) // a congested pipeline makes the last flush slow
	}
}
func (s *trackSink) Close() {
	s.r.mu.Lock()
	h := s.hold
	s.r.mu.Unlock()
	s.once.Do(func() { close(s.entered) })
	if h != nil {
		<-h
	}
	s.r.mu.Lock()
	if s.r.open[s.num] == s {
		delete(s.r.open, s.num)
	}
	s.r.mu.Unlock()
}

func runTCPReuse(mode string) (res string) {
	defer func() {
		if rec := recover(); rec != nil {
			res = "panic " + panicKind(rec)
		}
	}()
	recv := &trackRecv{open: map[base.ClientNumber]*trackSink{}, created: make(chan *trackSink, 100)}
	stop := channels.NewSignalAwaitable()
	lsnr, addr, err := tcplistener.NewTCPLineListener(logger.WithField("verif", "tcp"), "127.0.0.1:0", func([]byte) bool { return true }, recv, stop)
	if err != nil {
		return "listen-failed"
	}
	lsnr.Start()
	a, err := net.Dial("tcp", addr)
	if err != nil {
		return "dial-failed"
	}
	fmt.Fprintf(a, "<14>1 2020-01-02T03:04:05Z h a 1 s - first record of connection A\n")
	sa := <-recv.created
	select {
	case <-sa.got:
	case <-time.After(2 * time.Second):
	}
	release := make(chan struct{})
	recv.mu.Lock()
	sa.hold = release
	recv.mu.Unlock()
	switch mode {
	case "rst":
		a.(*net.TCPConn).SetLinger(0)
		a.Close()
	case "halfdata":
		fmt.Fprintf(a, "<14>1 2020-01-02T03:04:05Z h a 1 s - unterminated")
		a.Close()
	default:
		a.Close()
	}
	select {
	case <-sa.entered:
	case <-time.After(300 * time.Millisecond):
	}
	time.Sleep(20 * time.Millisecond)
	var others []net.Conn
	var nums []string
	for i := 0; i < 4; i++ {
		c, err := net.Dial("tcp", addr)
		if err != nil {
			continue
		}
		others = append(others, c)
		select {
		case s := <-recv.created:
			nums = append(nums, strconv.Itoa(int(s.num)))
		case <-time.After(time.Second):
		}
	}
	close(release)
	for _, c := range others {
		c.Close()
	}
	stop.Signal()
	lsnr.Stopped().Wait(3 * time.Second)
	recv.mu.Lock()
	defer recv.mu.Unlock()
	if len(recv.violations) > 0 {
		return "REUSE " + strings.ReplaceAll(strings.Join(recv.violations, "|"), " ", "_")
	}
	return "distinct-numbers"
}

// one process-wide ReloadableOrchestrator (its SIGHUP goroutine can never be stopped); the recording world is swapped per
// script by a silent reload onto generation 0 of the new world
var (
	theReloadable *run.ReloadableOrchestrator
	curRun        *reloadRun
	curRunMu      sync.Mutex
)

func reloadInitiate() (run.CompleteReloadingFunc, error) {
	curRunMu.Lock()
	cr := curRun
	curRunMu.Unlock()
	cr.mu.Lock()
	fail, silent := cr.failNext, cr.silent
	cr.mu.Unlock()
	if fail {
		cr.w.event("rf")
		return nil, fmt.Errorf("scripted: invalid configuration")
	}
	return func() base.Orchestrator {
		cr.mu.Lock()
		cr.gen++
		g := cr.gen
		cr.mu.Unlock()
		if !silent {
			cr.w.event(fmt.Sprintf("st:%d", g))
		}
		return &recOrch{cr.w, g}
	}, nil
}

func runReloadScript(toks []string) string {
	w := &recWorld{shut: map[int]bool{}}
	rr := &reloadRun{w: w, sinks: map[int]base.BufferReceiverSink{}, gen: -1, silent: true}
	curRunMu.Lock()
	curRun = rr
	curRunMu.Unlock()
	if theReloadable == nil {
		rr.gen, rr.silent = 0, false
		theReloadable = run.NewReloadableOrchestrator(&recOrch{w, 0}, reloadInitiate)
		rr.orc = theReloadable
	} else {
		rr.orc = theReloadable
		if e := rr.doOp("R"); e != "" {
			return "setup-failed " + e
		}
		rr.mu.Lock()
		rr.silent = false
		rr.mu.Unlock()
	}
	var errs []string
	for i := 0; i < len(toks); i++ {
		tok := toks[i]
		if tok == "ov" && i+3 < len(toks) && toks[i+2] == "|" {
			a, b := toks[i+1], toks[i+3]
			i += 3
			w.mu.Lock()
			w.pauseArm = true
			w.paused = make(chan struct{})
			w.release = make(chan struct{})
			paused, release := w.paused, w.release
			w.mu.Unlock()
			doneA, doneB := make(chan string, 2), make(chan string, 1)
			go func() { doneA <- rr.doOp(a) }()
			select {
			case <-paused:
			case e := <-doneA: // A made no downstream call
				doneA <- e
				w.mu.Lock()
				w.pauseArm = false
				w.mu.Unlock()
			case <-time.After(3 * time.Second):
			}
			go func() { doneB <- rr.doOp(b) }()
			var eb string
			bDone := false
			select {
			case eb = <-doneB:
				bDone = true
			case <-time.After(15 * time.Millisecond):
			}
			close(release)
			ea := <-doneA
			if !bDone {
				eb = <-doneB
			}
			if ea != "" {
				errs = append(errs, ea)
			}
			if eb != "" {
				errs = append(errs, eb)
			}
			continue
		}
		if e := rr.doOp(tok); e != "" {
			errs = append(errs, e)
		}
	}
	w.mu.Lock()
	line := strings.Join(w.log, " ")
	reloadFull[line] = append([]string{}, w.full...)
	w.mu.Unlock()
	// leave the orchestrator empty for the next script (these events are not part of the observation)
	func() {
		defer func() { recover() }()
		for n, s := range rr.sinks {
			s.Close()
			delete(rr.sinks, n)
		}
	}()
	if line == "" {
		line = "-"
	}
	for _, e := range errs {
		if e == "not-enabled" {
			return "not-enabled"
		}
	}
	if len(errs) > 0 {
		line += " ERR:" + strings.ReplaceAll(strings.Join(errs, "|"), " ", "_")
	}
	return line
}

func dumpDefaultCounters(name string) map[string]int64 {
	out := map[string]int64{}
	for _, ln := range strings.Split(promext.DumpMetrics(name, true, false, prometheus.DefaultGatherer), "\n") {
		i := strings.LastIndexByte(ln, ' ')
		if i <= 0 {
			continue
		}
		v, err := strconv.ParseFloat(ln[i+1:], 64)
		if err == nil {
			out[ln[:i]] = int64(v)
		}
	}
	return out
}

// Derive: the recorded trace must satisfy the trace predicate evaluated in Lean.
func (r *reloadComp) Derive(c Case, implOut []string) ([]Op, []string) {
	var ops []Op
	var impl []string
	for _, line := range implOut {
		if line == "not-enabled" || line == "-" || strings.Contains(line, "ERR:") || strings.HasPrefix(line, "REUSE") || line == "distinct-numbers" || strings.HasSuffix(line, "-failed") {
			continue
		}
		ops = append(ops, Op{Name: "reload trace", Strs: strings.Fields(line)})
		impl = append(impl, "ok")
	}
	return ops, impl
}

func (r *reloadComp) Oracle(c Case, impl []string) string {
	for _, line := range impl {
		if strings.HasPrefix(line, "REUSE ") {
			return "[key=reload-number-reuse] " + line[6:]
		}
		if line == "distinct-numbers" {
			continue
		}
		if i := strings.Index(line, "ERR:"); i >= 0 {
			return "[key=reload-crash] an operation failed: " + line[i:]
		}
		sinks := map[string]string{} // sid -> gen
		closed := map[string]bool{}
		shut := map[string]bool{}
		evs := strings.Fields(line)
		if i := strings.Index(line, " ERR:"); i >= 0 {
			evs = strings.Fields(line[:i])
		}
		if full, ok := reloadFull[line]; ok {
			evs = full
		}
		for _, e := range evs {
			f := strings.Split(e, ":")
			switch f[0] {
			case "end-cl", "end-ac", "end-tk":
				// a call on a sink that was still running when its downstream was shut down flushed into dead pipelines
				if shut[sinks[f[1]]] {
					return fmt.Sprintf("[key=reload-dead-delivery] %s on sink %s was still in progress when downstream %s was shut down", f[0][4:], f[1], sinks[f[1]])
				}
			case "st":
				g, _ := strconv.Atoi(f[1])
				if g > 0 && !shut[strconv.Itoa(g-1)] {
					return fmt.Sprintf("[key=reload-early-start] downstream %d started before downstream %d was shut down: what the old pipelines save is not taken over", g, g-1)
				}
			case "ns":
				if shut[f[2]] {
					return fmt.Sprintf("[key=reload-dead-sink] sink %s created on downstream %s after its shutdown", f[1], f[2])
				}
				sinks[f[1]] = f[2]
			case "ac", "tk":
				if closed[f[1]] {
					return fmt.Sprintf("[key=reload-after-close] %s on sink %s after it was closed", f[0], f[1])
				}
				if shut[sinks[f[1]]] {
					return fmt.Sprintf("[key=reload-dead-delivery] %s handed to sink %s of downstream %s, which was already shut down", e, f[1], sinks[f[1]])
				}
			case "cl":
				if closed[f[1]] {
					return fmt.Sprintf("[key=reload-double-close] sink %s closed twice", f[1])
				}
				closed[f[1]] = true
			case "sd":
				for sid, g := range sinks {
					if g == f[1] && !closed[sid] {
						return fmt.Sprintf("[key=reload-unflushed] downstream %s shut down while its sink %s was still open", g, sid)
					}
				}
				shut[f[1]] = true
			}
		}
	}
	return ""
}

func (r *reloadComp) Class(c Case, impl []string) string {
	if c.Ops[0].Name == "reload tcp" {
		return "listener-" + c.Ops[0].Strs[0]
	}
	toks := c.Ops[0].Strs
	var ov, rel, fail bool
	for _, t := range toks {
		switch t {
		case "ov":
			ov = true
		case "R":
			rel = true
		case "F":
			fail = true
		}
	}
	cl := "plain"
	if rel {
		cl = "reload"
	}
	if fail {
		cl += "+failed"
	}
	if ov {
		cl += "+overlap"
	}
	return cl
}

func (r *reloadComp) Generate(rng *rand.Rand, n int, emit func(Case)) {
	mk := func(toks ...string) { emit(Case{Ops: []Op{{Name: "reload run", Strs: toks}}, Tag: "corpus"}) }
	// the stories of the mechanisms: every overlap of one reload with open / accept / tick / close of two connections
	mk("o:5", "a:5:1", "R", "a:5:2", "x:5")
	mk("o:5", "ov", "o:6", "|", "R", "a:6:1", "a:5:1")
	mk("o:5", "ov", "R", "|", "o:6", "a:6:1", "a:5:1")
	mk("o:5", "o:6", "ov", "a:5:1", "|", "R", "a:6:2")
	mk("o:5", "o:6", "ov", "R", "|", "a:5:1", "a:6:2")
	mk("o:5", "o:6", "ov", "x:5", "|", "R", "a:6:2", "o:5", "a:5:3")
	mk("o:5", "o:6", "ov", "R", "|", "x:5", "a:6:2", "o:5", "a:5:3")
	mk("o:5", "ov", "t:5", "|", "R", "a:5:1")
	mk("o:5", "F", "a:5:1", "ov", "F", "|", "a:5:2", "R", "a:5:3")
	mk("ov", "o:5", "|", "R", "a:5:1", "x:5", "ov", "o:5", "|", "R", "a:5:2")
	mk("o:5", "o:1500", "R", "a:5:1", "a:1500:2", "x:5", "x:1500")
	mk("o:5", "a:5:1", "o:262143", "a:262143:2", "R", "a:5:3", "t:5", "x:5", "a:262143:4")
	for _, mode := range []string{"fin", "rst", "halfdata", "rst", "fin"} {
		emit(Case{Ops: []Op{{Name: "reload tcp", Strs: []string{mode}, Ints: []int64{int64(rng.Intn(1000000))}}}, Tag: "listener"})
	}
	for i := 0; i < n; i++ {
		var toks []string
		open := map[int]bool{}
		rec := 1
		nums := []int{3, 4, 5, 9}
		// client numbers are socket descriptors: a busy agent sees numbers in the thousands, and whatever is sized or grown by
		// client number must behave the same on both sides of any boundary (powers of two, the documented maximum)
		switch i % 5 {
		case 1:
			nums = []int{4, 1023, 1024, 5000}
		case 3:
			nums = []int{9, 2048, 65536, 262143}
		}
		single := func() string {
			for tries := 0; tries < 10; tries++ {
				num := nums[rng.Intn(len(nums))]
				switch rng.Intn(7) {
				case 0, 1:
					if !open[num] {
						open[num] = true
						return fmt.Sprintf("o:%d", num)
					}
				case 2, 3:
					if open[num] {
						rec++
						return fmt.Sprintf("a:%d:%d", num, rec)
					}
				case 4:
					if open[num] {
						return fmt.Sprintf("t:%d", num)
					}
				case 5:
					if open[num] {
						delete(open, num)
						return fmt.Sprintf("x:%d", num)
					}
				default:
					if rng.Intn(3) == 0 {
						return "F"
					}
					return "R"
				}
			}
			return "R"
		}
		for k := 2 + rng.Intn(14); k > 0; k-- {
			if rng.Intn(3) == 0 {
				a := single()
				b := single()
				// the two overlapped operations must concern different connections (one goroutine per connection)
				na, nb := strings.Split(a, ":"), strings.Split(b, ":")
				bothReload := (a == "R" || a == "F") && (b == "R" || b == "F")
				if bothReload || (len(na) > 1 && len(nb) > 1 && na[1] == nb[1]) {
					toks = append(toks, a, b)
				} else {
					toks = append(toks, "ov", a, "|", b)
				}
			} else {
				toks = append(toks, single())
			}
		}
		emit(Case{Ops: []Op{{Name: "reload run", Strs: toks}}, Tag: "random"})
	}
}
