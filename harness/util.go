package main

import (
	"fmt"
	"runtime"
	"strings"
)

// panicKind maps a recovered Go panic to the model's small enum.
func panicKind(r any) string {
	msg := fmt.Sprint(r)
	if re, ok := r.(runtime.Error); ok {
		msg = re.Error()
	}
	switch {
	case strings.Contains(msg, "index out of range"):
		return "index"
	case strings.Contains(msg, "slice bounds out of range"):
		return "slice"
	case strings.Contains(msg, "nil pointer dereference"), strings.Contains(msg, "nil map"):
		return "nil"
	default:
		return "explicit"
	}
}
