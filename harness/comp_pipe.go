package main

// C07 / C12 — the record path of one pipeline: the real syslog parser, a generated transform program, the real Fluentd
// event serializer (and the real chunk maker behind it), on one long-lived instance with pooled records, against
// Pipe.process.  Every line is also processed on a fresh pipeline: both runs must agree (isolation), no run may panic
// (totality), and a well-formed sentinel after hostile input must come out serialized.

import (
	"bytes"
	"fmt"
	"math/rand"
	"strings"
	"sync"
	"time"

	"github.com/relex/gotils/logger"
	"github.com/relex/gotils/promexporter/promreg"
	"github.com/relex/slog-agent/base"
	"github.com/relex/slog-agent/base/bconfig"
	"github.com/relex/slog-agent/base/bsupport"
	"github.com/relex/slog-agent/base/btest"
	"github.com/relex/slog-agent/defs"
	"github.com/relex/slog-agent/input/syslogparser"
	"github.com/relex/slog-agent/input/syslogprotocol"
	"github.com/relex/slog-agent/transform"
	"github.com/relex/slog-agent/util"
)

type pipeComp struct{ prop string }

func init() {
	register("pipe-c07", func() Component { return &pipeComp{"c07"} })
	register("pipe-c12", func() Component { return &pipeComp{"c12"} })
}

func (p *pipeComp) Name() string { return "pipe-" + p.prop }

// schema: the six generator fields first, then the nine syslog fields
var pipeSyslogNames = []string{"facility", "level", "time", "host", "app", "pid", "source", "extradata", "log"}

func pipeNames() []string {
	names := make([]string, 0, 15)
	for i := 0; i < xNumFields; i++ {
		names = append(names, fname(i))
	}
	return append(names, pipeSyslogNames...)
}

var pipeSeq int

type pipeInst struct {
	schema base.LogSchema
	alloc  *base.LogAllocator
	parser base.LogParser
	tfs    []base.LogTransformFunc
	ser    base.LogSerializer
}

func pipeBuild(levels []string, yamlSteps string, sc serCfg) (inst *pipeInst, err error) {
	defer func() {
		if r := recover(); r != nil {
			err = fmt.Errorf("panic: %v", r)
		}
	}()
	transform.Register()
	_, ser, e := sc.build()
	if e != nil {
		return nil, e
	}
	schema := base.MustNewLogSchema(sc.names)
	pipeSeq++
	mf := promreg.NewMetricFactory(fmt.Sprintf("vpp%d_", pipeSeq), nil, nil)
	alloc := base.NewLogAllocator(schema, 1)
	parser, e := syslogparser.NewParser(logger.WithField("verif", "pipe"), alloc, schema, levels, base.NewLogInputCounter(mf))
	if e != nil {
		return nil, e
	}
	var holders []bconfig.LogTransformConfigHolder
	if e := util.UnmarshalYamlString(yamlSteps, &holders); e != nil {
		return nil, e
	}
	if e := bsupport.VerifyTransformConfigs(holders, schema, "steps"); e != nil {
		return nil, e
	}
	reg, _ := btest.NewStubLogCustomCounterRegistry()
	tfs := bsupport.NewTransformsFromConfig(holders, schema, logger.WithField("verif", "pipe"), reg)
	_ = ser
	// the serializer must be built on the same schema object family; sc.build() made its own, equal one
	_, ser2, _ := sc.build()
	return &pipeInst{schema: schema, alloc: alloc, parser: parser, tfs: tfs, ser: ser2}, nil
}

func (pi *pipeInst) run(line []byte, sec, nsec int64) (res string) {
	defer func() {
		if r := recover(); r != nil {
			res = "panic " + panicKind(r)
		}
	}()
	rec := pi.parser.Parse(append([]byte{}, line...), time.Unix(sec, nsec))
	if rec == nil {
		return "rejected"
	}
	defer pi.alloc.Release(rec)
	if bsupport.RunTransforms(rec, pi.tfs) == base.DROP {
		return "filtered"
	}
	out := append([]byte{}, pi.ser.SerializeRecord(rec)...)
	return "sent " + hx(out)
}

// runDeferred parses and transforms now and leaves serialization to the caller: input-stage extractions work on a batch of
// records of one connection before any of them is serialized
func (pi *pipeInst) runDeferred(line []byte, sec, nsec int64) (res string, rec *base.LogRecord) {
	defer func() {
		if r := recover(); r != nil {
			res, rec = "panic "+panicKind(r), nil
		}
	}()
	rec = pi.parser.Parse(append([]byte{}, line...), time.Unix(sec, nsec))
	if rec == nil {
		return "rejected", nil
	}
	if bsupport.RunTransforms(rec, pi.tfs) == base.DROP {
		pi.alloc.Release(rec)
		return "filtered", nil
	}
	return "", rec
}

func (pi *pipeInst) finish(rec *base.LogRecord) (res string) {
	defer func() {
		if r := recover(); r != nil {
			res = "panic " + panicKind(r)
		}
	}()
	defer pi.alloc.Release(rec)
	return "sent " + hx(append([]byte{}, pi.ser.SerializeRecord(rec)...))
}

func (p *pipeComp) Impl(c Case) []string {
	out := make([]string, len(c.Ops))
	type pend struct {
		idx       int
		rec       *base.LogRecord
		line      []byte
		sec, nsec int64
	}
	var pending []pend
	batch := false
	var levels []string
	var yamlSteps string
	var sc serCfg
	var long *pipeInst
	sampled := false
	oldMsg, oldRec, oldPool := defs.InputLogMaxMessageBytes, defs.InputLogMaxRecordBytes, defs.InputLogMinRecordBytesToPool
	defer func() {
		defs.InputLogMaxMessageBytes, defs.InputLogMaxRecordBytes, defs.InputLogMinRecordBytesToPool = oldMsg, oldRec, oldPool
	}()
	flushPending := func() {
		for _, pd := range pending {
			a := long.finish(pd.rec)
			if !sampled {
				if fresh, err := pipeBuild(levels, yamlSteps, sc); err == nil {
					if b := fresh.run(pd.line, pd.sec, pd.nsec); a != b {
						a = "ISOLATION-DIFF batched=[" + a + "] fresh=[" + b + "]"
					}
				}
			}
			out[pd.idx] = a
		}
		pending = pending[:0]
	}
	defer func() {
		if long != nil && len(pending) > 0 {
			flushPending()
		}
	}()
	for i, o := range c.Ops {
		switch o.Name {
		case "parse cfg":
			if len(pending) > 0 && long != nil {
				flushPending()
			}
			batch = o.Meta == "batch"
			defs.InputLogMaxMessageBytes, defs.InputLogMaxRecordBytes = int(o.Ints[0]), int(o.Ints[1])
			defs.InputLogMinRecordBytesToPool = int(o.Ints[2])
			levels = nil
			for _, b := range o.Bytes {
				levels = append(levels, string(b))
			}
			out[i] = "ok"
		case "ser cfg":
			sc = parseSerCfg(o.Strs)
			out[i] = "ok"
		case "xform load":
			if len(pending) > 0 && long != nil {
				flushPending()
			}
			yamlSteps = o.Meta
			sampled = strings.Contains(o.Meta, "percentage:") && !onlyFullDrops(o.Meta)
			var err error
			long, err = pipeBuild(levels, yamlSteps, sc)
			if err != nil {
				out[i] = "reject"
				long = nil
			} else {
				out[i] = "ok"
			}
		case "pipe run":
			if long == nil {
				out[i] = "no-pipeline"
				continue
			}
			line := o.Bytes[0]
			if batch {
				a, rec := long.runDeferred(line, o.Ints[0], o.Ints[1])
				if rec != nil {
					pending = append(pending, pend{i, rec, line, o.Ints[0], o.Ints[1]})
					if len(pending) >= 4 {
						flushPending()
					}
					continue
				}
				if !sampled {
					if fresh, err := pipeBuild(levels, yamlSteps, sc); err == nil {
						if b := fresh.run(line, o.Ints[0], o.Ints[1]); a != b {
							a = "ISOLATION-DIFF batched=[" + a + "] fresh=[" + b + "]"
						}
					}
				}
				out[i] = a
				continue
			}
			a := long.run(line, o.Ints[0], o.Ints[1])
			if !sampled {
				fresh, err := pipeBuild(levels, yamlSteps, sc)
				if err == nil {
					b := fresh.run(line, o.Ints[0], o.Ints[1])
					if a != b {
						a = "ISOLATION-DIFF long-lived=[" + a + "] fresh=[" + b + "]"
					}
				}
			}
			out[i] = a
		case "pipex race":
			out[i] = pipeConfigRace(int(o.Ints[0]), int(o.Ints[1]))
		case "pipex appended":
			out[i] = pipeAppendedField()
		default:
			out[i] = "bad-op"
		}
	}
	return out
}

// pipeConfigRace: one configuration object creates the transforms of every pipeline and every connection, each running on
// its own goroutine: nothing mutable may be shared through the configuration.
func pipeConfigRace(workers, iters int) (res string) {
	defer func() {
		if r := recover(); r != nil {
			res = "panic " + panicKind(r)
		}
	}()
	transform.Register()
	schema := base.MustNewLogSchema([]string{"f0", "f1", "f2", "f3"})
	var holders []bconfig.LogTransformConfigHolder
	yamlText := "- type: addFields\n  fields:\n    f1: \"${f0}:mid:${f2}\"\n    f3: \"<${f2}|${f0}>\"\n"
	if e := util.UnmarshalYamlString(yamlText, &holders); e != nil {
		return "reject " + e.Error()
	}
	if e := bsupport.VerifyTransformConfigs(holders, schema, "steps"); e != nil {
		return "reject " + e.Error()
	}
	var wg sync.WaitGroup
	bad := make([]int, workers)
	first := make([]string, workers)
	start := make(chan struct{})
	for w := 0; w < workers; w++ {
		reg, _ := btest.NewStubLogCustomCounterRegistry()
		tfs := bsupport.NewTransformsFromConfig(holders, schema, logger.WithField("verif", "pipe-race"), reg) // same config objects
		wg.Add(1)
		go func(w int, tfs []base.LogTransformFunc) {
			defer wg.Done()
			defer func() {
				if r := recover(); r != nil {
					bad[w]++
					first[w] = "panic " + panicKind(r)
				}
			}()
			<-start
			for it := 0; it < iters; it++ {
				a := fmt.Sprintf("w%dn%d%s", w, it, strings.Repeat(string(rune('a'+w)), 1+it%40))
				b := fmt.Sprintf("z%d", w)
				rec := schema.NewTestRecord1(base.LogFields{a, "", b, ""})
				bsupport.RunTransforms(rec, tfs)
				if rec.Fields[1] != a+":mid:"+b || rec.Fields[3] != "<"+b+"|"+a+">" {
					bad[w]++
					if first[w] == "" {
						first[w] = fmt.Sprintf("f1=%q f3=%q for f0=%q f2=%q", rec.Fields[1], rec.Fields[3], a, b)
					}
				}
			}
		}(w, tfs)
	}
	close(start)
	wg.Wait()
	total, f := 0, ""
	for w := range bad {
		total += bad[w]
		if f == "" {
			f = first[w]
		}
	}
	if total > 0 {
		return fmt.Sprintf("race BAD=%d %s", total, strings.ReplaceAll(f, " ", "_"))
	}
	return "race ok"
}

// pipeAppendedField: the allocator outlives a reload that appends schema fields (run/reloader.go): a released record must be
// clear in every field, whatever schema the allocator was created with.
func pipeAppendedField() (res string) {
	defer func() {
		if r := recover(); r != nil {
			res = "panic " + panicKind(r)
		}
	}()
	oldSchema := base.MustNewLogSchema([]string{"a", "b"})
	alloc := base.NewLogAllocator(oldSchema, 1)
	stale := 0
	for k := 0; k < 50; k++ {
		rec, _ := alloc.NewRecord([]byte("first record of the new configuration"))
		for len(rec.Fields) < 3 {
			rec.Fields = append(rec.Fields, "")
		}
		rec.Fields[0], rec.Fields[1], rec.Fields[2] = "x", "y", fmt.Sprintf("seen-%d", k) // field 2 was appended by the reload
		alloc.Release(rec)
		rec2, _ := alloc.NewRecord([]byte("a record that does not set the appended field"))
		if len(rec2.Fields) > 2 && rec2.Fields[2] != "" {
			stale++
		}
		alloc.Release(rec2)
	}
	if stale > 0 {
		return fmt.Sprintf("appended BAD=%d", stale)
	}
	return "appended ok"
}

func onlyFullDrops(y string) bool {
	for _, part := range strings.Split(y, "percentage:")[1:] {
		if !strings.HasPrefix(strings.TrimSpace(part), "100") {
			return false
		}
	}
	return true
}

func (p *pipeComp) Oracle(c Case, impl []string) string {
	for i, o := range c.Ops {
		if i >= len(impl) {
			break
		}
		switch {
		case strings.HasPrefix(impl[i], "panic"):
			return fmt.Sprintf("[key=pipe-panic] %s on line %q", impl[i], trunc120(string(firstBytes(o))))
		case strings.HasPrefix(impl[i], "race BAD="):
			return "[key=pipe-config-race] transforms created from one configuration object and run on their own goroutines produce each other's values: " + trunc120(impl[i])
		case strings.HasPrefix(impl[i], "appended BAD="):
			return "[key=pipe-appended-field] a field appended to the schema by a reload keeps the value of the record that used the pooled object before: " + impl[i]
		case strings.HasPrefix(impl[i], "ISOLATION-DIFF"):
			return "[key=pipe-isolation] the output of a record depends on the records before it: " + trunc120(impl[i])
		case o.Meta == "sentinel" && !strings.HasPrefix(impl[i], "sent "):
			return "[key=pipe-sentinel] a well-formed record after hostile input was not serialized: " + impl[i]
		case o.Meta == "sentinel":
			if !bytes.Contains(unhx(strings.Fields(impl[i])[1]), []byte("sentinel message")) {
				return "[key=pipe-sentinel-altered] the sentinel record came out without its message"
			}
		}
	}
	return ""
}

func firstBytes(o Op) []byte {
	if len(o.Bytes) > 0 {
		return o.Bytes[0]
	}
	return nil
}

func (p *pipeComp) Class(c Case, impl []string) string {
	var rej, fil, sent int
	for _, s := range impl {
		switch {
		case s == "rejected":
			rej++
		case s == "filtered":
			fil++
		case strings.HasPrefix(s, "sent"):
			sent++
		}
	}
	return fmt.Sprintf("rejected=%v,filtered=%v,sent=%v", rej > 0, fil > 0, sent > 0)
}

func (p *pipeComp) Generate(rng *rand.Rand, n int, emit func(Case)) {
	names := pipeNames()
	hexNames := make([]string, len(names))
	for i, nm := range names {
		hexNames[i] = hx([]byte(nm))
	}
	mkLine := func(pri int, ts, host, app, pid, src, extra, msg string) []byte {
		return []byte(fmt.Sprintf("<%d>1 %s %s %s %s %s %s %s", pri, ts, host, app, pid, src, extra, msg))
	}
	sentinel := mkLine(14, "2020-01-02T03:04:05.123456Z", "sentinel-host", "sentinel-app", "1", "sentinel-src", "-", "sentinel message, intact")
	// MessagePack length classes: messages whose length (and rewritten length) is exactly at 255/256, 65535/65536/65537
	for _, esc := range []bool{false, true} {
		lvb := make([][]byte, len(syslogprotocol.SeverityNames))
		for k, l := range syslogprotocol.SeverityNames {
			lvb[k] = []byte(l)
		}
		ops := []Op{
			{Name: "parse cfg", Ints: []int64{70000, 70400, 64}, Bytes: lvb},
			{Name: "ser cfg", Strs: []string{"N=" + strings.Join(hexNames, ","), "E=9,10", "X=" + hx([]byte("host")) + "," + hx([]byte("app")), "H=6", "R=14:u"}},
			xLoadOp(nil),
		}
		for _, l := range []int{31, 32, 255, 256, 257, 65535, 65536, 65537} {
			msg := strings.Repeat("m", l)
			if esc && l > 4 {
				msg = "a\\nb" + strings.Repeat("m", l-4)
			}
			ops = append(ops, Op{Name: "pipe run", Ints: []int64{1577934245, 7}, Bytes: [][]byte{mkLine(14, "2020-01-02T03:04:05Z", "h", "a", "1", "s", "-", msg)}})
			ops = append(ops, Op{Name: "pipe run", Ints: []int64{1577934245, 0}, Bytes: [][]byte{sentinel}, Meta: "sentinel"})
		}
		emit(Case{Ops: ops, Tag: "length-classes"})
	}
	emit(Case{Ops: []Op{{Name: "pipex race", Ints: []int64{8, 20000}}}, Tag: "config-race"})
	emit(Case{Ops: []Op{{Name: "pipex appended"}}, Tag: "appended-field"})
	for i := 0; i < n/10; i++ {
		// program: copy syslog fields into the generator's fields, then generated steps
		copyStep := xStep{kind: "add"}
		for dst, src := range []int{14, 9, 10, 12, 13, 8} { // log, host, app, source, extradata, time
			copyStep.pairs = append(copyStep.pairs, struct {
				dst   int
				parts []tmplPart
			}{dst, []tmplPart{{kind: 'V', idx: src}}})
		}
		steps := append([]xStep{copyStep}, xGenSteps(rng, 1, 1+rng.Intn(3))...)
		env := []int{9, 10}
		hidden := []int{6}
		rws := []string{}
		if rng.Intn(2) == 0 {
			rws = append(rws, "14:u")
		}
		if rng.Intn(3) == 0 {
			rws = append(rws, "0:u")
		}
		maxMsg := []int{60, 200, 2000}[rng.Intn(3)]
		lv := [][]string{syslogprotocol.SeverityNames, syslogprotocol.SeverityToLog4jLevel}[rng.Intn(2)]
		lvb := make([][]byte, len(lv))
		for k, l := range lv {
			lvb[k] = []byte(l)
		}
		ops := []Op{
			{Name: "parse cfg", Ints: []int64{int64(maxMsg), int64(maxMsg + 400), 64}, Bytes: lvb},
			{Name: "ser cfg", Strs: []string{"N=" + strings.Join(hexNames, ","), "E=" + istr(env), "X=" + hx([]byte("host")) + "," + hx([]byte("app")), "H=" + istr(hidden), "R=" + strings.Join(rws, ";")}},
			xLoadOp(steps),
		}
		nl := 8
		for k := 0; k < nl; k++ {
			var line []byte
			switch rng.Intn(8) {
			case 7:
				// a record with a real newline in its message (a multi-line record as the framer glues it), and one with escape
				// sequences: what one record's content says about escaping must not carry over to the next
				if rng.Intn(2) == 0 {
					line = mkLine(13, "2019-08-15T15:50:46Z", "h", "app1", "7", "src", "-", "first line\n  at second.line(Of.java:1) "+xVal(rng))
				} else {
					line = mkLine(13, "2019-08-15T15:50:46Z", "h", "app1", "7", "src", "-", "escaped \\n and \\t stay one line "+xVal(rng))
				}
			case 0:
				line = []byte(badLines[rng.Intn(len(badLines))])
			case 1:
				b := make([]byte, rng.Intn(120))
				rng.Read(b)
				line = append([]byte("<13>1 "), b...)
			case 5:
				// an oversized header (record over the limit) in front of a message of continuation bytes only, or of a
				// multi-byte character cut short: the UTF-8 clean-up runs on the shortest possible inputs
				line = mkLine(13, "2019-08-15T15:50:46Z", strings.Repeat("H", maxMsg+400+rng.Intn(50)), "a", "1", "s", "-",
					[]string{"\x80", "\x80\xbf", "\xbf\xbf\xbf", "\xf0\x9f", "\xe6\x97", "\xc3", "a\xf0\x9f\x98"}[rng.Intn(7)])
			case 2:
				line = mkLine(rng.Intn(200), []string{"-", "2019-08-15T15:50:46.866915+03:00", "2019-08-15", "", "2019-08-15T15:50:46Z"}[rng.Intn(5)],
					xVal(rng), "a", "1", "s", "[x]", strings.Repeat(xVal(rng), 1+rng.Intn(30)))
			default:
				line = mkLine(rng.Intn(192), "2019-08-15T15:50:46.866915+03:00", strings.ReplaceAll(xVal(rng), " ", "_")+"h", "app"+fmt.Sprint(rng.Intn(3)),
					fmt.Sprint(rng.Intn(99999)), []string{"src", "err", "web"}[rng.Intn(3)], []string{"-", "[MyClass1 ]", "[a b]"}[rng.Intn(3)], xVal(rng)+" "+xVal(rng))
			}
			ops = append(ops, Op{Name: "pipe run", Ints: []int64{1000 + int64(rng.Intn(1000)), int64(rng.Intn(1000000000))}, Bytes: [][]byte{line}})
		}
		if i%4 == 3 {
			// records of one layout above the pooling threshold (their fields point into pooled backing buffers that the next
			// record overwrites in place), differing only in same-length tokens: anything remembered by reference shows
			ops = ops[:3]
			pad := strings.Repeat("p", 1100+rng.Intn(300))
			for k := 0; k < nl; k++ {
				line := mkLine([]int{163, 134, 111, 190}[rng.Intn(4)],
					"2019-08-15T15:50:46.866915"+[]string{"+03:00", "-08:00", "+05:30", "-03:30"}[rng.Intn(4)],
					[]string{"hostA", "hostB", "hostC"}[rng.Intn(3)], "app"+fmt.Sprint(rng.Intn(3)), fmt.Sprint(10000+rng.Intn(89999)),
					[]string{"src", "err", "web"}[rng.Intn(3)], []string{"[MyClass1 ]", "[MyClass2 ]", "[YrClass1 ]"}[rng.Intn(3)],
					[]string{"alpha", "bravo", "delta"}[rng.Intn(3)]+" "+pad)
				ops = append(ops, Op{Name: "pipe run", Ints: []int64{1000 + int64(rng.Intn(1000)), int64(rng.Intn(1000000000))}, Bytes: [][]byte{line}})
			}
		}
		if i%3 == 1 {
			ops[0].Meta = "batch" // transforms run on four records before any of them is serialized
		}
		meta := "sentinel"
		if strings.Contains(stepsYAML(steps), "type: drop") {
			meta = "" // the program may filter the sentinel
		}
		ops = append(ops, Op{Name: "pipe run", Ints: []int64{1577934245, 0}, Bytes: [][]byte{sentinel}, Meta: meta})
		emit(Case{Ops: ops, Tag: "programs"})
	}
}

func istr(l []int) string {
	s := make([]string, len(l))
	for j, v := range l {
		s[j] = fmt.Sprint(v)
	}
	return strings.Join(s, ",")
}
