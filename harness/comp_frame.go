package main

import (
	"bytes"
	"fmt"
	"math/rand"
	"regexp"
	"strconv"
	"strings"

	"github.com/relex/slog-agent/input/syslogprotocol"
	"github.com/relex/slog-agent/input/tcplistener"
)

// C08 / C07: input/tcplistener multiLineReader (+ TestRecordStart) against Frame.run.
type frameComp struct{}

func init() { register("frame", func() Component { return &frameComp{} }) }

func (f *frameComp) Name() string { return "frame" }

func (f *frameComp) Impl(c Case) []string {
	out := make([]string, len(c.Ops))
	var vr *tcplistener.VerifReader
	var emitted [][]byte
	consume := func(s []byte) { emitted = append(emitted, append([]byte{}, s...)) }
	show := func() string {
		hs := make([]string, len(emitted))
		for i, e := range emitted {
			hs[i] = hx(e)
		}
		s, a, _ := vr.Offsets()
		emitted = emitted[:0]
		return fmt.Sprintf("emit %s off %d %d", strings.Join(hs, ","), s, a)
	}
	for i, o := range c.Ops {
		out[i] = func() (res string) {
			defer func() {
				if r := recover(); r != nil {
					res = "panic " + panicKind(r)
				}
			}()
			switch o.Name {
			case "frame new":
				vr = tcplistener.NewVerifReader(syslogprotocol.TestRecordStart, int(o.Ints[0]), int(o.Ints[1]), consume)
				emitted = emitted[:0]
				return "ok"
			case "frame read":
				frag := o.Bytes[0]
				for len(frag) > 0 {
					rem := vr.Read(frag)
					if len(rem) == len(frag) {
						return "stuck"
					}
					frag = rem
				}
				return show()
			case "frame flush":
				vr.Flush()
				return show()
			case "frame flushall":
				vr.FlushAll()
				return show()
			case "frame test":
				if syslogprotocol.TestRecordStart(o.Bytes[0]) {
					return "1"
				}
				return "0"
			}
			return "bad-op"
		}()
	}
	return out
}

func emitsOf(impl []string) [][]byte {
	var all [][]byte
	for _, l := range impl {
		f := strings.Fields(l)
		if len(f) >= 2 && f[0] == "emit" && f[1] != "off" {
			for _, h := range strings.Split(f[1], ",") {
				all = append(all, unhx(h))
			}
		}
	}
	return all
}

func validOnly(rs [][]byte) [][]byte {
	var out [][]byte
	for _, r := range rs {
		if syslogprotocol.TestRecordStart(r) {
			out = append(out, r)
		}
	}
	return out
}

func sameRecs(a, b [][]byte) bool {
	if len(a) != len(b) {
		return false
	}
	for i := range a {
		if !bytes.Equal(a[i], b[i]) {
			return false
		}
	}
	return true
}

var validStartRe = regexp.MustCompile(`^<(0|[1-9][0-9]{0,2})>1 [^ \n]+ [^ \n]+ [^ \n]+ [^ \n]+ [^ \n]+ `)

// Oracle: C08 evaluated on the implementation alone.
//
//	meta "frag":   newline-terminated stream, reads only, no overflow possible: the emitted records must equal those of
//	               the same stream delivered in one read (implementation against itself)
//	meta "single": stream of single-line valid records with flushes anywhere: emitted valid records == the lines
func (f *frameComp) Oracle(c Case, impl []string) string {
	for _, l := range impl {
		if strings.HasPrefix(l, "panic") || l == "stuck" {
			return "reader " + l
		}
	}
	if len(c.Ops) == 1 && c.Ops[0].Name == "frame test" && len(impl) == 1 && impl[0] != "1" {
		// decided here, independently of the generator: <PRI>1, PRI 0-191 without leading zero, five more tokens, 32+ bytes
		if m := validStartRe.FindSubmatch(c.Ops[0].Bytes[0]); m != nil && len(c.Ops[0].Bytes[0]) >= 32 {
			if pri, err := strconv.Atoi(string(m[1])); err == nil && pri <= 191 {
				return fmt.Sprintf("the first line of a valid record is not recognised as a record start: %q", c.Ops[0].Bytes[0])
			}
		}
	}
	if len(c.Ops) == 0 || c.Ops[0].Name != "frame new" {
		return ""
	}
	meta := c.Ops[0].Meta
	if meta != "frag" && meta != "single" {
		return ""
	}
	var stream []byte
	hasFlush := false
	for _, o := range c.Ops[1:] {
		switch o.Name {
		case "frame read":
			stream = append(stream, o.Bytes[0]...)
		case "frame flush":
			hasFlush = true
		}
	}
	// no overflow handling can be triggered while the buffered data leaves room for one more record of the soft limit:
	// the buffer is max(minBuf, 3*soft) bytes (newMultiLineReader), so any stream shorter than buffer - soft qualifies
	bufSize := int(c.Ops[0].Ints[0])
	if soft3 := 3 * int(c.Ops[0].Ints[1]); soft3 > bufSize {
		bufSize = soft3
	}
	if len(stream) == 0 || stream[len(stream)-1] != '\n' || len(stream) >= bufSize-int(c.Ops[0].Ints[1]) {
		return "" // shrunk out of the oracle's domain
	}
	if c.Ops[len(c.Ops)-1].Name != "frame flushall" {
		return ""
	}
	got := validOnly(emitsOf(impl))
	if meta == "frag" && !hasFlush {
		ref := Case{Ops: []Op{c.Ops[0], {Name: "frame read", Bytes: [][]byte{stream}}, {Name: "frame flushall"}}}
		want := validOnly(emitsOf(f.Impl(ref)))
		if !sameRecs(got, want) {
			return fmt.Sprintf("fragmentation changes the records: %d records vs %d when the stream %q is read at once", len(got), len(want), trunc(stream))
		}
	}
	if meta == "single" {
		lines := bytes.Split(stream[:len(stream)-1], []byte("\n"))
		for _, l := range lines {
			if !syslogprotocol.TestRecordStart(l) {
				return ""
			}
		}
		if !sameRecs(got, lines) {
			return fmt.Sprintf("single-line records with flushes: got %d records, the stream has %d lines (stream %q)", len(got), len(lines), trunc(stream))
		}
	}
	return ""
}

func (f *frameComp) Class(c Case, impl []string) string {
	n := len(emitsOf(impl))
	nf := 0
	for _, o := range c.Ops {
		if o.Name == "frame flush" {
			nf++
		}
	}
	switch {
	case len(c.Ops) > 0 && c.Ops[0].Name == "frame test":
		return "recordtest"
	case n == 0:
		return "trivial-no-record"
	case nf > 0:
		return "records+flush"
	default:
		return "records"
	}
}

func validLine(rng *rand.Rand) []byte {
	pri := []string{"<1>", "<13>", "<163>", "<191>", "<0>", "<9>", "<10>", "<99>", "<100>"}[rng.Intn(9)]
	msg := make([]byte, rng.Intn(30))
	for i := range msg {
		msg[i] = "abc xyz<>1 é"[rng.Intn(12)]
	}
	return []byte(fmt.Sprintf("%s1 2019-08-15T15:50:46Z host app %d src - %s", pri, rng.Intn(1000), msg))
}

func otherLine(rng *rand.Rand) []byte {
	switch rng.Intn(6) {
	case 0:
		return nil
	case 1:
		return []byte("  at com.example.Foo(Foo.java:12)")
	case 2:
		return []byte("<13>1 short")
	case 3:
		return []byte("<1634>1 2019-08-15T15:50:46Z host app 1 src - not a start")
	case 4:
		b := make([]byte, rng.Intn(50))
		for i := range b {
			b[i] = byte(rng.Intn(256))
			if b[i] == '\n' {
				b[i] = ' '
			}
		}
		return b
	default:
		return []byte("<x3>1 2019-08-15T15:50:46Z host app 1 src - garbage line long enough")
	}
}

func cutRandom(rng *rand.Rand, stream []byte, flushProb int) []Op {
	var ops []Op
	for len(stream) > 0 {
		n := 1 + rng.Intn(len(stream))
		if rng.Intn(3) > 0 && n > 40 {
			n = 1 + rng.Intn(40)
		}
		ops = append(ops, Op{Name: "frame read", Bytes: [][]byte{stream[:n]}})
		stream = stream[n:]
		if flushProb > 0 && rng.Intn(100) < flushProb {
			ops = append(ops, Op{Name: "frame flush"})
		}
	}
	return ops
}

func (f *frameComp) Generate(rng *rand.Rand, n int, emit func(Case)) {
	newOp := func(minBuf, soft int, meta string) Op {
		return Op{Name: "frame new", Ints: []int64{int64(minBuf), int64(soft)}, Meta: meta}
	}
	// TestRecordStart alone: boundary strings
	for _, s := range []string{"", "<", "<1>1 ", "<1>1 2019-08-15T15:50:46 h i 1 n", "<1>1 2019-08-15T15:50:46 h i 1 ", "<16>1 2019-08-15T15:50:46 h i 1 n",
		"<166>1 2019-08-15T15:50:46 h i 1 n", "<1664>1 2019-08-15T15:50:46 h i 1 n", "<>1 2019-08-15T15:50:46 h i 1 nnnn", "<a>1 2019-08-15T15:50:46 h i 1 nnn",
		"<1a>1 2019-08-15T15:50:46 h i 1 nn", "<11a>1 2019-08-15T15:50:46 h i 1 n", "<1>2 2019-08-15T15:50:46 h i 1 nnn", "<1>1x2019-08-15T15:50:46 h i 1 nnn",
		"<1>>1 2019-08-15T15:50:46 h i 1 nn", "<12>>1 2019-08-15T15:50:46 h i 1 n", "<123>>1 2019-08-15T15:50:46 h i 1 ", "x1>1 2019-08-15T15:50:46 h i 1 nnnn",
		"<12>1\t2019-08-15T15:50:46 h i 1 nnn", "<123>12019-08-15T15:50:46 h i 1 nnnn"} {
		emit(Case{Ops: []Op{{Name: "frame test", Bytes: [][]byte{[]byte(s)}}}, Tag: "recordtest"})
	}
	// every priority starts a record
	for pri := 0; pri < 192; pri++ {
		emit(Case{Ops: []Op{{Name: "frame test", Bytes: [][]byte{[]byte(fmt.Sprintf("<%d>1 2019-08-15T15:50:46Z host app 1 src - message", pri))}, Meta: "valid-start"}}, Tag: "recordtest"})
	}
	for i := 0; i < n/20; i++ {
		b := validLine(rng)
		b[rng.Intn(8)] = "<>1 09a"[rng.Intn(7)]
		emit(Case{Ops: []Op{{Name: "frame test", Bytes: [][]byte{b}}}, Tag: "recordtest"})
	}
	// exhaustive 1- and 2-cut splits of short streams (no overflow: soft larger than the stream)
	shortStreams := []string{}
	v1 := "<13>1 2019-08-15T15:50:46Z h a 1 s - one"
	v2 := "<163>1 2019-08-15T15:50:46Z h a 2 s - two"
	shortStreams = append(shortStreams, v1+"\n"+v2+"\n", v1+"\n cont\n"+v2+"\n", "garbage\n"+v1+"\n\n"+v2+"\n", "\n\n"+v1+"\n", v1+"\n<13>1 short\n")
	twoCutLimit := 45
	if n >= 100000 {
		twoCutLimit = 1000
	}
	for _, ss := range shortStreams {
		s := []byte(ss)
		for a := 1; a < len(s); a++ {
			emit(Case{Ops: []Op{newOp(0, 500, "frag"), {Name: "frame read", Bytes: [][]byte{s[:a]}}, {Name: "frame read", Bytes: [][]byte{s[a:]}}, {Name: "frame flushall"}}, Tag: "cut1"})
			emit(Case{Ops: []Op{newOp(0, 500, "single"), {Name: "frame read", Bytes: [][]byte{s[:a]}}, {Name: "frame flush"}, {Name: "frame read", Bytes: [][]byte{s[a:]}}, {Name: "frame flushall"}}, Tag: "cut1-flush"})
			for b := a + 1; b < len(s) && b < a+twoCutLimit; b++ {
				emit(Case{Ops: []Op{newOp(0, 500, "frag"), {Name: "frame read", Bytes: [][]byte{s[:a]}}, {Name: "frame read", Bytes: [][]byte{s[a:b]}}, {Name: "frame read", Bytes: [][]byte{s[b:]}}, {Name: "frame flushall"}}, Tag: "cut2"})
			}
		}
	}
	for i := 0; i < n/10; i++ {
		// random multi-line streams, random cuts; mode 0: no overflow possible + oracle; mode 1: single-line + flushes; mode 2: tiny buffer (overflow paths)
		mode := i % 3
		var stream []byte
		nl := 1 + rng.Intn(12)
		for j := 0; j < nl; j++ {
			if mode == 1 || rng.Intn(3) > 0 {
				stream = append(stream, validLine(rng)...)
			} else {
				stream = append(stream, otherLine(rng)...)
			}
			stream = append(stream, '\n')
		}
		switch mode {
		case 0:
			ops := append([]Op{newOp(0, 2000, "frag")}, cutRandom(rng, stream, 0)...)
			emit(Case{Ops: append(ops, Op{Name: "frame flushall"}), Tag: "random-frag"})
		case 1:
			ops := append([]Op{newOp(0, 2000, "single")}, cutRandom(rng, stream, 30)...)
			emit(Case{Ops: append(ops, Op{Name: "frame flushall"}), Tag: "random-single-flush"})
		case 2:
			soft := 40 + rng.Intn(80)
			if rng.Intn(4) == 0 {
				stream = stream[:len(stream)-1] // unterminated last line
			}
			ops := append([]Op{newOp(rng.Intn(300), soft, "")}, cutRandom(rng, stream, 15)...)
			emit(Case{Ops: append(ops, Op{Name: "frame flushall"}), Tag: "random-overflow"})
		}
	}
	// the listener's buffer is four soft limits (defs.ListenerLineBufferSize): long multi-line records that fill more than
	// half of it but leave room for another record, cut at random
	for i := 0; i < n/40+5; i++ {
		soft := 60 + rng.Intn(80)
		var stream []byte
		stream = append(append(stream, validLine(rng)...), '\n')
		long := append([]byte{}, validLine(rng)...)
		target := 2*soft + 5 + rng.Intn(soft/2)
		for len(long) < target {
			long = append(append(long, '\n'), []byte("  at com.example.Foo.bar(Foo.java:12)")...)
		}
		stream = append(append(stream, long...), '\n')
		stream = append(append(stream, validLine(rng)...), '\n')
		if len(stream) >= 3*soft {
			continue
		}
		ops := append([]Op{newOp(4*soft, soft, "frag")}, cutRandom(rng, stream, 0)...)
		emit(Case{Ops: append(ops, Op{Name: "frame flushall"}), Tag: "long-record-ratio4"})
	}
	if n >= 100000 { // real sizes: a 1 MiB+ garbage blob and long records through the default buffer
		big := bytes.Repeat([]byte("x"), 3*1024*1024)
		stream := append(append(validLine(rng), '\n'), big...)
		stream = append(stream, '\n')
		stream = append(stream, validLine(rng)...)
		stream = append(stream, '\n')
		emit(Case{Ops: []Op{newOp(4195328, 1048832, ""), {Name: "frame read", Bytes: [][]byte{stream}}, {Name: "frame flushall"}}, Tag: "real-size"})
		nls := bytes.Repeat([]byte("\n"), 2*1024*1024)
		emit(Case{Ops: []Op{newOp(4195328, 1048832, ""), {Name: "frame read", Bytes: [][]byte{nls}}, {Name: "frame flushall"}}, Tag: "real-size"})
	}
}
