package main

import (
	"bufio"
	"bytes"
	"encoding/json"
	"fmt"
	"math/rand"
	"os"
	"os/exec"
	"path/filepath"
	"strconv"
	"strings"
	"time"
)

// Crash isolation.  The implementation runs in-process, so a crash on one of its own goroutines (or a fatal runtime
// error) takes the harness down without a summary.  `-locate` regenerates the same cases (same seed and scale) and runs
// them in a child process that reports its progress; the case the child died on is re-run alone and reported as the
// failing input.

type caseFile struct {
	Ops []Op   `json:"ops"`
	Tag string `json:"tag"`
}

func writeCases(path string, cases []Case) error {
	f, err := os.Create(path)
	if err != nil {
		return err
	}
	w := bufio.NewWriterSize(f, 1<<20)
	enc := json.NewEncoder(w)
	for _, c := range cases {
		if err := enc.Encode(caseFile{Ops: c.jsonable(), Tag: c.Tag}); err != nil {
			f.Close()
			return err
		}
	}
	if err := w.Flush(); err != nil {
		f.Close()
		return err
	}
	return f.Close()
}

// runChild is the child side: run the implementation on the cases [from, to) of the file, reporting progress.
func runChild(comp Component, path string, from, to int) {
	f, err := os.Open(path)
	if err != nil {
		fmt.Fprintln(os.Stderr, err)
		os.Exit(4)
	}
	defer f.Close()
	dec := json.NewDecoder(bufio.NewReaderSize(f, 1<<20))
	out := bufio.NewWriter(os.Stdout)
	for i := 0; ; i++ {
		var cf caseFile
		if err := dec.Decode(&cf); err != nil {
			break
		}
		if i < from {
			continue
		}
		if to >= 0 && i >= to {
			break
		}
		c := caseFromJSON(cf.Ops)
		c.Tag = cf.Tag
		fmt.Fprintf(out, "start %d\n", i)
		out.Flush()
		_, _, base := expand(comp, c)
		w := comp.Oracle(c, base)
		fmt.Fprintf(out, "done %d %s\n", i, strconv.Quote(w))
		out.Flush()
	}
	fmt.Fprintln(out, "end")
	out.Flush()
}

type childResult struct {
	died    bool
	at      int // index of the case that was running
	stderr  string
	timeout bool
}

func spawnChild(compName, path string, from, to int, limit time.Duration) childResult {
	self, err := os.Executable()
	if err != nil {
		self = os.Args[0]
	}
	args := []string{"-childcases", path, "-from", strconv.Itoa(from), "-to", strconv.Itoa(to)}
	if workRoot != "" {
		args = append(args, "-work", workRoot)
	}
	cmd := exec.Command(self, append(args, compName)...)
	var errb bytes.Buffer
	cmd.Stderr = &errb
	stdout, err := cmd.StdoutPipe()
	if err != nil {
		return childResult{died: true, at: from, stderr: err.Error()}
	}
	if err := cmd.Start(); err != nil {
		return childResult{died: true, at: from, stderr: err.Error()}
	}
	cur, ended := -1, false
	lines := make(chan string, 1024)
	go func() {
		sc := bufio.NewScanner(stdout)
		sc.Buffer(make([]byte, 1<<20), 1<<26)
		for sc.Scan() {
			lines <- sc.Text()
		}
		close(lines)
	}()
	timer := time.NewTimer(limit)
	defer timer.Stop()
	// a case that makes no progress for this long is reported as the one the implementation hangs on
	const perCase = 3 * time.Minute
	watchdog := time.NewTimer(perCase)
	defer watchdog.Stop()
	timedOut := false
loop:
	for {
		select {
		case <-watchdog.C:
			timedOut = true
			cmd.Process.Kill()
		case l, ok := <-lines:
			if !ok {
				break loop
			}
			if !watchdog.Stop() {
				select {
				case <-watchdog.C:
				default:
				}
			}
			watchdog.Reset(perCase)
			switch {
			case strings.HasPrefix(l, "start "):
				cur, _ = strconv.Atoi(strings.TrimPrefix(l, "start "))
			case strings.HasPrefix(l, "done "):
				cur = -1
			case l == "end":
				ended = true
			}
		case <-timer.C:
			timedOut = true
			cmd.Process.Kill()
		}
	}
	werr := cmd.Wait()
	if ended && werr == nil {
		return childResult{}
	}
	tail := errb.String()
	if len(tail) > 3000 {
		tail = tail[:1500] + "\n…\n" + tail[len(tail)-1500:]
	}
	if cur < 0 {
		cur = from
	}
	return childResult{died: true, at: cur, stderr: tail, timeout: timedOut}
}

// locateCrash is the parent side of `-locate`.
func locateCrash(comp Component, seed int64, n int) *Summary {
	sum := &Summary{Component: comp.Name(), Seed: seed, Dist: map[string]int{}}
	var cases []Case
	rng := rand.New(rand.NewSource(seed))
	comp.Generate(rng, n, func(c Case) { cases = append(cases, c) })
	dir := workRoot
	if dir == "" {
		dir = os.TempDir()
	}
	path := filepath.Join(dir, fmt.Sprintf("cases.%s.%d.%d.jsonl", comp.Name(), seed, os.Getpid()))
	if err := writeCases(path, cases); err != nil {
		sum.Notes = append(sum.Notes, "locate: cannot write the case file: "+err.Error())
		return sum
	}
	defer os.Remove(path)
	from := 0
	for found := 0; from < len(cases) && found < 3; {
		res := spawnChild(comp.Name(), path, from, -1, 40*time.Minute)
		if !res.died {
			break
		}
		i := res.at
		sum.Evaluations = i + 1
		what := "died"
		if res.timeout {
			what = "did not finish"
		}
		alone := spawnChild(comp.Name(), path, i, i+1, 10*time.Minute)
		why := fmt.Sprintf("the process running the implementation %s on this case (case %d of seed %d, run alone as well): %s", what, i, seed, alone.stderr)
		if !alone.died {
			why = fmt.Sprintf("the process running the implementation %s on this case when it followed the %d cases before it (case %d of seed %d; alone it passes): %s", what, i-from, i, seed, res.stderr)
		}
		c := cases[i]
		sum.Mismatches = append(sum.Mismatches, Mismatch{Kind: "oracle", Component: comp.Name(), Tag: c.Tag, Ops: c.jsonable(),
			Impl: []string{"process died"}, Why: why, Requests: c.Lines()})
		found++
		from = i + 1
	}
	sum.Distinct = len(cases)
	sum.NonTrivial = len(cases)
	sum.Notes = append(sum.Notes, "crash isolation run: cases regenerated from the seed and run in a child process")
	return sum
}
